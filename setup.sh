#!/bin/sh
# Builds the framework offline from files on disk: translator -> Consts.v, full Coq .vo build, Go harness.
set -e
cd "$(dirname "$0")"
export GOFLAGS=-mod=mod GOPROXY=off GOSUMDB=off GOTOOLCHAIN=local
python3 tools/gen_consts.py --repo /repo || true
cd coq
coq_makefile -f _CoqProject -o Makefile >/dev/null
timeout 3000 make -j16 >/dev/null 2>../out_setup_make.log || { tail -30 ../out_setup_make.log; echo "coq build failed (checks will report it)"; }
rm -f ../out_setup_make.log
cd ../harness
cp /repo/go.sum go.sum
mkdir -p ../bin
go build -tags verif -o ../bin/verifharness . || echo "harness build failed (checks will report it)"
echo setup done
