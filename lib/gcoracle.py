"""Spec-level oracles for GC passes (C17, C18) evaluated on the implementation's directory snapshots."""


def _brief(c, idx, extra=None):
    d = dict(i=c["i"], seed=c.get("seed"), mode=c.get("kind"), proc=c.get("proc"))
    return d


def files_of(d):
    return {f["chunk"]: f for f in d["data"] if f["size"] != 0}


def gc_passes(c):
    """yield (index of C op, dir before, head before, dir after, positions {key: (res, out)}, next C op if same range again)"""
    ops = c["ops"]
    for i, o in enumerate(ops):
        if o["op"] != "C" or o["res"] != "OK":
            continue
        before = None
        head = None
        for j in range(i - 1, -1, -1):
            if ops[j]["op"] == "X":
                before, head = ops[j]["dir"], int(ops[j]["out"][0])
                break
            if ops[j]["op"] in "SDIRC" and ops[j]["op"] != "CR":
                break
        metas = {}
        j = i + 1
        while j < len(ops) and ops[j]["op"] == "M":
            metas[ops[j]["k"]] = ops[j]
            j += 1
        again = None
        for k in range(j, min(j + 3, len(ops))):
            if ops[k]["op"] == "C" and ops[k].get("again"):
                again = ops[k]
        yield i, before, head, o["dir"], metas, again


def c18_oracle(c):
    viol = []

    def bad(kind, what, idx):
        viol.append(dict(kind=kind, what=what, case=_brief(c, idx), op_index=idx))

    for i, before, head, after, metas, again in gc_passes(c):
        o = c["ops"][i]
        a, b = o.get("a", 0), o.get("b", 0)
        if before is None or not metas:
            continue
        fa, fb = files_of(after), files_of(before)
        # destination: the single file that grew or appeared below a, if any
        seen_tomb = {}
        for ck, f in fa.items():
            if not (a <= ck <= b):
                continue
            for r in f["recs"]:
                off, key, ver = int(r[0]), r[1], int(r[2])
                m = metas.get(key)
                if m is None:
                    continue
                if m["res"] == "META":
                    mck, moff = int(m["out"][5]), int(m["out"][6])
                    if (mck, moff) != (ck, off):
                        if ver < 0 and int(m["out"][0]) > 0:
                            kind = "gc-tombstone-of-live-key"
                        elif ver < 0:
                            kind = "gc-duplicate-tombstone"
                        else:
                            kind = "gc-superseded-survives"
                        bad(kind, "after GC [%d,%d] file %d still holds record (%s ver %d) at %d which is not the current record of "
                                  "its key (current at %d:%d)" % (a, b, ck, key[:16], ver, off, mck, moff), i)
                elif m["res"] == "MISS":
                    if ver > 0:
                        bad("gc-superseded-survives", "after GC file %d holds a value record of a key that reads as a miss" % ck, i)
                    else:
                        seen_tomb[key] = seen_tomb.get(key, 0) + 1
        for key, n in seen_tomb.items():
            if n > 1:
                bad("gc-duplicate-tombstone", "after GC [%d,%d] %d tombstones of one key (%s) survive in the range" % (a, b, n, key[:16]), i)
        # part of an earlier file that GC merely appended to is unchanged
        for ck, f in fb.items():
            if ck < a and ck in fa:
                old = [r[:3] for r in f["recs"]]
                new = [r[:3] for r in fa[ck]["recs"] if int(r[0]) < f["size"]]
                if old != new or fa[ck]["size"] < f["size"]:
                    bad("gc-prefix-changed", "file %d below the range was modified below its old size" % ck, i)
        if again is not None and (int(again["out"][1]) != 0 or int(again["out"][2]) != 0):
            bad("gc-not-idempotent", "running the same pass [%d,%d] again released %s records / %s bytes" % (
                a, b, again["out"][1], again["out"][2]), i)
    return viol


def oversize_in_range(c, fb, a, b):
    """does a file of [a,b] hold a record that alone exceeds DataFileMax?  (extent = distance to the next record or to
    the end of the file).  Such a record cannot be placed in any destination file, not even an empty one: known
    finding F24."""
    fmax = c["cfg"]["filemax"]
    for ck, f in fb.items():
        if not (a <= ck <= b):
            continue
        offs = [int(r[0]) for r in (f["recs"] or [])] + [int(f["size"])]
        if any(y - x > fmax for x, y in zip(offs, offs[1:])):
            return True
    return False


def c17_oracle(c):
    viol = []
    ops = c["ops"]
    spill = [False]

    def bad(kind, what, idx):
        if spill[0] and kind in ("touched-outside-range", "touched-head"):
            kind, what = "gc-oversize-spill", what + " [a record of the range is larger than DataFileMax]"
        viol.append(dict(kind=kind, what=what, case=_brief(c, idx), op_index=idx))

    for i, o in enumerate(ops):
        if o["op"] == "CR" and i >= 1 and i + 1 < len(ops) and ops[i - 1]["op"] == "X" and ops[i + 1]["op"] == "X":
            before, after = ops[i - 1], ops[i + 1]
            if before["dir"] != after["dir"]:
                bad("pretend-changed", "a pretend GC request changed the bucket directory", i)
            head = int(before["out"][0])
            fb = files_of(before["dir"])
            if o["res"] == "RANGE":
                b, e = int(o["out"][0]), int(o["out"][1])
                if not (b <= e):
                    bad("range-unsound", "resolved range [%d,%d] is empty" % (b, e), i)
                if e >= head:
                    bad("range-includes-head", "resolved range [%d,%d] reaches the file receiving appends (%d)" % (b, e, head), i)
                if b not in fb or e not in fb:
                    bad("range-unsound", "resolved range [%d,%d] starts or ends at an empty file" % (b, e), i)
                # age limit: first record of the first non-empty file after e must be older than the limit
                days = o.get("days", 0)
                if days < 0:
                    days = c["cfg"]["nogcdays"]
                nxt = [ck for ck in sorted(fb) if ck > e]
                if nxt and fb[nxt[0]]["recs"]:
                    ts = int(fb[nxt[0]]["recs"][0][3])
                    if c["cfg"]["now"] - ts <= days * 86400 - 5:
                        bad("range-too-young", "range [%d,%d] accepted although the following file's first record is only %d s old "
                                               "(limit %d days)" % (b, e, c["cfg"]["now"] - ts, days), i)
    for i, before, head, after, metas, again in gc_passes(c):
        o = ops[i]
        a, b = o.get("a", 0), o.get("b", 0)
        if before is None:
            continue
        fa, fb = files_of(after), files_of(before)
        spill[0] = oversize_in_range(c, fb, a, b)
        changed = sorted(ck for ck in set(fa) | set(fb) if fa.get(ck) != fb.get(ck))
        # files outside the range that EXISTED before and changed (a fresh file created in the gap between the
        # destination and the range start is the documented "fresh file" destination, not a rewrite)
        outside = [ck for ck in changed if not (a <= ck <= b) and ck in fb]
        fresh = [ck for ck in changed if not (a <= ck <= b) and ck not in fb]
        if any(ck > a for ck in fresh):
            bad("touched-outside-range", "GC [%d,%d] created file(s) %s above the range start" % (a, b, fresh), i)
        if len(outside) > 1 or any(ck > b for ck in outside):
            bad("touched-outside-range", "GC [%d,%d] changed files %s outside the range (at most one earlier destination allowed)" % (a, b, outside), i)
        if head in changed:
            bad("touched-head", "GC [%d,%d] changed the file receiving appends (%d)" % (a, b, head), i)
        for ck in outside:
            if ck in fb and (ck not in fa or [r[:3] for r in fb[ck]["recs"]] != [r[:3] for r in fa[ck]["recs"] if int(r[0]) < fb[ck]["size"]]):
                bad("gc-prefix-changed", "destination file %d was modified below its old size" % ck, i)
        spill[0] = False
    return viol
