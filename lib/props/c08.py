"""C08: merkle listing is an exact, history-independent function of content."""
import json
import os

from lib import vlib

PROPS = "props/C08.v"
TRUSTED = ["python oracle recomputing every listing from the final live content (independent of history)",
           "C realloc/memcmp of leaf arrays are not modelled (leaf = list of items)"]
ASSUMPTIONS = ["tree height >= 2 (the code indexes levels[1]); offsets 256-aligned; chunk ids < 65536"]

HEADER = """From Coq Require Import NArith ZArith List String.
From GB Require Import Words HTree CheckC08.
Import ListNotations. Open Scope N_scope. Open Scope string_scope.
"""

KHASH_LENS = [8, 8, 7, 7, 6, 6, 5, 5]


def ctop(o):
    if o["op"] == "s":
        return "TSet %d %s %d %s %d" % (o["h"], vlib.cZ(o["ver"]), o["vh"], vlib.cZ(o["ck"]), o["off"])
    return "TRem %d %s %d" % (o["h"], vlib.cZ(o["ck"]), o["off"])


def cjl(l):
    if l["t"] in ("nil",):
        return "JNil"
    if l["t"] == "nodes":
        return "(JNodes %s)" % vlib.clist(["(%d, %d)" % (a, b) for a, b in l["n"]])
    if l["t"] == "items":
        return "(JItems %s)" % vlib.clist(["(%s, %s, %d)" % (k, vlib.cZ(i[1]), i[2]) for k, i in zip(l["k"], l["i"])])
    raise ValueError("listing error outcome " + l["t"])


def coq_case(c):
    return "mkC08 %d %d %d %s %s %s %s %s %s %s (%d, %d) (%d, %d) %d%%nat %s %s" % (
        c["i"], c["depth"], c["height"], vlib.clist([ctop(o) for o in c["opsa"]]), vlib.clist([ctop(o) for o in c["opsb"]]),
        vlib.clist([vlib.cstr(p) for p in c["prefixes"]]), vlib.clist([cjl(l) for l in c["outa"]]),
        vlib.clist([cjl(l) for l in c["outb"]]), vlib.clist([cjl(l) for l in c["outl"]]),
        vlib.clist(["(%d, %s, %s, %d, %d, %d)" % (g["h"], vlib.cbool(g["found"]), vlib.cZ(g["ver"]), g["vh"], g["ck"], g["off"])
                    for g in c["gets"]]),
        c["roota"][0], c["roota"][1], c["rootb"][0], c["rootb"][1], c["mid"], vlib.cstr(c["midp"]), cjl(c["outmid"]))


def shard_text(cases):
    return (HEADER + "Definition cases : list c08case := [\n" + ";\n".join(coq_case(c) for c in cases) + "].\n"
            "Definition MM := Eval vm_compute in c08_run cases.\nPrint MM.\n")


CODES = {6: "listing taken in the middle of history A", 1: "listings of history A", 2: "listings of history B", 3: "root (hash,count)", 4: "tree get", 5: "listings after dump+load"}


def evaluate(ctx, cases, tag, per=8):
    shards = [("%s_%03d" % (tag, k // per), shard_text(cases[k:k + per])) for k in range(0, len(cases), per)]
    results = vlib.run_coq_shards(os.path.join(ctx.work, "cases"), shards, timeout=3000)
    mm, ok = [], 0
    for name, rc, out in results:
        a = vlib.parse_numlist(out, "MM")
        if rc != 0 or a is None:
            ctx.logf("shard", name, "failed rc", rc, out[-800:])
            mm.append(dict(shard=name, what="case file did not evaluate", out=out[-300:]))
            continue
        if not a:
            ok += 1
        for x in a:
            i, code = divmod(x, 100)
            mm.append(dict(case=dict(i=i, seed=cases[0].get("seed")), differs=CODES.get(code, str(code))))
    return mm, len(shards), ok


def expected_listing(c, prefix):
    """the listing as a function of the final live content only"""
    d, ht = c["depth"], c["height"]
    live = [(o["h"], o["ver"], o["vh"]) for o in c["live"]]
    leaflevel = d + ht - 1   # number of digits that select a leaf

    def digits(h, n):
        return "%016x" % h

    def node_value(path):
        """(hash,count) of the node identified by hex digit string path (len between d and leaflevel)"""
        if len(path) == leaflevel:
            cnt, hs = 0, 0
            for h, ver, vh in live:
                if ("%016x" % h).startswith(path):
                    cnt += 1
                    hs = (hs + vh * ((h >> 32) & 0xffff)) & 0xffff
            return hs, cnt
        kids = [node_value(path + "%x" % i) for i in range(16)]
        cnt = sum(k[1] for k in kids)
        hs = 0
        for kh, _ in kids:
            if cnt > 256:
                hs = (hs * 97) & 0xffff
            hs = (hs + kh) & 0xffff
        return hs, cnt

    npath = prefix[:leaflevel]
    hs, cnt = node_value(npath)
    if len(npath) >= leaflevel or cnt < 256:
        return "items", {(h, ver, vh) for h, ver, vh in live if ("%016x" % h).startswith(prefix)}
    return "nodes", [list(node_value(npath + "%x" % i)) for i in range(16)]


def oracle(c):
    viol = []

    def bad(kind, what):
        viol.append(dict(kind=kind, what=what, case=dict(i=c["i"], seed=c.get("seed"), kind=c["kind"], depth=c["depth"],
                                                         height=c["height"])))

    for name in ("outa", "outb", "outl"):
        for p, l in zip(c["prefixes"], c[name]):
            t, exp = expected_listing(c, p)
            if t == "nodes":
                if l["t"] != "nodes" or [list(x) for x in l["n"]] != exp:
                    bad("node-listing", "node listing at prefix '%s' (%s) is not the aggregate of the live content" % (p, name))
                    return viol
            else:
                if l["t"] == "nil":
                    got = []
                elif l["t"] == "items":
                    got = [(int(k), i[1], i[2]) for k, i in zip(l["k"], l["i"])]
                else:
                    bad("item-listing", "prefix '%s' (%s): expected item listing, got %s" % (p, name, l["t"]))
                    return viol
                livegot = {g for g in got if g[1] > 0}
                if livegot != exp or len([g for g in got if g[1] > 0]) != len(exp):
                    bad("item-listing", "item listing at prefix '%s' (%s) is not exactly the live keys under the prefix" % (p, name))
                    return viol
                if any(not ("%016x" % g[0]).startswith(p) for g in got):
                    bad("item-listing", "item listing at prefix '%s' (%s) contains a key outside the prefix" % (p, name))
                    return viol
    if c["roota"] != c["rootb"]:
        bad("history-dependence", "two histories with equal live content have different roots")
    return viol


def gen_cases(ctx, count, seed, extra=()):
    out = os.path.join(ctx.work, "c08_%d.jsonl" % seed)
    rc, o = vlib.harness(["c08", "-seed", seed, "-count", count, "-out", out] + list(extra), timeout=3000)
    if rc != 0:
        raise RuntimeError("harness c08 failed: " + o[-300:])
    cs = vlib.read_jsonl(out)
    for c in cs:
        c["seed"] = seed
        c["live"] = c.get("live") or []
    return cs


def run(ctx):
    count = 100 if ctx.tier == "quick" else 2000
    cases = gen_cases(ctx, count, ctx.seed)
    mm, ns, ok = evaluate(ctx, cases, "c08")
    sm = []
    for c in cases:
        sm += oracle(c)
    dist = {}
    nl = 0
    for c in cases:
        for k in ("kind:" + c["kind"], "buckets=%d" % c["nb"], "height=%d" % c["height"]):
            dist[k] = dist.get(k, 0) + 1
        for l in c["outa"]:
            dist["listing:" + l["t"]] = dist.get("listing:" + l["t"], 0) + 1
            nl += 1
    nt = {vlib.sha([c["opsa"], c["opsb"]]) for c in cases if len(c["live"]) >= 2 and len(c["opsb"]) > len(c["opsa"])}
    samples = [dict(kind=c["kind"], buckets=c["nb"], height=c["height"], keys=len(c["opsa"]), ops_b=len(c["opsb"]),
                    prefixes=c["prefixes"][:6], root=c["roota"]) for c in cases[:5]]
    return dict(evaluations=len(cases), distinct_nontrivial=len(nt), samples=samples, model_mismatches=mm, spec_violations=sm,
                shards=ns, shards_ok=ok, dist=dist, extra=dict(listings_compared=3 * nl),
                rule="pairs of histories with equal final live content (in-order sets vs shuffled with redundant overwrites, "
                     "delete-then-reset, keys that come and go, non-matching removes, tombstone kept vs removed), bucket counts 1/16/256, "
                     "heights 2..4, populations 1..600 incl. 250..262 under one inner node and 90..112 in one leaf; listings at the "
                     "bucket prefix, every prefix length along sample keys and absent prefixes; also after dump+load; "
                     "non-trivial = >= 2 live keys and history B longer than A; distinct by SHA-256 of both histories")


def search(ctx, broken):
    found = []
    for s in range(3):
        for c in gen_cases(ctx, 100, ctx.seed * 1000 + 51 + s):
            found += oracle(c)
        if found:
            break
    return found


def replay(ctx, path):
    with open(path) as f:
        obj = json.load(f)
    v = obj.get("violation", obj)
    case = v.get("case")
    if not case:
        print("replay file names no concrete input:", json.dumps(obj.get("broken")))
        return 1
    cs = [c for c in gen_cases(ctx, case["i"] + 1, case["seed"]) if c["i"] == case["i"]]
    viol = oracle(cs[0])
    for x in viol:
        print(x["kind"], x["what"])
    if viol:
        print("VIOLATION property=C08 replay=%s" % path)
        return 1
    print("replay: no violation on this case")
    return 0
