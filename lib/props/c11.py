"""C11: protocol: one well-formed reply per command, binary-safe, never wedged."""
import json

from lib import protocommon as pc, vlib

PROPS = "props/C11.v"
TRUSTED = ["python reply-grammar oracle (lib/protocommon.py c11_oracle)",
           "storage behind the protocol model = the reference map of C01; '@' listings compared only by frame (C08/C15 judge content)"]
ASSUMPTIONS = ["TCP, timeouts and goroutine scheduling are not modelled (in-memory connection, generous timeout)"]


def run(ctx):
    cases = pc.gen_cases(ctx, 150 if ctx.tier == "quick" else 3000, ctx.seed)
    ctx.last_cases = cases
    mm, ns, ok = pc.evaluate(ctx, cases, "c11")
    mm = [m for m in mm if m.get("differs") != pc.CODES[2]]     # accounting is C12's
    sm = []
    for c in cases:
        sm += pc.c11_oracle(c)
    dist = {}
    ncmd = 0
    for c in cases:
        for cn in c["conns"]:
            dist["mut:" + (cn["mut"] or "none")] = dist.get("mut:" + (cn["mut"] or "none"), 0) + 1
            for cmd in cn["cmds"]:
                dist["cmd:" + cmd["kind"]] = dist.get("cmd:" + cmd["kind"], 0) + 1
                ncmd += 1
    nt = {vlib.sha([cn["stream"] for cn in c["conns"]]) for c in cases if sum(len(cn["cmds"]) for cn in c["conns"]) >= 5}
    samples = [dict(stream=bytes.fromhex(c["conns"][0]["stream"])[:160].decode("latin1"),
                    reply=bytes.fromhex(c["conns"][0]["out"])[:160].decode("latin1"), mutation=c["conns"][0]["mut"]) for c in cases[:3]]
    return dict(evaluations=len(cases), distinct_nontrivial=len(nt), samples=samples, model_mismatches=mm, spec_violations=sm,
                shards=ns, shards_ok=ok, dist=dist, extra=dict(commands=ncmd),
                rule="1..3 connections per store, 4..17 commands each from a grammar over all verbs (set/add/replace/cas/append/prepend, "
                     "get/gets with 1..3 keys, delete, incr/decr, stats, version, verbosity, flush_all, quit, unknown verbs, '@' and '?' "
                     "keys, values with CR/LF/NUL and protocol keywords, noreply) plus 40% mutated streams (truncation at a random byte, "
                     "byte flip, non-numeric / negative / oversize lengths, bad terminator, bare LF, wrong arities, short body); "
                     "non-trivial = >= 5 commands; distinct by SHA-256 of the streams")


def search(ctx, broken):
    found = []
    for s in range(2):
        for c in pc.gen_cases(ctx, 200, ctx.seed * 100 + 11 + s):
            found += pc.c11_oracle(c)
        if found:
            break
    return found


def is_known(v, f):
    return v.get("kind") == "missing-reply" and v.get("cmdkind") in (f.get("cmdkinds") or [])


def replay_finding(ctx, f):
    cases = pc.gen_cases(ctx, 60, 515151)
    return any(is_known(v, f) for c in cases for v in pc.c11_oracle(c))


def replay(ctx, path):
    with open(path) as fh:
        obj = json.load(fh)
    case = obj.get("violation", obj).get("case")
    if not case:
        print("replay file names no concrete input:", json.dumps(obj.get("broken")))
        return 1
    cs = [c for c in pc.gen_cases(ctx, case["i"] + 1, case["seed"]) if c["i"] == case["i"]]
    viol = pc.c11_oracle(cs[0])
    for x in viol:
        print(x["kind"], x["what"])
    if viol:
        print("VIOLATION property=C11 replay=%s" % path)
        return 1
    print("replay: no violation")
    return 0
