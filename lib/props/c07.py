"""C07: process kill during GC leaves every key readable with its pre-GC value."""
import json

from lib import crashcommon as cc, vlib

PROPS = "props/C07.v"
MODE = "gc"
PID = "C07"
TRUSTED = ["crash model = SIGKILL with completed writes surviving (directory copied inside the store's own mutation points, torn variants cut by "
           "the harness); power-loss reordering / fsync are out of scope", "python oracle lib/crashcommon.py c06_oracle, independent record scanner"]
ASSUMPTIONS = ["a kill between two file-system mutations leaves exactly the files as they are at the named verifPoint"]
ORACLE = staticmethod(cc.c07_oracle)


def oracle(c):
    return cc.c07_oracle(c)


def run(ctx):
    n = 60 if ctx.tier == "quick" else 400
    cases = cc.gen_cases(ctx, MODE, n, ctx.seed, maxsnaps=40 if ctx.tier == "quick" else 60)
    ctx.last_cases = cases
    sm = []
    for c in cases:
        sm += oracle(c)
    dist = {}
    nsnap = 0
    for c in cases:
        for s in c["snaps"] or []:
            nsnap += 1
            for k in ("point:" + s["point"], "reopen:" + s["reopen"]["status"], "variant:" + ("torn" if s["variant"] else "boundary")):
                dist[k] = dist.get(k, 0) + 1
    nt = {vlib.sha([c["cfg"], [(o["op"], o.get("k"), o.get("v")) for o in c["ops"]]]) for c in cases if len(c["snaps"] or []) >= 5}
    samples = [dict(ops=" ".join(o["op"] for o in c["ops"]), crash_states=len(c["snaps"] or []),
                    first=[(s["point"], s["variant"], s["reopen"]["status"]) for s in (c["snaps"] or [])[:6]]) for c in cases[:3]]
    return dict(evaluations=nsnap, distinct_nontrivial=len(nt), samples=samples, model_mismatches=[], spec_violations=sm,
                shards=0, shards_ok=0, dist=dist, extra=dict(histories=len(cases), crash_states=nsnap),
                rule="seeded histories (set / delete / flush / hint dump / restart, small file and split limits, then clean shutdown); the "
                     "bucket directory is copied at every file-system mutation point of the store (data flushed, rotation, hint tmp / renamed, "
                     "tree removed / tmp / renamed, collision file, close begin / end) plus torn variants of the last data append (every "
                     "256-byte boundary and unaligned cuts); every state is reopened in a fresh process and all keys are read; evaluations = "
                     "crash states; non-trivial = history with >= 5 crash states")


def search(ctx, broken):
    found = []
    for s in range(2):
        for c in cc.gen_cases(ctx, MODE, 24, ctx.seed * 100 + 7 + s):
            found += oracle(c)
        if found:
            break
    return found


def is_known(v, f):
    if f.get("trigger") == "hint-ahead-of-data":
        return v.get("kind") in f.get("kinds", []) and v["case"].get("hint_ahead")
    if f.get("trigger") == "gc-kill-stale-tail":
        return v.get("kind") in f.get("kinds", []) and not v["case"].get("variant")
    return False


def replay_finding(ctx, f):
    cases = cc.gen_cases(ctx, MODE, 18, 707070)
    return any(is_known(v, f) for c in cases for v in oracle(c))


def replay(ctx, path):
    with open(path) as fh:
        obj = json.load(fh)
    case = obj.get("violation", obj).get("case")
    if not case:
        print("replay file names no concrete input:", json.dumps(obj.get("broken")))
        return 1
    i = case["i"] % 1000
    cs = [c for c in cc.gen_cases(ctx, MODE, i + 1, case["seed"], procs=1) if c["i"] == i]
    viol = oracle(cs[0]) if cs else []
    for x in viol[:5]:
        print(x["kind"], x["what"])
    if viol:
        print("VIOLATION property=%s replay=%s" % (PID, path))
        return 1
    print("replay: no violation")
    return 0
