"""C02: clean restart preserves everything; index files are rebuildable caches."""
from lib import l2common
from lib.props import c01
from lib import schedcommon as sc

PROPS = "props/C02.v"
PID = "C02"
MODE = "restart"
TRUSTED = c01.TRUSTED
ASSUMPTIONS = c01.ASSUMPTIONS + ["clean shutdown = HStore.Close after the asynchronous post-rotation flush has finished (the close-vs-flush race is the separate schedule clause)"]


def run(ctx):
    res = c01.run_mode(ctx, MODE, 120 if ctx.tier == "quick" else 1500, PID)
    rs = sc.run_sched(ctx, "closeflush", 0, ctx.seed)
    for r in rs:
        res["spec_violations"] += sc.scenario_oracle(r)
    res["evaluations"] += len(rs)
    res["dist"]["forced schedules: close vs async flush"] = len(rs)
    return res


def search(ctx, broken):
    found = []
    for s in range(3):
        for c in l2common.gen_cases(ctx, MODE, 160, ctx.seed * 100 + 62 + s):
            found += l2common.refmap_oracle(c)
        if found:
            break
    return found


def replay(ctx, path):
    c01.PID, c01.MODE = PID, MODE
    return c01.replay(ctx, path)


def replay_finding(ctx, f):
    r0 = replay_finding_sched(ctx, f)
    if r0 is not None:
        return r0
    """scripted history of a (fixed) finding: does the reference-map oracle still flag it / does the harness crash?"""
    import os
    from lib import vlib
    if not f.get("script"):
        return None
    try:
        c = l2common.run_script(ctx, os.path.join(vlib.VERIF, f["script"]))
    except RuntimeError:
        return True
    return bool(l2common.refmap_oracle(c))


def replay_finding_sched(ctx, f):
    which = {"two-gc-passes": "double", "acked-write-lost-at-shutdown": "closeflush"}.get(f.get("trigger"))
    if not which:
        return None
    return any(v["kind"] == f["trigger"] for r in sc.run_sched(ctx, which, 0, 999) for v in sc.scenario_oracle(r))
