"""C18: GC actually reclaims: no superseded record survives in the collected range."""
from lib import l2common, gcoracle
from lib.props import c01

PROPS = "props/C18.v"
PID = "C18"
MODE = "gc"
TRUSTED = c01.TRUSTED + ["independent Go record scanner (stdlib CRC) of every data file + python oracle lib/gcoracle.py c18_oracle"]
ASSUMPTIONS = c01.ASSUMPTIONS


def run(ctx):
    res = c01.run_mode(ctx, MODE, 120 if ctx.tier == "quick" else 1500, PID, oracle=gcoracle.c18_oracle)
    res["extra"]["gc_passes"] = sum(1 for c in ctx.last_cases for o in c["ops"] if o["op"] == "C")
    return res


def search(ctx, broken):
    found = []
    for s in range(3):
        for c in l2common.gen_cases(ctx, MODE, 160, ctx.seed * 100 + 68 + s):
            found += gcoracle.c18_oracle(c)
        if found:
            break
    return found


def is_known(v, f):
    return v.get("kind") == f.get("trigger")


def replay_finding(ctx, f):
    import os
    from lib import vlib
    if not f.get("script"):
        return None
    c = l2common.run_script(ctx, os.path.join(vlib.VERIF, f["script"]))
    return any(v["kind"] == f.get("trigger") for v in gcoracle.c18_oracle(c))


def replay(ctx, path):
    c01.PID, c01.MODE = PID, MODE
    return c01.replay(ctx, path)
