"""C09: data records round-trip, stay 256-aligned, corruption is detected."""
import json
import os
import struct
import zlib

from lib import vlib

PROPS = "props/C09.v"
TRUSTED = ["python spec oracle (independent encoder with struct + zlib.crc32) for the search / judgement of implementation outputs",
           "bufio / os short-read behaviour is not modelled (reads are total on the file bytes)"]
ASSUMPTIONS = ["scan starts at a 256-aligned offset (all callers in store/ do)",
               "CRC-32 collisions (multi-byte adversarial damage) are outside any checksum's reach: stated in C09_crc_collision_exists"]

HEADER = """From Coq Require Import NArith ZArith List String.
From GB Require Import Words Record CheckC09.
Import ListNotations. Open Scope N_scope. Open Scope string_scope.
"""


def lcg(n, x):
    out = bytearray(n)
    for i in range(n):
        x = (x * 1103515245 + 12345) & 0x7fffffff
        out[i] = (x >> 16) & 255
    return bytes(out)


def rec_bytes(j):
    k = bytes.fromhex(j["k"])
    v = lcg(j["vlen"], j["vgen"]) if j.get("vgen") else bytes.fromhex(j.get("v", ""))
    return k, v


def py_encode(j):
    k, v = rec_bytes(j)
    tail = struct.pack("<IIiII", j["ts"], j["flag"], j["ver"], len(k), len(v))
    crc = zlib.crc32(tail + k + v) & 0xffffffff
    raw = struct.pack("<I", crc) + tail + k + v
    return raw + b"\0" * ((-len(raw)) % 256)


def cdig(d):
    return "(%d, %d, %s, %d, %s, %d, %d, %d)" % (d["off"], d["broken"], vlib.cstr(d["k"]), d["flag"], vlib.cZ(d["ver"]),
                                                    d["ts"], d["vlen"], d["vcrc"])


def coq_case(c):
    recs = vlib.clist(["(%s, %s, %d, %d, %d, %s, %d)" % (vlib.cstr(j["k"]), vlib.cstr(j.get("v", "")), j.get("vgen", 0),
                                                          j["vlen"], j["flag"], vlib.cZ(j["ver"]), j["ts"]) for j in c["recs"]])
    muts = vlib.clist(["(%d, %d)" % (m["pos"], m["val"]) for m in c["muts"]])
    return ("mkC09 %d %d %d %s %s %s %s %d %s %d %s %s %s %s %d" % (
        c["i"], c["maxkey"], c["bodymax"], recs, muts, vlib.cZ(c["trunc"]),
        vlib.clist([str(o) for o in c["offsets"]]), c["filelen"], vlib.cstr(c.get("filehex", "")), c["filecrc"],
        vlib.clist([str(x) for x in (c["readat"] or [])]), vlib.clist([cdig(d) for d in c["readatd"]]),
        vlib.clist([cdig(d) for d in c["scan"]]), vlib.cbool(c["scanend"] == "ok"), c["scanfrom"]))


def shard_text(cases):
    return (HEADER + "Definition cases : list c09case := [\n" + ";\n".join(coq_case(c) for c in cases) + "].\n"
            "Definition MM := Eval vm_compute in c09_run cases.\nPrint MM.\n")


CODES = {1: "record offsets", 2: "file length", 3: "file bytes", 4: "file CRC", 5: "positional read outcomes",
         6: "positional read records", 7: "scan records/offsets/sizeBroken", 8: "scan end status"}


def evaluate(ctx, cases, tag, per=25):
    shards = [("%s_%03d" % (tag, k // per), shard_text(cases[k:k + per])) for k in range(0, len(cases), per)]
    results = vlib.run_coq_shards(os.path.join(ctx.work, "cases"), shards, timeout=3000)
    byi = {c["i"]: c for c in cases}
    mm, ok = [], 0
    for name, rc, out in results:
        a = vlib.parse_numlist(out, "MM")
        if rc != 0 or a is None:
            ctx.logf("shard", name, "failed rc", rc, out[-800:])
            mm.append(dict(shard=name, what="case file did not evaluate", out=out[-300:]))
            continue
        if not a:
            ok += 1
        for x in a:
            i, code = divmod(x, 100)
            mm.append(dict(case=brief(byi[i]), differs=CODES.get(code, str(code))))
    return mm, len(shards), ok


def brief(c):
    d = {k: c[k] for k in ("i", "kind", "maxkey", "bodymax", "muts", "trunc", "mutkinds", "scanfrom", "scanend")}
    d["recs"] = [{k: (v if not isinstance(v, str) or len(v) < 80 else v[:80] + "...") for k, v in j.items()} for j in c["recs"]]
    d["seed"] = c.get("seed")
    return d


def oracle(c):
    """spec-level judgement of the implementation's observables for one case; returns list of violation dicts"""
    viol = []
    imgs = [py_encode(j) for j in c["recs"]]
    clean = b"".join(imgs)
    offs = []
    o = 0
    for im in imgs:
        offs.append(o)
        o += len(im)

    def bad(kind, what):
        viol.append(dict(kind=kind, what=what, case=brief(c)))

    if list(c["offsets"]) != offs or any(x % 256 for x in c["offsets"]):
        bad("layout", "record offsets %s differ from the documented 256-aligned layout %s" % (c["offsets"][:6], offs[:6]))
    if c["filelen"] != len(clean) or c["filecrc"] != (zlib.crc32(clean) & 0xffffffff):
        bad("layout", "file bytes differ from the documented beansdb record layout")
    if c.get("filehex") and bytes.fromhex(c["filehex"]) != clean:
        bad("layout", "file bytes differ from the documented beansdb record layout (exact compare)")
    data = bytearray(clean)
    touched = set()
    for m in c["muts"]:
        if m["pos"] < len(data):
            if data[m["pos"]] != m["val"]:
                touched.add(m["pos"])
            data[m["pos"]] = m["val"]
    if c["trunc"] >= 0:
        data = data[:c["trunc"]]
    data = bytes(data)

    def intact(idx):
        k, v = rec_bytes(c["recs"][idx])
        lo, hi = offs[idx], offs[idx] + 24 + len(k) + len(v)
        return hi <= len(data) and data[lo:hi] == clean[lo:hi]

    def valid_at(d):
        """is the returned record really a CRC-valid record image in the (damaged) file at that offset?"""
        off = d["off"]
        if off + 24 > len(data):
            return False
        crc, ts, flag, ver, ksz, vsz = struct.unpack("<IIIiII", data[off:off + 24])
        if ksz < 1 or ksz > c["maxkey"] or vsz > c["bodymax"] or off + 24 + ksz + vsz > len(data):
            return False
        k = data[off + 24:off + 24 + ksz]
        v = data[off + 24 + ksz:off + 24 + ksz + vsz]
        if (zlib.crc32(data[off + 4:off + 24 + ksz + vsz]) & 0xffffffff) != crc:
            return False
        return (k.hex() == d["k"] and d["flag"] == flag and d["ver"] == ver and d["ts"] == ts and d["vlen"] == vsz
                and d["vcrc"] == (zlib.crc32(v) & 0xffffffff))

    for d in c["readatd"] + c["scan"]:
        if not valid_at(d):
            bad("returned-invalid", "record returned at offset %d is not an intact record image of the file" % d["off"])
            break
    # every intact record is readable by position ...
    nblk = len(c["readat"] or [])
    for idx in range(len(offs)):
        if intact(idx) and offs[idx] // 256 < nblk and c["readat"][offs[idx] // 256] != 0:
            bad("intact-unreadable", "intact record at offset %d not readable by position" % offs[idx])
            break
    # ... and yielded by the scan, with its offset
    got = {d["off"] for d in c["scan"]}
    missing = [offs[i] for i in range(len(offs)) if intact(i) and offs[i] >= c["scanfrom"] and offs[i] not in got]
    if missing:
        if c["scanend"] == "err":
            # where did it stop?  at the first record offset >= end of the last yielded record
            stop = max([c["scanfrom"]] + [d["off"] + (24 + len(d["k"]) // 2 + d["vlen"] + 255) // 256 * 256 for d in c["scan"]])
            hdr_damaged = any(stop + 16 <= p < stop + 24 for p in touched)
            truncated_here = c["trunc"] >= 0
            if hdr_damaged:
                bad("scan-abort-damaged-size", "scan aborts with an error at offset %d (damaged size field claims an extent past "
                    "EOF) and never yields the intact records at %s" % (stop, missing[:4]))
            elif not truncated_here:
                bad("scan-abort", "scan aborts with an error at offset %d, intact records at %s not yielded" % (stop, missing[:4]))
            else:
                # torn tail: the error is the permitted report; records after it cannot exist unless damage elsewhere
                later = [m for m in missing if m > stop]
                if later:
                    bad("scan-abort", "scan aborts at %d but intact records follow at %s" % (stop, later[:4]))
        else:
            bad("scan-skips-intact", "scan does not yield the intact records at offsets %s" % missing[:4])
    if c["kind"] == "clean" and c["scanend"] != "ok":
        bad("clean-scan-error", "scan of an undamaged file ends with an error")
    return viol


def gen_cases(ctx, count, seed, extra=()):
    out = os.path.join(ctx.work, "c09_%d.jsonl" % seed)
    rc, o = vlib.harness(["c09", "-seed", seed, "-count", count, "-out", out] + list(extra), timeout=3000)
    if rc != 0:
        raise RuntimeError("harness c09 failed: " + o[-300:])
    cs = vlib.read_jsonl(out)
    for c in cs:
        c["seed"] = seed
        c["muts"] = c.get("muts") or []
        c["readat"] = c.get("readat") or []
        c["mutkinds"] = c.get("mutkinds") or []
    return cs


def is_nontrivial(c):
    return len(c["recs"]) >= 2 and (c["kind"] == "fault" or any(j["vlen"] > 232 for j in c["recs"]))


def run(ctx):
    count = 300 if ctx.tier == "quick" else 6000
    cases = gen_cases(ctx, count, ctx.seed, ["big"] if ctx.tier == "thorough" else [])
    mm, ns, ok = evaluate(ctx, cases, "c09")
    sm = []
    for c in cases:
        sm += oracle(c)
    dist = {}
    for c in cases:
        for k in (c["mutkinds"] or ["clean"]):
            dist[k] = dist.get(k, 0) + 1
        dist["scanend=" + c["scanend"]] = dist.get("scanend=" + c["scanend"], 0) + 1
        n = len(c["recs"])
        b = "records 1" if n == 1 else "records 2-8" if n <= 8 else "records 9-50"
        dist[b] = dist.get(b, 0) + 1
    nt = {vlib.sha([c["recs"], c["muts"], c["trunc"]]) for c in cases if is_nontrivial(c)}
    samples = [dict(records=[(j["k"][:16], j["vlen"], j["ver"]) for j in c["recs"][:4]], damage=c["mutkinds"], trunc=c["trunc"],
                    scan_offsets=[d["off"] for d in c["scan"]][:8], scanend=c["scanend"], readat=c["readat"][:12])
               for c in cases[:4]]
    return dict(evaluations=len(cases), distinct_nontrivial=len(nt), samples=samples, model_mismatches=mm, spec_violations=sm,
                shards=ns, shards_ok=ok, dist=dist,
                rule="seeded files of 1..50 records (key 1..250 bytes, values empty / straddling 256-boundaries / up to 30KB, extreme "
                     "flag/ver/ts, embedded record images) with 0..3 damages (bit/byte flips, crc/meta/ksz/vsz field damage, zeroed "
                     "blocks, aligned/unaligned truncation, garbage); non-trivial = >=2 records and (damaged or a multi-block record); "
                     "distinct by SHA-256 of (records, damage)")


def search(ctx, broken):
    found = []
    for s in range(3):
        cases = gen_cases(ctx, 400, ctx.seed * 1000 + 31 + s)
        for c in cases:
            found += oracle(c)
        if found:
            break
    return found


def is_known(v, f):
    return v.get("kind") == f.get("trigger")


def replay_finding(ctx, f):
    """F2: 5-record file, vsz of record 1 := 0x100000"""
    if f.get("trigger") != "scan-abort-damaged-size":
        return None
    rc, o = vlib.harness(["c09f2"], timeout=120)
    last = o.strip().split("\n")[-1]
    return "err" in last


def replay(ctx, path):
    with open(path) as f:
        obj = json.load(f)
    v = obj.get("violation", obj)
    case = v.get("case")
    if not case:
        print("replay file names no concrete input:", json.dumps(obj.get("broken")))
        return 1
    cs = [c for c in gen_cases(ctx, case["i"] + 1, case["seed"]) if c["i"] == case["i"]]
    viol = oracle(cs[0])
    for x in viol:
        print(x["kind"], x["what"])
    if viol:
        print("VIOLATION property=C09 replay=%s" % path)
        return 1
    print("replay: no violation on this case")
    return 0
