"""C15: keys are routed to exactly one bucket by the top hash digits."""
import json
import os
import re

from lib import vlib
from lib.props import c08

PROPS = "props/C15.v"
TRUSTED = ["python oracle (bucket = leading hex digits of the 64-bit hash; files only in the bucket's own directory; unserved => nothing "
           "stored and miss; upper listing = aggregate of served bucket roots)"]
ASSUMPTIONS = ["bucket count in {1, 16, 256}"]

HEADER = """From Coq Require Import NArith ZArith List String.
From GB Require Import Words HTree CheckC08 CheckC15.
Import ListNotations. Open Scope N_scope. Open Scope string_scope.
"""


def parse_listing(txt):
    if txt in ("NIL", "ERR"):
        return dict(t=txt.lower())
    lines = [l for l in txt.split("\n") if l]
    if not lines:
        return dict(t="nil")
    if "/ " in lines[0]:
        return dict(t="nodes", n=[[int(x) for x in l.split()[1:3]] for l in lines])
    its = [l.split() for l in lines]
    return dict(t="items", k=[str(int(f[0], 16)) for f in its], i=[[0, int(f[2]), int(f[1])] for f in its])


def coq_case(c):
    keys = vlib.clist(["(%s, %d, %s, %d)" % (vlib.cstr(k["k"]), k["hash"], vlib.cstr(k["v"]),
                                            0 if k["get"] == "MISS" else (1 if k["get"] == "HIT " + k["v"] else 2)) for k in c["keys"]])
    dirs = vlib.clist(["(%s, %s)" % (vlib.cstr(("" if d == "." else d).encode().hex()), vlib.clist([vlib.cstr(x) for x in ks]))
                       for d, ks in sorted(c["dirs"].items())])
    ls = []
    for p, txt in sorted(c["listings"].items()):
        l = parse_listing(txt)
        if l["t"] == "err":
            continue
        ls.append("(%s, %s)" % (vlib.cstr(p), c08.cjl(l)))
    return "mkC15 %d %d %d %s %s %s %s" % (c["i"], c["nb"], c["height"], vlib.clist([str(b) for b in (c["served"] or [])]), keys, dirs,
                                           vlib.clist(ls))


def shard_text(cases):
    return (HEADER + "Definition cases : list c15case := [\n" + ";\n".join(coq_case(c) for c in cases) + "].\n"
            "Definition MM := Eval vm_compute in c15_run cases.\nPrint MM.\n")


CODES = {1: "key hash / get result", 2: "directory holding a key's record", 3: "listing"}


def evaluate(ctx, cases, tag, per=5):
    shards = [("%s_%03d" % (tag, k // per), shard_text(cases[k:k + per])) for k in range(0, len(cases), per)]
    results = vlib.run_coq_shards(os.path.join(ctx.work, "cases"), shards, timeout=3000)
    mm, ok = [], 0
    for name, rc, out in results:
        a = vlib.parse_numlist(out, "MM")
        if rc != 0 or a is None:
            ctx.logf("shard", name, "failed rc", rc, out[-800:])
            mm.append(dict(shard=name, what="case file did not evaluate", out=out[-300:]))
            continue
        if not a:
            ok += 1
        for x in a:
            i, code = divmod(x, 100)
            mm.append(dict(case=dict(i=i, seed=cases[0].get("seed")), differs=CODES.get(code, str(code))))
    return mm, len(shards), ok


def oracle(c):
    viol = []
    depth = {1: 0, 16: 1, 256: 2}[c["nb"]]
    served = set(c["served"] or [])

    def bad(kind, what):
        viol.append(dict(kind=kind, what=what, case=dict(i=c["i"], seed=c.get("seed"), nb=c["nb"])))

    def bdir(b):
        return "." if c["nb"] == 1 else ("%x" % b if c["nb"] == 16 else "%x/%x" % (b // 16, b % 16))

    where = {}
    for d, ks in c["dirs"].items():
        for k in ks:
            where.setdefault(k, set()).add(d)
    for k in c["keys"]:
        b = k["hash"] >> (64 - 4 * depth) if depth else 0
        if b in served:
            if k["get"] != "HIT " + k["v"]:
                bad("served-key-lost", "key routed to served bucket %x does not read back" % b)
            if where.get(k["k"], set()) != {bdir(b)}:
                bad("wrong-directory", "record of a key of bucket %x found in %s" % (b, sorted(where.get(k["k"], []))))
        else:
            if k["get"] != "MISS":
                bad("unserved-hit", "key of unserved bucket %x answered %s" % (b, k["get"][:20]))
            if k["k"] in where:
                bad("unserved-stored", "key of unserved bucket %x was stored in %s" % (b, sorted(where[k["k"]])))
    for f in c["allfiles"] or []:
        d = os.path.dirname(f) or "."
        if c["nb"] > 1 and d != "." and not any(d == bdir(b) for b in served):
            bad("file-outside-served", "file %s lies in the directory of an unserved bucket" % f)
    return viol


def gen_cases(ctx, count, seed):
    out = os.path.join(ctx.work, "c15_%d.jsonl" % seed)
    rc, o = vlib.harness(["c15", "-seed", seed, "-count", count, "-out", out], timeout=3000)
    if rc != 0:
        raise RuntimeError("harness c15 failed: " + o[-300:])
    cs = vlib.read_jsonl(out)
    for c in cs:
        c["seed"] = seed
        c["dirs"] = c.get("dirs") or {}
    return cs


def run(ctx):
    cases = gen_cases(ctx, 40 if ctx.tier == "quick" else 1500, ctx.seed)
    mm, ns, ok = evaluate(ctx, cases, "c15")
    sm = []
    for c in cases:
        sm += oracle(c)
    dist = {}
    for c in cases:
        n = len(c["served"] or [])
        kind = "none" if n == 0 else "one" if n == 1 else "all" if n == c["nb"] else "some"
        for k in ("buckets=%d" % c["nb"], "served=" + kind):
            dist[k] = dist.get(k, 0) + 1
        for p in c["listings"]:
            kk = "listing len %s depth" % ("<" if len(p) < {1: 0, 16: 1, 256: 2}[c["nb"]] else ">=")
            dist[kk] = dist.get(kk, 0) + 1
    nt = {vlib.sha([c["nb"], c["served"], [k["k"] for k in c["keys"]]]) for c in cases if c["nb"] > 1 and 0 < len(c["served"] or []) < c["nb"]}
    samples = [dict(buckets=c["nb"], served=(c["served"] or [])[:8], keys=len(c["keys"]), dirs=sorted(c["dirs"])[:6],
                    listings=sorted(c["listings"])[:6]) for c in cases[:4]]
    return dict(evaluations=len(cases), distinct_nontrivial=len(nt), samples=samples, model_mismatches=mm, spec_violations=sm,
                shards=ns, shards_ok=ok, dist=dist,
                rule="stores with 1/16/256 buckets and a served subset none/one/some/all, 20..80 keys with their real hash set and read "
                     "back, inventory of every file per directory with an independent record scanner, '@' listings shorter/equal/longer "
                     "than the bucket depth; non-trivial = more than one bucket and a proper non-empty served subset")


def search(ctx, broken):
    found = []
    for s in range(2):
        for c in gen_cases(ctx, 40, ctx.seed * 100 + 15 + s):
            found += oracle(c)
        if found:
            break
    return found


def replay(ctx, path):
    with open(path) as f:
        obj = json.load(f)
    case = obj.get("violation", obj).get("case")
    if not case:
        print("replay file names no concrete input:", json.dumps(obj.get("broken")))
        return 1
    cs = [c for c in gen_cases(ctx, case["i"] + 1, case["seed"]) if c["i"] == case["i"]]
    viol = oracle(cs[0])
    for x in viol:
        print(x["kind"], x["what"])
    if viol:
        print("VIOLATION property=C15 replay=%s" % path)
        return 1
    print("replay: no violation")
    return 0
