"""C01: reads return the last value written (single client, reference-map equivalence)."""
import json

from lib import l2common, vlib

PROPS = "props/C01.v"
MODE = "plain"
PID = "C01"
TRUSTED = ["python reference-map oracle (lib/l2common.py refmap_oracle) for judging implementation replies",
           "compressor and content sniffing enter the model as oracles fed by the harness (sizes / verdicts), see C10"]
ASSUMPTIONS = ["SecsBeforeDump = -1 in the harness (hint dump silence test always passes); post-rotation flush awaited",
               "no 64-bit key-hash collisions among the keys (C13 covers collisions); versions stay inside int32"]


def is_nontrivial(c):
    ops = [o["op"] for o in c["ops"]]
    writes = sum(1 for o in ops if o in "SDI")
    return writes >= 2 and any(o in ("F", "R", "C", "H") for o in ops)


def summarize(cases):
    dist = {}
    for c in cases:
        for o in c["ops"]:
            key = "op:" + o["op"]
            dist[key] = dist.get(key, 0) + 1
            if o["op"] in "SDGMI":
                r = o["res"] if not o["res"].lstrip("-").isdigit() else "num"
                dist["res:" + r] = dist.get("res:" + r, 0) + 1
        cf = c["cfg"]
        for k in ("nb", "filemax", "splitcap", "checkvhash"):
            kk = "%s=%s" % (k, cf[k])
            dist[kk] = dist.get(kk, 0) + 1
    return dist


def run_mode(ctx, mode, count, pid, collide=False, oracle=None):
    """corpus first, then seeded cases; model correspondence on all, [oracle] (default: reference map) judges the implementation"""
    ctx.l2mode = mode
    corpus = l2common.corpus_cases(ctx, pid)
    cases = corpus + l2common.gen_cases(ctx, mode, count, ctx.seed)
    ctx.last_cases = cases
    mm, ns, ok = l2common.evaluate(ctx, cases, pid.lower())
    sm = []
    for c in cases:
        sm += oracle(c) if oracle else l2common.refmap_oracle(c, collide=collide)
    # the model reproduces the recorded defects of the code exactly: where the implementation's reply differs from the
    # model's AND violates the reference map, the violation is not one of the recorded findings -- report it as such
    # (a concrete failing history) instead of leaving it to the known-finding filter
    mmkeys = {(m["case"]["i"], m.get("op_index")) for m in mm if "case" in m and m.get("differs") == "reply"}
    extra = []
    for v in sm:
        if (v.get("case", {}).get("i"), v.get("op_index")) in mmkeys:
            v2 = dict(v)
            v2["kind"] = "unexplained:" + v["kind"]
            v2["what"] = v["what"] + " (the model, which carries every recorded finding, answers differently here)"
            extra.append(v2)
    sm = extra + sm
    nt = {vlib.sha([c["cfg"], [(o["op"], o.get("k"), o.get("v"), o.get("rev")) for o in c["ops"]]]) for c in cases if is_nontrivial(c)}
    samples = [dict(cfg={k: c["cfg"][k] for k in ("nb", "height", "filemax", "splitcap", "checkvhash")},
                    ops=" ".join(o["op"] for o in c["ops"])[:200],
                    replies=[o["res"] for o in c["ops"][:12]]) for c in cases[:4]]
    return dict(evaluations=len(cases), distinct_nontrivial=len(nt), samples=samples, model_mismatches=mm, spec_violations=sm,
                shards=ns, shards_ok=ok, dist=summarize(cases),
                extra=dict(ops_replayed=sum(len(c["ops"]) for c in cases), corpus_cases=len(corpus),
                           unreproducible_implementation_traces=getattr(ctx, "transient", [])),
                rule="corpus histories first, then seeded histories of 20..100 operations (set with auto/explicit revision, delete, incr, "
                     "get, meta-get, forced flush, hint dump, restart with a subset of index files removed, GC range requests and passes "
                     "in gc modes) over 2..7 valid keys of one bucket; bucket count 1/16/256, data-file limit 1KB..default, hint split "
                     "capacity 2..default, check_vhash on/off; values empty / across the 256-byte block boundary / compressible / "
                     "incompressible / sniffed audio / numeric; non-trivial = >= 2 writes and at least one flush, hint dump, restart or "
                     "GC; distinct by SHA-256 of config + operations")


def run(ctx):
    return run_mode(ctx, MODE, 120 if ctx.tier == "quick" else 1500, PID)


def search(ctx, broken):
    found = []
    for s in range(3):
        ctx2seed = ctx.seed * 100 + 61 + s
        cases = l2common.gen_cases(ctx, MODE, 160, ctx2seed)
        for c in cases:
            found += l2common.refmap_oracle(c)
        if found:
            break
    return found


def replay(ctx, path):
    with open(path) as f:
        obj = json.load(f)
    v = obj.get("violation", obj)
    case = v.get("case")
    if not case or "proc" not in case:
        print("replay file names no concrete input:", json.dumps(obj.get("broken")))
        return 1
    i = case["i"] % 1000
    rc, o = vlib.harness(["l2", "-seed", case["seed"], "-count", i + 1, "-out", ctx.work + "/replay.jsonl", case.get("mode") or MODE])
    cs = [c for c in vlib.read_jsonl(ctx.work + "/replay.jsonl") if c["i"] == i]
    viol = l2common.refmap_oracle(cs[0]) if cs else []
    for x in viol:
        print(x["kind"], x["what"], "at op", x["op_index"])
    if viol:
        print("VIOLATION property=%s replay=%s" % (PID, path))
        return 1
    print("replay: no violation on this case")
    return 0


def replay_finding(ctx, f):
    """scripted history of a (fixed) finding: does the reference-map oracle still flag it / does the harness crash?"""
    import os
    from lib import vlib
    if not f.get("script"):
        return None
    try:
        c = l2common.run_script(ctx, os.path.join(vlib.VERIF, f["script"]))
    except RuntimeError:
        return True
    return bool(l2common.refmap_oracle(c))
