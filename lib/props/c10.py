"""C10: server-side compression is invisible to clients."""
import json
import os
import zlib

from lib import vlib, l2common
from lib.props import c01

PROPS = "props/C10.v"
TRUSTED = ["the compressors (C qlz_compress, Go Compress) are not modelled: the decision rule gets their output sizes from the harness, the "
           "round trip through both decompressors is observed", "content sniffing (net/http.DetectContentType) is an oracle fed by the harness"]
ASSUMPTIONS = ["QuickLZ level 3, streaming buffer 0 (translated from quicklz.h)"]

HEADER = """From Coq Require Import NArith ZArith List String.
From GB Require Import Words Qlz CheckC10.
Import ListNotations. Open Scope N_scope. Open Scope string_scope.
"""


def shard_text(cases):
    rows = ["(%d, %s, %s, %s, %d, %d)" % (c["i"], vlib.cstr(c["src"]), vlib.cbool(c["cok"]), vlib.cstr(c.get("cout", "")), c["clen"], c["ccrc"])
            for c in cases]
    return (HEADER + "Definition cases : list c10case := [\n" + ";\n".join(rows) + "].\n"
            "Definition R := Eval vm_compute in c10_run cases.\nDefinition MM := Eval vm_compute in fst R.\n"
            "Definition OOB := Eval vm_compute in snd R.\nPrint MM. Print OOB.\n")


def evaluate(ctx, cases, tag, per=40):
    cases = [c for c in cases if c["src"]]
    shards = [("%s_%03d" % (tag, k // per), shard_text(cases[k:k + per])) for k in range(0, len(cases), per)]
    results = vlib.run_coq_shards(os.path.join(ctx.work, "cases"), shards, timeout=3000)
    byi = {c["i"]: c for c in cases}
    mm, oob, ok = [], [], 0
    for name, rc, out in results:
        a, b = vlib.parse_numlist(out, "MM"), vlib.parse_numlist(out, "OOB")
        if rc != 0 or a is None or b is None:
            ctx.logf("shard", name, "failed rc", rc, out[-800:])
            mm.append(dict(shard=name, what="case file did not evaluate", out=out[-300:]))
            continue
        if not a:
            ok += 1
        for i in a:
            mm.append(dict(case=dict(i=i, seed=byi[i].get("seed"), kind=byi[i]["kind"], src=byi[i]["src"][:120]), differs="CDecompressSafe result"))
        for i in b:
            oob.append(byi[i])
    return mm, oob, len(shards), ok


def oracle(c):
    viol = []

    def bad(kind, what):
        viol.append(dict(kind=kind, what=what, case=dict(i=c["i"], seed=c.get("seed"), kind=c["kind"], src=c["src"][:120])))

    if c["kind"] in ("c-compressed", "go-compressed") and not c["plain"].startswith("crc:"):
        plain = bytes.fromhex(c["plain"])
        crc = zlib.crc32(plain) & 0xffffffff
        if not c["cok"] or c["clen"] != len(plain) or c["ccrc"] != crc:
            bad("c-roundtrip", "the C decompressor does not return the original of a %s stream (%d bytes)" % (c["kind"], len(plain)))
        if not c["gook"] or c["golen"] != len(plain) or c["gocrc"] != crc:
            bad("go-roundtrip", "the Go decompressor does not return the original of a %s stream (%d bytes)" % (c["kind"], len(plain)))
    return viol


def gen_cases(ctx, count, seed, extra=()):
    out = os.path.join(ctx.work, "c10_%d.jsonl" % seed)
    rc, o = vlib.harness(["c10", "-seed", seed, "-count", count, "-out", out] + list(extra), timeout=3000)
    if rc != 0:
        raise RuntimeError("harness c10 failed (a crash of the safe decompressors is itself a violation): " + o[-400:])
    cs = vlib.read_jsonl(out)
    for c in cs:
        c["seed"] = seed
    return cs


def run(ctx):
    cases = gen_cases(ctx, 600 if ctx.tier == "quick" else 2400, ctx.seed, ["big"] if ctx.tier == "thorough" else [])
    mm, oob, ns, ok = evaluate(ctx, cases, "c10")
    sm = []
    for c in cases:
        sm += oracle(c)
    for c in oob:
        sm.append(dict(kind="c-out-of-bounds", what="on this input the (unchecked) C decompressor reads or writes outside its buffers",
                       case=dict(i=c["i"], seed=c.get("seed"), kind=c["kind"], src=c["src"][:120])))
    # the store-level half: values around the decision thresholds through set / get / meta / restart, directory compared
    res2 = c01.run_mode(ctx, "compress", 40 if ctx.tier == "quick" else 300, "C10")
    dist = dict(res2["dist"])
    for c in cases:
        k = "qlz:%s/%s" % (c["kind"], "ok" if c["cok"] else "err")
        dist[k] = dist.get(k, 0) + 1
    dist["qlz:model-oob"] = len(oob)
    nt = {c["src"] for c in cases if c["src"] and c["srclen"] > 12}
    samples = [dict(kind=c["kind"], src=c["src"][:48], c_ok=c["cok"], go_ok=c["gook"], out_len=c["clen"]) for c in cases[:5]]
    return dict(evaluations=len(cases) + res2["evaluations"], distinct_nontrivial=len(nt) + res2["distinct_nontrivial"], samples=samples + res2["samples"][:2],
                model_mismatches=mm + res2["model_mismatches"], spec_violations=sm + res2["spec_violations"],
                shards=ns + res2["shards"], shards_ok=ok + res2["shards_ok"], dist=dist,
                rule="(a) byte strings into CDecompressSafe / DecompressSafe: outputs of the C and of the Go compressor for constant, periodic, "
                     "text, random, mixed and noisy values of 1..3600 bytes (thorough: up to 1 MB), valid streams with 1..3 mutations (bit "
                     "flips, truncation, header bytes, appended or overwritten bytes), stored-block headers with wrong sizes, random bytes; "
                     "(b) store histories (mode compress) with values around record size 256, probe size 10 KB and ratio 0.7 in every content "
                     "class, client-compress flag on/off, read back buffered / flushed / after restart, directory (file sizes = compression "
                     "decision) compared with the model; non-trivial = source longer than 12 bytes / history with >= 2 writes and a flush")


def search(ctx, broken):
    found = []
    for s in range(2):
        for c in gen_cases(ctx, 600, ctx.seed * 100 + 10 + s):
            found += oracle(c)
        if found:
            break
    return found


def is_known(v, f):
    # F19: only Go-compressed streams of 1..3 plain bytes
    return v.get("kind") == f.get("trigger") == "c-roundtrip" and v["case"].get("kind") == "go-compressed" and "(1 bytes)" in v["what"] + "" \
        or v.get("kind") == f.get("trigger") == "c-roundtrip" and v["case"].get("kind") == "go-compressed" and any("(%d bytes)" % n in v["what"] for n in (1, 2, 3))


def replay_finding(ctx, f):
    if f.get("trigger") == "c-roundtrip":
        rc, o = vlib.harness(["c10f19"], timeout=60)
        return "ok=false" in o
    if f.get("id") == "F9":
        rc, o = vlib.harness(["c10f9"], timeout=60)
        return "ok=true" in o
    if f.get("id") == "F9b":
        rc, o = vlib.harness(["c10", "-seed", 9191, "-count", 300, "-out", os.path.join(ctx.work, "f9b.jsonl")], timeout=300)
        return rc != 0        # a crash of the harness inside the C decompressor
    return None


def replay(ctx, path):
    with open(path) as fh:
        obj = json.load(fh)
    case = obj.get("violation", obj).get("case")
    if not case or "src" not in case:
        print("replay file names no concrete input:", json.dumps(obj.get("broken")))
        return 1
    cs = [c for c in gen_cases(ctx, case["i"] + 1, case["seed"]) if c["i"] == case["i"]]
    viol = oracle(cs[0])
    for x in viol:
        print(x["kind"], x["what"])
    if viol:
        print("VIOLATION property=C10 replay=%s" % path)
        return 1
    print("replay: no violation")
    return 0
