"""C16: key hash, value hash, CRC-32 equal the historical definitions."""
import json
import os

from lib import vlib

PROPS = "props/C16.v"
TRUSTED = ["murmur3 v1.1.0 is modelled from its source in the Go module cache (constants translated, tie by correspondence)"]
ASSUMPTIONS = ["bytes are < 256 (allbytes) -- true of every Go []byte"]

HEADER = """From Coq Require Import NArith ZArith List String.
From GB Require Import Words CheckC16.
Import ListNotations. Open Scope N_scope. Open Scope string_scope.
"""


def coq_case(c):
    impl = "(%d, %d, %d, %d, %d, %d, %d)" % (c["fnv"], c["ufnv"], c["mur"], c["kh"], c["vh"], c["crc"], c["crc3"])
    return "(%d, %s, %d, %d, %s)" % (c["i"], vlib.cstr(c.get("hex", "")), c.get("gen", 0), c["len"], impl)


def shard_text(cases, big=False):
    t = [HEADER]
    if big:
        t.append("Definition cases : list (N * N * N * N * N) := [\n" + ";\n".join(
            "(%d, %d, %d, %d, %d)" % (c["i"], c["gen"], c["len"], c["crc"], c["crc3"]) for c in cases) + "].")
        t.append("Definition R := Eval vm_compute in c16_run_big cases.")
    else:
        t.append("Definition cases : list c16case := [\n" + ";\n".join(coq_case(c) for c in cases) + "].")
        t.append("Definition R := Eval vm_compute in c16_run cases.")
    t.append("Definition MM := Eval vm_compute in fst (fst R). Definition SM := Eval vm_compute in snd (fst R).")
    t.append("Definition LM := Eval vm_compute in snd R.")
    t.append("Print MM. Print SM. Print LM.")
    return "\n".join(t) + "\n"


def evaluate(ctx, cases, tag, big=False, per=60):
    shards = []
    for k in range(0, len(cases), per):
        shards.append(("%s_%03d" % (tag, k // per), shard_text(cases[k:k + per], big)))
    results = vlib.run_coq_shards(os.path.join(ctx.work, "cases"), shards, timeout=3000)
    byi = {c["i"]: c for c in cases}
    mm, sm, ok = [], [], 0
    for name, rc, out in results:
        a, b, l = vlib.parse_numlist(out, "MM"), vlib.parse_numlist(out, "SM"), vlib.parse_numlist(out, "LM")
        if rc != 0 or a is None or b is None or l is None:
            ctx.logf("shard", name, "failed rc", rc, out[-500:])
            mm.append(dict(shard=name, what="case file did not evaluate", out=out[-300:]))
            continue
        if not a and not b and not l:
            ok += 1
        for i in a + l:
            mm.append(brief(byi[i]))
        for i in b:
            d = brief(byi[i])
            d["what"] = "hash/CRC of input %s differs from the reference definition" % (d.get("hex") or "lcg(%s,%s)" % (d.get("gen"), d["len"]))[:200]
            sm.append(d)
    return mm, sm, len(shards), ok


def brief(c):
    d = dict(c)
    if len(d.get("hex", "")) > 400:
        d["hex_prefix"] = d["hex"][:400]
        d["hex_sha"] = vlib.sha(d["hex"])
    return d


def gen_cases(ctx, count, seed, extra=()):
    out = os.path.join(ctx.work, "c16_%d.jsonl" % seed)
    rc, o = vlib.harness(["c16", "-seed", seed, "-count", count, "-out", out] + list(extra))
    if rc != 0:
        raise RuntimeError("harness c16 failed: " + o[-300:])
    return vlib.read_jsonl(out)


def run(ctx):
    count = 600 if ctx.tier == "quick" else 20000
    cases = gen_cases(ctx, count, ctx.seed)
    normal = [c for c in cases if not c.get("gen")]
    mm, sm, ns, ok = evaluate(ctx, normal, "c16")
    nbig = 0
    if ctx.tier == "thorough":
        bigs = [c for c in gen_cases(ctx, 60, ctx.seed + 7777, ["big"]) if c.get("gen")]
        nbig = len(bigs)
        mm2, sm2, ns2, ok2 = evaluate(ctx, bigs, "c16big", big=True, per=1)
        mm, sm, ns, ok = mm + mm2, sm + sm2, ns + ns2, ok + ok2
    dist = {}
    for c in normal:
        k = c["class"] + ("/len<=1024" if c["len"] <= 1024 else "/len>1024")
        dist[k] = dist.get(k, 0) + 1
    dist["big-crc-only"] = nbig
    distinct = len(set((c["hex"]) for c in normal if c["len"] > 0))
    samples = [dict(input_hex=c["hex"][:64], len=c["len"], klass=c["class"], keyhash=c["kh"], vhash=c["vh"], crc=c["crc"])
               for c in normal[:5]]
    return dict(evaluations=len(normal) + nbig, distinct_nontrivial=distinct, samples=samples,
                model_mismatches=mm, spec_violations=sm, shards=ns, shards_ok=ok, dist=dist,
                rule="seeded byte strings (edge lengths around 0..5, 511..513, 1023..1026, 4096; classes high-bit, ascii, "
                     "utf8, constant, random); non-trivial = non-empty input; distinct = distinct input bytes")


def search(ctx, broken):
    """something broke: look for a concrete input where the implementation differs from the reference"""
    found = []
    for s in range(3):
        cases = [c for c in gen_cases(ctx, 1500, ctx.seed * 1000 + 17 + s) if not c.get("gen")]
        mm, sm, _, _ = evaluate(ctx, cases, "c16search%d" % s)
        found += sm
        if found:
            break
    return found


def replay(ctx, path):
    with open(path) as f:
        obj = json.load(f)
    v = obj.get("violation", obj)
    hexs = v.get("hex")
    if hexs is None:
        print("replay file names no concrete input (obligation-level report):", json.dumps(obj.get("broken")))
        return 1
    out = os.path.join(ctx.work, "replay_in.hex")
    rc, o = vlib.harness(["c16one", hexs])
    print(o.strip())
    c = json.loads(o.strip().split("\n")[-1])
    mm, sm, _, _ = evaluate(ctx, [c], "c16replay")
    if sm:
        print("VIOLATION property=C16 replay=%s" % path)
        return 1
    print("replay: implementation agrees with the reference on this input")
    return 0
