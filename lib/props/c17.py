"""C17: GC only touches eligible files and runs at most once per bucket."""
from lib import l2common, gcoracle
from lib.props import c01
from lib import schedcommon as sc

PROPS = "props/C17.v"
PID = "C17"
MODE = "gc"
TRUSTED = c01.TRUSTED + ["python oracle lib/gcoracle.py c17_oracle (range soundness, files touched, pretend mode)"]
ASSUMPTIONS = c01.ASSUMPTIONS + ["record timestamps are set 30 days in the past by the harness so that age limits of 1..5 days are decided "
                                "independently of the run's wall clock"]


def run(ctx):
    res = c01.run_mode(ctx, MODE, 120 if ctx.tier == "quick" else 1500, PID, oracle=gcoracle.c17_oracle)
    rs = sc.run_sched(ctx, "double", 0, ctx.seed)
    for r in rs:
        res["spec_violations"] += sc.scenario_oracle(r)
    res["evaluations"] += len(rs)
    res["dist"]["forced schedules: double gc request"] = len(rs)
    res["extra"]["gc_requests"] = sum(1 for c in ctx.last_cases for o in c["ops"] if o["op"] == "CR")
    return res


def search(ctx, broken):
    found = []
    for s in range(3):
        for c in l2common.gen_cases(ctx, MODE, 160, ctx.seed * 100 + 67 + s):
            found += gcoracle.c17_oracle(c)
        if found:
            break
    return found


def is_known(v, f):
    return v.get("kind") == f.get("trigger")


def replay(ctx, path):
    c01.PID, c01.MODE = PID, MODE
    return c01.replay(ctx, path)


def replay_finding_sched(ctx, f):
    which = {"two-gc-passes": "double", "acked-write-lost-at-shutdown": "closeflush"}.get(f.get("trigger"))
    if not which:
        return None
    return any(v["kind"] == f["trigger"] for r in sc.run_sched(ctx, which, 0, 999) for v in sc.scenario_oracle(r))


def replay_finding(ctx, f):
    if f.get("script"):  # scripted history judged by the same oracle (F24)
        import os
        from lib import vlib
        c = l2common.run_script(ctx, os.path.join(vlib.VERIF, f["script"]))
        return any(v["kind"] == f.get("trigger") for v in gcoracle.c17_oracle(c))
    return replay_finding_sched(ctx, f)
