"""C03: GC never changes what any key reads (no loss, no resurrection)."""
from lib import l2common
from lib.props import c01

PROPS = "props/C03.v"
PID = "C03"
MODE = "gc"
TRUSTED = c01.TRUSTED
ASSUMPTIONS = c01.ASSUMPTIONS + ["GC passes run synchronously between client operations (C05 covers GC beside traffic)"]


def run(ctx):
    return c01.run_mode(ctx, MODE, 120 if ctx.tier == "quick" else 1500, PID)


def search(ctx, broken):
    found = []
    for s in range(3):
        for c in l2common.gen_cases(ctx, MODE, 160, ctx.seed * 100 + 63 + s):
            found += l2common.refmap_oracle(c)
        if found:
            break
    return found


def replay_finding(ctx, f):
    """F24: the scripted history ends the implementation's process (logger.Fatalf in dataStore.flush) when a client write
    rotates into a file that a GC pass filled above the head; it is run in its own harness process."""
    import os
    from lib import vlib
    if not f.get("abort_script"):
        return None
    out = os.path.join(ctx.work, "finding_%s.jsonl" % f.get("id"))
    rc, o = vlib.harness(["l2script", "-out", out, os.path.join(vlib.VERIF, f["abort_script"])], timeout=600)
    ctx.logf("finding", f.get("id"), "script rc", rc, o[-200:])
    return rc != 0 and f.get("abort_text", "") in o


def replay(ctx, path):
    c01.PID, c01.MODE = PID, MODE
    return c01.replay(ctx, path)
