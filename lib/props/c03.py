"""C03: GC never changes what any key reads (no loss, no resurrection)."""
from lib import l2common
from lib.props import c01

PROPS = "props/C03.v"
PID = "C03"
MODE = "gc"
TRUSTED = c01.TRUSTED
ASSUMPTIONS = c01.ASSUMPTIONS + ["GC passes run synchronously between client operations (C05 covers GC beside traffic)"]


def run(ctx):
    return c01.run_mode(ctx, MODE, 120 if ctx.tier == "quick" else 1500, PID)


def search(ctx, broken):
    found = []
    for s in range(3):
        for c in l2common.gen_cases(ctx, MODE, 160, ctx.seed * 100 + 63 + s):
            found += l2common.refmap_oracle(c)
        if found:
            break
    return found


def replay(ctx, path):
    c01.PID, c01.MODE = PID, MODE
    return c01.replay(ctx, path)
