"""C14: hint files: faithful round-trip, total lookup, correct merge."""
import json
import os

from lib import vlib

PROPS = "props/C14.v"
TRUSTED = ["python spec oracle for hint round-trip / lookup / merge used to judge implementation outputs"]
ASSUMPTIONS = ["hint items have key length 1..255, hash < 2^64, chunk/offset < 2^32, version in int32 (true of everything the store writes)",
               "merge sources are non-empty files (empty buffers are never dumped: needDump requires num > 0)"]

HEADER = """From Coq Require Import NArith ZArith List String.
From GB Require Import Words HintFile CheckC14.
Import ListNotations. Open Scope N_scope. Open Scope string_scope.
"""


def cj(j):
    return "(%d, %d, %d, %s, %d, %s)" % (j["h"], j["ck"], j["off"], vlib.cZ(j["ver"]), j["vh"], vlib.cstr(j["k"]))


def coq_case(c):
    srcs = vlib.clist(["mkSrc %d %s %d %d %s %s %s %d %d %d" % (
        s["chunk"], vlib.clist([cj(j) for j in s["sets"]]), s["filelen"], s["filecrc"], vlib.cstr(s.get("filehex", "")),
        vlib.clist([cj(j) for j in s["read"]]), vlib.cbool(s["readerr"]), s["readds"], s["numkey"], s["nindex"]) for s in c["srcs"]])
    rc = {"found": 0, "nf": 1, "err": 2}
    qs = vlib.clist(["(%d, %d, %s, %d, %s)" % (q["src"], q["h"], vlib.cstr(q["k"]), rc[q["res"]],
                                               vlib.clist([cj(q["it"])] if q.get("it") else [])) for q in c["queries"]])
    return "mkC14 %d %d %d %s %s %s %d %s %s" % (c["i"], c["interval"], c["recsize"], srcs, qs,
                                                 vlib.clist([cj(j) for j in c["merged"]]), c["mergedds"],
                                                 vlib.cbool(c["mergeerr"]), vlib.clist([cj(j) for j in c["coll"]]))


def shard_text(cases):
    return (HEADER + "Definition cases : list c14case := [\n" + ";\n".join(coq_case(c) for c in cases) + "].\n"
            "Definition MM := Eval vm_compute in c14_run cases.\nPrint MM.\n")


CODES = {1: "hint file bytes", 2: "items read back / datasize", 3: "index length / numKey", 4: "index lookup result",
         5: "merged items / datasize", 6: "collision table after merge"}


def evaluate(ctx, cases, tag, per=6):
    shards = [("%s_%03d" % (tag, k // per), shard_text(cases[k:k + per])) for k in range(0, len(cases), per)]
    results = vlib.run_coq_shards(os.path.join(ctx.work, "cases"), shards, timeout=3000)
    mm, ok = [], 0
    for name, rc, out in results:
        a = vlib.parse_numlist(out, "MM")
        if rc != 0 or a is None:
            ctx.logf("shard", name, "failed rc", rc, out[-800:])
            mm.append(dict(shard=name, what="case file did not evaluate", out=out[-300:]))
            continue
        if not a:
            ok += 1
        for x in a:
            i, code = divmod(x, 100)
            mm.append(dict(case=dict(i=i, seed=cases[0].get("seed")), differs=CODES.get(code, str(code))))
    return mm, len(shards), ok


def key_of(j):
    return (j["h"], bytes.fromhex(j["k"]))


def oracle(c):
    viol = []

    def bad(kind, what, **kw):
        d = dict(kind=kind, what=what, case=dict(i=c["i"], seed=c.get("seed"), interval=c["interval"]))
        d.update(kw)
        viol.append(d)

    per_src = []
    for si, s in enumerate(c["srcs"]):
        last = {}
        for j in s["sets"]:
            last[key_of(j)] = j
        want = [last[k] for k in sorted(last)]
        ds = max(j["off"] + c["recsize"] for j in s["sets"])
        if s["readerr"] or s["read"] != want:
            bad("roundtrip", "hint file %d read back differs from the items written (in key-hash order)" % si)
        if s["readds"] != ds or s["numkey"] != len(want):
            bad("roundtrip", "hint file %d recorded data size / key count differ" % si)
        per_src.append(last)
    for q in c["queries"]:
        present = per_src[q["src"]].get((q["h"], bytes.fromhex(q["k"])))
        if q["res"] == "err":
            bad("lookup-error", "lookup of %s key (hash %d) in a hint file with %d index entries returns an error" % (
                "a present" if present else "an absent", q["h"], c["srcs"][q["src"]]["nindex"]), query=q)
        elif present and (q["res"] != "found" or q["it"] != present):
            bad("lookup-miss", "present key (hash %d) not found / wrong item" % q["h"], query=q)
        elif not present and q["res"] != "nf":
            bad("lookup-phantom", "absent key (hash %d) reported found" % q["h"], query=q)
    # merge: greatest (chunk, offset) per key
    best = {}
    for si, s in enumerate(c["srcs"]):
        for k, j in per_src[si].items():
            jj = dict(j)
            jj["ck"] = s["chunk"]
            if k not in best or (jj["ck"], jj["off"]) >= (best[k]["ck"], best[k]["off"]):
                best[k] = jj
    want = [best[k] for k in sorted(best)]
    if c["mergeerr"] or c["merged"] != want:
        bad("merge", "merged hint differs from 'entry with greatest (file, offset) per key, in key order'")
    if c["mergedds"] != max(s["readds"] for s in c["srcs"]):
        bad("merge", "merged data size is not the maximum of the sources")
    byhash = {}
    for (h, k) in best:
        byhash.setdefault(h, []).append(k)
    wantc = [best[(h, k)] for h in sorted(byhash) if len(byhash[h]) > 1 for k in sorted(byhash[h])]
    if c["coll"] != wantc:
        bad("merge-collisions", "collision table after merge is not exactly the same-hash groups")
    return viol


def gen_cases(ctx, count, seed, extra=()):
    out = os.path.join(ctx.work, "c14_%d.jsonl" % seed)
    rc, o = vlib.harness(["c14", "-seed", seed, "-count", count, "-out", out] + list(extra), timeout=3000)
    if rc != 0:
        raise RuntimeError("harness c14 failed: " + o[-300:])
    cs = vlib.read_jsonl(out)
    for c in cs:
        c["seed"] = seed
    return cs


def run(ctx):
    count = 120 if ctx.tier == "quick" else 1200
    cases = gen_cases(ctx, count, ctx.seed, ["big"] if ctx.tier == "thorough" else [])
    mm, ns, ok = evaluate(ctx, cases, "c14")
    sm = []
    for c in cases:
        sm += oracle(c)
    dist = {}
    nq = 0
    for c in cases:
        dist["interval=%d" % c["interval"]] = dist.get("interval=%d" % c["interval"], 0) + 1
        dist["sources=%d" % len(c["srcs"])] = dist.get("sources=%d" % len(c["srcs"]), 0) + 1
        for q in c["queries"]:
            dist["q:" + q["kind"]] = dist.get("q:" + q["kind"], 0) + 1
            dist["res:" + q["res"]] = dist.get("res:" + q["res"], 0) + 1
            nq += 1
        mi = max(s["nindex"] for s in c["srcs"])
        b = "index entries 0-1" if mi <= 1 else "index entries 2-9" if mi < 10 else "index entries 10+"
        dist[b] = dist.get(b, 0) + 1
    nt = {vlib.sha([s["sets"] for s in c["srcs"]]) for c in cases if max(s["nindex"] for s in c["srcs"]) >= 2 and c["coll"]}
    samples = [dict(interval=c["interval"], sources=[(s["chunk"], len(s["sets"]), s["nindex"]) for s in c["srcs"]],
                    queries=len(c["queries"]), merged=len(c["merged"]), collisions=len(c["coll"])) for c in cases[:5]]
    return dict(evaluations=len(cases), distinct_nontrivial=len(nt), samples=samples, model_mismatches=mm, spec_violations=sm,
                shards=ns, shards_ok=ok, dist=dist, extra=dict(lookups=nq),
                rule="seeded cases of 1..4 (thorough ..8) hint files built through HintBuffer.Set/Dump over a key pool with hashes 0, "
                     "2^64-1, clusters and same-hash groups, index interval 24..4096; lookups of present keys and absent keys below / "
                     "between / same-hash-other-key / above; merge of all files; non-trivial = some file has >= 2 index entries and the "
                     "merge reports a collision group; distinct by SHA-256 of the set sequences")


def search(ctx, broken):
    found = []
    for s in range(3):
        for c in gen_cases(ctx, 150, ctx.seed * 1000 + 41 + s):
            found += oracle(c)
        if found:
            break
    return found


def is_known(v, f):
    return False


def replay_finding(ctx, f):
    """F1: absent key with hash above all stored hashes in a file with >= 2 index entries"""
    rc, o = vlib.harness(["c14f1"], timeout=120)
    last = o.strip().split("\n")[-1]
    return "res=err" in last


def replay(ctx, path):
    with open(path) as f:
        obj = json.load(f)
    v = obj.get("violation", obj)
    case = v.get("case")
    if not case:
        print("replay file names no concrete input:", json.dumps(obj.get("broken")))
        return 1
    cs = [c for c in gen_cases(ctx, case["i"] + 1, case["seed"]) if c["i"] == case["i"]]
    viol = oracle(cs[0])
    for x in viol:
        print(x["kind"], x["what"])
    if viol:
        print("VIOLATION property=C14 replay=%s" % path)
        return 1
    print("replay: no violation on this case")
    return 0
