"""C13: keys with equal 64-bit hashes never alias or lose each other."""
from lib import l2common
from lib.props import c01

PROPS = "props/C13.v"
PID = "C13"
MODE = "collide"
TRUSTED = c01.TRUSTED + ["key hashes forced through the test-only getKeyHash override (-tags verif export)"]
ASSUMPTIONS = ["collision.yaml is treated as durable (never deleted between restarts); versions of colliding keys are not compared"]

# violation kinds that concern versions/incr arithmetic of colliding keys are outside the property
IGNORED = {"meta-version", "incr-value"}


def judge(cases):
    sm = []
    for c in cases:
        sm += [v for v in l2common.refmap_oracle(c, collide=True) if v["kind"] not in IGNORED]
    return sm


def run(ctx):
    n = 120 if ctx.tier == "quick" else 1500
    res = c01.run_mode(ctx, MODE, n, PID, collide=True)
    res["spec_violations"] = [v for v in res["spec_violations"] if v["kind"] not in IGNORED]
    return res


def search(ctx, broken):
    found = []
    for s in range(3):
        found += judge(l2common.gen_cases(ctx, MODE, 160, ctx.seed * 100 + 73 + s))
        if found:
            break
    return found


def is_known(v, f):
    return v.get("kind") in (f.get("kinds") or [f.get("trigger")])


def replay_finding(ctx, f):
    """replays the finding's recorded history class: does any case of a fixed seed still show one of its kinds?"""
    import os
    from lib import vlib
    kinds = set(f.get("kinds") or [f.get("trigger")])
    if f.get("script"):   # the exact witness history of the finding (also the Coq refutation theorem's trace)
        try:
            c = l2common.run_script(ctx, os.path.join(vlib.VERIF, f["script"]))
        except RuntimeError:
            return True
        return any(v["kind"] in kinds for v in judge([c]))
    cases = l2common.gen_cases(ctx, MODE, 80, 424242)
    return any(v["kind"] in kinds for v in judge(cases))


def replay(ctx, path):
    c01.PID, c01.MODE = PID, MODE
    return c01.replay(ctx, path)
