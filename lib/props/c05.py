"""C05: GC running beside live traffic loses no acknowledged write."""
import json

from lib import schedcommon as sc, vlib

PROPS = "props/C05.v"
PID = "C05"
WHICH = ["repoint"]
TRUSTED = ["gcintr replay: harness parks the real GC pass at verifPoint gc.appended; python register oracle lib/schedcommon.py stress_oracle (sound, incomplete); seeded yield injection at the store's verifPoints"]
ASSUMPTIONS = ["the lock-granular atomicity of the model (client writes atomic under the bucket write lock, a read = tree lookup then positional "
               "read) is validated by the schedules, not proved of the Go code; data races below lock granularity are out of reach"]


def judge(rs):
    v = []
    for r in rs:
        v += sc.stress_oracle(r) if r["scenario"] == "stress" else sc.scenario_oracle(r)
    return v


def run(ctx):
    rs = []
    for w in WHICH:
        rs += sc.run_sched(ctx, w, (25 if ctx.tier == "quick" else 400) if w == "stress" else 0, ctx.seed)
    sm = judge(rs)
    gis = sc.run_sched(ctx, "gcintr", 60 if ctx.tier == "quick" else 1200, ctx.seed)
    mm, nsh, nok = sc.gi_evaluate(ctx, gis, "c05gi")
    for r in gis:
        sm += sc.gcintr_oracle(r)
    dist = {}
    nops = 0
    for r in rs:
        dist["scenario:" + r["scenario"]] = dist.get("scenario:" + r["scenario"], 0) + 1
        nops += len(r.get("hist") or [])
        if r["scenario"] != "stress":
            dist["%s/%s" % (r["scenario"], r["variant"])] = 1
    dist["scenario:gcintr"] = len(gis)
    dist["gcintr: client ran while the pass was parked after a copy"] = sum(1 for r in gis if r["gi"]["parked"])
    dist["gcintr: client wrote a key that has a record in the collected range"] = sum(
        1 for r in gis if any(o.get("k") == r["gi"]["op"].get("k") and o["op"] in "SD" for o in r["gi"]["pre"]))
    dist["gcintr: colliding keys"] = sum(1 for r in gis if "collide=true" in r["variant"])
    nops += sum(len(r["gi"]["pre"]) + len(r["gi"]["post"]) + 2 for r in gis)
    nt = {vlib.sha(r["gi"]) for r in gis if r["gi"]["parked"]} | {vlib.sha([r["scenario"], r["variant"], r.get("hist"), r.get("obs")]) for r in rs if r["scenario"] != "stress" or len(r.get("hist") or []) >= 40}
    samples = [dict(scenario=r["scenario"], variant=r["variant"], obs=r.get("obs"), ops=len(r.get("hist") or []), final=r.get("final")) for r in rs[:4]]
    return dict(evaluations=len(rs) + len(gis), distinct_nontrivial=len(nt), samples=samples, model_mismatches=mm, spec_violations=sm,
                shards=nsh, shards_ok=nok, dist=dist, extra=dict(recorded_operations=nops),
                rule="gcintr: seeded histories (sets / deletes / gets / flushes over 4..9 keys, 512..1024-byte files, optionally two keys forced onto one "
                     "hash) followed by a GC pass over a seeded range which is parked right after the copy of its n-th relocated record "
                     "(verifPoint gc.appended) while a client sets or deletes a key, then released; gets / meta-gets of every key, a restart, and "
                     "gets again; the whole history with every reply and the GC statistics is replayed inside Coq on the split GC step of "
                     "model/GcSplit.v (CheckGcSplit.gi_run) and a python oracle checks that every key reads its last acknowledged write; "
                     "forced schedules park a goroutine of the real store at a named verifPoint and run the other party to completion; stress "
                     "runs 2..8 client goroutines x 25 operations (set / delete / get / meta-get of unique values on 1..3 shared keys) with a "
                     "flusher + hint dumper loop, small file and split limits and seeded yield / sleep injection at every verifPoint, recording "
                     "invocation and response order; non-trivial = scenario run or history of >= 40 operations")


def search(ctx, broken):
    found = []
    for s in range(2):
        for r in sc.run_sched(ctx, "gcintr", 60, ctx.seed * 100 + 50 + s):
            found += sc.gcintr_oracle(r)
        rs = []
        for w in WHICH:
            rs += sc.run_sched(ctx, w, 25 if w == "stress" else 0, ctx.seed * 100 + 4 + s)
        found += judge(rs)
        if found:
            break
    return found


def is_known(v, f):
    return v.get("kind") == f.get("trigger")


def replay_finding(ctx, f):
    rs = []
    for w in WHICH:
        if w != "stress":
            rs += sc.run_sched(ctx, w, 0, 5252)
    return any(v["kind"] == f.get("trigger") for v in judge(rs))


def replay(ctx, path):
    with open(path) as fh:
        obj = json.load(fh)
    case = obj.get("violation", obj).get("case")
    if not case:
        print("replay file names no concrete input:", json.dumps(obj.get("broken")))
        return 1
    rs = []
    if case.get("scenario") == "gcintr":
        gis = sc.run_sched(ctx, "gcintr", 60 if case["i"] < 60 else 1200, case["seed"])
        viol = [v for r in gis for v in sc.gcintr_oracle(r)]
        mm, _, _ = sc.gi_evaluate(ctx, [r for r in gis if r["i"] == case["i"]], "c05replay")
        viol += [dict(kind="model-mismatch", what=json.dumps(m)[:200]) for m in mm]
    else:
        for w in WHICH:
            rs += sc.run_sched(ctx, w, 25 if w == "stress" else 0, case["seed"])
        viol = [v for v in judge(rs) if v["case"].get("scenario") == case.get("scenario")]
    for x in viol[:5]:
        print(x["kind"], x["what"])
    if viol:
        print("VIOLATION property=%s replay=%s" % (PID, path))
        return 1
    print("replay: no violation")
    return 0
