"""C05: GC running beside live traffic loses no acknowledged write."""
import json

from lib import schedcommon as sc, vlib

PROPS = "props/C05.v"
PID = "C05"
WHICH = ["repoint"]
TRUSTED = ["python register oracle lib/schedcommon.py stress_oracle (sound, incomplete); seeded yield injection at the store's verifPoints"]
ASSUMPTIONS = ["the lock-granular atomicity of the model (client writes atomic under the bucket write lock, a read = tree lookup then positional "
               "read) is validated by the schedules, not proved of the Go code; data races below lock granularity are out of reach"]


def judge(rs):
    v = []
    for r in rs:
        v += sc.stress_oracle(r) if r["scenario"] == "stress" else sc.scenario_oracle(r)
    return v


def run(ctx):
    rs = []
    for w in WHICH:
        rs += sc.run_sched(ctx, w, (25 if ctx.tier == "quick" else 2000) if w == "stress" else 0, ctx.seed)
    sm = judge(rs)
    dist = {}
    nops = 0
    for r in rs:
        dist["scenario:" + r["scenario"]] = dist.get("scenario:" + r["scenario"], 0) + 1
        nops += len(r.get("hist") or [])
        if r["scenario"] != "stress":
            dist["%s/%s" % (r["scenario"], r["variant"])] = 1
    nt = {vlib.sha([r["scenario"], r["variant"], r.get("hist"), r.get("obs")]) for r in rs if r["scenario"] != "stress" or len(r.get("hist") or []) >= 40}
    samples = [dict(scenario=r["scenario"], variant=r["variant"], obs=r.get("obs"), ops=len(r.get("hist") or []), final=r.get("final")) for r in rs[:4]]
    return dict(evaluations=len(rs), distinct_nontrivial=len(nt), samples=samples, model_mismatches=[], spec_violations=sm,
                shards=0, shards_ok=0, dist=dist, extra=dict(recorded_operations=nops),
                rule="forced schedules park a goroutine of the real store at a named verifPoint and run the other party to completion; stress "
                     "runs 2..8 client goroutines x 25 operations (set / delete / get / meta-get of unique values on 1..3 shared keys) with a "
                     "flusher + hint dumper loop, small file and split limits and seeded yield / sleep injection at every verifPoint, recording "
                     "invocation and response order; non-trivial = scenario run or history of >= 40 operations")


def search(ctx, broken):
    found = []
    for s in range(2):
        rs = []
        for w in WHICH:
            rs += sc.run_sched(ctx, w, 25 if w == "stress" else 0, ctx.seed * 100 + 4 + s)
        found += judge(rs)
        if found:
            break
    return found


def is_known(v, f):
    return v.get("kind") == f.get("trigger")


def replay_finding(ctx, f):
    rs = []
    for w in WHICH:
        if w != "stress":
            rs += sc.run_sched(ctx, w, 0, 5252)
    return any(v["kind"] == f.get("trigger") for v in judge(rs))


def replay(ctx, path):
    with open(path) as fh:
        obj = json.load(fh)
    case = obj.get("violation", obj).get("case")
    if not case:
        print("replay file names no concrete input:", json.dumps(obj.get("broken")))
        return 1
    rs = []
    for w in WHICH:
        rs += sc.run_sched(ctx, w, 25 if w == "stress" else 0, case["seed"])
    viol = [v for v in judge(rs) if v["case"].get("scenario") == case.get("scenario")]
    for x in viol[:5]:
        print(x["kind"], x["what"])
    if viol:
        print("VIOLATION property=%s replay=%s" % (PID, path))
        return 1
    print("replay: no violation")
    return 0
