"""C04: concurrent clients see per-key linearizable writes and reads."""
import json

from lib import schedcommon as sc, vlib

PROPS = "props/C04.v"
PID = "C04"
WHICH = ["stress"]
TRUSTED = ["split-read replay: harness parks readers at verifPoint get.looked; python register oracle lib/schedcommon.py stress_oracle (sound, incomplete); seeded yield injection at the store's verifPoints"]
ASSUMPTIONS = ["the lock-granular atomicity of the model (client writes atomic under the bucket write lock, a read = tree lookup then positional "
               "read) is validated by the schedules, not proved of the Go code; data races below lock granularity are out of reach"]


def judge(rs):
    v = []
    for r in rs:
        v += sc.stress_oracle(r) if r["scenario"] == "stress" else sc.scenario_oracle(r)
    return v


def run(ctx):
    rs = []
    for w in WHICH:
        rs += sc.run_sched(ctx, w, (25 if ctx.tier == "quick" else 400) if w == "stress" else 0, ctx.seed)
    sm = judge(rs)
    srs = sc.run_sched(ctx, "splitread", 60 if ctx.tier == "quick" else 1200, ctx.seed)
    mm, nsh, nok = sc.sr_evaluate(ctx, srs, "c04sr")
    for r in srs:
        sm += sc.splitread_oracle(r)
    dist = {}
    nops = 0
    for r in rs:
        dist["scenario:" + r["scenario"]] = dist.get("scenario:" + r["scenario"], 0) + 1
        nops += len(r.get("hist") or [])
        if r["scenario"] != "stress":
            dist["%s/%s" % (r["scenario"], r["variant"])] = 1
    npark = sum(1 for r in srs for e in r["evs"] if e["ev"] == "B")
    nlate = 0
    for r in srs:
        openb = {}
        for idx, e in enumerate(r["evs"]):
            if e["ev"] == "B":
                openb[e["c"]] = idx
            elif e["ev"] == "E" and idx - openb.pop(e["c"], idx) > 1:
                nlate += 1
    dist["scenario:splitread"] = len(srs)
    dist["splitread: reads begun"] = npark
    dist["splitread: reads finished after >= 1 other step"] = nlate
    nops += sum(len(r["evs"]) for r in srs)
    nt = {vlib.sha([r["variant"], r["evs"]]) for r in srs if len(r["evs"]) >= 15} | {vlib.sha([r["scenario"], r["variant"], r.get("hist"), r.get("obs")]) for r in rs if r["scenario"] != "stress" or len(r.get("hist") or []) >= 40}
    samples = [dict(scenario=r["scenario"], variant=r["variant"], obs=r.get("obs"), ops=len(r.get("hist") or []), final=r.get("final")) for r in rs[:4]]
    return dict(evaluations=len(rs) + len(srs), distinct_nontrivial=len(nt), samples=samples, model_mismatches=mm, spec_violations=sm,
                shards=nsh, shards_ok=nok, dist=dist, extra=dict(recorded_operations=nops),
                rule="split reads: readers of the real store are parked between position lookup and positional read (verifPoint get.looked) "
                     "while the main client sets / deletes / rotates files / flushes / dumps hints, then released in seeded order; the event "
                     "trace (atomic ops, read begin, read end, with every reply) is replayed on model/Sched.v c_step inside Coq and every reply compared; "
                     "forced schedules park a goroutine of the real store at a named verifPoint and run the other party to completion; stress "
                     "runs 2..8 client goroutines x 25 operations (set / delete / get / meta-get of unique values on 1..3 shared keys) with a "
                     "flusher + hint dumper loop, small file and split limits and seeded yield / sleep injection at every verifPoint, recording "
                     "invocation and response order; non-trivial = scenario run or history of >= 40 operations")


def search(ctx, broken):
    found = []
    for s in range(2):
        srs = sc.run_sched(ctx, "splitread", 60, ctx.seed * 100 + 40 + s)
        for r in srs:
            found += sc.splitread_oracle(r)
        rs = []
        for w in WHICH:
            rs += sc.run_sched(ctx, w, 25 if w == "stress" else 0, ctx.seed * 100 + 4 + s)
        found += judge(rs)
        if found:
            break
    return found


def is_known(v, f):
    return v.get("kind") == f.get("trigger")


def replay_finding(ctx, f):
    rs = []
    for w in WHICH:
        if w != "stress":
            rs += sc.run_sched(ctx, w, 0, 4242)
    return any(v["kind"] == f.get("trigger") for v in judge(rs))


def replay(ctx, path):
    with open(path) as fh:
        obj = json.load(fh)
    case = obj.get("violation", obj).get("case")
    if not case:
        print("replay file names no concrete input:", json.dumps(obj.get("broken")))
        return 1
    rs = []
    if case.get("scenario") == "splitread":
        srs = sc.run_sched(ctx, "splitread", 60 if case["i"] < 60 else 1200, case["seed"])
        viol = [v for r in srs for v in sc.splitread_oracle(r)]
        mm, _, _ = sc.sr_evaluate(ctx, [r for r in srs if r["i"] == case["i"]], "c04replay")
        for m in mm:
            print("model/implementation differ:", json.dumps(m)[:300])
        viol += [dict(kind="model-mismatch", what=json.dumps(m)[:200]) for m in mm]
    else:
        for w in WHICH:
            rs += sc.run_sched(ctx, w, 25 if w == "stress" else 0, case["seed"])
        viol = [v for v in judge(rs) if v["case"].get("scenario") == case.get("scenario")]
    for x in viol[:5]:
        print(x["kind"], x["what"])
    if viol:
        print("VIOLATION property=%s replay=%s" % (PID, path))
        return 1
    print("replay: no violation")
    return 0
