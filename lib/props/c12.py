"""C12: request tokens and buffer accounting return to zero at quiescence."""
import json

from lib import protocommon as pc, vlib

PROPS = "props/C12.v"
TRUSTED = ["python balance oracle (all eight published counters zero and all tokens back after flush + idle)"]
ASSUMPTIONS = ["connections are served one after the other (concurrent counter races are not modelled)"]

# command kinds / mutations whose leak is a recorded finding
KNOWN_KINDS = {"negrev", "incr-nan", "incr-badkey", "incr", "append", "prepend", "decr"}


def residue_cause(v):
    """which recorded leak mechanisms are present in the case"""
    return sorted(set(v.get("cmdkinds", [])) & KNOWN_KINDS)


def run(ctx):
    cases = pc.gen_cases(ctx, 150 if ctx.tier == "quick" else 3000, ctx.seed)
    mm, ns, ok = pc.evaluate(ctx, cases, "c12")
    sm = []
    for c in cases:
        sm += pc.c12_oracle(c)
    # the model carries the recorded leaks exactly: a residue the model does not predict is a leak outside the
    # recorded findings -- a concrete failing stream, not just a broken correspondence
    byi = {c["i"]: c for c in cases}
    for m in mm:
        if m.get("differs", "").startswith("final accounting") and m.get("case", {}).get("i") in byi:
            c = byi[m["case"]["i"]]
            sm.append(dict(kind="residue-not-predicted", what="after flush + idle the counters are %s, which the recorded leaks do not explain (streams: %s)" % (
                c["acct"], [cn["mut"] or "grammatical" for cn in c["conns"]]), case=dict(i=c["i"], seed=c.get("seed")), cmdkinds=[], residue={"unexplained": 1}))
    dist = {"quiescent-zero": 0, "residue": 0}
    for c in cases:
        dist["residue" if any(c["acct"]) else "quiescent-zero"] += 1
        for cn in c["conns"]:
            dist["mut:" + (cn["mut"] or "none")] = dist.get("mut:" + (cn["mut"] or "none"), 0) + 1
    nt = {vlib.sha([cn["stream"] for cn in c["conns"]]) for c in cases if sum(len(cn["cmds"]) for cn in c["conns"]) >= 5}
    samples = [dict(commands=[cmd["kind"] for cn in c["conns"] for cmd in cn["cmds"]][:14], mutations=[cn["mut"] for cn in c["conns"]],
                    counters=c["acct"]) for c in cases[:4]]
    return dict(evaluations=len(cases), distinct_nontrivial=len(nt), samples=samples, model_mismatches=mm, spec_violations=sm,
                shards=ns, shards_ok=ok, dist=dist,
                rule="the command streams of C11 (grammatical and mutated, incl. truncation at a random byte = connection drop, short "
                     "body, bad terminator, oversize), values on both sides of body_c_str (4 KB), 1..3 connections per store served in "
                     "sequence; after flush + idle the eight published counters and the token channel are read; the model predicts the "
                     "exact residue; non-trivial = >= 5 commands")


def search(ctx, broken):
    found = []
    for s in range(2):
        for c in pc.gen_cases(ctx, 200, ctx.seed * 100 + 12 + s):
            found += pc.c12_oracle(c)
        if found:
            break
    return found


def is_known(v, f):
    """a residue is explained by a recorded leak when the case contains one of its command kinds and the
    residue only touches the counters that mechanism leaks"""
    if v.get("kind") != "residue":
        return False
    causes = set(v.get("cmdkinds", [])) & set(f.get("cmdkinds", []))
    if not causes:
        return False
    allowed = set(f.get("counters", []))
    return set(v.get("residue", {})) <= allowed


def replay_finding(ctx, f):
    if f.get("id") == "F23":
        # repeated key in a multi-get: a GetData residue in a case that has such a get and none of the recorded leak kinds
        # (on the code before the repair the first hits of seed 535353 are cases 136, 137 and 216)
        for c in pc.gen_cases(ctx, 220, 535353):
            kinds = {cmd["kind"] for cn in c["conns"] for cmd in cn["cmds"]}
            if "get-dup" in kinds and not (kinds & KNOWN_KINDS) and not any(cn["mut"] for cn in c["conns"]):
                if c["acct"][2] != 0 or c["acct"][3] != 0:
                    return True
        return False
    cases = pc.gen_cases(ctx, 80, 525252)
    return any(is_known(v, f) for c in cases for v in pc.c12_oracle(c))


def replay(ctx, path):
    with open(path) as fh:
        obj = json.load(fh)
    case = obj.get("violation", obj).get("case")
    if not case:
        print("replay file names no concrete input:", json.dumps(obj.get("broken")))
        return 1
    cs = [c for c in pc.gen_cases(ctx, case["i"] + 1, case["seed"]) if c["i"] == case["i"]]
    viol = pc.c12_oracle(cs[0])
    for x in viol:
        print(x["kind"], x["what"])
    if viol:
        print("VIOLATION property=C12 replay=%s" % path)
        return 1
    print("replay: no violation")
    return 0
