"""Shared machinery of the /verif checks (python3 stdlib only)."""
import fcntl
import hashlib
import json, shutil
import os
import re
import subprocess
import sys
import time
from concurrent.futures import ThreadPoolExecutor

VERIF = os.path.dirname(os.path.dirname(os.path.abspath(__file__)))
REPO = os.environ.get("VERIF_REPO", "/repo")
COQ = os.path.join(VERIF, "coq")
OUT = os.path.join(VERIF, "out")
BIN = os.path.join(VERIF, "bin")
HARNESS = os.path.join(BIN, "verifharness")

GOENV = dict(GOFLAGS="-mod=mod", GOPROXY="off", GOSUMDB="off", GOTOOLCHAIN="local", CGO_ENABLED="1")

FORBIDDEN = re.compile(
    r"\b(Admitted|admit|Axiom|Axioms|Parameter|Parameters|Conjecture|Admit Obligations|Unset Guard Checking|"
    r"Unset Positivity Checking|Unset Universe Checking|bypass_check|type-in-type|impredicative-set|native_compute)\b")


def sh(cmd, timeout=1200, cwd=None, env=None, stdin=None):
    e = dict(os.environ)
    e.update(GOENV)
    if env:
        e.update(env)
    try:
        p = subprocess.run(cmd, shell=isinstance(cmd, str), cwd=cwd, env=e, timeout=timeout,
                           stdout=subprocess.PIPE, stderr=subprocess.STDOUT, input=stdin)
        return p.returncode, p.stdout.decode("utf-8", "replace")
    except subprocess.TimeoutExpired as ex:
        out = ex.stdout.decode("utf-8", "replace") if ex.stdout else ""
        return 124, out + "\nTIMEOUT after %ss" % timeout


class Lock:
    def __init__(self, name):
        os.makedirs(OUT, exist_ok=True)
        self.path = os.path.join(OUT, name + ".lock")

    def __enter__(self):
        self.f = open(self.path, "w")
        fcntl.flock(self.f, fcntl.LOCK_EX)
        return self

    def __exit__(self, *a):
        fcntl.flock(self.f, fcntl.LOCK_UN)
        self.f.close()


# --------------------------------------------------------------------------- translator
def gen_consts():
    """regenerate coq/gen/Consts.v from the working tree; returns (ok, message)"""
    with Lock("coq"):
        rc, out = sh([sys.executable, os.path.join(VERIF, "tools", "gen_consts.py"), "--repo", REPO], timeout=60)
        tgt = os.path.join(COQ, "gen", "Consts.v")
        fb = os.path.join(COQ, "gen", "Consts.pinned")
        if rc != 0 and not os.path.exists(tgt) and os.path.exists(fb):
            # the tie is broken (reported by the caller); the constants of the pinned tree are used ONLY so that the
            # model still builds and the search for a concrete failing input can run
            shutil.copyfile(fb, tgt)
            out = out.strip() + " [model built with the pinned tree's constants for the failing-input search]"
    return rc == 0, out.strip()


# --------------------------------------------------------------------------- coq
def coq_makefile():
    mk = os.path.join(COQ, "Makefile")
    cp = os.path.join(COQ, "_CoqProject")
    if not os.path.exists(mk) or os.path.getmtime(mk) < os.path.getmtime(cp):
        sh("coq_makefile -f _CoqProject -o Makefile", cwd=COQ, timeout=60)


def coq_make(targets, timeout=1500):
    """full .vo build of the given targets (paths relative to coq/), serialised by a lock"""
    with Lock("coq"):
        coq_makefile()
        rc, out = sh(["make", "-j16", "-k"] + list(targets), cwd=COQ, timeout=timeout)
    return rc == 0, out


def coq_failed_files(log):
    return sorted(set(re.findall(r'File "\./([^"]+)", line \d+', log)))


def coq_first_error(log):
    m = re.search(r'File "\./([^"]+)", line (\d+), characters [^\n]*\n(Error:.*?)(?:\n\S|\Z)', log, re.S)
    if m:
        return "%s:%s %s" % (m.group(1), m.group(2), " ".join(m.group(3).split())[:400])
    return ""


def model_targets():
    """all definition-only files (gen, model, spec): needed to evaluate cases even when a proof breaks"""
    ts = []
    with open(os.path.join(COQ, "_CoqProject")) as f:
        for line in f:
            line = line.strip()
            if line.endswith(".v") and line.split("/")[0] in ("gen", "model", "spec"):
                ts.append(line[:-2] + ".vo")
    return ts


def theorem_names(props_file):
    with open(os.path.join(COQ, props_file)) as f:
        txt = f.read()
    return re.findall(r"^\s*(?:Theorem|Example|Lemma|Corollary)\s+(\w+)", txt, re.M)


def coq_check_props(props_file):
    """make the property file's closure and collect Print Assumptions output.
    returns dict(ok, log, assumptions{thm: text}, theorems[list], failed(str))"""
    vo = props_file[:-2] + ".vo"
    ok, log = coq_make([vo])
    res = dict(ok=ok, log=log, assumptions={}, theorems=[], failed="")
    try:
        res["theorems"] = theorem_names(props_file)
    except OSError:
        res["ok"] = False
        res["failed"] = "missing " + props_file
        return res
    if not ok:
        res["failed"] = coq_first_error(log) or "make failed: " + log[-400:]
        return res
    # always re-run the (cheap) property file itself to capture Print Assumptions
    with Lock("coq"):
        rc, out = sh(["coqc", "-Q", ".", "GB", "-w", "-notation-overridden", props_file], cwd=COQ, timeout=900)
    if rc != 0:
        res["ok"] = False
        res["failed"] = coq_first_error(out) or out[-400:]
        res["log"] += out
        return res
    # Print Assumptions output follows each theorem in order
    blocks = re.split(r"\n(?=Closed under the global context|Axioms:)", "\n" + out)
    blocks = [b.strip() for b in blocks if b.strip()]
    res["assumptions_raw"] = blocks
    return res


def forbidden_scan():
    """grep the whole development for forbidden vernacular; returns list of 'file:line: text'"""
    hits = []
    for root, _, files in os.walk(COQ):
        for fn in files:
            if not fn.endswith(".v"):
                continue
            p = os.path.join(root, fn)
            rel = os.path.relpath(p, COQ)
            if rel.startswith("cases" + os.sep):
                continue
            insec = 0
            with open(p, encoding="utf-8") as f:
                txt = f.read()
            txt_nc = strip_comments(txt)
            for ln, line in enumerate(txt_nc.split("\n"), 1):
                if re.match(r"\s*Section\b", line):
                    insec += 1
                if re.match(r"\s*End\b", line) and insec > 0:
                    insec -= 1
                if FORBIDDEN.search(line):
                    hits.append("%s:%d: %s" % (rel, ln, line.strip()[:100]))
                if insec == 0 and re.match(r"\s*(Variable|Variables|Hypothesis|Hypotheses|Context)\b", line):
                    hits.append("%s:%d: %s (outside Section)" % (rel, ln, line.strip()[:100]))
    return hits


def strip_comments(txt):
    out = []
    depth = 0
    i = 0
    n = len(txt)
    instr = False
    while i < n:
        if not instr and txt.startswith("(*", i):
            depth += 1
            i += 2
            continue
        if not instr and depth > 0 and txt.startswith("*)", i):
            depth -= 1
            i += 2
            continue
        c = txt[i]
        if depth == 0:
            if c == '"':
                instr = not instr
            out.append(c)
        elif c == "\n":
            out.append(c)
        i += 1
    return "".join(out)


def coqchk(props_file, timeout=5400):
    """Independent re-check of the compiled property file and everything it depends on (thorough tier)."""
    mod = "GB." + props_file[:-2].replace("/", ".")
    rc, out = sh(["coqchk", "-silent", "-o", "-Q", ".", "GB", mod], cwd=COQ, timeout=timeout)
    summary = {}
    key = None
    for line in out.splitlines():
        line = line.strip()
        if line.startswith("* "):
            key, _, rest = line[2:].partition(":")
            summary[key.strip()] = rest.strip()
        elif key and line and not line.startswith("="):
            summary[key.strip()] = (summary[key.strip()] + " " + line).strip()
    clean = (rc == 0 and summary.get("Axioms") == "<none>"
             and summary.get("Constants/Inductives relying on type-in-type") == "<none>"
             and summary.get("Constants/Inductives relying on unsafe (co)fixpoints") == "<none>"
             and summary.get("Inductives whose positivity is assumed") == "<none>")
    return dict(ok=clean, rc=rc, summary=summary, log=out[-2000:])


def run_coq_cases(workdir, name, text, timeout=1500):
    """compile one harness-written case file against the built model; returns (rc, output)"""
    os.makedirs(workdir, exist_ok=True)
    p = os.path.join(workdir, name + ".v")
    with open(p, "w") as f:
        f.write(text)
    # long string literals in case files need a deep stack in coqc
    rc, out = sh("ulimit -s unlimited 2>/dev/null || ulimit -s 1000000; exec coqc -Q %s GB -w -notation-overridden %s" % (COQ, p),
                 cwd=workdir, timeout=timeout)
    for ext in (".vo", ".vok", ".vos", ".glob"):
        try:
            os.remove(os.path.join(workdir, name + ext))
        except OSError:
            pass
    try:
        os.remove(os.path.join(workdir, "." + name + ".aux"))
    except OSError:
        pass
    return rc, out


def run_coq_shards(workdir, shards, timeout=1500, jobs=12):
    """shards: list of (name, text). returns list of (name, rc, output)"""
    with ThreadPoolExecutor(max_workers=jobs) as ex:
        futs = [(n, ex.submit(run_coq_cases, workdir, n, t, timeout)) for n, t in shards]
        return [(n, ) + f.result() for n, f in futs]


def parse_printed(out, name):
    """parse `Print name.` output of a list of numbers (possibly nested tuples flattened by caller)"""
    m = re.search(r"\b" + re.escape(name) + r"\s*=\s*(.*?)\n\s*:\s", out, re.S)
    if not m:
        return None
    body = " ".join(m.group(1).split())
    return body


def parse_numlist(out, name):
    body = parse_printed(out, name)
    if body is None:
        return None
    return [int(x) for x in re.findall(r"-?\d+", body.replace("%N", "").replace("%Z", ""))]


# --------------------------------------------------------------------------- go harness
def go_build():
    """build the harness against /repo's working tree with the verif tag"""
    os.makedirs(BIN, exist_ok=True)
    hdir = os.path.join(VERIF, "harness")
    with Lock("go"):
        sh("cp %s/go.sum %s/go.sum" % (REPO, hdir))
        cmd = ["go", "build", "-tags", "verif", "-o", HARNESS, "."]
        if os.path.realpath(REPO) != "/repo":
            # VERIF_REPO: a scratch copy of the repository (seeded-change regression, tools/seeded_regress.sh)
            alt = os.path.join(hdir, "go.alt.mod")
            with open(os.path.join(hdir, "go.mod")) as f:
                txt = f.read().replace("=> /repo", "=> " + os.path.realpath(REPO))
            with open(alt, "w") as f:
                f.write(txt)
            sh("cp %s/go.sum %s/go.alt.sum" % (REPO, hdir))
            cmd = ["go", "build", "-modfile=go.alt.mod", "-tags", "verif", "-o", HARNESS, "."]
        rc, out = sh(cmd, cwd=hdir, timeout=900)
    return rc == 0, out


def harness(args, timeout=900, env=None, cwd=None):
    return sh([HARNESS] + [str(a) for a in args], timeout=timeout, env=env, cwd=cwd)


def read_jsonl(path):
    res = []
    with open(path) as f:
        for line in f:
            line = line.strip()
            if line:
                res.append(json.loads(line))
    return res


# --------------------------------------------------------------------------- coq term helpers
def cN(n):
    return "%d" % n


def cZ(n):
    return "(%d)%%Z" % n


def cstr(s):
    return '"' + s.replace('"', '""') + '"'


def cbool(b):
    return "true" if b else "false"


def clist(items):
    return "[" + "; ".join(items) + "]"


def sha(x):
    return hashlib.sha256(json.dumps(x, sort_keys=True).encode()).hexdigest()


# --------------------------------------------------------------------------- known findings
def load_known(pid):
    p = os.path.join(VERIF, "known_findings.json")
    if not os.path.exists(p):
        return []
    with open(p) as f:
        d = json.load(f)
    return [x for x in d.get("findings", []) if x.get("property") == pid]


# --------------------------------------------------------------------------- evidence
def write_evidence(pid, tier, seed, coverage, assumptions, wall, violations):
    os.makedirs(os.path.join(VERIF, "evidence"), exist_ok=True)
    ev = dict(property_id=pid, tier=tier, seed=seed, level="proof", coverage=coverage,
              assumptions=assumptions, wall_s=round(wall, 2), violations=violations)
    p = os.path.join(VERIF, "evidence", pid + ".json")
    tmp = p + ".tmp"
    with open(tmp, "w") as f:
        json.dump(ev, f, indent=1, sort_keys=True)
        f.write("\n")
    os.replace(tmp, p)
    return p


def write_replay(pid, name, obj):
    d = os.path.join(VERIF, "replays", pid)
    os.makedirs(d, exist_ok=True)
    p = os.path.join(d, name + ".json")
    with open(p, "w") as f:
        json.dump(obj, f, indent=1, sort_keys=True)
        f.write("\n")
    return p
