"""Shared code of the protocol suites C11 (framing / replies) and C12 (tokens and buffer accounting)."""
import os
import re

from lib import vlib

HEADER = """From Coq Require Import NArith ZArith List String.
From GB Require Import Words Proto CheckC11.
Import ListNotations. Open Scope N_scope. Open Scope string_scope.
"""


def parse_replies(out):
    """split a server output stream into reply units; returns (units, ok) where ok=False if the stream does not parse"""
    units = []
    i = 0
    n = len(out)
    while i < n:
        j = out.find(b"\r\n", i)
        if j < 0:
            return units, False
        line = out[i:j]
        if line.startswith(b"VALUE ") or line == b"END":
            items = []
            while line != b"END":
                f = line.split(b" ")
                if len(f) not in (4, 5) or f[0] != b"VALUE":
                    return units, False
                try:
                    ln = int(f[3])
                except ValueError:
                    return units, False
                body = out[j + 2:j + 2 + ln]
                if len(body) != ln or out[j + 2 + ln:j + 4 + ln] != b"\r\n":
                    return units, False
                items.append((f[1], int(f[2]), body, f[4] if len(f) == 5 else None))
                i = j + 4 + ln
                j = out.find(b"\r\n", i)
                if j < 0:
                    return units, False
                line = out[i:j]
            units.append(("values", items))
            i = j + 2
        elif line.startswith(b"STAT "):
            while line != b"END":
                if not line.startswith(b"STAT "):
                    return units, False
                i = j + 2
                j = out.find(b"\r\n", i)
                if j < 0:
                    return units, False
                line = out[i:j]
            units.append(("stats", None))
            i = j + 2
        else:
            if re.fullmatch(rb"-?\d+", line):
                units.append(("num", line))
            else:
                units.append(("line", line))
            i = j + 2
    return units, True


def canonical(out):
    """canonical byte form of an output stream (VALUE blocks sorted, directory bodies / meta tails / stats masked)"""
    units, ok = parse_replies(out)
    if not ok:
        return out, False
    res = b""
    for kind, v in units:
        if kind == "values":
            for k, flag, body, cas in sorted(v, key=lambda t: t[0]):
                if k.startswith(b"@") and not k.startswith(b"@@") and not k.startswith(b"@collision_"):
                    body = b"DIR"
                elif k.startswith(b"?"):
                    body = b" ".join(body.split(b" ")[:4])
                res += b"VALUE %s %d %d%s\r\n%s\r\n" % (k, flag, len(body), b" 0" if cas is not None else b"", body)
            res += b"END\r\n"
        elif kind == "stats":
            res += b"STATS\r\n"
        else:
            res += v + b"\r\n"
    return res, True


def coq_case(c):
    conns = vlib.clist(["(%s, %s)" % (vlib.cstr(cn["stream"]), vlib.cstr(canonical(bytes.fromhex(cn["out"]))[0].hex())) for cn in c["conns"]])
    a = c["acct"]
    return "mkC11 %d (mkP %d %d 4096 16) %s (%s, %s, %s, %s, %s)" % (c["i"], c["maxkey"], c["bodymax"], conns,
                                                                      vlib.cZ(a[0]), vlib.cZ(a[1]), vlib.cZ(a[2]), vlib.cZ(a[3]), vlib.cZ(a[8]))


def shard_text(cases):
    return (HEADER + "Definition cases : list c11case := [\n" + ";\n".join(coq_case(c) for c in cases) + "].\n"
            "Definition MM := Eval vm_compute in c11_run cases.\nPrint MM.\n")


CODES = {1: "reply bytes of a connection", 2: "final accounting (SetData / GetData / tokens)"}


def evaluate(ctx, cases, tag, per=6):
    shards = [("%s_%03d" % (tag, k // per), shard_text(cases[k:k + per])) for k in range(0, len(cases), per)]
    results = vlib.run_coq_shards(os.path.join(ctx.work, "cases"), shards, timeout=3000)
    mm, ok = [], 0
    for name, rc, out in results:
        a = vlib.parse_numlist(out, "MM")
        if rc != 0 or a is None:
            ctx.logf("shard", name, "failed rc", rc, out[-800:])
            mm.append(dict(shard=name, what="case file did not evaluate", out=out[-300:]))
            continue
        if not a:
            ok += 1
        for x in a:
            i, code = divmod(x, 100)
            mm.append(dict(case=dict(i=i, seed=cases[0].get("seed")), differs=CODES.get(code, str(code))))
    return mm, len(shards), ok


def gen_cases(ctx, count, seed):
    out = os.path.join(ctx.work, "c11_%d.jsonl" % seed)
    rc, o = vlib.harness(["c11", "-seed", seed, "-count", count, "-out", out], timeout=3000)
    if rc != 0:
        raise RuntimeError("harness c11 failed: " + o[-400:])
    cs = vlib.read_jsonl(out)
    for c in cs:
        c["seed"] = seed
    return cs


# ----------------------------------------------------------------------------- C11 oracle
def c11_oracle(c):
    """grammatical connections (fed command by command): exactly one reply unit of the promised kind per command;
    every stream: the output parses as well-formed replies"""
    viol = []

    def bad(kind, what, **kw):
        d = dict(kind=kind, what=what, case=dict(i=c["i"], seed=c.get("seed")))
        d.update(kw)
        viol.append(d)

    for ci, cn in enumerate(c["conns"]):
        out = bytes.fromhex(cn["out"])
        units, ok = parse_replies(out)
        if not ok:
            bad("malformed-reply", "connection %d: the server's output is not a sequence of well-formed replies" % ci, mut=cn["mut"])
            continue
        if cn["mut"]:
            continue          # malformed input: only the reply grammar is judged (no crash / hang: the harness returned)
        closed = False
        for cmd in cn["cmds"]:
            if closed or not cmd.get("ran"):
                break
            e = cmd["expect"]
            rep = bytes.fromhex(cmd.get("reply", ""))
            u, okk = parse_replies(rep)
            txt = bytes.fromhex(cmd["raw"])[:40].decode("latin1").strip()
            if e == "close":
                closed = True
                if rep:
                    bad("reply-before-close", "command '%s' is answered although the connection is then closed" % txt, cmdkind=cmd["kind"])
                continue
            if e == "none":
                if rep:
                    bad("reply-to-noreply", "noreply command '%s' (%s) was answered" % (txt, cmd["kind"]), cmdkind=cmd["kind"])
                continue
            if not okk or len(u) == 0:
                bad("missing-reply", "command '%s' (%s) received no reply" % (txt, cmd["kind"]), cmdkind=cmd["kind"])
                continue
            if len(u) > 1:
                bad("extra-reply", "command '%s' (%s) received %d replies" % (txt, cmd["kind"], len(u)), cmdkind=cmd["kind"])
                continue
            kind = u[0][0]
            allowed = {"line": ("line", "num"), "values": ("values", "line"), "num": ("num", "line"), "stats": ("stats",),
                       "values|line": ("values", "line"), "any": ("line", "values", "num", "stats")}[e]
            if kind not in allowed:
                bad("wrong-reply-kind", "command %s answered with a %s reply" % (cmd["kind"], kind), cmdkind=cmd["kind"])
            if kind == "values":
                asked = bytes.fromhex(cmd["raw"]).split(b"\r\n")[0].split(b" ")[1:]
                for k, flag, body, cas in u[0][1]:
                    if k not in asked:
                        bad("unexpected-key", "get answered a key that was not asked for", cmdkind=cmd["kind"])
    return viol


def c12_oracle(c):
    a = c["acct"]
    names = ["SetData.Count", "SetData.Size", "GetData.Count", "GetData.Size", "FlushData.Count", "FlushData.Size",
             "AllocRL.Count", "AllocRL.Size", "tokens not returned"]
    res = []
    nz = [(names[i], a[i]) for i in range(9) if a[i] != 0]
    if nz:
        kinds = sorted({cmd["kind"] for cn in c["conns"] for cmd in cn["cmds"]})
        muts = sorted({cn["mut"] for cn in c["conns"] if cn["mut"]})
        res.append(dict(kind="residue", what="at quiescence: " + ", ".join("%s=%d" % x for x in nz), residue=dict(nz),
                        case=dict(i=c["i"], seed=c.get("seed")), cmdkinds=kinds, muts=muts))
    return res
