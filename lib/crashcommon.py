"""Crash suites (C06 kill in normal operation, C07 kill during GC): harness driver and spec oracles."""
import os
import zlib
from concurrent.futures import ThreadPoolExecutor

from lib import vlib


def gen_cases(ctx, mode, count, seed, maxsnaps=40, procs=6):
    per = max(1, (count + procs - 1) // procs)
    jobs = []
    for p in range(procs):
        n = min(per, count - p * per)
        if n > 0:
            jobs.append((p, n, os.path.join(ctx.work, "crash_%s_%d_%d.jsonl" % (mode, seed, p))))

    def run(j):
        p, n, out = j
        rc, o = vlib.harness(["crash", "-seed", seed * 1000 + p, "-count", n, "-out", out, mode, maxsnaps], timeout=3000)
        if rc != 0:
            raise RuntimeError("harness crash failed: " + o[-400:])
        cs = vlib.read_jsonl(out)
        for c in cs:
            c["seed"] = seed * 1000 + p
            c["i"] = p * 1000 + c["i"]
        return cs

    with ThreadPoolExecutor(max_workers=procs) as ex:
        res = list(ex.map(run, jobs))
    return [c for cs in res for c in cs]


def writes_of(c, upto):
    """accepted writes per key in history order up to op index [upto] inclusive: (opidx, kind, value bytes, flag)"""
    w = {}
    for i, o in enumerate(c["ops"][:upto + 1]):
        if o["op"] == "S" and o["res"] in ("STORED", ""):
            w.setdefault(o["k"], []).append((i, "set", bytes.fromhex(o.get("v", "")), o.get("flag", 0), o.get("ts", 0)))
        elif o["op"] == "D" and o["res"] in ("DELETED", ""):
            w.setdefault(o["k"], []).append((i, "del", b"", 0, 0))
    return w


def torn_tail(s):
    """does some data file end in a partially written record (or is it unaligned)?"""
    end = {}
    for r in s["recs"] or []:
        name = "%03d.data" % r["chunk"]
        e = r["off"] + (24 + len(r["k"]) // 2 + r["vlen"] + 255) // 256 * 256
        end[name] = max(end.get(name, 0), e)
    for name, sz in (s["sizes"] or {}).items():
        if sz % 256 != 0 or end.get(name, 0) < sz:
            return True
    return False


def hint_ahead(s):
    """some hint file records a data size beyond the durable size of its data file (finding F10)"""
    for name, ds in (s.get("hintds") or {}).items():
        if ds > (s["sizes"] or {}).get(name[:3] + ".data", 0):
            return True
    return False


def brief(c, s):
    return dict(hint_ahead=hint_ahead(s), i=c["i"], seed=c.get("seed"), mode=c["kind"], snap=s["n"], point=s["point"], opidx=s["opidx"], variant=s["variant"])


def c06_oracle(c):
    viol = []
    for s in c["snaps"] or []:
        def bad(kind, what):
            viol.append(dict(kind=kind, what=what, case=brief(c, s)))
        st = s["reopen"]["status"]
        if st == "CRASH":
            bad("reopen-crash", "restart after a kill at '%s' crashed" % s["point"])
            continue
        if st == "REFUSE":
            if not torn_tail(s):
                bad("refuse-without-torn-tail", "restart after a kill at '%s' refused to start although no data file ends in a partial record" % s["point"])
            continue
        w = writes_of(c, s["opidx"])
        # which writes are durable in this state?
        durable = {}
        for r in s["recs"] or []:
            for (i, kind, v, fl, ts) in w.get(r["k"], []):
                if kind == "set" and r["ver"] > 0 and r["ts"] == ts and r["vlen"] in (len(v), r["vlen"]) and \
                        ((r["flag"] & 0x10000) or r["vcrc"] == (zlib.crc32(v) & 0xffffffff)):
                    durable.setdefault(r["k"], set()).add(i)
                elif kind == "del" and r["ver"] < 0:
                    durable.setdefault(r["k"], set()).add(i)   # conservative: any tombstone of the key matches some delete
        for rk in s["reopen"]["keys"] or []:
            ws = w.get(rk["k"], [])
            d = durable.get(rk["k"], set())
            # newest durable *set* (tombstones cannot be matched to a specific delete; handled through acceptable)
            dsets = [i for (i, kind, v, fl, ts) in ws if kind == "set" and i in d]
            last = max(dsets) if dsets else None
            acceptable = [x for x in ws if last is None or x[0] >= last]
            if rk["g"] == "ERR" or rk["mr"] == "ERR":
                if last is not None:
                    bad("durable-not-served", "after a kill at '%s' a key with a durable value answers an error instead of a written value" % s["point"])
                else:
                    bad("get-error", "after a kill at '%s' a key answers an error" % s["point"])
            elif rk["g"] == "HIT":
                got = (bytes.fromhex(rk.get("v", "")), int(rk["f"]))
                allw = [(v, fl) for (i, kind, v, fl, ts) in ws if kind == "set"]
                if got not in allw:
                    bad("served-unwritten", "after a kill at '%s' a key serves a value that was never written for it (torn / foreign)" % s["point"])
                elif got not in [(v, fl) for (i, kind, v, fl, ts) in acceptable if kind == "set"]:
                    bad("served-older-than-durable", "after a kill at '%s' a key serves a value older than its last durable write" % s["point"])
            else:  # MISS
                if last is not None and not any(kind == "del" for (i, kind, v, fl, ts) in acceptable):
                    bad("durable-lost", "after a kill at '%s' a key with a durable value and no later delete reads as a miss" % s["point"])
    return viol


def c07_oracle(c):
    viol = []
    if c["gcat"] < 0:
        return viol
    w = writes_of(c, c["gcat"] - 1)
    for s in c["snaps"] or []:
        def bad(kind, what):
            viol.append(dict(kind=kind, what=what, case=brief(c, s)))
        st = s["reopen"]["status"]
        if st == "CRASH":
            bad("reopen-crash", "restart after a kill during GC at '%s' crashed" % s["point"])
            continue
        if st == "REFUSE":
            if not (s["variant"] and torn_tail(s)):
                bad("refuse-without-torn-tail", "restart after a kill during GC at '%s' refused to start" % s["point"])
            continue
        for rk in s["reopen"]["keys"] or []:
            ws = w.get(rk["k"], [])
            want = ws[-1] if ws else None
            if rk["g"] == "ERR":
                bad("gc-kill-error", "after a kill during GC at '%s' a key answers an error" % s["point"])
            elif want is None or want[1] == "del":
                if rk["g"] == "HIT":
                    bad("gc-kill-resurrected", "after a kill during GC at '%s' a deleted / never written key reads a value" % s["point"])
            else:
                if rk["g"] != "HIT":
                    bad("gc-kill-lost", "after a kill during GC at '%s' a live key reads as a miss" % s["point"])
                elif (bytes.fromhex(rk.get("v", "")), int(rk["f"])) != (want[2], want[3]):
                    older = (bytes.fromhex(rk.get("v", "")), int(rk["f"])) in [(v, fl) for (i, kind, v, fl, ts) in ws if kind == "set"]
                    bad("gc-kill-reverted" if older else "gc-kill-wrong-value",
                        "after a kill during GC at '%s' a key reads %s instead of its pre-GC value" % (
                            s["point"], "an OLDER value" if older else "a value never written"))
    return viol
