"""Scheduling suites (C04 stress, C05 repoint race, C17 double request, C02 close vs async flush)."""
import os

from lib import vlib, l2common


def run_sched(ctx, which, count, seed):
    out = os.path.join(ctx.work, "sched_%s_%d.jsonl" % (which, seed))
    rc, o = vlib.harness(["sched", "-seed", seed, "-count", count, "-out", out, which], timeout=1800)
    if rc != 0:
        raise RuntimeError("harness sched failed (a hang or crash under a forced schedule is itself a finding): " + o[:700] + " ... " + o[-500:])
    rs = vlib.read_jsonl(out)
    for r in rs:
        r["seed"] = seed
    return rs


def scenario_oracle(r):
    """judgement of one forced-schedule scenario"""
    viol = []
    o = r.get("obs") or {}

    def bad(kind, what):
        viol.append(dict(kind=kind, what=what, case=dict(i=r["i"], seed=r.get("seed"), scenario=r["scenario"], variant=r["variant"], obs=o)))

    if r["scenario"] == "repoint":
        if o.get("parked") != "yes":
            bad("schedule-infeasible", "the GC pass never reached the park point of variant %s" % r["variant"])
        elif r["variant"].startswith("set"):
            if o.get("client") == "STORED" and (o.get("get_after_gc") != "HIT:k2" or o.get("get_after_restart") != "HIT:k2"):
                bad("gc-lost-acked-write", "a set acknowledged during GC was replaced by the older value GC was relocating (reads %s / after restart %s)" % (
                    o.get("get_after_gc"), o.get("get_after_restart")))
        elif r["variant"].startswith("delete"):
            if o.get("client") == "DELETED" and (o.get("get_after_gc") != "MISS" or o.get("get_after_restart") != "MISS"):
                bad("gc-undid-delete", "a delete acknowledged during GC was undone by the repoint (reads %s)" % o.get("get_after_gc"))
        else:
            if o.get("get_after_gc") != "HIT:k1":
                bad("gc-changed-value", "GC alone changed what a key reads")
        if o.get("get_other") != "HIT:a1":
            bad("gc-changed-value", "GC changed an unrelated key")
    elif r["scenario"] == "double-gc":
        if int(o.get("passes_started", "0")) > 1 or (o.get("first_accepted") == "true" and o.get("second_accepted") == "true" and
                                                        r["variant"] != "back-to-back"):
            bad("two-gc-passes", "two GC requests for one bucket were both accepted / started (%s passes)" % o.get("passes_started"))
    elif r["scenario"] == "close-vs-async-flush":
        if o.get("reopen") != "OK" or any(o.get("get_" + k) != "HIT" for k in "abc"):
            bad("acked-write-lost-at-shutdown", "after a clean shutdown that raced the post-rotation flush: reopen %s, a=%s b=%s c=%s" % (
                o.get("reopen"), o.get("get_a"), o.get("get_b"), o.get("get_c")))
    return viol


def stress_oracle(r):
    """per-key register checks on a recorded concurrent history (sound: never flags a linearizable history)"""
    viol = []

    def bad(kind, what):
        viol.append(dict(kind=kind, what=what, case=dict(i=r["i"], seed=r.get("seed"), scenario="stress", variant=r["variant"])))

    hist = r.get("hist") or []
    bykey = {}
    for h in hist:
        bykey.setdefault(h["k"], []).append(h)
    for k, ops in bykey.items():
        sets = [h for h in ops if h["op"] == "S" and h["res"] == "true true"]
        dels = [h for h in ops if h["op"] == "D" and h["res"] == "true true"]
        writes = sets + dels
        byval = {h["v"]: h for h in sets}
        vers = {}
        for h in ops:
            if h["op"] == "G":
                if h["res"] == "ERR":
                    bad("read-error", "a concurrent get answered an error")
                elif h["res"] == "HIT":
                    w = byval.get(h["out"])
                    if w is None:
                        bad("read-unwritten", "a get returned bytes no client wrote for that key")
                        continue
                    if w["s"] > h["e"]:
                        bad("read-from-future", "a get returned a value whose write began after the get ended")
                    for w2 in writes:
                        if w["e"] < w2["s"] and w2["e"] < h["s"]:
                            bad("stale-read", "a get returned a value that a later acknowledged write had replaced before the get began")
                            break
                else:  # MISS
                    for w in sets:
                        if w["e"] < h["s"] and not any(d["e"] > w["s"] and d["s"] < h["e"] for d in dels):
                            bad("lost-write", "a get missed although a set had been acknowledged before it began and no delete could follow it")
                            break
            elif h["op"] == "M" and h["res"] == "META":
                f = h["out"].split()
                ver, vh, ln = int(f[0]), int(f[1]), int(f[3])
                if ver > 0:
                    cand = [w for w in sets if l2common.vhash(w["v"].encode()) == vh and len(w["v"]) == ln]
                    if len(cand) == 1:
                        w = cand[0]
                        if w["v"] in vers and vers[w["v"]] != ver:
                            bad("version-changed", "one write was observed with two different versions")
                        vers[w["v"]] = ver
        seen = {}
        for v, ver in vers.items():
            if ver in seen and seen[ver] != v:
                bad("duplicate-version", "two different accepted writes of one key were observed with the same version %d" % ver)
            seen[ver] = v
        for v1, ver1 in vers.items():
            for v2, ver2 in vers.items():
                if byval[v1]["e"] < byval[v2]["s"] and not ver1 < ver2:
                    # a delete in between restarts nothing: versions keep growing in absolute value
                    bad("version-order", "a write acknowledged before another was issued got the larger version (%d then %d)" % (ver1, ver2))
        fin = (r.get("final") or {}).get(k, "")
        if fin.startswith("HIT:"):
            v = fin.split(" | ")[0][4:]
            w = byval.get(v)
            if w is None:
                bad("final-unwritten", "after all clients stopped a key holds bytes nobody wrote")
            elif any(w["e"] < w2["s"] for w2 in writes):
                bad("final-not-latest", "after all clients stopped a key holds a write that was followed by a later acknowledged write")
        elif fin.startswith("MISS"):
            for w in sets:
                if not any(d["e"] > w["s"] for d in dels):
                    bad("final-lost", "after all clients stopped a key is missing although it was set and never deleted afterwards")
                    break
    return viol


# ----------------------------------------------------------------------------- split reads (C04) on the model
SR_HEADER = """From Coq Require Import NArith ZArith List String.
From GB Require Import Words Compress Bucket BucketOpen CheckL2 Sched CheckSched.
Import ListNotations. Open Scope N_scope. Open Scope string_scope.
"""


def sr_case(r):
    cf = r["cfg"]
    cfg = "(mkCfg %d %d %d %s %s false %s)" % (cf["filemax"], cf["bodymax"], cf["splitcap"], vlib.cbool(cf["checkvhash"]),
                                              vlib.cZ(cf["treedump"]), vlib.cZ(cf["nogcdays"]))
    evs = []
    for e in r["evs"]:
        o = e["o"]
        if e["ev"] == "A":
            evs.append("(CAtomic (%s), Some %s)" % (l2common.c_op(o), l2common.c_out(o)))
        elif e["ev"] == "B":
            evs.append("(CBegin %d %s %s, None)" % (e["c"], vlib.cstr(o["k"]), vlib.cbool(o["op"] == "M")))
        else:
            evs.append("(CEnd %d, Some %s)" % (e["c"], l2common.c_out(o)))
    return "(%d, mkL2 %s [] %s, %s)" % (r["i"], cfg, vlib.cZ(cf["now"]), vlib.clist(evs))


def sr_evaluate(ctx, rs, tag, per=10):
    """replay split-read traces on model/Sched.v; returns (mismatches, shards, shards_ok)"""
    shards = []
    for k in range(0, len(rs), per):
        text = (SR_HEADER + "Definition cases : list ccase := [\n" + ";\n".join(sr_case(r) for r in rs[k:k + per]) + "].\n"
                "Definition MM := Eval vm_compute in c_check cases.\nPrint MM.\n")
        shards.append(("%s_%03d" % (tag, k // per), text))
    results = vlib.run_coq_shards(os.path.join(ctx.work, "cases"), shards, timeout=3000)
    byi = {r["i"]: r for r in rs}
    mm, ok = [], 0
    for name, rc, out in results:
        a = vlib.parse_numlist(out, "MM")
        if rc != 0 or a is None:
            ctx.logf("shard", name, "failed rc", rc, out[-800:])
            mm.append(dict(shard=name, what="case file did not evaluate", out=out[-300:]))
            continue
        if not a:
            ok += 1
        for x in a:
            i, k = divmod(x, 10000)
            r = byi[i]
            e = r["evs"][k - 1] if k - 1 < len(r["evs"]) else {}
            o = dict(e.get("o") or {})
            for f in ("v",):
                if isinstance(o.get(f), str) and len(o[f]) > 60:
                    o[f] = o[f][:60] + "..."
            mm.append(dict(case=dict(i=i, seed=r.get("seed"), scenario="splitread", variant=r["variant"]), ev_index=k - 1,
                           ev=dict(ev=e.get("ev"), c=e.get("c"), o=o), differs="reply"))
    return mm, len(shards), ok


def splitread_oracle(r):
    """independent judgement: a read parked after its lookup must answer what the key held at the lookup
    (reference map replayed in python over the atomic events)"""
    viol = []

    def bad(kind, what, idx):
        viol.append(dict(kind=kind, what=what, case=dict(i=r["i"], seed=r.get("seed"), scenario="splitread", variant=r["variant"], ev_index=idx)))

    cur = {}          # key -> (value hex or None for deleted/absent)
    snap = {}
    for idx, e in enumerate(r["evs"]):
        o = e["o"]
        if e["ev"] == "A":
            if o["op"] == "S" and o["res"] == "STORED":
                cur[o["k"]] = o["v"]
            elif o["op"] == "D" and o["res"] == "DELETED":
                cur[o["k"]] = None
            elif o["op"] == "G":
                want = cur.get(o["k"])
                got = o["out"][0] if o["res"] == "HIT" else None
                if o["res"] not in ("HIT", "MISS"):
                    bad("read-error", "a get answered %s" % o["res"], idx)
                elif want != got:
                    bad("stale-read", "a get outside any race did not return the last stored value", idx)
        elif e["ev"] == "B":
            snap[e["c"]] = (o["k"], cur.get(o["k"]))
        else:
            k, want = snap.pop(e["c"])
            if o["op"] == "G":
                got = o["out"][0] if o["res"] == "HIT" else None
                if o["res"] not in ("HIT", "MISS"):
                    bad("read-error", "a delayed get answered %s" % o["res"], idx)
                elif got != want and got != cur.get(k):
                    # any value current at some point between lookup and response is linearizable; the
                    # implementation always answers the lookup-time value, the model comparison pins that down
                    bad("read-unwritten-or-stale", "a delayed get returned a value the key held neither at its lookup nor at its response", idx)
            elif o["res"] not in ("META", "MISS"):
                bad("read-error", "a delayed meta-get answered %s" % o["res"], idx)
    return viol


# ----------------------------------------------------------------------------- GC overtaken by a client write (C05)
GI_HEADER = """From Coq Require Import NArith ZArith List String.
From GB Require Import Words Compress Bucket BucketOpen CheckL2 CheckGcSplit.
Import ListNotations. Open Scope N_scope. Open Scope string_scope.
"""


def gi_case(r):
    g = r["gi"]
    cf = g["cfg"]
    cfg = "(mkCfg %d %d %d %s %s false %s)" % (cf["filemax"], cf["bodymax"], cf["splitcap"], vlib.cbool(cf["checkvhash"]),
                                              vlib.cZ(cf["treedump"]), vlib.cZ(cf["nogcdays"]))
    forced = vlib.clist(["(%s, %s)" % (vlib.cstr(k), h) for k, h in (cf.get("forced") or [])])

    def ops(l):
        return vlib.clist(["(%s, %s, None)" % (l2common.c_op(o), l2common.c_out(o)) for o in l])
    return "(mkGI %d (mkL2 %s %s %s) %s %d%%nat %d%%nat %s %d%%nat (%s) %s %s %s)" % (
        r["i"], cfg, forced, vlib.cZ(cf["now"]), ops(g["pre"]), g["a"], g["b"], vlib.cbool(g["merge"]), g["skip"],
        l2common.c_op(g["op"]), l2common.c_out(g["op"]), l2common.c_out(g["gc"]), ops(g["post"]))


def gi_evaluate(ctx, rs, tag, per=10):
    shards = []
    for k in range(0, len(rs), per):
        text = (GI_HEADER + "Definition cases : list gicase := [\n" + ";\n".join(gi_case(r) for r in rs[k:k + per]) + "].\n"
                "Definition MM := Eval vm_compute in gi_check cases.\nPrint MM.\n")
        shards.append(("%s_%03d" % (tag, k // per), text))
    results = vlib.run_coq_shards(os.path.join(ctx.work, "cases"), shards, timeout=3000)
    byi = {r["i"]: r for r in rs}
    mm, ok = [], 0
    for name, rc, out in results:
        a = vlib.parse_numlist(out, "MM")
        if rc != 0 or a is None:
            ctx.logf("shard", name, "failed rc", rc, out[-800:])
            mm.append(dict(shard=name, what="case file did not evaluate", out=out[-300:]))
            continue
        if not a:
            ok += 1
        for x in a:
            i, k = divmod(x, 10000)
            r = byi[i]
            where = ("pre-history op %d" % (k - 1001) if k < 2000 else "client reply" if k == 2001 else "GC statistics" if k == 2002
                     else "post op %d" % (k - 3001 if k < 3500 else k - 3501))
            mm.append(dict(case=dict(i=i, seed=r.get("seed"), scenario="gcintr", variant=r["variant"]), differs=where))
    return mm, len(shards), ok


def gcintr_oracle(r):
    """independent judgement: after the pass (and again after a restart) every key reads its last acknowledged write"""
    viol = []
    g = r["gi"]

    def bad(kind, what):
        viol.append(dict(kind=kind, what=what, case=dict(i=r["i"], seed=r.get("seed"), scenario="gcintr", variant=r["variant"])))

    cur = {}
    for o in g["pre"] + [g["op"]]:
        if o["op"] == "S" and o["res"] == "STORED":
            cur[o["k"]] = o["v"]
        elif o["op"] == "D" and o["res"] == "DELETED":
            cur[o["k"]] = None
    ck = g["op"].get("k")
    for o in g["post"]:
        if o["op"] == "G":
            want = cur.get(o["k"])
            got = o["out"][0] if o["res"] == "HIT" else None
            if o["res"] not in ("HIT", "MISS"):
                bad("read-error", "a get after the pass answered %s" % o["res"])
            elif want != got:
                if o["k"] == ck:
                    bad("gc-lost-acked-write", "the write acknowledged during GC was replaced: key reads %s" % ("a value" if got else "a miss"))
                else:
                    bad("gc-changed-value", "GC changed what an untouched key reads")
        elif o["op"] == "R" and o["res"] != "OK":
            bad("restart-refused", "the store did not reopen after the pass")
    return viol
