"""Shared code of the bucket-level suites (C01, C02, C03, C13, C17, C18): trace -> Coq case,
evaluation on the L2 model, and the reference-map oracle that judges the implementation."""
import os
import re

from lib import vlib

HEADER = """From Coq Require Import NArith ZArith List String.
From GB Require Import Words Compress Bucket BucketOpen CheckL2.
Import ListNotations. Open Scope N_scope. Open Scope string_scope.
"""

TS_NOW = 4294967295


def parse_idx(name):
    ck = int(name[:3])
    sp = name[4:7]
    return ck, (-1 if sp == "*" or not sp.lstrip("-").isdigit() else int(sp))


def c_dir(d):
    if d is None:
        return "None"
    data = vlib.clist(["(%d, %d, %s)" % (f["chunk"], max(f["size"], 0), vlib.clist(
        ["(%s, %s, %s)" % (r[0], vlib.cstr(r[1]), vlib.cZ(int(r[2]))) for r in (f["recs"] or [])])) for f in d["data"] if f["size"] != 0])   # an empty NNN.data (created or not by the racing post-rotation flush) is not compared
    hints = vlib.clist(["(%d, %d)" % parse_idx(n) for n in sorted(d["hints"])])
    trees = vlib.clist(["(%d, %s)" % (parse_idx(n)[0], vlib.cZ(parse_idx(n)[1])) for n in sorted(d["trees"])])
    merged = vlib.clist(["(%d, %s)" % (parse_idx(n)[0], vlib.cZ(parse_idx(n)[1])) for n in sorted(d["merged"])])
    ct = "collision.yaml" in d["other"]
    ng = "nextgc.txt" in d["other"]
    return "(Some (mkSnap %s %s %s %s %s %s))" % (data, hints, trees, merged, vlib.cbool(ct), vlib.cbool(ng))


def c_op(o):
    t = o["op"]
    if t == "S":
        z = o["z"]
        return "OSet %s %s %d %s %d (mkZ %s %d %d)" % (vlib.cstr(o["k"]), vlib.cstr(o.get("v", "")), o.get("flag", 0),
                                                        vlib.cZ(o.get("rev", 0)), o.get("ts", 0), vlib.cbool(z[0] == 1), z[1], z[2])
    if t == "D":
        return "ODel %s" % vlib.cstr(o["k"])
    if t == "I":
        return "OIncr %s %s" % (vlib.cstr(o["k"]), vlib.cZ(o.get("delta", 0)))
    if t == "G":
        return "OGet %s" % vlib.cstr(o["k"])
    if t == "M":
        return "OMeta %s" % vlib.cstr(o["k"])
    if t == "T":
        return "OTree %s" % vlib.cstr(o["k"])
    if t == "F":
        return "OFlush"
    if t == "H":
        return "OHintDump"
    if t == "R":
        return "ORestart (mkRm %s %s %s)" % (vlib.cbool(o.get("rmtrees", False)),
                                             vlib.clist(["(%d%%nat, %d%%nat)" % (a, b) for a, b in (o.get("rmhints") or [])]),
                                             vlib.cbool(o.get("rmmerged", False)))
    if t == "CR":
        return "OGcRange %s %s %s" % (vlib.cZ(o.get("a", 0)), vlib.cZ(o.get("b", 0)), vlib.cZ(o.get("days", 0)))
    if t == "C":
        return "OGc %d %d %s" % (o.get("a", 0), o.get("b", 0), vlib.cbool(o.get("merge", False)))
    if t == "X":
        return "ODir"
    raise ValueError(t)


def c_out(o):
    r = o["res"]
    t = o["op"]
    if r == "STORED":
        return "XStored"
    if r == "NOT_STORED":
        return "XNotStored"
    if r.startswith("ERR"):
        return "XErr"
    if r == "DELETED":
        return "XDeleted"
    if r == "NOT_FOUND":
        return "XNotFound"
    if r == "MISS":
        return "XMiss"
    if r == "HIT":
        return "(XHit %s %s)" % (vlib.cstr(o["out"][0]), o["out"][1])
    if r == "META":
        f = o["out"]
        return "(XMeta %s %s %s %s %s %s %s)" % (vlib.cZ(int(f[0])), f[1], f[2], f[3], f[4], f[5], f[6])
    if r == "TREE":
        f = o["out"]
        return "(XTree %s %s %s %s)" % (vlib.cZ(int(f[0])), f[1], f[2], f[3])
    if r == "OK" and t == "C":
        f = o["out"]
        return "(XGc %s %s %s %s)" % (f[0], f[1], f[2], f[3])
    if r == "OK":
        return "XOk"
    if r == "REFUSE":
        return "XRefuse"
    if r == "RANGE":
        return "(XRange %s %s)" % (o["out"][0], o["out"][1])
    if t == "I":
        return "(XNum %s)" % vlib.cZ(int(r))
    raise ValueError("result %r of op %s" % (r, t))


def coq_case(c):
    cf = c["cfg"]
    cfg = "(mkCfg %d %d %d %s %s false %s)" % (cf["filemax"], cf["bodymax"], cf["splitcap"], vlib.cbool(cf["checkvhash"]),
                                              vlib.cZ(cf["treedump"]), vlib.cZ(cf["nogcdays"]))
    forced = vlib.clist(["(%s, %s)" % (vlib.cstr(k), h) for k, h in (cf.get("forced") or [])])
    ops = vlib.clist(["(%s, %s, %s)" % (c_op(o), c_out(o), c_dir(o.get("dir"))) for o in c["ops"]])
    return "(%d, mkL2 %s %s %s, %s)" % (c["i"], cfg, forced, vlib.cZ(cf["now"]), ops)


def shard_text(cases):
    return (HEADER + "Definition cases : list l2case := [\n" + ";\n".join(coq_case(c) for c in cases) + "].\n"
            "Definition MM := Eval vm_compute in l2_check cases.\nPrint MM.\n")


def canon_trace(c):
    """implementation-side trace of a case without wall-clock fields (for run-to-run comparison)"""
    res = []
    for o in c["ops"]:
        d = o.get("dir")
        dd = None
        if d:
            dd = ([(f["chunk"], f["size"], [(r[0], r[1], r[2]) for r in (f["recs"] or [])]) for f in d["data"] if f["size"] != 0],
                  sorted(d["hints"]), sorted(d["trees"]), sorted(d["merged"]), sorted(d["other"]))
        out = o.get("out")
        if o["op"] == "M" and out:
            out = out[:4] + out[5:]   # drop the timestamp
        res.append((o["op"], o.get("k"), o["res"], out, dd))
    return res


def evaluate(ctx, cases, tag, per=10):
    """model correspondence with confirmation: a mismatching seeded case is regenerated once; it counts only if the
    implementation produces the same trace again (a model/code divergence is deterministic).  A case whose
    implementation trace is NOT reproducible is saved under out/ and reported in ctx.transient (evidence), and the
    regenerated trace is judged instead."""
    import json
    mm, ns, ok = evaluate_once(ctx, cases, tag, per)
    bad = sorted({m["case"]["i"] for m in mm if "case" in m})
    byi = {c["i"]: c for c in cases}
    redo = []
    for i in bad:
        c = byi[i]
        with open(os.path.join(ctx.work, "mismatch_case_%d.json" % i), "w") as f:
            json.dump(c, f)
        if "proc" not in c:
            continue
        out = os.path.join(ctx.work, "confirm_%d.jsonl" % i)
        rc, o = vlib.harness(["l2", "-seed", c["seed"], "-count", i % 1000 + 1, "-out", out, c.get("kind") or c.get("mode") or tag_mode(ctx)], timeout=3000)
        if rc != 0:
            continue
        again = [x for x in vlib.read_jsonl(out) if x["i"] == i % 1000]
        if not again:
            continue
        a = again[0]
        a["i"], a["seed"], a["proc"] = i, c["seed"], c["proc"]
        if canon_trace(a) != canon_trace(c):
            with open(os.path.join(ctx.work, "mismatch_case_%d_again.json" % i), "w") as f:
                json.dump(a, f)
            redo.append(a)
    if redo:
        mm2, ns2, ok2 = evaluate_once(ctx, redo, tag + "_confirm", per)
        still = {m["case"]["i"] for m in mm2 if "case" in m}
        tr = getattr(ctx, "transient", [])
        for a in redo:
            if a["i"] not in still:
                first = [m for m in mm if m.get("case", {}).get("i") == a["i"]][0]
                tr.append(dict(case=first["case"], op_index=first["op_index"], differs=first["differs"],
                               note="implementation trace not reproducible on regeneration; regenerated trace agrees with the model"))
                mm = [m for m in mm if m.get("case", {}).get("i") != a["i"]]
                ctx.logf("transient mismatch on case", a["i"], "traces saved in", ctx.work)
        ctx.transient = tr
    return mm, ns, ok


def tag_mode(ctx):
    return getattr(ctx, "l2mode", "plain")


def evaluate_once(ctx, cases, tag, per=10):
    shards = [("%s_%03d" % (tag, k // per), shard_text(cases[k:k + per])) for k in range(0, len(cases), per)]
    results = vlib.run_coq_shards(os.path.join(ctx.work, "cases"), shards, timeout=3000)
    byi = {c["i"]: c for c in cases}
    mm, ok = [], 0
    for name, rc, out in results:
        a = vlib.parse_numlist(out, "MM")
        if rc != 0 or a is None:
            ctx.logf("shard", name, "failed rc", rc, out[-800:])
            mm.append(dict(shard=name, what="case file did not evaluate", out=out[-300:]))
            continue
        if not a:
            ok += 1
        for x in a:
            i, k = divmod(x, 10000)
            dironly = k > 500
            idx = (k - 501) if dironly else (k - 1)
            c = byi[i]
            o = c["ops"][idx] if idx < len(c["ops"]) else {}
            mm.append(dict(case=dict(i=i, seed=c.get("seed"), mode=c.get("kind")), op_index=idx,
                           op={k2: (v if not isinstance(v, str) or len(v) < 60 else v[:60] + "...") for k2, v in o.items()
                               if k2 not in ("dir", "out")},
                           differs="directory after op" if dironly else "reply"))
    return mm, len(shards), ok


class ImplAbort(Exception):
    """the implementation under test ended the process on a generated history; .violation carries the history"""
    def __init__(self, violation):
        Exception.__init__(self, violation.get("what"))
        self.violation = violation


def capture_abort(ctx, mode, jobseed, n, first_output):
    import json
    trace = os.path.join(ctx.work, "abort_trace_%s_%d.jsonl" % (mode, jobseed))
    if os.path.exists(trace):
        os.remove(trace)
    out = os.path.join(ctx.work, "abort_%s_%d.jsonl" % (mode, jobseed))
    rc, o = vlib.harness(["l2", "-seed", jobseed, "-count", n, "-out", out, mode], timeout=3000, env={"VERIF_TRACE": trace})
    if rc == 0 or rc == 124 or not os.path.exists(trace):
        return None   # not reproducible: left to the caller (machinery error)
    case, ops = None, []
    with open(trace) as f:
        for line in f:
            try:
                x = json.loads(line)
            except ValueError:
                continue
            if "case" in x and "cfg" in x:
                case, ops = x, []
            elif not x.get("hidden"):
                ops.append(x)
    if case is None:
        return None
    last = [ln for ln in o.splitlines() if "FATAL" in ln or "panic" in ln or "fatal error" in ln]
    hist = os.path.join(ctx.work, "abort_history_%s_%d.json" % (mode, jobseed))
    with open(hist, "w") as f:
        json.dump(dict(i=case["case"], kind=mode, cfg=case["cfg"], ops=ops), f)
    return dict(kind="implementation-abort",
                what="the implementation ended the process during a generated %s history (harness l2 -seed %d, case %d, after %d operations): %s"
                     % (mode, jobseed, case["case"], len(ops), (last[-1] if last else o.strip().splitlines()[-1] if o.strip() else "")[:300]),
                case=dict(i=case["case"], seed=jobseed, mode=mode), history=hist, last_op=ops[-1] if ops else None)


def gen_cases(ctx, mode, count, seed, procs=8):
    """run the l2 suite in several harness processes (one store per process at a time)"""
    from concurrent.futures import ThreadPoolExecutor
    per = max(1, (count + procs - 1) // procs)
    jobs = []
    for p in range(procs):
        n = min(per, count - p * per)
        if n <= 0:
            break
        out = os.path.join(ctx.work, "l2_%s_%d_%d.jsonl" % (mode, seed, p))
        jobs.append((p, n, out))

    def run(j):
        p, n, out = j
        # about 1.2 s per history on an idle machine, 13 s observed beside two other check streams: the limit is generous,
        # a time-out is a machinery failure and not a verdict on the code
        rc, o = vlib.harness(["l2", "-seed", seed * 1000 + p, "-count", n, "-out", out, mode], timeout=max(3000, 45 * n))
        if rc != 0 and rc != 124:
            # the implementation ended the harness process in the middle of a history (panic, logger.Fatalf): run the
            # job again with VERIF_TRACE (every operation is logged before it runs) and report the history as the
            # failing input
            v = capture_abort(ctx, mode, seed * 1000 + p, n, o)
            if v:
                raise ImplAbort(v)
        if rc != 0:
            raise RuntimeError("harness l2 failed: " + o[-400:])
        cs = vlib.read_jsonl(out)
        for c in cs:
            c["seed"] = seed * 1000 + p
            c["i"] = p * 1000 + c["i"]
            c["proc"] = p
        return cs

    with ThreadPoolExecutor(max_workers=procs) as ex:
        res = list(ex.map(run, jobs))
    return [c for cs in res for c in cs]


# ----------------------------------------------------------------------------- reference-map oracle
def fnv1a_signed(b):
    h = 0x811c9dc5
    for x in b:
        if x >= 128:
            x = x + 0xFFFFFF00
        h = ((h ^ x) * 0x01000193) & 0xFFFFFFFF
    return h


def vhash(v):
    n = len(v)
    h = (n * 97) & 0xFFFFFFFF
    if n <= 1024:
        h = (h + fnv1a_signed(v)) & 0xFFFFFFFF
    else:
        h = (h + fnv1a_signed(v[:512])) & 0xFFFFFFFF
        h = (h * 97) & 0xFFFFFFFF
        h = (h + fnv1a_signed(v[n - 512:])) & 0xFFFFFFFF
    return h & 0xFFFF


def go_atoi(b):
    try:
        s = b.decode("ascii")
    except UnicodeDecodeError:
        return None
    if not re.fullmatch(r"[+-]?[0-9]+", s):
        return None
    v = int(s)
    if v < -(1 << 63) or v >= (1 << 63):
        return None
    return v


def wrap64(z):
    return (z + (1 << 63)) % (1 << 64) - (1 << 63)


class Entry:
    __slots__ = ("val", "flag", "vers", "live", "dvers")

    def __init__(self, val, flag, vers, live):
        # vers: versions the index may report now; dvers: versions backed by a data record (what a rebuilt index reports) --
        # they differ only after a same-value explicit-revision set under check_vhash, which updates the tree alone
        self.val, self.flag, self.vers, self.live = val, flag, set(vers), live
        self.dvers = set(vers)


def refmap_oracle(c, collide=False):
    """Judges the implementation's replies against the reference map (DESIGN A.4).  Versions are tracked as a
    set of admissible values (a forgotten tombstone after restart/GC is allowed by the property)."""
    cf = c["cfg"]
    st = {}
    written = {}
    skip = set()
    viol = []
    after_rebuild = False

    def bad(kind, what, idx):
        o = c["ops"][idx]
        viol.append(dict(kind=kind, what=what, case=dict(i=c["i"], seed=c.get("seed"), mode=c.get("kind"), proc=c.get("proc")),
                         op_index=idx, op={k: (v if not isinstance(v, str) or len(v) < 60 else v[:60] + "...")
                                           for k, v in o.items() if k not in ("dir",)}))

    for idx, o in enumerate(c["ops"]):
        t = o["op"]
        k = o.get("k")
        e = st.get(k)
        if k in skip:
            continue
        if t == "S":
            v = bytes.fromhex(o.get("v", ""))
            rev = o.get("rev", 0)
            written.setdefault(k, []).append((v, o.get("flag", 0)))
            if o["res"] != "STORED":
                bad("set-status", "set of a valid key answered %s" % o["res"], idx)
                continue
            oldvs = e.vers if e else {0}
            if e and e.live and cf["checkvhash"] and vhash(v) == vhash(e.val):
                if rev != 0:
                    e.vers = set(e.vers) | {rev}   # tree-only version; data-backed one stays admissible
                continue
            acc = [(abs(ov) + 1 if rev == 0 else rev) for ov in oldvs if rev == 0 or rev > abs(ov)]
            if len(acc) == len(oldvs):
                st[k] = Entry(v, o.get("flag", 0), set(acc), True)
            elif acc:
                skip.add(k)            # outcome depends on a possibly forgotten tombstone: stop judging this key
            # else rejected: unchanged
        elif t == "D":
            if e and e.live:
                if o["res"] != "DELETED":
                    bad("delete-status", "delete of a live key answered %s" % o["res"], idx)
                    if collide:
                        continue      # not deleted: the key legitimately stays live
                st[k] = Entry(b"", 0, {-abs(ov) - 1 for ov in e.vers}, False)
            else:
                if o["res"] != "NOT_FOUND":
                    bad("delete-status", "delete of an absent/deleted key answered %s" % o["res"], idx)
        elif t == "I":
            d = o.get("delta", 0)
            got = int(o["res"])
            if e and e.live:
                a = go_atoi(e.val)
                if len(e.val) > 22 or e.flag != 0x204 or a is None:
                    want = 0
                else:
                    want = wrap64(a + d)
                    st[k] = Entry(str(want).encode(), 0x204, {ov + 1 for ov in e.vers}, True)
            else:
                want = d
                st[k] = Entry(str(d).encode(), 0x204, {1}, True)
            if got != want:
                bad("incr-value", "incr answered %d, reference %d" % (got, want), idx)
        elif t == "G":
            if e and e.live:
                if o["res"] != "HIT":
                    bad("get-miss" if o["res"] == "MISS" else "get-error",
                        "get of a live key answered %s%s" % (o["res"], " (after restart/GC)" if after_rebuild else ""), idx)
                elif bytes.fromhex(o["out"][0]) != e.val or int(o["out"][1]) != e.flag:
                    got = (bytes.fromhex(o["out"][0]), int(o["out"][1]))
                    if got in written.get(k, []):
                        bad("get-stale-own-value", "get returned an OLDER value of the same key, not the last accepted write", idx)
                    elif any(got in vs for k2, vs in written.items() if k2 != k):
                        bad("get-alias", "get returned ANOTHER key's value", idx)
                    else:
                        bad("get-wrong-value", "get returned bytes/flags that were never written", idx)
            else:
                if o["res"] == "HIT":
                    got = (bytes.fromhex(o["out"][0]), int(o["out"][1]))
                    grouped = k in {f[0] for f in (c["cfg"].get("forced") or [])}
                    if collide and grouped and got in written.get(k, []):
                        # a key of a forced same-hash group reads an OLDER write of itself although its last write was
                        # a delete: the stale collision-table position of finding F15, with a delete as the newer write
                        bad("get-stale-own-value", "get of a deleted key of a same-hash group returned an OLDER value of the same key", idx)
                    else:
                        bad("get-resurrected", "get of a deleted/never written key returned a value", idx)
                elif o["res"] != "MISS":
                    bad("get-error", "get of an absent key answered %s" % o["res"], idx)
        elif t == "M":
            if o["res"] == "META":
                f = o["out"]
                ver, vh, fl, ln = int(f[0]), int(f[1]), int(f[2]), int(f[3])
                if not e:
                    bad("meta-phantom", "meta of a never written key answered an entry", idx)
                elif e.live:
                    if ver not in e.vers and not collide:
                        bad("meta-version", "version %d of a live key is not in the admissible set %s" % (ver, sorted(e.vers)), idx)
                    elif ver <= 0:
                        bad("meta-version", "live key reported with non-positive version %d" % ver, idx)
                    else:
                        if ver in e.vers:
                            e.vers = {ver}
                            if ver in e.dvers:
                                e.dvers = {ver}
                    if (vh, fl, ln) != (vhash(e.val), e.flag, len(e.val)):
                        bad("meta-fields", "meta value-hash/flags/length differ from the last accepted write", idx)
                else:
                    if ver > 0:
                        bad("meta-resurrected", "deleted key reported live with version %d" % ver, idx)
            elif o["res"] == "MISS":
                if e and e.live:
                    bad("get-miss", "meta of a live key answered MISS%s" % (" (after restart/GC)" if after_rebuild else ""), idx)
                elif e and not e.live:
                    e.vers = e.vers | {0}
            else:
                bad("get-error", "meta answered %s" % o["res"], idx)
        elif t == "T":
            # the index entry that replica synchronisation publishes: for a live key its value hash must be that of
            # the (uncompressed) value last written, whatever rebuilt the index
            if o["res"] == "TREE" and e and e.live and not collide:
                f = o["out"]
                if int(f[0]) > 0 and int(f[1]) != vhash(e.val):
                    bad("index-vhash", "the index holds value hash %s for a live key whose value hashes to %d%s" % (
                        f[1], vhash(e.val), " (after restart/GC)" if after_rebuild else ""), idx)
        elif t in ("R", "C"):
            after_rebuild = True
            for e2 in st.values():      # an index rebuilt from the data files reports the data-backed version again
                e2.vers = set(e2.vers) | set(e2.dvers)
            if t == "R" and o["res"] != "OK":
                bad("restart-refused", "clean restart refused to open", idx)
                break
            for e2 in st.values():
                if not e2.live:
                    e2.vers = set(e2.vers) | {0}     # tombstone may be forgotten
    return viol


def run_script(ctx, path, idx=900000):
    """run one scripted history (corpus / known finding) on the implementation"""
    import json
    out = os.path.join(ctx.work, "script_%d.jsonl" % idx)
    rc, o = vlib.harness(["l2script", "-out", out, path], timeout=600)
    if rc != 0:
        raise RuntimeError("harness l2script failed on %s: %s" % (path, o[-300:]))
    c = vlib.read_jsonl(out)[0]
    c["i"] = idx
    c["seed"] = 0
    c["script"] = os.path.relpath(path, vlib.VERIF)
    return c


def corpus_cases(ctx, pid):
    d = os.path.join(vlib.VERIF, "corpus", pid)
    res = []
    if os.path.isdir(d):
        for n, fn in enumerate(sorted(os.listdir(d))):
            if fn.endswith(".json"):
                res.append(run_script(ctx, os.path.join(d, fn), 900000 + n))
    return res
