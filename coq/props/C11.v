(* C11 -- protocol: one well-formed reply per command, binary-safe, never wedged.
   Property theorems only; proofs live in proofs/ProtoProofs.v. *)
From Coq Require Import NArith ZArith List Bool String.
From GB Require Import Consts Words Bucket Proto CheckC11 ProtoProofs.
Import ListNotations.
Open Scope N_scope.

(* never wedged: for EVERY byte stream and EVERY storage behaviour, a ServeOnce that keeps the connection
   open consumes at least one byte, so the serve loop terminates; giving it more fuel than the stream
   has bytes changes nothing *)
Theorem C11_serve_progress : forall St st_get st_set st_incr st_delete st_process ver pc st s a fresh st1 rest out a1 fresh',
  serve_once St st_get st_set st_incr st_delete st_process ver pc st s a fresh = (st1, rest, out, false, a1, fresh') ->
  (List.length rest < List.length s)%nat.
Proof. exact serve_once_progress. Qed.
Print Assumptions C11_serve_progress.

Theorem C11_serve_terminates : forall St st_get st_set st_incr st_delete st_process ver fuel pc st s a fresh k,
  (List.length s < fuel)%nat ->
  serve_loop St st_get st_set st_incr st_delete st_process ver fuel pc st s a fresh =
  serve_loop St st_get st_set st_incr st_delete st_process ver (fuel + k) pc st s a fresh.
Proof. exact serve_fuel_enough. Qed.
Print Assumptions C11_serve_terminates.

(* binary safety: whatever bytes a value consists of (CR, LF, NUL, "END", ...), a set whose header announces
   its length is parsed with exactly those bytes as body and exactly the following bytes left over *)
Theorem C11_set_binary_safe : forall pc a line w key ftok etok ltok flag expt (body rest : bytes),
  (forall c, In c (removelast line) -> c <> lf) -> last line 0 = lf -> ends_crlf line = true ->
  split_keys line = [w; key; ftok; etok; ltok] ->
  verb_of w = VSetLike w -> beq w s_cas = false ->
  atoi ftok = Some flag -> atoi etok = Some expt -> atoi ltok = Some (Z.of_N (lenN body)) ->
  lenN body <= p_bodymax pc -> lenN body < 4294967296 ->
  exists q, read_request pc (line ++ body ++ crlf ++ rest) a = (inl q, q, rest, add_set (add_tok a 1) 1 (Z.of_N (lenN body))) /\
            q_body q = body /\ q_keys q = [key] /\ q_flag q = flag /\ q_exptime q = expt /\ q_noreply q = false.
Proof. exact read_set_binary_safe. Qed.
Print Assumptions C11_set_binary_safe.

(* the hypotheses are satisfiable: a concrete header, a value full of protocol text *)
Example C11_binary_safe_example :
  let line := unhex "736574206b20352030203131200d0a" in    (* "set k 5 0 11 \r\n" *)
  let body := unhex "454e440d0a00530d0a0d0a" in             (* "END\r\n\0S\r\n\r\n" *)
  fst (fst (fst (read_request (mkP 250 1000 4096 16) (line ++ body ++ crlf ++ unhex "67657420") acct0)))
  = inl (mkReq (VSetLike s_set) s_set [[107]] 5 0 0 body false true).
Proof. vm_compute. reflexivity. Qed.

(* the one-reply clause is REFUTED for the code as it stands (finding F5): a directory key longer than 16
   digits panics in path parsing; the panic is recovered and nothing is written for that command *)
Theorem C11_dir17_refuted :
  let stream := unhex "676574204061616161616161616161616161616161610d0a76657273696f6e0d0a" in   (* get @a*17, version *)
  snd (fst (rm_serve (mkP 250 1000 4096 16) [] stream acct0)) = unhex "56455253494f4e20322e312e302e31380d0a".
Proof. vm_compute. reflexivity. Qed.
Print Assumptions C11_dir17_refuted.
