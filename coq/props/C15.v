(* C15 -- keys are routed to exactly one bucket by the top hash digits.
   Property theorems only; proofs live in proofs/KeyPathProofs.v. *)
From Coq Require Import NArith ZArith List Bool String.
From GB Require Import Consts Words Hash HashProofs KeyPath KeyPathProofs.
Import ListNotations.
Open Scope N_scope.

(* for every 64-bit hash: the bucket is named by its leading 0 / 1 / 2 hex digits *)
Theorem C15_bucket_is_top_digits : forall h, h < 18446744073709551616 ->
  bucket_id 0 h = 0 /\ bucket_id 1 h = h / 2 ^ 60 /\ bucket_id 2 h = h / 2 ^ 56 /\
  bucket_id 1 h < 16 /\ bucket_id 2 h < 256.
Proof.
  intros h H. split; [apply bucket_is_top_digits0|]. split; [apply bucket_is_top_digits1, H|].
  split; [apply bucket_is_top_digits2, H|]. split; [apply bucket_id_lt1, H|apply bucket_id_lt2, H].
Qed.
Print Assumptions C15_bucket_is_top_digits.

(* ... in particular for the key hash of every key (it is < 2^64 by C16) *)
Theorem C15_key_bucket : forall key,
  bucket_id 1 (keyhash key) = keyhash key / 2 ^ 60 /\ bucket_id 2 (keyhash key) = keyhash key / 2 ^ 56.
Proof.
  intros key. pose proof (keyhash_lt key) as H.
  split; [apply bucket_is_top_digits1, H|apply bucket_is_top_digits2, H].
Qed.
Print Assumptions C15_key_bucket.

Theorem C15_bucket_dir_injective : forall nb b1 b2 d,
  (nb = 16 \/ nb = 256) -> b1 < nb -> b2 < nb ->
  bucket_dir nb b1 = Some d -> bucket_dir nb b2 = Some d -> b1 = b2.
Proof. exact bucket_dir_injective. Qed.
Print Assumptions C15_bucket_dir_injective.

Theorem C15_depths : tree_depth 1 = 0%nat /\ tree_depth 16 = 1%nat /\ tree_depth 256 = 2%nat.
Proof. exact tree_depth_values. Qed.

Example C15_example : bucket_id 2 (keyhash (unhex "74657374")) = 0xaf /\ bucket_dir 256 0xaf = Some (unhex "612f66").
Proof. vm_compute. split; reflexivity. Qed.
