(* C09 -- data records round-trip, stay 256-aligned, corruption is detected.
   Property theorems only; proofs live in proofs/RecordProofs.v and proofs/RecordResync.v. *)
From Coq Require Import NArith ZArith List Bool String.
From GB Require Import Consts Words Hash Record RecordProofs RecordResync CheckC09.
Import ListNotations.
Open Scope N_scope.

(* layout: every record occupies a whole number of 256-byte blocks, exactly ceil((24+k+v)/256) of them *)
Theorem C09_encode_len : forall c r, valid_rec c r ->
  lenN (encode r) = rsize r /\ rsize r mod 256 = 0 /\
  rsize r = 256 * ((24 + lenN (rkey r) + lenN (rval r) + 255) / 256) /\ 256 <= rsize r.
Proof. exact encode_len. Qed.
Print Assumptions C09_encode_len.

(* read back by position, whatever follows the record in the file *)
Theorem C09_read_at_encode : forall c r post, valid_rec c r -> read_at c (encode r ++ post) = RdOK r.
Proof. exact read_at_encode. Qed.
Print Assumptions C09_read_at_encode.

(* read back by sequential scan: any number of records, each with its offset, no error, nothing skipped *)
Theorem C09_scan_clean : forall c rs, Forall (valid_rec c) rs ->
  scan_file c (List.concat (map encode rs)) 0 = (with_offsets rs 0, ScanOK).
Proof. exact scan_file_clean. Qed.
Print Assumptions C09_scan_clean.

(* nothing is ever returned by a positional read without the size limits and the checksum over
   exactly the returned fields having been verified against the stored CRC *)
Theorem C09_read_at_sound : forall c s r, read_at c s = RdOK r ->
  exists h, decode_header s = Some h /\ hdr_crc_ok h (rkey r) (rval r) = true /\
            valid_ksz c (h_ksz h) = true /\ valid_vsz c (h_vsz h) = true /\
            rflag r = h_flag h /\ rver r = h_ver h /\ rts r = h_ts h /\
            rkey r ++ rval r = takeN (h_ksz h + h_vsz h) (dropN rec_header_size s) /\
            lenN (rkey r ++ rval r) = h_ksz h + h_vsz h.
Proof. exact read_at_sound. Qed.
Print Assumptions C09_read_at_sound.

(* RESYNCHRONISATION: a file made of intact records rs1, a damaged region of n >= 1 whole 256-byte blocks, and intact
   records rs2.  If no block of the damaged region parses as a record (damage is detected at every block: C09_read_at_sound
   says what a successful parse would need) and the FIRST damaged header fails in a contained way -- key size or value
   size out of range, or checksum mismatch with sizes that stay inside the file (not EBody: a size field claiming an
   extent past the end of the file, which is finding F2 below) -- then the sequential scan yields every record of rs1,
   skips exactly the damaged region, and yields EVERY record of rs2 at its true offset (the first one carrying the
   number of skipped bytes), ending without error.  For ALL record lists, ALL damaged contents, ALL n. *)
Theorem C09_scan_resyncs : forall c rs1 bad rs2 n e0,
  Forall (valid_rec c) rs1 -> Forall (valid_rec c) rs2 -> (1 <= n)%nat -> lenN bad = 256 * N.of_nat n ->
  let s := bad ++ List.concat (map encode rs2) in
  read_at c s = RdErr e0 -> contained e0 ->
  (forall i, (i < n)%nat -> exists e, read_at c (dropN (256 * N.of_nat i) s) = RdErr e) ->
  scan_file c (List.concat (map encode rs1) ++ s) 0 = (with_offsets rs1 0 ++ after_damage rs2 (rsum rs1) (256 * N.of_nat n), ScanOK).
Proof. exact scan_file_resync. Qed.
Print Assumptions C09_scan_resyncs.

(* The scan clause of the property ("still yields every intact record after the damage") is
   REFUTED for the code as it stands (finding F2): a damaged value-size field that stays within
   the size limit but claims an extent past the end of the file makes the scan stop with an
   error; the intact records behind it are never yielded. *)
Definition f2_recs : list rec :=
  map (fun i => mkRec [107; 101; 121; 48 + i] [118; 97; 108; 48 + i] 0 1%Z 0) [0; 1; 2; 3; 4].
Definition f2_cfg := mkRcfg 250 52428800.
Definition f2_file : bytes :=
  damage (List.concat (map encode f2_recs)) [(256 + 20, 0); (256 + 21, 0); (256 + 22, 16); (256 + 23, 0)] (-1)%Z.

Theorem C09_scan_huge_vsz_refuted :
  Forall (valid_rec f2_cfg) f2_recs /\
  (* records 2..4 are intact in the damaged file and individually readable ... *)
  (forall i, In i [2; 3; 4]%nat ->
     read_at_off f2_cfg f2_file (256 * N.of_nat i) = RdOK (nth i f2_recs (mkRec [] [] 0 0%Z 0))) /\
  (* ... but the scan yields only record 0 and ends in an error *)
  scan_file f2_cfg f2_file 0 = ([(0, nth 0 f2_recs (mkRec [] [] 0 0%Z 0), 0)], ScanErr).
Proof.
  split; [|split].
  - repeat constructor; vm_compute; intuition discriminate.
  - intros i [<-|[<-|[<-|[]]]]; vm_compute; reflexivity.
  - vm_compute. reflexivity.
Qed.
Print Assumptions C09_scan_huge_vsz_refuted.

(* non-vacuity: valid_rec is satisfiable by a multi-block record with extreme fields *)
Example C09_valid_rec_example :
  valid_rec (mkRcfg 250 1048576) (mkRec (lcg_bytes 250 3) (lcg_bytes 700 5) 4294967295 (-2147483648)%Z 4294967295).
Proof. vm_compute. intuition discriminate. Qed.

(* non-vacuity of C09_scan_resyncs: record 1 of five gets one key byte flipped (checksum mismatch, contained); the scan
   yields records 0, 2, 3, 4 with their true offsets *)
Definition rs_bad : bytes := damage (encode (nth 1 f2_recs (mkRec [] [] 0 0%Z 0))) [(26, 255)] (-1)%Z.
Example C09_resync_example :
  lenN rs_bad = 256 * N.of_nat 1 /\
  read_at f2_cfg (rs_bad ++ List.concat (map encode (skipn 2 f2_recs))) = RdErr ECrc /\
  scan_file f2_cfg (List.concat (map encode (firstn 1 f2_recs)) ++ rs_bad ++ List.concat (map encode (skipn 2 f2_recs))) 0 =
    ([(0, nth 0 f2_recs (mkRec [] [] 0 0%Z 0), 0); (512, nth 2 f2_recs (mkRec [] [] 0 0%Z 0), 256);
      (768, nth 3 f2_recs (mkRec [] [] 0 0%Z 0), 0); (1024, nth 4 f2_recs (mkRec [] [] 0 0%Z 0), 0)], ScanOK).
Proof. split; [|split]; vm_compute; reflexivity. Qed.
