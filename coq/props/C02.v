(* C02 -- clean restart preserves everything; index files are rebuildable caches.
   Property theorems only; proofs live in proofs/Upd.v, Restart1.v .. Restart5.v. *)
From Coq Require Import NArith ZArith List Bool String.
From GB Require Import Consts Words Hash Compress Bucket BucketOpen CheckL2 RefMap Refine Restart2 Restart4 Restart5 GcX6.
Import ListNotations.
Open Scope N_scope.

(* What a restart may do to the reference map (Restart4.view): every LIVE key keeps its entry -- value,
   flags and version; a deleted key stays deleted (its tombstone is either remembered unchanged or
   forgotten); an absent key stays absent. *)

(* (1) ONE RESTART, from ANY state that satisfies the invariant of the refinement (every state reachable by
   client operations and earlier restarts does: (2)), for EVERY subset rm of index files removed between
   shutdown and start-up (tree dump, any set of per-chunk per-split hint files, merged hint): start-up is
   not refused, the invariant holds again, and the new reference map is a view of the old one.
   The model functions are bucket.close / bucket.open as replayed by the correspondence check. *)
Theorem C02_restart : forall (cf : cfg) (hf : bytes -> N) (K : list bytes),
  (forall k1 k2, In k1 K -> In k2 K -> hf k1 = hf k2 -> k1 = k2) -> 0 < c_splitcap cf ->
  forall b m rm, RInv2 hf K b m ->
  exists b' m', restart cf hf b rm = Opened b' /\ RInv2 hf K b' m' /\ view K m m'.
Proof. exact restart_x. Qed.
Print Assumptions C02_restart.

(* (2) WHOLE HISTORIES: for ALL configurations with check_vhash off (see note), ALL collision-free key sets
   and ALL histories of any length mixing client operations (set / delete / incr / get / meta-get / flush /
   hint dump) with clean restarts at ANY positions, each with its own arbitrary subset of index files
   removed: every reply equals the reference map's reply, where the map is replaced at each restart by some
   view of itself (live entries identical). *)
Theorem C02_history : forall (lc : l2cfg) (K : list bytes),
  (forall k1 k2, In k1 K -> In k2 K -> forced_hash (l_forced lc) k1 = forced_hash (l_forced lc) k2 -> k1 = k2) ->
  0 < c_splitcap (l_cfg lc) -> c_checkvhash (l_cfg lc) = false ->
  forall ops, Forall (op_valid K) ops -> spec_ok lc K [] ops (model_run lc bucket0 ops).
Proof.
  intros lc K Hinj Hcap Hcv ops Hv.
  exact (restart_history lc K Hinj Hcap Hcv ops bucket0 [] (rinv2_init lc K Hcap Hcv) Hv).
Qed.
Print Assumptions C02_history.

(* (2b) ... and with GC passes (any range, either merge flag) anywhere in the history as well: a restart after any number of
   passes still preserves every live entry, because a pass re-establishes the whole invariant (C03_gc_reestablishes_restart_invariant).
   [ready]: each GC request meets a state with its range below the head file, no record past DataFileMax and some hint
   file written since the store was created. *)
Theorem C02_history_with_gc : forall (lc : l2cfg) (K : list bytes),
  (forall k1 k2, In k1 K -> In k2 K -> forced_hash (l_forced lc) k1 = forced_hash (l_forced lc) k2 -> k1 = k2) ->
  0 < c_splitcap (l_cfg lc) -> c_checkvhash (l_cfg lc) = false ->
  forall ops, Forall (op_valid3 K) ops -> ready lc bucket0 ops -> spec_ok3 lc K [] ops (model_run lc bucket0 ops).
Proof.
  intros lc K Hinj Hcap Hcv ops Hv Hr.
  exact (full_history lc K Hinj Hcap Hcv ops bucket0 [] (rinv2_init lc K Hcap Hcv) (nlz_init lc) Hv Hr).
Qed.
Print Assumptions C02_history_with_gc.

(* the view really pins live keys down: a key that is live before a restart reads the same afterwards *)
Theorem C02_view_live : forall K m m' k e, view K m m' -> In k K -> s_get m k = Some e -> live e = true -> s_get m' k = Some e.
Proof. intros K m m' k e Hv Hk He Hl. specialize (Hv k Hk). rewrite He, Hl in Hv. exact Hv. Qed.
Print Assumptions C02_view_live.

Theorem C02_view_dead : forall K m m' k, view K m m' -> In k K ->
  snd (spec_step false m (SGet k)) = PMiss -> snd (spec_step false m' (SGet k)) = PMiss.
Proof.
  intros K m m' k Hv Hk. specialize (Hv k Hk). cbn [spec_step].
  destruct (s_get m k) as [e|] eqn:E.
  - destruct (live e) eqn:El; cbn [snd]; [discriminate|]. intros _. destruct Hv as [-> | ->]; [reflexivity|now rewrite El].
  - intros _. now rewrite Hv.
Qed.
Print Assumptions C02_view_dead.

(* non-vacuity: rotation (512-byte files), overwrite, delete, restart without tree and without two hint
   files, writes after the restart, second restart keeping everything *)
Definition ex2_lc : l2cfg := mkL2 (mkCfg 512 4096 2 false 3 false 1) [] 0.
Definition ex2_K : list bytes := [unhex "6b31"; unhex "6b32"; unhex "6b33"].
Definition ex2_z : zinfo := mkZ true 0 0.
Definition ex2_ops : list l2op :=
  [OSet "6b31" "6161" 0 0 1 ex2_z; OSet "6b32" "6262" 7 0 2 ex2_z; OSet "6b31" "6363" 0 0 3 ex2_z; OSet "6b33" "64" 0 0 4 ex2_z;
   ODel "6b32"; ORestart (mkRm true [(0, 0); (1, 0)]%nat true); OGet "6b31"; OGet "6b32"; OMeta "6b33";
   OSet "6b32" "6565" 0 0 5 ex2_z; ORestart rm_none; OGet "6b32"; OMeta "6b31"].

Example C02_nonvacuous :
  (forall k1 k2, In k1 ex2_K -> In k2 ex2_K -> forced_hash [] k1 = forced_hash [] k2 -> k1 = k2) /\
  Forall (op_valid ex2_K) ex2_ops /\
  model_run ex2_lc bucket0 ex2_ops =
    [PStored; PStored; PStored; PStored; PDeleted; POk; PHit (unhex "6363") 0; PMiss; PMeta 1 (vhash (unhex "64")) 0 1;
     PStored; POk; PHit (unhex "6565") 0; PMeta 2 (vhash (unhex "6363")) 0 2].
Proof.
  split; [|split].
  - intros k1 k2 H1 H2 He. unfold ex2_K in *. cbn [In] in H1, H2.
    destruct H1 as [<-|[<-|[<-|[]]]]; destruct H2 as [<-|[<-|[<-|[]]]]; try reflexivity; exfalso; apply N.eqb_eq in He; vm_compute in He; discriminate He.
  - unfold ex2_ops. repeat constructor; try (eexists; split; [reflexivity|]; cbn -[N.land]; repeat split; try reflexivity; try (cbn; tauto); try (intro H; discriminate H)); exact I.
  - vm_compute. reflexivity.
Qed.
