From GB Require Import Bucket BucketOpen Gc.
Example C02_placeholder : True. Proof. exact I. Qed.
