(* C17 -- GC only touches eligible files and runs at most once per bucket.
   Property theorems only; proofs live in proofs/GcRangeProofs.v, GcTouch.v, GcReqProofs.v. *)
From Coq Require Import NArith ZArith List Bool String.
From GB Require Import Consts Words Hash Compress Bucket BucketOpen Gc GcReq CheckL2 RefMap Refine GcRangeProofs GcTouch GcReqProofs GcView GcMerge.
Import ListNotations.
Open Scope N_scope.

(* (1) Range resolution, for ALL (start, end, days) including negatives and out-of-range ids and ALL bucket
   states: an accepted range [x, y] starts and ends at non-empty files, lies strictly below the head (the
   file receiving appends is never inside it), and the file that decided the end -- the first file above y
   holding data -- has a first record older than the age limit (no_gc_days when days < 0). *)
Theorem C17_range_sound : forall cf b s e days now x y,
  gc_check_range cf b s e days now = RangeOK x y ->
  (x <= y)%nat /\ (y < b_head b)%nat /\ 0 < k_size (chunk_at b x) /\ 0 < k_size (chunk_at b y) /\
  exists next ts, (y < next <= b_head b)%nat /\
    (forall c, (y < c < next)%nat -> k_size (chunk_at b c) = 0) /\
    first_ts (chunk_at b next) = Some ts /\
    ((if (days <? 0)%Z then c_nogcdays cf else days) * 86400 < now - Z.of_N ts)%Z.
Proof. exact range_sound. Qed.
Print Assumptions C17_range_sound.

(* (2) Pretend mode (range resolution only) changes nothing: the model step is the identity on the bucket;
   the correspondence check compares the directory inventory after it. *)
Theorem C17_pretend_changes_nothing : forall lc b s e days, fst (l2_step lc b (OGcRange s e days)) = Some b.
Proof. intros; reflexivity. Qed.
Print Assumptions C17_pretend_changes_nothing.

(* (3) Files touched by a pass over [begin, end], for ALL bucket states, ranges and merge flags: the head
   index is unchanged and every data chunk outside [dst0, max end dst_final] is bit-for-bit what it was
   (contents, size, write buffer), where dst0 <= begin is the destination picked up front.
   PARTIAL with respect to the property text: the text allows one earlier file; the code (and this
   theorem) allow the run dst0 .. begin-1 of earlier files, which are all empty above dst0 by the choice
   of dst0 -- GC moves on to them when dst0 fills up. *)
Theorem C17_touches_only_partial : forall cf hf b begin_ end_ merge,
  let b1 := before_bucket cf b merge in
  let dst0 := pick_dst cf b1 begin_ begin_ in
  let st := fold_left (gc_file cf hf begin_) (seq begin_ (S end_ - begin_)) (mkGC (begin_gc_writing b1 dst0 begin_) dst0 gc0) in
  (dst0 <= begin_)%nat /\ (dst0 <= gc_dst st)%nat /\
  untouched (fun c => (dst0 <= c <= Nat.max end_ (gc_dst st))%nat) b (fst (gc_pass cf hf b begin_ end_ merge)).
Proof. exact gc_pass_touches_only. Qed.
Print Assumptions C17_touches_only_partial.

(* (3b) ... and on every state the C01 relation and the GC precondition describe (every state reached by client
   operations, restarts and earlier passes), with or without hint merge, the last destination never lies above the range:
   NOTHING outside [dst0, end] is touched, dst0 <= begin, and the files strictly between dst0 and begin held no
   record before the pass -- so the only earlier file with data that the pass writes to is dst0 itself (appended
   to, old part unchanged: C18_pass_layout). *)
Theorem C17_touches_only_range : forall (cf : cfg) (hf : bytes -> N) (K : list bytes),
  (forall k1 k2, In k1 K -> In k2 K -> hf k1 = hf k2 -> k1 = k2) -> 0 < c_splitcap cf ->
  forall b m begin_ end_ merge,
  Rel hf K b m -> GPre cf hf K b -> (begin_ <= end_ < b_head b)%nat ->
  let dst0 := pick_dst cf (before_bucket cf b merge) begin_ begin_ in
  (dst0 <= begin_)%nat /\ (forall c, (dst0 < c < begin_)%nat -> k_disk (chunk_at b c) = []) /\
  untouched (fun c => (dst0 <= c <= end_)%nat) b (fst (gc_pass cf hf b begin_ end_ merge)).
Proof. exact gc_pass_touches_range_any. Qed.
Print Assumptions C17_touches_only_range.

(* (4) At most one pass per bucket, for ALL numbers of requests, ALL target buckets and ALL schedules of the
   request protocol (check under read lock / reserve / pass start / pass end as separate atomic steps). *)
Theorem C17_one_pass_per_bucket : forall bks sched bk,
  (count (running_on bk) (g_rq (grun true (ginit bks) sched)) <= 1)%nat.
Proof. exact one_pass_per_bucket. Qed.
Print Assumptions C17_one_pass_per_bucket.

(* the source carries the reservation the theorem is about (flag regenerated from store/hstore.go on every run) *)
Theorem C17_source_reserves : gc_request_reserves = true.
Proof. reflexivity. Qed.

(* without it the statement is false: the schedule below runs two passes on bucket 0 (finding F12, repaired) *)
Theorem C17_unreserved_refuted :
  count (running_on 0) (g_rq (grun false (ginit [0; 0]%nat) [0; 1; 0; 1; 0; 1]%nat)) = 2%nat.
Proof. exact two_passes_without_reservation. Qed.
Print Assumptions C17_unreserved_refuted.

(* non-vacuity of (1): a store with three files, the middle one emptied, accepts [0, 0] *)
Example C17_range_nonvacuous :
  let d := mkD (unhex "6b") (unhex "76") 0 1 100 1 in
  let k := mkChunk true [(0, d)] 256 [] 256 256 false in
  let b := set_head (set_chunks bucket0 [k; chunk0; k; chunk0]) 3 in
  gc_check_range (mkCfg 1024 512 4 false 3 false 0) b (-1) (-1) (-1) 100000 = RangeOK 0 0.
Proof. vm_compute. reflexivity. Qed.
