(* C17 -- GC only touches eligible files and runs at most once per bucket.
   Property theorems only; proofs live in proofs/GcRangeProofs.v, GcTouch.v, GcReqProofs.v. *)
From Coq Require Import NArith ZArith List Bool String.
From GB Require Import Consts Words Hash Compress Bucket BucketOpen Gc GcReq CheckL2 RefMap Refine GcRangeProofs GcTouch GcReqProofs CollideProofs GcView GcMerge.
Import ListNotations.
Open Scope N_scope.

(* (1) Range resolution, for ALL (start, end, days) including negatives and out-of-range ids and ALL bucket
   states: an accepted range [x, y] starts and ends at non-empty files, lies strictly below the head (the
   file receiving appends is never inside it), and the file that decided the end -- the first file above y
   holding data -- has a first record older than the age limit (no_gc_days when days < 0). *)
Theorem C17_range_sound : forall cf b s e days now x y,
  gc_check_range cf b s e days now = RangeOK x y ->
  (x <= y)%nat /\ (y < b_head b)%nat /\ 0 < k_size (chunk_at b x) /\ 0 < k_size (chunk_at b y) /\
  exists next ts, (y < next <= b_head b)%nat /\
    (forall c, (y < c < next)%nat -> k_size (chunk_at b c) = 0) /\
    first_ts (chunk_at b next) = Some ts /\
    ((if (days <? 0)%Z then c_nogcdays cf else days) * 86400 < now - Z.of_N ts)%Z.
Proof. exact range_sound. Qed.
Print Assumptions C17_range_sound.

(* (2) Pretend mode (range resolution only) changes nothing: the model step is the identity on the bucket;
   the correspondence check compares the directory inventory after it. *)
Theorem C17_pretend_changes_nothing : forall lc b s e days, fst (l2_step lc b (OGcRange s e days)) = Some b.
Proof. intros; reflexivity. Qed.
Print Assumptions C17_pretend_changes_nothing.

(* (3) Files touched by a pass over [begin, end], for ALL bucket states, ranges and merge flags: the head
   index is unchanged and every data chunk outside [dst0, max end dst_final] is bit-for-bit what it was
   (contents, size, write buffer), where dst0 <= begin is the destination picked up front.
   PARTIAL with respect to the property text: the text allows one earlier file; the code (and this
   theorem) allow the run dst0 .. begin-1 of earlier files, which are all empty above dst0 by the choice
   of dst0 -- GC moves on to them when dst0 fills up. *)
Theorem C17_touches_only_partial : forall cf hf b begin_ end_ merge,
  let b1 := before_bucket cf b merge in
  let dst0 := pick_dst cf b1 begin_ begin_ in
  let st := fold_left (gc_file cf hf begin_) (seq begin_ (S end_ - begin_)) (mkGC (begin_gc_writing b1 dst0 begin_) dst0 gc0) in
  (dst0 <= begin_)%nat /\ (dst0 <= gc_dst st)%nat /\
  untouched (fun c => (dst0 <= c <= Nat.max end_ (gc_dst st))%nat) b (fst (gc_pass cf hf b begin_ end_ merge)).
Proof. exact gc_pass_touches_only. Qed.
Print Assumptions C17_touches_only_partial.

(* (3b) ... and on every state the C01 relation and the GC precondition describe (every state reached by client
   operations, restarts and earlier passes), with or without hint merge, the last destination never lies above the range:
   NOTHING outside [dst0, end] is touched, dst0 <= begin, and the files strictly between dst0 and begin held no
   record before the pass -- so the only earlier file with data that the pass writes to is dst0 itself (appended
   to, old part unchanged: C18_pass_layout). *)
Theorem C17_touches_only_range : forall (cf : cfg) (hf : bytes -> N) (K : list bytes),
  (forall k1 k2, In k1 K -> In k2 K -> hf k1 = hf k2 -> k1 = k2) -> 0 < c_splitcap cf ->
  forall b m begin_ end_ merge,
  Rel hf K b m -> GPre cf hf K b -> (begin_ <= end_ < b_head b)%nat ->
  let dst0 := pick_dst cf (before_bucket cf b merge) begin_ begin_ in
  (dst0 <= begin_)%nat /\ (forall c, (dst0 < c < begin_)%nat -> k_disk (chunk_at b c) = []) /\
  untouched (fun c => (dst0 <= c <= end_)%nat) b (fst (gc_pass cf hf b begin_ end_ merge)).
Proof. exact gc_pass_touches_range_any. Qed.
Print Assumptions C17_touches_only_range.


(* (3c) REFUTED without the precondition "no record extends past DataFileMax" (clause 2 of GPre): known finding F24.
   The configuration accepts a value that alone is larger than a data file (DataFileMax 1024, BodyMax 2048).  The
   record of key "B" (1280 bytes) sits alone in file 1; a pass over [1,2] below the head file 3 cannot place it in
   any destination, not even the emptied file 1 (gc.go asks `recsize + writingHead > DataFileMax` also when
   writingHead = 0), so the destination runs ahead of the source: the pass appends to the file RECEIVING APPENDS (3)
   and creates files 4 and 5 above it.  The implementation does exactly this (corpus/C17/F24.json, same directory
   listing); a later client write that rotates into file 4 ends the process (findings/F24_abort.json). *)
Definition f24_lc : l2cfg := mkL2 (mkCfg 1024 2048 1048576 false 3 false 1) [] 0.
Definition f24_ops : list l2op := [OSet "50" "c45d6f5563562e4d9106e1ef3b0e56fbe39bff2b8250a79c26bb116da1ad239f317d4efa91888c652ffd4e49a6f56543f384737c2b4585a075c8699cce22f0b9a6805edeae7fbe111de6a0e0e52d1329a7d1c0fed1ca71909bbe964aac20088607d6ccc99588e6c3bea304cb09f6ec225676406de4445918392a1a780cfa195daa9e355d384828fe9c82e8ebc1d24fae29614e5c43e1ae9076457f339d798aec20606dc0f3aee94f175856617306778d9df37aa8877995f2900f7bb09670ba74c9aa262bb7e3e7b6e5f1d3791137530f9a23b8646db6483a6d81bd508ee593539148c308267bf7027ef8f84775b33139af5b7467af59d77682f3c31fefba9d65f07d54018f46257de7a1625700bdf3164152af8ed8603f76de9766f4746f89de4d763b8d390540b7d34801b6" 0 0 1 (mkZ true 309 309);
  OSet "42" "5fd2944684256a33dd9a4ba53177cf7a52fe3a10308dd5def03290badec8c7514a9830f0044808e21082245c92cc57bf3e803db6a781b4ab4a79434975d7c4d035da83cd199dcb69c13b8d4261eca6500d6f57a22a5631767464b3e17ce27bf79667ce001aa6464160cc546b91389bb3f180a32943a81ed2e9dce8a047499717c624c9c4d93551790d858d5b374f2140970b6728f82b76d05189d98dbc3e3b1b4cbf9150eef44a3bbe8610a85588a0ee54f0cb3093050c8526ef5f642f77460d530ae52dbe11614e390621030bcda1ba38bd50d50c3679d8051b87a9a64a2e5bdd6163688fc5951bc678cde6b5c2fecc43b384ee588c5550c93d96a822e2ab4ae93bc42ea52ef8dee04aba28d49f95bf22975513d8d214226b84a2b46852158235a19af65013ad0357849958f2cd892bf0657999a68030de63b8cc402f38773ec886767a4c017287560540cbd5b2da3ea3e6e58b289f20ff39897095c592b5991d98f90840894adb14185f96e24949cb0e18e0fcf3a0462cdf183bb9d1c7c94ffd420a3b36fdae80843f613a965e0aa2dba3184bfdea9d560e09bf849783e3912dfb98f95dd5c9d33cfa651320a089cbfb83b9fb70628b84da7af7dfbc682f4edef95515cd8995b3c00a90ac3804af191417f887b2e72678ed87776f26f3e72a7516ee5b24f48debbd2b095e99c16dfdb8356063089b7d71ed50fa09b6cd53c2cdee2a8dee88b049fdef8ca9a6e81b8696cb01863dd2d3dd283a88943c2b45de0ebbbd728356e949d4e4f69d58708f0695d68de20a67052856b1a80e9aa1b3a4e36b04816ffc7d39d7f646d281b682dc601a7ec1340259c3e2ab1b1ae057e47261df0d77a6fc5cb9e9c3ce3bb53c95027c8761c88797941b1c3d865bf2741875c2ee57e02cd09e2995bc98ddba41c8768d1cb8532983f67ac8db2b0d365e552b1fe0e1b62cb0e7dd76d42e75e696633f99dc2db690292a5145f90ff8c1d706e30ebc89ce40308f759f634a4abcebcd47c75d7696179f2b3f04f152b1ff449fbb8f8b80923ad6424094d714cc23880a686149514a45d1d7e62841d13c4381e8b0594de05a1846aa0529e36ab12d17cce251b2cdc160ab7edb8ee3961e3ff2739db6dbd1a1fa05c1aa701d35a6c12dd61e76800ceffa2b75d41a2b847d17eb46ef7f77af660251d3de868938455bb35d6c1205da2d5909e6e5b33ac1251f684c202aa07721c2c38d8f23c016c62b23df072837f45ab0858586cbe22de2710c080a84e801644bf82dfc7894aaf00e1826ffd217e4a3bcd990b37d1bba31a635f9fbb664655904736ac1802a3ef200c734a9b8faf6fd9c4e1fa793b5dbb68a801b637676469d3a45eaf73a62fc9f35a619db69a7e46cf4cce5eea9a41a57d40a9f8dcc24805865acbf4f2f265e7208ad51e9501ac4f2e7fea5b5eb654cc9209d37bcfc12d090d74098e43f3bc291079e1f531b1ceb161125d8946acc64e3876bebfcda1a6583d521de76e3be0fd9dd69c654ee7f74c992ea7fa1fc965b3593113104395306598f0bd08bba230bca" 0 0 2 (mkZ true 1109 1109);
  OSet "63" "33220fa6dd9532dc9e46" 0 0 3 (mkZ true 17 17);
  OSet "64" "76ffede1a48f26eba9e4cf4d8292d01ad441364ecdc5bdb7d0f1dfaeb531c1ae736856b30c4e6ffd2ad8a2208da10eeacec2fd417ed0d7a6b55357070a03fa7ab574be753fb847066751b5a82e14c5d30f8330fbcfcb1f12625611c02af728cdecf116deb50acabadfa9fa07cbcdfd81f60d3a4fb62025fb91fb615c1ecefc23f67730f02f34d041842ce318d07daa804672d6b9363a36d73428e0aa824eea7819abebaeddcc59b058b5af7d75d1bc33ff13559e7081ae1f9a74a0742bf8df736446b8096dd8c612fdd12c94d99ffe97ea52b04519f215408e3b4dd1f208e2965bdca67ff7b165a3ceb884f926162b20f32890478866cdd6a696569899d7efab4091f441f8d01792f947ed831946d9574a2aee7177fc7cff21fcef0e0eacac4f824fe90f19a0453b4e7a07e1" 0 0 4 (mkZ true 309 309);
  OFlush;
  ORestart (mkRm false [] false);
  OSet "65" "83a59357e55996c36b9fd1eb802b3c7941acbf85a52c8ebc32d049343aee57f901186b047a60eb8a0f988bcb551f1001a58fc7c140da44596ee1dda70460bcc1f10e082080e6f5454998a2aad27daa579ae2bdd45a8bc888d325e5cf26e0a194aa2adc760229d5d80e7d7aea14d102ce38c59d882220928432653cad514f017ac8506ff87db617b0a83abe044eda8064295b9dbf1c7725cd601ddbb376e31bcf8dab67fa39466c353d168c5c9a5c22db62a781002a251df67347e809fccac3d5e9fd3bcf72b44f8372c1e6ec172e3e857f0f4c2241e40f2bda200d84bd1cb5f85afa677f1f19ec92f64bb17eaa8b4a360cb5d9fcf780632dee07695f64f48e4df027a53bcddb08828ae9ecac99882c9936ca4f0c304a65c843f7899ac697f69468287bacd9f90df660f6527d" 0 0 5 (mkZ true 309 309);
  OFlush].

Theorem C17_oversize_record_refuted :
  exists b, run_b f24_lc bucket0 f24_ops = Some b /\ b_head b = 3%nat /\
    model_data b = [(0, 512, [(0, unhex "50", 1%Z)]); (1, 1280, [(0, unhex "42", 1%Z)]);
                    (2, 768, [(0, unhex "63", 1%Z); (256, unhex "64", 1%Z)]); (3, 512, [(0, unhex "65", 1%Z)])] /\
    model_data (fst (gc_pass (l_cfg f24_lc) (forced_hash []) b 1 2 false)) =
                   [(0, 512, [(0, unhex "50", 1%Z)]); (3, 768, [(0, unhex "65", 1%Z); (512, unhex "63", 1%Z)]);
                    (4, 512, [(0, unhex "64", 1%Z)]); (5, 1280, [(0, unhex "42", 1%Z)])].
Proof. eexists. split; [vm_compute; reflexivity|]. split; [vm_compute; reflexivity|]. split; vm_compute; reflexivity. Qed.
Print Assumptions C17_oversize_record_refuted.

(* (4) At most one pass per bucket, for ALL numbers of requests, ALL target buckets and ALL schedules of the
   request protocol (check under read lock / reserve / pass start / pass end as separate atomic steps). *)
Theorem C17_one_pass_per_bucket : forall bks sched bk,
  (count (running_on bk) (g_rq (grun true (ginit bks) sched)) <= 1)%nat.
Proof. exact one_pass_per_bucket. Qed.
Print Assumptions C17_one_pass_per_bucket.

(* the source carries the reservation the theorem is about (flag regenerated from store/hstore.go on every run) *)
Theorem C17_source_reserves : gc_request_reserves = true.
Proof. reflexivity. Qed.

(* without it the statement is false: the schedule below runs two passes on bucket 0 (finding F12, repaired) *)
Theorem C17_unreserved_refuted :
  count (running_on 0) (g_rq (grun false (ginit [0; 0]%nat) [0; 1; 0; 1; 0; 1]%nat)) = 2%nat.
Proof. exact two_passes_without_reservation. Qed.
Print Assumptions C17_unreserved_refuted.

(* non-vacuity of (1): a store with three files, the middle one emptied, accepts [0, 0] *)
Example C17_range_nonvacuous :
  let d := mkD (unhex "6b") (unhex "76") 0 1 100 1 in
  let k := mkChunk true [(0, d)] 256 [] 256 256 false in
  let b := set_head (set_chunks bucket0 [k; chunk0; k; chunk0]) 3 in
  gc_check_range (mkCfg 1024 512 4 false 3 false 0) b (-1) (-1) (-1) 100000 = RangeOK 0 0.
Proof. vm_compute. reflexivity. Qed.
