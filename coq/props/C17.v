From GB Require Import Bucket BucketOpen Gc.
Example C17_placeholder : True. Proof. exact I. Qed.
