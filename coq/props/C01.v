From GB Require Import Bucket.
Example C01_placeholder : True. Proof. exact I. Qed.
