(* C01 -- reads return the last value written (single-client model equivalence).
   Property theorems only; proofs live in proofs/Refine.v. *)
From Coq Require Import NArith ZArith List Bool String.
From GB Require Import Consts Words Hash Compress Bucket CheckL2 RefMap Refine SpecFacts.
Import ListNotations.
Open Scope N_scope.

(* For ALL configurations lc (data-file limit, hint split capacity, check_vhash, ...), ALL key sets K on
   which the key hash does not collide, and ALL histories of set / delete / incr / get / meta-get /
   forced flush / hint dump of any length over K (client flags without the server bit, revisions >= 0):
   the replies of the bucket model -- the very function the correspondence check replays against the
   implementation -- equal the replies of the plain reference map.  Rotation of data files happens
   inside the model's append and is covered wherever the limit puts it. *)
Theorem C01_refines : forall (lc : l2cfg) (K : list bytes) (ops : list l2op) (sops : list sop),
  (forall k1 k2, In k1 K -> In k2 K ->
     forced_hash (l_forced lc) k1 = forced_hash (l_forced lc) k2 -> k1 = k2) ->
  sops_of ops = Some sops ->
  ops_ok lc K [] sops ->
  model_run lc bucket0 ops = spec_run (c_checkvhash (l_cfg lc)) [] sops.
Proof.
  intros lc K ops sops Hinj Hs Hok.
  apply (run_refines lc K Hinj ops bucket0 [] sops); [apply rel_init|exact Hs|exact Hok].
Qed.
Print Assumptions C01_refines.

(* the reference map really is "last write wins": with check_vhash off a get after an accepted set
   returns exactly the bytes and flags just written, whatever the earlier history left in the map *)
Theorem C01_spec_get_after_set : forall m k v flag,
  snd (spec_step false (fst (spec_step false m (SSet k v flag 0))) (SGet k)) = PHit v flag.
Proof. exact spec_get_after_set. Qed.
Print Assumptions C01_spec_get_after_set.

Theorem C01_spec_miss_after_delete : forall chk m k,
  snd (spec_step chk (fst (spec_step chk m (SDel k))) (SGet k)) = PMiss.
Proof. exact spec_miss_after_delete. Qed.
Print Assumptions C01_spec_miss_after_delete.

(* non-vacuity: a concrete history with rotation (64-byte... 1 KB files), flush, overwrite, delete, incr
   meets every hypothesis of C01_refines for the REAL key hash *)
Definition ex_lc : l2cfg := mkL2 (mkCfg 1024 4096 3 true 3 false 1) [] 0.
Definition ex_K : list bytes := [unhex "6b31"; unhex "6b32"; unhex "6e"].
Definition ex_ops : list l2op :=
  [OSet "6b31" "6161" 0 0 1 (mkZ true 0 0); OSet "6b32" "62626262" 5 0 2 (mkZ true 0 0); OFlush;
   OSet "6b31" "6363" 1 7 3 (mkZ true 0 0); OGet "6b31"; ODel "6b32"; OGet "6b32"; OMeta "6b32";
   OIncr "6e" 41; OIncr "6e" 1; OGet "6e"; OHintDump; OSet "6b32" "6464" 0 0 4 (mkZ true 0 0); OGet "6b32"].

Example C01_nonvacuous :
  (forall k1 k2, In k1 ex_K -> In k2 ex_K -> forced_hash [] k1 = forced_hash [] k2 -> k1 = k2) /\
  (exists sops, sops_of ex_ops = Some sops /\ ops_ok ex_lc ex_K [] sops) /\
  model_run ex_lc bucket0 ex_ops =
    [PStored; PStored; POk; PStored; PHit (unhex "6363") 1; PDeleted; PMiss; PMeta (-2) 0 0 0;
     PNum 41; PNum 42; PHit (unhex "3432") 516; POk; PStored; PHit (unhex "6464") 0].
Proof.
  split; [|split].
  - intros k1 k2 H1 H2 He. unfold ex_K in *. cbn [In] in H1, H2.
    destruct H1 as [<-|[<-|[<-|[]]]]; destruct H2 as [<-|[<-|[<-|[]]]]; try reflexivity; exfalso; apply N.eqb_eq in He; vm_compute in He; discriminate He.
  - eexists. split; [reflexivity|]. cbn -[N.land].
    repeat match goal with |- _ /\ _ => split end; try exact I; try reflexivity; try (cbn; tauto); try (intro H; discriminate H).
  - vm_compute. reflexivity.
Qed.
