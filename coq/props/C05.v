From GB Require Import Bucket Gc.
Example C05_placeholder : True. Proof. exact I. Qed.
