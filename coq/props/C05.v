(* C05 -- GC running beside live traffic loses no acknowledged write.
   Property theorems only; proofs live in proofs/GcSplitProofs.v, GcIntrProofs.v. *)
From Coq Require Import NArith ZArith List Bool String.
From GB Require Import Consts Words Hash HintFile Compress Bucket BucketOpen Gc GcSplit CheckL2 CheckGcSplit
     Refine GcTouch LogMono GcSplitProofs GcIntrProofs.
Import ListNotations.
Open Scope N_scope.

(* The GC record step is split where a client can overtake it (model/GcSplit.v): phase 1 = newest-check and
   copy, phase 2 = tree repoint + hint / collision-table update performed on the bucket AS IT IS THEN.
   Run back to back the two phases are exactly the sequential GC step that the correspondence check replays. *)
Theorem C05_split_is_gc_step : forall cf hf begin_ src st e,
  gc_record cf hf begin_ src st e = gc_record_split cf hf begin_ src st e.
Proof. exact gc_record_split_eq. Qed.
Print Assumptions C05_split_is_gc_step.

Theorem C05_pass_with_no_insertion_is_gc_pass : forall lc b begin_ end_ merge,
  gc_pass_i lc b begin_ end_ merge None =
  (fst (gc_pass (l_cfg lc) (forced_hash (l_forced lc)) b begin_ end_ merge),
   snd (gc_pass (l_cfg lc) (forced_hash (l_forced lc)) b begin_ end_ merge), None, None).
Proof. exact gc_pass_i_none. Qed.
Print Assumptions C05_pass_with_no_insertion_is_gc_pass.

(* (1) For ALL bucket states, ALL relocations and ALL client writes of a key not involved in a hash collision
   that land between GC's copy and GC's index update -- GC never collects the head file (C17), the client's
   version is newer -- the lookup of the key after GC's update is the one the client's write installed
   (version, value hash, position), the client's record is still at that position, and GC's update touched
   no data file. *)
Theorem C05_write_during_gc_survives : forall cf b m r' vh',
  layout_ok b -> ct_has_hash (b_ctab b) (mv_h m) = false ->
  (p_chunk (mv_old m) < b_head b)%nat ->
  (Z.abs (d_ver (mv_rec m)) < Z.abs (d_ver r'))%Z ->
  let b' := bkt_set cf b (mv_h m) r' vh' in
  let b'' := gc_record_finish_gen true cf b' m in
  (exists p, bkt_get_mem b' (mv_h m) (d_key r') = Some (d_ver r', vh', p) /\ log_find b' p = Some r' /\
             bkt_get_mem b'' (mv_h m) (d_key r') = Some (d_ver r', vh', p) /\ log_find b'' p = Some r') /\
  dat b'' = dat b'.
Proof. exact write_during_gc_survives. Qed.
Print Assumptions C05_write_during_gc_survives.

(* (2) The general form, collision table included: whatever get's lookup of the key returns after the
   client's write -- table entry first, tree slot otherwise -- GC's update leaves it alone as soon as it
   no longer points at the relocated record and carries a newer version. *)
Theorem C05_finish_keeps_lookup : forall cf b m key ver vh p,
  bkt_get_mem b (mv_h m) key = Some (ver, vh, p) ->
  (ct_has_hash (b_ctab b) (mv_h m) = true -> ct_get (b_ctab b) (mv_h m) key <> None) ->
  p <> mv_old m -> (Z.abs (d_ver (mv_rec m)) < Z.abs ver)%Z ->
  bkt_get_mem (gc_record_finish_gen true cf b m) (mv_h m) key = Some (ver, vh, p) /\
  dat (gc_record_finish_gen true cf b m) = dat b.
Proof. exact finish_keeps_lookup. Qed.
Print Assumptions C05_finish_keeps_lookup.

(* its side condition is what every client write establishes *)
Theorem C05_write_enters_table : forall cf b h r vh,
  let b' := bkt_set cf b h r vh in
  ct_has_hash (b_ctab b') h = true -> ct_get (b_ctab b') h (d_key r) <> None.
Proof. exact bkt_set_covers. Qed.
Print Assumptions C05_write_enters_table.

(* the source carries both conditions these theorems are about (flags regenerated from store/gc.go and
   store/collision.go on every run) *)
Theorem C05_source_is_conditional : gc_repoint_conditional = true /\ gc_collision_update_versioned = true.
Proof. split; reflexivity. Qed.

(* the code before the repairs is refuted: F20 (unconditional repoint) and F22 (forced table update) *)
Theorem C05_unconditional_repoint_refuted :
  let b := tree_put bucket0 7 (mkSlot (mkPos 2 0) 2 0) in
  let m := mkMove 7 (mkD [107] [118] 0 1 0 1) (mkPos 0 256) (mkPos 0 0) 0 true in
  let cf := mkCfg 512 4096 16 false 3 false 1 in
  bkt_get_mem b 7 [107] = Some (2%Z, 0, mkPos 2 0) /\
  bkt_get_mem (gc_record_finish_gen false cf b m) 7 [107] = Some (2%Z, 0, mkPos 0 0) /\
  bkt_get_mem (gc_record_finish_gen true cf b m) 7 [107] = Some (2%Z, 0, mkPos 2 0).
Proof. exact unconditional_repoint_loses. Qed.
Print Assumptions C05_unconditional_repoint_refuted.

Theorem C05_forced_table_update_refuted :
  let newer := mkHI 7 2 0 2 0 [107] in
  let moved := mkHI 7 0 0 1 0 [107] in
  ct_get (ct_cas_gen false [newer] moved true) 7 [107] = Some moved /\
  ct_get (ct_cas_gen true [newer] moved true) 7 [107] = Some newer.
Proof. exact forced_table_update_loses. Qed.
Print Assumptions C05_forced_table_update_refuted.
