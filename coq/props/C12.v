(* C12 -- request tokens and buffer accounting return to zero at quiescence.
   Property theorems only; proofs live in proofs/ProtoProofs.v. *)
From Coq Require Import NArith ZArith List Bool String.
From GB Require Import Consts Words Bucket RefMap Proto CheckC11 ProtoProofs.
Import ListNotations.
Open Scope N_scope.

(* tokens: for EVERY byte stream (valid, malformed, cut off anywhere) and EVERY storage behaviour
   (including panics), every request token taken is back when the connection has been served *)
Theorem C12_tokens_returned : forall St st_get st_set st_incr st_delete st_process ver fuel pc st s a fresh,
  a_tokens_out (snd (serve_loop St st_get st_set st_incr st_delete st_process ver fuel pc st s a fresh)) = a_tokens_out a.
Proof. exact serve_tokens. Qed.
Print Assumptions C12_tokens_returned.

(* buffers: every command on which the storage client honours the hand-over contract ("clean") leaves the
   SetData and GetData counters exactly where they were before the command was read *)
Theorem C12_balance_partial : forall St st_get st_set st_incr st_delete ver,
  (forall st k st' body flag charged, st_get st k = (st', SGItem body flag charged) -> charged = negb (special k)) ->
  forall pc st q a,
  clean St st_get st_set st_incr pc st q = true ->
  same_buf (snd (process St st_get st_set st_incr st_delete ver pc st q (charged_by_read q a))) a.
Proof. exact process_balance. Qed.
Print Assumptions C12_balance_partial.

(* the unrestricted statement is REFUTED for the code as it stands (findings F6-F8): e.g. a set with a
   negative exptime never releases its buffer *)
Theorem C12_leaks_refuted :
  let stream := unhex "736574206b2030202d3520330d0a6162630d0a" in      (* "set k 0 -5 3\r\nabc\r\n" *)
  let a := snd (rm_serve (mkP 250 1000 4096 16) [] stream acct0) in
  a_set_c a = 1%Z /\ a_set_s a = 3%Z /\ a_tokens_out a = 0%Z.
Proof. vm_compute. repeat split; reflexivity. Qed.
Print Assumptions C12_leaks_refuted.

(* finding F23 (repaired by a fix: commit): GetMulti fetched a repeated key again; the earlier item, replaced in the map
   of found items, was never released.  The model is parameterised by Consts.getmulti_skips_duplicates, translated from
   gobeansdb/store.go; with the flag off "get k k" charges GetData twice and hands back one item, with the flag on (the
   tree as it stands) it charges once. *)
Theorem C12_repeated_key_refuted :
  let m := [(unhex "6b", mkE (unhex "616263") 0 1%Z)] in           (* k -> "abc" *)
  let keys := [unhex "6b"; unhex "6b"] in
  (let '(_, _, items, a) := get_many_gen RefMap.smap rm_get false m keys acct0 false [] in (a_get_c a, List.length items)) = (2%Z, 1%nat) /\
  (let '(_, _, items, a) := get_many_gen RefMap.smap rm_get true m keys acct0 false [] in (a_get_c a, List.length items)) = (1%Z, 1%nat).
Proof. vm_compute. split; reflexivity. Qed.
Print Assumptions C12_repeated_key_refuted.

Theorem C12_repeated_key_repaired_in_code : getmulti_skips_duplicates = true.
Proof. reflexivity. Qed.

(* non-vacuity: an ordinary session is clean end to end and balances to zero *)
Example C12_clean_session :
  let stream := unhex "736574206b2030203020330d0a6162630d0a676574206b0d0a696e6372206e20350d0a64656c657465206b0d0a676574206b206e0d0a" in
  snd (rm_serve (mkP 250 1000 4096 16) [] stream acct0) = acct0.
Proof. vm_compute. reflexivity. Qed.
