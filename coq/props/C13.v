From GB Require Import Bucket BucketOpen Gc.
Example C13_placeholder : True. Proof. exact I. Qed.
