(* C13 -- keys with equal 64-bit hashes never alias or lose each other.
   Property theorems only; proofs live in proofs/CollideProofs.v. *)
From Coq Require Import NArith ZArith List Bool String.
From GB Require Import Consts Words Hash HintFile Compress Bucket BucketOpen CheckL2 RefMap Refine LogMono CollideProofs.
Import ListNotations.
Open Scope N_scope.

(* (1) NEVER ALIAS, for ALL configurations, ALL assignments of key hashes (any groups of keys forced onto one
   hash), ALL histories of client operations of any length (set / delete / incr / get / meta-get / flush /
   hint dump / range resolution; restarts and GC passes are clause (3)): a get that hits returns bytes that
   an earlier set of THAT KEY wrote (or a counter value if the key was ever the target of an incr) -- never
   a value written under another key, however many keys share its hash. *)
Theorem C13_never_alias : forall lc ops b k v fl,
  forallb client_op ops = true -> run_b lc bucket0 ops = Some b ->
  snd (l2_step lc b (OGet k)) = MHit v fl ->
  exists o, In o ops /\ may_write o (unhex k) v.
Proof. exact never_alias_history. Qed.
Print Assumptions C13_never_alias.

(* the state-level form: in every state whose hint buffers are accurate a hit is a record of the requested key *)
Theorem C13_hit_is_record_of_key : forall hf b key v fl ver ts p,
  layout_ok b -> HintAcc b ->
  snd (bkt_get hf b key) = GHit v fl ver ts p ->
  exists r, log_find b p = Some r /\ d_key r = key /\ v = d_val r /\ fl = client_flag (d_flag r).
Proof. exact get_never_aliases. Qed.
Print Assumptions C13_hit_is_record_of_key.

(* (2) INDEPENDENCE is REFUTED for the code as it stands; each witness is a history over keys 'a','b','c' forced
   onto one hash, evaluated on the model the correspondence check validates and replayed on the
   implementation (corpus/C13/F*.json, known findings F14, F3, F15). *)
Definition c13_lc : l2cfg := mkL2 (mkCfg 1024 512 2 true 3 false 1) [("61", 77); ("62", 77); ("63", 77)]%string 0.
Definition c13_z : zinfo := mkZ true 0 0.

(* F14: deleting a never-written key that collides with a live key answers DELETED and creates an entry for it *)
Theorem C13_delete_absent_sibling_refuted :
  model_run c13_lc bucket0 [OSet "61" "6131" 0 0 1 c13_z; ODel "62"; OMeta "62"; OGet "61"] =
  [PStored; PDeleted; PMeta (-2) 0 0 0; PHit (unhex "6131") 0].
Proof. vm_compute. reflexivity. Qed.
Print Assumptions C13_delete_absent_sibling_refuted.

(* F3: set a; set b; delete b; restart with the tree rebuilt => a, never deleted, reads as a miss *)
Theorem C13_delete_sibling_rebuild_refuted :
  model_run c13_lc bucket0 [OSet "61" "6131" 0 0 1 c13_z; OSet "62" "6231" 0 0 2 c13_z; ODel "62";
                            ORestart (mkRm true [] false); OGet "61"] =
  [PStored; PStored; PDeleted; POk; PMiss].
Proof. vm_compute. reflexivity. Qed.
Print Assumptions C13_delete_sibling_rebuild_refuted.

(* F15: b is overwritten (b2) after a restart; after the next restart with the tree rebuilt b reads b1 again *)
Theorem C13_stale_after_restart_refuted :
  model_run c13_lc bucket0 [OSet "61" "6131" 0 0 1 c13_z; OSet "62" "6231" 0 0 2 c13_z; OGet "62"; OGet "63";
                            ORestart (mkRm false [] true); OSet "62" "6232" 0 0 3 c13_z; OSet "63" "6331" 0 0 4 c13_z;
                            OHintDump; ORestart (mkRm true [] false); OGet "62"] =
  [PStored; PStored; PHit (unhex "6231") 0; PMiss; POk; PStored; PStored; POk; POk; PHit (unhex "6231") 0].
Proof. vm_compute. reflexivity. Qed.
Print Assumptions C13_stale_after_restart_refuted.

(* non-vacuity of (1): colliding keys, detection of the collision, overwrite -- every get hits its own value *)
Example C13_nonvacuous :
  let ops := [OSet "61" "6131" 0 0 1 c13_z; OSet "62" "6231" 0 0 2 c13_z; OGet "61"; OSet "61" "6132" 0 0 3 c13_z; OFlush; OGet "62"] in
  forallb client_op ops = true /\
  (exists b, run_b c13_lc bucket0 ops = Some b /\ snd (l2_step c13_lc b (OGet "61")) = MHit (unhex "6132") 0) /\
  model_run c13_lc bucket0 ops = [PStored; PStored; PHit (unhex "6131") 0; PStored; POk; PHit (unhex "6231") 0].
Proof.
  cbv zeta. split; [reflexivity|]. split.
  - eexists. split; [vm_compute; reflexivity|]. vm_compute. reflexivity.
  - vm_compute. reflexivity.
Qed.
