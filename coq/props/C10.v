(* C10 -- server-side compression is invisible to clients.
   Property theorems only; proofs live in proofs/QlzProofs.v and proofs/Refine.v. *)
From Coq Require Import NArith ZArith List Bool String.
From GB Require Import Consts Words Hash Compress Qlz Bucket CheckL2 RefMap Refine QlzProofs.
Import ListNotations.
Open Scope N_scope.

(* Whatever the server decides (compress or not -- i.e. whatever the compressor reports), every reply of
   every history is the same: two traces that differ only in the compressor's answers (and timestamps)
   produce identical projected replies.  (Corollary of the refinement theorem of C01: the reference map
   does not know about compression.) *)
Theorem C10_decision_invisible : forall (lc : l2cfg) (K : list bytes) (ops ops' : list l2op) (sops : list sop),
  (forall k1 k2, In k1 K -> In k2 K -> forced_hash (l_forced lc) k1 = forced_hash (l_forced lc) k2 -> k1 = k2) ->
  sops_of ops = Some sops -> sops_of ops' = Some sops -> ops_ok lc K [] sops ->
  model_run lc bucket0 ops = model_run lc bucket0 ops'.
Proof.
  intros lc K ops ops' sops Hinj H1 H2 Hok.
  rewrite (run_refines lc K Hinj ops bucket0 [] sops (rel_init lc K) H1 Hok).
  rewrite (run_refines lc K Hinj ops' bucket0 [] sops (rel_init lc K) H2 Hok). reflexivity.
Qed.
Print Assumptions C10_decision_invisible.

(* the server-reserved flag bit never escapes: what a read hands out is the client's flag word *)
Theorem C10_server_flag_never_escapes : forall flag compressed,
  N.land flag flag_compress = 0 -> client_flag (stored_flag flag compressed) = flag.
Proof. exact client_flag_of_stored. Qed.
Print Assumptions C10_server_flag_never_escapes.

(* the decision rule: never for tombstones, client-compressed values or records of one block; and only
   when the probe compresses to at most 0.7 of its size and the content type is not excluded *)
Theorem C10_decision_rule : forall ksz vlen flag ver z,
  ((ver < 0)%Z -> compress_decide ksz vlen flag ver z = None) /\
  (N.land flag flag_client_compress <> 0 -> compress_decide ksz vlen flag ver z = None) /\
  (padded (sizes_header + ksz + vlen) <= compress_min_recsize -> compress_decide ksz vlen flag ver z = None) /\
  (forall n, compress_decide ksz vlen flag ver z = Some n ->
     10 * z_probe z <= compress_ratio_tenths * N.min vlen try_compress_size /\ z_sniff_ok z = true /\
     n = (if N.min vlen try_compress_size <? vlen then z_full z else z_probe z)).
Proof.
  intros. split; [apply never_compress_tombstone|]. split; [apply never_compress_client_compressed|].
  split; [apply never_compress_small|apply compress_needs_ratio].
Qed.
Print Assumptions C10_decision_rule.

(* the safe C entry point as built in this tree (QLZ_MEMORY_SAFE defined, stored-block length checked --
   both flags translated from the sources): for EVERY byte string it returns a buffer or an error and never
   reads or writes outside its buffers *)
Theorem C10_safe_entry_total : forall src, allbytes src = true -> qlz_safe_entry src <> DOob.
Proof. exact safe_entry_no_oob. Qed.
Print Assumptions C10_safe_entry_total.

(* the code before the two repairs is refuted (findings F9 and F9b): the stored-block form reads 1000 bytes out
   of a 9-byte source, and the unchecked compressed form reads past a 4-byte source *)
Theorem C10_unchecked_refuted :
  c_decompress_safe true false (unhex "0209000000e8030000") = DOob /\
  c_decompress_safe false true (unhex "01046400") = DOob.
Proof. split; vm_compute; reflexivity. Qed.
Print Assumptions C10_unchecked_refuted.

(* non-vacuity: a genuine level-3 stream (output of the C compressor for a 6-byte pattern x 12) decodes in the model *)
Example C10_decodes_real_stream :
  qlz_safe_entry (unhex "4d154840000080a2bc1aea0026831d03001aea0026")
  = DOk (unhex "a2bc1aea0026a2bc1aea0026a2bc1aea0026a2bc1aea0026a2bc1aea0026a2bc1aea0026a2bc1aea0026a2bc1aea0026a2bc1aea0026a2bc1aea0026a2bc1aea0026a2bc1aea0026").
Proof. vm_compute. reflexivity. Qed.

(* finding F19 (open): the Go compressor's stream for the 2-byte input db 45 has no 4 trailing literal bytes;
   the memory-safe decoder answers with an error *)
Example C10_go_tiny_stream_rejected : qlz_safe_entry (unhex "4f0f0000000200000000000080db45") = DErr.
Proof. vm_compute. reflexivity. Qed.
