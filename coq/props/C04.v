From GB Require Import Bucket Gc.
Example C04_placeholder : True. Proof. exact I. Qed.
