(* C04 -- concurrent clients see per-key linearizable writes and reads.
   Property theorems only; proofs live in proofs/SchedProofs.v, LogMono.v, SpecFacts.v. *)
From Coq Require Import NArith ZArith List Bool String.
From GB Require Import Consts Words Hash Compress Bucket CheckL2 RefMap Sched Refine SpecFacts LogMono SchedProofs.
Import ListNotations.
Open Scope N_scope.

(* Interleaving model (model/Sched.v): writers, flusher and hint dumper are atomic steps (they run under the
   bucket write lock / chunk lock / hint lock); a get or meta-get is TWO steps -- position lookup, then read
   by position -- with arbitrarily many steps of any other client, flushes, hint dumps and data-file
   rotations in between.  For ALL configurations, ALL collision-free key sets, ALL numbers of clients and
   ALL such interleavings of any length: the replies equal those of the concurrent reference
   specification in which every write takes effect atomically in schedule order and every read returns
   the reference map's answer AT ITS LOOKUP STEP -- a point between its invocation and its response.
   Hence every read returns a value some write stored, never older than the last write completed before
   the read began (that write precedes the lookup in the schedule). *)
Theorem C04_linearizable : forall (lc : l2cfg) (K : list bytes) (evs : list cev) (sevs : list sev),
  (forall k1 k2, In k1 K -> In k2 K ->
     forced_hash (l_forced lc) k1 = forced_hash (l_forced lc) k2 -> k1 = k2) ->
  sevs_of evs = Some sevs ->
  sevs_ok lc K ([], []) sevs ->
  c_run lc (bucket0, []) evs = s_crun (c_checkvhash (l_cfg lc)) ([], []) sevs.
Proof.
  intros lc K evs sevs Hinj Hs Hok.
  apply (crun_refines lc K Hinj evs (bucket0, []) ([], []) sevs); [apply crel_init|exact Hs|exact Hok].
Qed.
Print Assumptions C04_linearizable.

(* the split read is the implementation's read: lookup followed at once by the positional read *)
Theorem C04_get_is_begin_then_end : forall hf b key, bkt_get hf b key = get_end hf b key (get_begin hf b key).
Proof. exact get_split. Qed.
Print Assumptions C04_get_is_begin_then_end.

(* the reason a delayed read still succeeds: client operations only ever extend the data log *)
Theorem C04_log_append_only : forall cf hf so b key val flag rev ts z q r0,
  layout_ok b -> log_find b q = Some r0 ->
  log_find (fst (check_and_set_gen so cf hf b key val flag rev ts z)) q = Some r0.
Proof. intros cf hf so b key val flag rev ts z q r0 Hl Hq. apply (check_and_set_log cf hf so b key val flag rev ts z Hl), Hq. Qed.
Print Assumptions C04_log_append_only.

(* versions (on the reference map the model refines): an accepted set with automatic revision or a delete
   gives the key a strictly larger absolute version, and touches no other key *)
Theorem C04_versions_increase : forall chk m so k, plain_write so = true ->
  let m' := fst (spec_step chk m so) in
  s_get m' k = s_get m k \/ (Z.abs (ver_of m k) < Z.abs (ver_of m' k))%Z.
Proof. exact spec_version_step. Qed.
Print Assumptions C04_versions_increase.

Theorem C04_other_keys_untouched : forall chk m so k, wkey so <> Some k ->
  s_get (fst (spec_step chk m so)) k = s_get m k.
Proof. exact spec_other_key. Qed.
Print Assumptions C04_other_keys_untouched.

(* so after any history of such writes each key holds the write with the highest absolute version *)
Theorem C04_final_is_highest : forall chk ops m k, forallb plain_write ops = true ->
  (Z.abs (ver_of m k) <= Z.abs (ver_of (fold_left (fun mm o => fst (spec_step chk mm o)) ops m) k))%Z.
Proof. exact spec_version_mono. Qed.
Print Assumptions C04_final_is_highest.

(* non-vacuity: client 7 looks k1 up, then k1 is overwritten, the file rotates, the flusher runs, the key is
   deleted -- and only then does client 7 read by position: it gets the value current at its lookup *)
Definition ex4_lc : l2cfg := mkL2 (mkCfg 512 4096 3 true 3 false 1) [] 0.
Definition ex4_K : list bytes := [unhex "6b31"; unhex "6b32"].
Definition ex4_evs : list cev :=
  [CAtomic (OSet "6b31" "6161" 0 0 1 (mkZ true 0 0)); CBegin 7 "6b31" false;
   CAtomic (OSet "6b31" "6262" 0 0 2 (mkZ true 0 0)); CAtomic (OSet "6b32" "6363" 0 0 3 (mkZ true 0 0));
   CAtomic (OSet "6b32" "6464" 0 0 4 (mkZ true 0 0)); CAtomic OFlush; CBegin 8 "6b31" true; CAtomic (ODel "6b31");
   CEnd 7; CEnd 8; CAtomic (OGet "6b31")].

Example C04_nonvacuous :
  (exists sevs, sevs_of ex4_evs = Some sevs /\ sevs_ok ex4_lc ex4_K ([], []) sevs) /\
  c_run ex4_lc (bucket0, []) ex4_evs =
    [PStored; PStored; PStored; PStored; POk; PDeleted; PHit (unhex "6161") 0; PMeta 2 (vhash (unhex "6262")) 0 2; PMiss].
Proof.
  split.
  - eexists. split; [reflexivity|]. cbn -[N.land].
    repeat match goal with |- _ /\ _ => split end; try exact I; try reflexivity; try (cbn; tauto); try (intro H; discriminate H).
  - vm_compute. reflexivity.
Qed.
