From GB Require Import Bucket BucketOpen Gc.
Example C07_placeholder : True. Proof. exact I. Qed.
