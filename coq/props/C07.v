(* C07 -- a process kill during GC leaves every key readable with its pre-GC value.
   Property theorems only; proofs live in proofs/GcView.v; the kill model is model/CheckGcSplit.v. *)
From Coq Require Import NArith ZArith List Bool String.
From GB Require Import Consts Words Hash Compress Bucket BucketOpen Gc CheckL2 CheckGcSplit RefMap Refine CollideProofs GcView.
Import ListNotations.
Open Scope N_scope.

(* (1) INSIDE THE RUNNING PROCESS the pass is safe at every record boundary: the loop invariant GI (GcView.v) is
   preserved by every per-record step -- drop, copy, destination switch, in-place overwrite -- and GI says that
   every key still reads its pre-GC entry and that no data write of the pass has touched a record the index
   references or that is still to be processed. *)
Theorem C07_record_step_keeps_invariant : forall cf hf K,
  (forall k1 k2, In k1 K -> In k2 K -> hf k1 = hf k2 -> k1 = k2) -> 0 < c_splitcap cf ->
  forall b0 begin_ st src e R, GI cf hf K b0 st src (e :: R) -> GI cf hf K b0 (gc_record cf hf begin_ src st e) src R.
Proof. exact gc_record_inv. Qed.
Print Assumptions C07_record_step_keeps_invariant.

Theorem C07_invariant_means_same_reads : forall cf hf K b0 st src R,
  GI cf hf K b0 st src R -> forall k, In k K -> abs hf (gc_b st) k = abs hf b0 k.
Proof. exact gi_same_reads. Qed.
Print Assumptions C07_invariant_means_same_reads.

(* (2) ACROSS A KILL the property is REFUTED for the code as it stands (known finding F4): GC rewrites the first
   file of the range in place and truncates its stale tail only when it leaves the file or finishes; later source
   files are drained into it and removed.  Layout [J1 K1][K2 K3][J2 M][Z] (512-byte files), gc(0,2), killed when
   files 0 and 1 are done: file 0 holds K3 at offset 0 and, behind it, the stale K1; file 1 is gone.  The index
   rebuilt at start-up scans file 0 in offset order, so K1 wins: key K, never written during the pass, reverts
   from k3 (version 3) to k1 (version 1).  Evaluated on the kill model; replayed on the implementation by the
   crash suite. *)
Definition f4_lc : l2cfg := mkL2 (mkCfg 512 4096 16 false 3 false 1) [] 0.
Definition f4_z : zinfo := mkZ true 0 0.
Definition f4_ops : list l2op :=
  [OSet "4a" "6a31" 0 0 1 f4_z; OSet "4b" "6b31" 0 0 2 f4_z; OSet "4b" "6b32" 0 0 3 f4_z; OSet "4b" "6b33" 0 0 4 f4_z;
   OSet "4a" "6a32" 0 0 5 f4_z; OSet "4d" "6d31" 0 0 6 f4_z; OSet "5a" "7a31" 0 0 7 f4_z; OFlush].

Theorem C07_stale_tail_refuted :
  exists b b', run_b f4_lc bucket0 f4_ops = Some b /\
    (exists ts p, snd (bkt_get (forced_hash []) b (unhex "4b")) = GHit (unhex "6b33") 0 3 ts p) /\
    kill_gc_files_reopen f4_lc b 0 2 = Opened b' /\
    (exists ts p, snd (bkt_get (forced_hash []) b' (unhex "4b")) = GHit (unhex "6b31") 0 1 ts p).
Proof.
  eexists. eexists. split; [vm_compute; reflexivity|]. split; [eexists; eexists; vm_compute; reflexivity|].
  split; [vm_compute; reflexivity|]. eexists. eexists. vm_compute. reflexivity.
Qed.
Print Assumptions C07_stale_tail_refuted.

(* the same pass killed right after any single copy (before the index update) is harmless on this layout: the
   source record is still there and wins the rebuild *)
Example C07_kill_after_copy_on_witness :
  forall n, In n [0; 1; 2]%nat ->
  exists b b', run_b f4_lc bucket0 f4_ops = Some b /\ kill_gc_reopen f4_lc b 0 2 n = Some (Opened b') /\
    (exists ts p, snd (bkt_get (forced_hash []) b' (unhex "4b")) = GHit (unhex "6b33") 0 3 ts p).
Proof.
  intros n Hn. cbn [In] in Hn. destruct Hn as [<-|[<-|[<-|[]]]];
    (eexists; eexists; split; [vm_compute; reflexivity|]; split; [vm_compute; reflexivity|]; eexists; eexists; vm_compute; reflexivity).
Qed.
