(* C08 -- the merkle tree listing is an exact, history-independent function of content.
   Property theorems only; proofs live in proofs/HTreeProofs.v (leaves) and proofs/HTreeInner.v (inner nodes, listings). *)
From Coq Require Import NArith ZArith List Bool Sorting.Permutation.
From GB Require Import Consts Words KeyPath HTree CheckC08 HTreeProofs HTreeInner.
Import ListNotations.
Open Scope N_scope.

(* (1) The incrementally maintained leaf-level summaries are EXACT: for ALL tree shapes (depth, height 1..8)
   and ALL sequences of HTree.set / HTree.remove (the very fold the correspondence check runs) over any set
   hs of key hashes that do not alias inside the tree (same leaf and same stored low bytes imply the same
   bits 32..47), every leaf node's count is the number of live items in its leaf mod 2^32 and its hash is
   sum over live items of vhash * uint16(keyhash >> 32) mod 2^16 -- functions of the leaf's CURRENT items
   only; the stored truncated hashes stay distinct and value hashes stay 16-bit. *)
Theorem C08_leaf_summaries : forall d h ops hs, (1 <= h <= 8)%nat ->
  (forall o, In o ops -> top_ok o /\ In (top_hash o) hs) -> alias_free (new_tree d h) hs ->
  LInv (Gof (new_tree d h) hs) (fold_left apply_top ops (new_tree d h)).
Proof. exact leaf_summaries. Qed.
Print Assumptions C08_leaf_summaries.

(* (2) HISTORY INDEPENDENCE at leaf level: two trees that satisfy (1) and hold the same items in every leaf,
   in any order -- whatever permutations, redundant overwrites, deletes and re-sets produced them -- have
   identical leaf-node counts and hashes. *)
Theorem C08_leaf_history_independent : forall G t t', LInv G t -> LInv G t' -> t_height t' = t_height t ->
  (forall lo, Permutation (get_leaf t lo) (get_leaf t' lo)) ->
  forall lo, lo < 4294967296 ->
    n_count (get_node t (t_height t - 1) lo) = n_count (get_node t' (t_height t' - 1) lo) /\
    n_hash (get_node t (t_height t - 1) lo) = n_hash (get_node t' (t_height t' - 1) lo).
Proof. exact leaf_history_independent. Qed.
Print Assumptions C08_leaf_history_independent.

(* the uint16 / uint32 bookkeeping of setToLeaf is exact: replacing a live item of value hash vo by one of
   value hash vn moves the 16-bit node hash from S to S - vo*g + vn*g *)
Theorem C08_hash_update_exact : forall S vo vn g, vo < 65536 -> vo * g <= S ->
  w16 (S mod 65536 + w16 (w16 (vn + 65536 - vo) * g)) = (S - vo * g + vn * g) mod 65536.
Proof. exact hash_update. Qed.
Print Assumptions C08_hash_update_exact.

(* (3) INNER NODES AND LISTINGS.  Histories may now contain LISTINGS at any position (listDir runs updateNodes, which
   recomputes and marks nodes).  For ALL tree shapes (depth <= 8, height 1..8) and ALL such histories both invariants
   hold at the end: LInv (1) and VInv -- every inner node marked "updated" holds exactly sp, the aggregate of the
   leaf-level summaries beneath it (count = sum mod 2^32, hash = the *97 fold of updateNodes), and a node marked
   updated has only updated children (invalidation always runs from the root down the whole path of a changed leaf). *)
Theorem C08_history_invariants : forall G d h ops, (1 <= h <= 8)%nat -> (d <= 8)%nat ->
  (forall o, In o ops -> hop_ok G (new_tree d h) o) ->
  let t := fold_left apply_hop ops (new_tree d h) in LInv G t /\ VInv t /\ t_depth t = d /\ t_height t = h.
Proof. exact hist_inv. Qed.
Print Assumptions C08_history_invariants.

(* (4) what updateNodes / a node-level listing REPORT on such a tree is the specification: the root summary is
   sp over the whole tree, and a listing that answers with 16 (hash, count) pairs answers with the sp values of
   the 16 children -- never a stale cached value. *)
Theorem C08_root_is_aggregate : forall t, VInv t -> pr (snd (tree_update t)) = sp (t_height t - 1) t 0 0.
Proof. exact tree_update_spec. Qed.
Print Assumptions C08_root_is_aggregate.

Theorem C08_node_listing_is_aggregate : forall t path ns, VInv t -> Forall (fun d => d < 16) path -> snd (list_dir t path) = LNodes ns ->
  (dir_level t path < t_height t - 1)%nat /\
  ns = map (fun i => let c := sp (t_height t - 1 - S (dir_level t path)) t (S (dir_level t path)) (dir_offset t path * 16 + i) in (snd c, fst c)) idx16.
Proof. exact list_dir_nodes_spec. Qed.
Print Assumptions C08_node_listing_is_aggregate.

(* (5) HISTORY INDEPENDENCE AT EVERY NODE: two trees of the same shape that satisfy the invariants (by (3): whatever
   histories of sets, removals and listings produced them) and hold the same items in every leaf, in any order,
   report identical node-level listings at every prefix and identical root summaries. *)
Theorem C08_listings_history_independent : forall G t t' path ns ns',
  LInv G t -> LInv G t' -> VInv t -> VInv t' -> t_depth t' = t_depth t -> t_height t' = t_height t ->
  (forall lo, Permutation (get_leaf t lo) (get_leaf t' lo)) -> Forall (fun d => d < 16) path ->
  (snd (list_dir t path) = LNodes ns -> snd (list_dir t' path) = LNodes ns' -> ns = ns') /\
  pr (snd (tree_update t)) = pr (snd (tree_update t')).
Proof. exact node_listing_history_independent. Qed.
Print Assumptions C08_listings_history_independent.

(* non-vacuity: two histories with equal final content (B overwrites, deletes and re-sets) over hashes in one
   leaf and in different leaves; both satisfy the hypotheses of (1); their leaf summaries agree *)
Definition ex8_ha : N := 1311768467463790320.    (* 0x123456789abcdef0 *)
Definition ex8_hb : N := 1311768467463794415.    (* 0x123456789abceeef: same leaf for height 3, other low bytes *)
Definition ex8_hc : N := 11068046444225730969.   (* 0x9999999999999999 *)
Definition ex8_opsA : list top := [TSet ex8_ha 1 100 0 0; TSet ex8_hb 2 200 0 256; TSet ex8_hc 1 7 1 0].
Definition ex8_opsB : list top :=
  [TSet ex8_hc 5 9 0 512; TSet ex8_hb 1 1 0 0; TSet ex8_ha 1 100 0 0; TRem ex8_hc (-1) 0; TSet ex8_hb 2 200 0 256; TSet ex8_hc 1 7 1 0].

Example C08_nonvacuous :
  let hs := [ex8_ha; ex8_hb; ex8_hc] in
  let ta := fold_left apply_top ex8_opsA (new_tree 0 3) in
  let tb := fold_left apply_top ex8_opsB (new_tree 0 3) in
  alias_free (new_tree 0 3) hs /\
  (forall o, In o (ex8_opsA ++ ex8_opsB) -> top_ok o /\ In (top_hash o) hs) /\
  leaf_offset ta ex8_ha = leaf_offset ta ex8_hb /\
  snd (tree_update ta) = snd (tree_update tb) /\ n_count (snd (tree_update ta)) = 3.
Proof.
  cbv zeta. split; [|split; [|split; [|split]]].
  - intros h1 h2 H1 H2. cbn [In] in H1, H2.
    destruct H1 as [<-|[<-|[<-|[]]]]; destruct H2 as [<-|[<-|[<-|[]]]]; vm_compute; intros E1 E2; try reflexivity; try discriminate.
  - intros o Ho. cbn [app ex8_opsA ex8_opsB In] in Ho.
    repeat (destruct Ho as [<-|Ho]; [split; [vm_compute; reflexivity || exact I|cbn; tauto]|]); destruct Ho.
  - vm_compute. reflexivity.
  - vm_compute. reflexivity.
  - vm_compute. reflexivity.
Qed.
