From GB Require Import HTree.
Example C08_placeholder : True. Proof. exact I. Qed.
