From GB Require Import Bucket BucketOpen Gc.
Example C06_placeholder : True. Proof. exact I. Qed.
