(* C06 -- a process kill in normal operation never yields wrong or pre-durable data.
   Property theorems only; proofs live in proofs/Restart4.v (start-up on any directory state), RecordProofs.v. *)
From Coq Require Import NArith ZArith List Bool String.
From GB Require Import Consts Words Hash Record Compress Bucket BucketOpen CheckL2 RefMap Refine CollideProofs
     Restart2 Restart4 RecordProofs.
Import ListNotations.
Open Scope N_scope.

(* Crash model: SIGKILL keeps completed writes and loses in-memory state.  In the bucket model the directory a kill
   leaves behind is dir_of b rm: the data files as flushed so far (write buffers dropped), the hint splits already
   dumped (minus any set rm of files, which also covers a dump caught between temp file and rename), the tree
   image if any.  Start-up is bucket.open on that directory. *)

(* (1) KILL AT A FLUSHED MOMENT: for ALL states reachable by client operations and restarts in which every write
   buffer is empty (right after a forced or periodic flush -- so every acknowledged write is durable), for ANY
   subset of hint files present, with the tree image absent or unusable: start-up is not refused, the invariant
   holds again, and every live key reads exactly its last write (value, flags, version); deleted keys stay
   deleted. *)
Theorem C06_kill_after_flush : forall (cf : cfg) (hf : bytes -> N) (K : list bytes),
  (forall k1 k2, In k1 K -> In k2 K -> hf k1 = hf k2 -> k1 = k2) -> 0 < c_splitcap cf ->
  forall b m rm, RInv2 hf K b m -> closed b -> rm_trees rm = true ->
  exists b' m', bkt_open cf hf (dir_of b rm) = Opened b' /\ RInv2 hf K b' m' /\ view K m m'.
Proof. exact kill_flushed_x. Qed.
Print Assumptions C06_kill_after_flush.

(* (2) REFUSAL only for a partially written record: start-up answers Refused exactly when some existing data file's
   size is not a multiple of the 256-byte block -- for EVERY directory state *)
Theorem C06_refused_iff_partial_block : forall cf hf d,
  bkt_open cf hf d = Refused <->
  existsb (fun k => k_exists k && negb (k_fsize k mod 256 =? 0)) (dr_chunks d) = true.
Proof.
  intros cf hf d. rewrite bkt_open_eq. destruct (existsb _ (dr_chunks d)); split; intros H; try reflexivity; discriminate.
Qed.
Print Assumptions C06_refused_iff_partial_block.

(* (3) NEVER A TORN VALUE: whatever bytes a file holds, a positional read returns a record only after the size
   limits and the CRC over exactly the returned bytes have been checked (C09); and a hit returned by get on the
   direct path is a record whose key is the requested key (C13_hit_is_record_of_key) *)
Theorem C06_read_is_checked : forall c s r, read_at c s = RdOK r ->
  exists h, decode_header s = Some h /\ hdr_crc_ok h (rkey r) (rval r) = true /\
            valid_ksz c (h_ksz h) = true /\ valid_vsz c (h_vsz h) = true /\
            rflag r = h_flag h /\ rver r = h_ver h /\ rts r = h_ts h /\
            rkey r ++ rval r = takeN (h_ksz h + h_vsz h) (dropN rec_header_size s) /\
            lenN (rkey r ++ rval r) = h_ksz h + h_vsz h.
Proof. exact read_at_sound. Qed.
Print Assumptions C06_read_is_checked.

(* (4) the general clause -- a kill at ANY moment serves values at least as new as the durable ones -- is REFUTED
   for the code as it stands (known finding F10): a hint split can be dumped while the records it describes are
   still in the write buffer; after the kill the hint file claims more data than the file holds, start-up does not
   rescan, and key A -- whose value a1 IS durable -- answers an error *)
Definition f10_lc : l2cfg := mkL2 (mkCfg 4096 4096 2 false 3 false 1) [] 0.
Definition f10_z : zinfo := mkZ true 0 0.
Definition f10_ops : list l2op :=
  [OSet "41" "6131" 0 0 1 f10_z; OSet "42" "6231" 0 0 2 f10_z; OFlush;
   OSet "43" "6331" 0 0 3 f10_z; OSet "41" "6132" 0 0 4 f10_z; OSet "44" "6431" 0 0 5 f10_z].

Theorem C06_hint_ahead_of_data_refuted :
  exists b b', run_b f10_lc bucket0 f10_ops = Some b /\
    bkt_open (l_cfg f10_lc) (forced_hash []) (dir_of b rm_none) = Opened b' /\
    snd (bkt_get (forced_hash []) b' (unhex "41")) = GFail /\
    (exists ts p, snd (bkt_get (forced_hash []) b' (unhex "42")) = GHit (unhex "6231") 0 1 ts p).
Proof.
  eexists. eexists. split; [vm_compute; reflexivity|]. split; [vm_compute; reflexivity|]. split; [vm_compute; reflexivity|].
  eexists. eexists. vm_compute. reflexivity.
Qed.
Print Assumptions C06_hint_ahead_of_data_refuted.
