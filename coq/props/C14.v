(* C14 -- hint files: faithful round-trip, total lookup, correct merge.
   Property theorems only; proofs live in proofs/HintProofs.v (round trip), proofs/HintLookup.v (lookup)
   and proofs/HintMerge.v (merge). *)
From Coq Require Import NArith ZArith List Bool String.
From GB Require Import Consts Words HintFile HintProofs HintLookup HintMerge.
Import ListNotations.
Open Scope N_scope.

(* a hint file read back yields exactly the items written, in order, with the recorded data size:
   for ALL item lists, index intervals and data sizes *)
Theorem C14_hint_roundtrip : forall items interval ds,
  Forall valid_item items -> lenN items < 4294967296 -> ds < 4294967296 ->
  hint_read_all (hint_write items interval ds) = Some (items, ds).
Proof. exact hint_roundtrip. Qed.
Print Assumptions C14_hint_roundtrip.

(* TOTAL LOOKUP, byte level, as the code performs it (sparse index loaded back from the file, sort.Search over it, seek
   to the preceding index entry, scan): for ALL item lists sorted by hash (the writer's input is always sorted by
   (hash, key)), ALL index intervals and ALL (hash, key) queries the lookup returns the first item with that hash
   and key if there is one and NOT-FOUND otherwise -- never an error.  Needs the reader's logical offset to follow
   the seek (Consts.hint_get_offset_synced, translated from store/hintindex.go: the repair of F1); with the flag
   off the proof does not go through and C14_absent_above_unsynced_refuted below shows why. *)
Theorem C14_lookup_total : forall items interval ds h key,
  Forall valid_item items -> hsorted items -> lenN items < 4294967296 -> ds < 4294967296 ->
  index_get (hint_write items interval ds) h key =
  match find (matches h key) items with Some it => GFound it | None => GNotFound end.
Proof. exact lookup_total. Qed.
Print Assumptions C14_lookup_total.

(* ... in particular on every file HintBuffer.Dump writes (any buffer content, sorted by the dump): found iff present,
   never an error *)
Theorem C14_dumped_lookup_total : forall l interval ds h key,
  Forall valid_item l -> lenN l < 4294967296 -> ds < 4294967296 ->
  index_get (buf_dump l interval ds) h key <> GErr /\
  (forall it, index_get (buf_dump l interval ds) h key = GFound it -> In it l /\ hi_hash it = h /\ hi_key it = key) /\
  ((exists it, In it l /\ hi_hash it = h /\ hi_key it = key) -> exists it, index_get (buf_dump l interval ds) h key = GFound it).
Proof. exact dumped_lookup_total. Qed.
Print Assumptions C14_dumped_lookup_total.

(* the sparse index read back by loadHintIndex is the index the writer built *)
Theorem C14_index_roundtrip : forall items interval ds,
  Forall valid_item items -> lenN items < 4294967296 -> ds < 4294967296 ->
  load_index (hint_write items interval ds) = Some (mkHM (16 + items_size items) (w32 (lenN items)) ds, hint_index_of items interval).
Proof. exact load_index_write. Qed.
Print Assumptions C14_index_roundtrip.

(* CORRECT MERGE (hintmerge.go: k-way merge by (hash, key, position) over min-heads, mergeWriter grouping by hash and
   keeping the last of consecutive equal keys, collision table updated for every group of >= 2 keys), for ANY number
   of source files, each sorted in merge order after tagging its items with the file's chunk id:
     shk a b := same hash and same key;  pos_key := chunk * 2^32 + offset;  all := every tagged item of every source.
   (1) every merged item is a source item and has the GREATEST position among all source items of its (hash, key);
       every (hash, key) present in a source is present in the result; the result is in merge order. *)
Theorem C14_merge_keeps_greatest_position : forall srcs ct,
  Forall sortedL (tagged srcs) ->
  let merged := fst (fst (hint_merge srcs ct)) in let all := List.concat (tagged srcs) in
  (forall it, In it merged -> In it all /\ forall y, In y all -> shk y it -> pos_key y <= pos_key it) /\
  (forall y, In y all -> exists it, In it merged /\ shk y it) /\
  sortedL merged.
Proof. exact merge_spec. Qed.
Print Assumptions C14_merge_keeps_greatest_position.

(* (2) every group of different keys sharing a hash is reported: whenever two source items have the same hash and
   different keys, the collision table afterwards has an entry for each of the two (hash, key) pairs; entries that
   were there before are never lost (they may be replaced by a later position of the same pair). *)
Theorem C14_merge_reports_collisions : forall srcs ct,
  Forall sortedL (tagged srcs) ->
  let ct' := snd (hint_merge srcs ct) in let all := List.concat (tagged srcs) in
  (forall a, covers ct a -> covers ct' a) /\
  (forall a b, In a all -> In b all -> hi_hash a = hi_hash b -> hi_key a <> hi_key b -> covers ct' a /\ covers ct' b).
Proof. exact merge_reports_collisions. Qed.
Print Assumptions C14_merge_reports_collisions.

(* the hypothesis is what hint files are: sorted by (hash, key) with each pair at most once (C14_hint_roundtrip reads
   them back in that order); tagging with one chunk id gives a list in merge order *)
Theorem C14_sorted_file_is_in_merge_order : forall ck l, Sorted.StronglySorted hklt l -> sortedL (tag_chunk ck l).
Proof. exact tag_sorted. Qed.
Print Assumptions C14_sorted_file_is_in_merge_order.

(* Finding F1 (repaired by a fix: commit): with the reader's logical offset NOT following the
   seek (the code before the repair), the lookup of an absent key above all stored hashes in a
   file with >= 2 index entries runs into the index region and ends in an error.  The model is
   parameterised by Consts.hint_get_offset_synced, translated from store/hintindex.go. *)
Definition f1_items : list hitem :=
  map (fun i => mkHI (i * 1000) 0 (256 * i) 1%Z 7 [107; 48 + i]) [1; 2; 3; 4; 5].
Definition f1_file : bytes := hint_write f1_items 24 2048.
Definition f1_index : list (N * N) := hint_index_of f1_items 24.

Theorem C14_absent_above_unsynced_refuted :
  Forall valid_item f1_items /\ 2 <= lenN f1_index /\
  index_get_gen false f1_file f1_index 18446744073709551615 [122] = GErr /\
  index_get_gen true f1_file f1_index 18446744073709551615 [122] = GNotFound.
Proof.
  split; [|split; [|split]].
  - repeat constructor; vm_compute; intuition discriminate.
  - vm_compute. discriminate.
  - vm_compute. reflexivity.
  - vm_compute. reflexivity.
Qed.
Print Assumptions C14_absent_above_unsynced_refuted.

(* the tree as it stands has the repair: the translated flag is on *)
Theorem C14_offset_synced_in_code : hint_get_offset_synced = true.
Proof. reflexivity. Qed.

(* lookups on the example file through the index path actually used by the code *)
Example C14_lookup_examples :
  (forall it, In it f1_items -> index_get f1_file (hi_hash it) (hi_key it) = GFound it) /\
  index_get f1_file 2500 [122] = GNotFound /\ index_get f1_file 0 [122] = GNotFound /\
  index_get f1_file 3000 [122] = GNotFound /\ index_get f1_file 18446744073709551615 [122] = GNotFound.
Proof.
  split; [|vm_compute; auto].
  intros it [<-|[<-|[<-|[<-|[<-|[]]]]]]; vm_compute; reflexivity.
Qed.
