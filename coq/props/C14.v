(* C14 -- hint files: faithful round-trip, total lookup, correct merge.
   Property theorems only; proofs live in proofs/HintProofs.v. *)
From Coq Require Import NArith ZArith List Bool String.
From GB Require Import Consts Words HintFile HintProofs.
Import ListNotations.
Open Scope N_scope.

(* a hint file read back yields exactly the items written, in order, with the recorded data size:
   for ALL item lists, index intervals and data sizes *)
Theorem C14_hint_roundtrip : forall items interval ds,
  Forall valid_item items -> lenN items < 4294967296 -> ds < 4294967296 ->
  hint_read_all (hint_write items interval ds) = Some (items, ds).
Proof. exact hint_roundtrip. Qed.
Print Assumptions C14_hint_roundtrip.

(* Finding F1 (repaired by a fix: commit): with the reader's logical offset NOT following the
   seek (the code before the repair), the lookup of an absent key above all stored hashes in a
   file with >= 2 index entries runs into the index region and ends in an error.  The model is
   parameterised by Consts.hint_get_offset_synced, translated from store/hintindex.go. *)
Definition f1_items : list hitem :=
  map (fun i => mkHI (i * 1000) 0 (256 * i) 1%Z 7 [107; 48 + i]) [1; 2; 3; 4; 5].
Definition f1_file : bytes := hint_write f1_items 24 2048.
Definition f1_index : list (N * N) := hint_index_of f1_items 24.

Theorem C14_absent_above_unsynced_refuted :
  Forall valid_item f1_items /\ 2 <= lenN f1_index /\
  index_get_gen false f1_file f1_index 18446744073709551615 [122] = GErr /\
  index_get_gen true f1_file f1_index 18446744073709551615 [122] = GNotFound.
Proof.
  split; [|split; [|split]].
  - repeat constructor; vm_compute; intuition discriminate.
  - vm_compute. discriminate.
  - vm_compute. reflexivity.
  - vm_compute. reflexivity.
Qed.
Print Assumptions C14_absent_above_unsynced_refuted.

(* the tree as it stands has the repair: the translated flag is on *)
Theorem C14_offset_synced_in_code : hint_get_offset_synced = true.
Proof. reflexivity. Qed.

(* lookups on the example file through the index path actually used by the code *)
Example C14_lookup_examples :
  (forall it, In it f1_items -> index_get f1_file (hi_hash it) (hi_key it) = GFound it) /\
  index_get f1_file 2500 [122] = GNotFound /\ index_get f1_file 0 [122] = GNotFound /\
  index_get f1_file 3000 [122] = GNotFound /\ index_get f1_file 18446744073709551615 [122] = GNotFound.
Proof.
  split; [|vm_compute; auto].
  intros it [<-|[<-|[<-|[<-|[<-|[]]]]]]; vm_compute; reflexivity.
Qed.
