From GB Require Import Bucket BucketOpen Gc.
Example C18_placeholder : True. Proof. exact I. Qed.
