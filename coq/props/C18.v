(* C18 -- GC actually reclaims: no superseded record survives in the collected range.
   Property theorems only; proofs live in proofs/GcView.v (Section GV2b: region invariant GC2, prefix invariant GP;
   Section GV3: gc_pass_reclaims). *)
From Coq Require Import NArith ZArith List Bool String.
From GB Require Import Consts Words Hash Compress Bucket BucketOpen Gc CheckL2 RefMap Refine CollideProofs GcView GcMerge.
Import ListNotations.
Open Scope N_scope.

(* what "current record of its key" means for a record e = (offset, record) found in data file c of bucket b:
     cur_or_tomb hf begin b c e :=
        (exists s, tree_get_slot b (hf key) = Some s /\ s_pos s = (c, offset))            -- the index points at exactly this record
     \/ (tree_get_slot b (hf key) = None /\ d_ver record < 0 /\ 0 < begin)                 -- a tombstone of a key the index has
                                                                                            forgotten, kept because GC did not
                                                                                            start at file 0
   By C03 (Rel after the pass) the record the index points at is the one every read of that key returns. *)

(* (1) EVERY file of the collected range, after a pass (no merge) over ANY legal range on ANY bucket state that
   satisfies the refinement relation and GPre: every record that an independent scan finds in it is the current
   record of its key in the sense above, and it is the only record at its offset.  Every overwritten value, every
   tombstone of a key that was later rewritten, every record of a key deleted and forgotten while GC starts at 0,
   is gone. *)
Theorem C18_range_files_hold_only_current_records : forall (cf : cfg) (hf : bytes -> N) (K : list bytes),
  (forall k1 k2, In k1 K -> In k2 K -> hf k1 = hf k2 -> k1 = k2) -> 0 < c_splitcap cf ->
  forall b m begin_ end_,
  Rel hf K b m -> GPre cf hf K b -> (begin_ <= end_ < b_head b)%nat ->
  let b' := fst (gc_pass cf hf b begin_ end_ false) in
  forall c e, (begin_ <= c <= end_)%nat -> In e (k_disk (chunk_at b' c)) ->
    cur_or_tomb hf begin_ b' c e /\ find_off (k_disk (chunk_at b' c)) (fst e) = Some (snd e).
Proof. exact gc_pass_range_files. Qed.
Print Assumptions C18_range_files_hold_only_current_records.

(* (2) EXACTLY ONCE: two records of one key that the index knows cannot both be in the range afterwards *)
Theorem C18_each_indexed_key_once : forall (cf : cfg) (hf : bytes -> N) (K : list bytes),
  (forall k1 k2, In k1 K -> In k2 K -> hf k1 = hf k2 -> k1 = k2) -> 0 < c_splitcap cf ->
  forall b m begin_ end_,
  Rel hf K b m -> GPre cf hf K b -> (begin_ <= end_ < b_head b)%nat ->
  let b' := fst (gc_pass cf hf b begin_ end_ false) in
  forall c1 e1 c2 e2, (begin_ <= c1 <= end_)%nat -> (begin_ <= c2 <= end_)%nat ->
    In e1 (k_disk (chunk_at b' c1)) -> In e2 (k_disk (chunk_at b' c2)) -> d_key (snd e1) = d_key (snd e2) ->
    tree_get_slot b' (hf (d_key (snd e1))) <> None -> c1 = c2 /\ e1 = e2.
Proof. exact gc_pass_range_once. Qed.
Print Assumptions C18_each_indexed_key_once.

(* (3) THE WHOLE PICTURE, including the earlier file GC merely appended to (dst0 < begin): there is a last
   destination D with dst0 <= D <= end such that
   - the files strictly between dst0 and begin were empty before the pass (that is why dst0 was chosen);
   - every record in files dst0..D that lies at or above the old end W0 of dst0 is current (as in (1));
   - the files D+1..end are empty (their space has been returned);
   - the records of dst0 below W0 are exactly the records that were there before, and no record straddles W0:
     the earlier file's old part is unchanged, GC only appended to it;
   - every file still has at most one record per offset and nothing buffered, and the bucket again satisfies the
     GC precondition (files in offset order ...), so another pass may follow; D is the destination the model's loop
     ends with. *)
Theorem C18_pass_layout : forall (cf : cfg) (hf : bytes -> N) (K : list bytes),
  (forall k1 k2, In k1 K -> In k2 K -> hf k1 = hf k2 -> k1 = k2) -> 0 < c_splitcap cf ->
  forall b m begin_ end_,
  Rel hf K b m -> GPre cf hf K b -> (begin_ <= end_ < b_head b)%nat ->
  let b' := fst (gc_pass cf hf b begin_ end_ false) in
  let dst0 := pick_dst cf (before_bucket cf b false) begin_ begin_ in
  let W0 := if Nat.eqb dst0 begin_ then 0 else k_size (chunk_at b dst0) in
  exists D, (dst0 <= begin_ /\ dst0 <= D <= end_)%nat /\
    (forall c, (dst0 < c < begin_)%nat -> k_disk (chunk_at b c) = []) /\
    (forall c e, (dst0 <= c <= D)%nat -> In e (k_disk (chunk_at b' c)) -> (c = dst0 -> W0 <= fst e) -> cur_or_tomb hf begin_ b' c e) /\
    (forall c, (D < c <= end_)%nat -> k_disk (chunk_at b' c) = [] /\ k_size (chunk_at b' c) = 0) /\
    (forall e, rend e <= W0 -> (In e (k_disk (chunk_at b' dst0)) <-> In e (k_disk (chunk_at b dst0)))) /\
    (forall e, In e (k_disk (chunk_at b' dst0)) -> rend e <= W0 \/ W0 <= fst e) /\
    (forall c, (c < b_head b)%nat -> gchunk (chunk_at b' c)) /\
    GPre cf hf K b' /\
    D = gc_dst (fold_left (gc_file cf hf begin_) (seq begin_ (S end_ - begin_)) (mkGC (begin_gc_writing (before_bucket cf b false) dst0 begin_) dst0 gc0)).
Proof. exact gc_pass_reclaims. Qed.
Print Assumptions C18_pass_layout.

(* (3b) RUNNING THE SAME PASS AGAIN RELEASES NOTHING: the second pass meets only current records (invariant GR: every
   record still to be processed is the one the index points at or a forgotten tombstone that GC keeps), so its
   "released" and "size released" counters stay 0.  The second pass runs on the state the first one left -- the
   proof shows that state again satisfies the GC precondition (files in offset order, no buffered data, hint items
   well-formed), which is also what lets passes follow one another in C03. *)
Theorem C18_second_pass_releases_nothing : forall (cf : cfg) (hf : bytes -> N) (K : list bytes),
  (forall k1 k2, In k1 K -> In k2 K -> hf k1 = hf k2 -> k1 = k2) -> 0 < c_splitcap cf ->
  forall b m begin_ end_,
  Rel hf K b m -> GPre cf hf K b -> (begin_ <= end_ < b_head b)%nat ->
  let b' := fst (gc_pass cf hf b begin_ end_ false) in
  let gs := snd (gc_pass cf hf b' begin_ end_ false) in
  g_released gs = 0 /\ g_size_released gs = 0.
Proof. exact gc_pass_twice. Qed.
Print Assumptions C18_second_pass_releases_nothing.

(* (3c) WITH OR WITHOUT HINT MERGE ((1), (2) and (3b) for either flag; see C03_gc_preserves_reads_any_merge for why the
   merge changes nothing the pass depends on) *)
Theorem C18_range_files_any_merge : forall (cf : cfg) (hf : bytes -> N) (K : list bytes),
  (forall k1 k2, In k1 K -> In k2 K -> hf k1 = hf k2 -> k1 = k2) -> 0 < c_splitcap cf ->
  forall b m begin_ end_ merge,
  Rel hf K b m -> GPre cf hf K b -> (begin_ <= end_ < b_head b)%nat ->
  let b' := fst (gc_pass cf hf b begin_ end_ merge) in
  forall c e, (begin_ <= c <= end_)%nat -> In e (k_disk (chunk_at b' c)) ->
    cur_or_tomb hf begin_ b' c e /\ find_off (k_disk (chunk_at b' c)) (fst e) = Some (snd e).
Proof. exact gc_pass_range_files_any. Qed.
Print Assumptions C18_range_files_any_merge.

Theorem C18_each_indexed_key_once_any_merge : forall (cf : cfg) (hf : bytes -> N) (K : list bytes),
  (forall k1 k2, In k1 K -> In k2 K -> hf k1 = hf k2 -> k1 = k2) -> 0 < c_splitcap cf ->
  forall b m begin_ end_ merge,
  Rel hf K b m -> GPre cf hf K b -> (begin_ <= end_ < b_head b)%nat ->
  let b' := fst (gc_pass cf hf b begin_ end_ merge) in
  forall c1 e1 c2 e2, (begin_ <= c1 <= end_)%nat -> (begin_ <= c2 <= end_)%nat ->
    In e1 (k_disk (chunk_at b' c1)) -> In e2 (k_disk (chunk_at b' c2)) -> d_key (snd e1) = d_key (snd e2) ->
    tree_get_slot b' (hf (d_key (snd e1))) <> None -> c1 = c2 /\ e1 = e2.
Proof. exact gc_pass_range_once_any. Qed.
Print Assumptions C18_each_indexed_key_once_any_merge.

Theorem C18_second_pass_releases_nothing_any_merge : forall (cf : cfg) (hf : bytes -> N) (K : list bytes),
  (forall k1 k2, In k1 K -> In k2 K -> hf k1 = hf k2 -> k1 = k2) -> 0 < c_splitcap cf ->
  forall b m begin_ end_ m1 m2,
  Rel hf K b m -> GPre cf hf K b -> (begin_ <= end_ < b_head b)%nat ->
  let b' := fst (gc_pass cf hf b begin_ end_ m1) in
  let gs := snd (gc_pass cf hf b' begin_ end_ m2) in
  g_released gs = 0 /\ g_size_released gs = 0.
Proof. exact gc_pass_twice_any. Qed.
Print Assumptions C18_second_pass_releases_nothing_any_merge.

(* (4) the clause "each exactly once" is REFUTED for forgotten tombstones (known finding F11): after a restart
   with the tree rebuilt (tombstones are not re-inserted) a pass with begin > 0 keeps EVERY tombstone it meets
   whose key the tree does not know.  Layout [P Q][K1 Kdel][K2 Kdel][Y Z][W], restart without tree files,
   gc(1,2): both tombstones of K (versions -2 and -4) survive in file 1.  (1) shows this is the ONLY way a
   superseded record survives: the second disjunct of cur_or_tomb.  Replayed on the implementation by the
   l2 gc suite (corpus/C18/F11.json). *)
Definition f11_lc : l2cfg := mkL2 (mkCfg 512 100 1048576 false 3 false 1) [] 0.
Definition f11_z : zinfo := mkZ true 0 0.
Definition f11_ops : list l2op :=
  [OSet "50" "70" 0 0 1 f11_z; OSet "51" "71" 0 0 2 f11_z; OSet "4b" "6b31" 0 0 3 f11_z; ODel "4b"; OSet "4b" "6b32" 0 0 4 f11_z; ODel "4b";
   OSet "59" "79" 0 0 5 f11_z; OSet "5a" "7a" 0 0 6 f11_z; OSet "57" "77" 0 0 7 f11_z; OFlush; ORestart (mkRm true [] false)].

Theorem C18_dup_tombstone_refuted :
  exists b r1 r2, run_b f11_lc bucket0 f11_ops = Some b /\
    let b' := fst (gc_pass (l_cfg f11_lc) (forced_hash []) b 1 2 false) in
    In (0, r1) (k_disk (chunk_at b' 1)) /\ In (256, r2) (k_disk (chunk_at b' 1)) /\
    d_key r1 = unhex "4b" /\ d_key r2 = unhex "4b" /\ d_ver r1 = (-2)%Z /\ d_ver r2 = (-4)%Z /\
    tree_get_slot b' (forced_hash [] (unhex "4b")) = None.
Proof.
  eexists. eexists. eexists. split; [vm_compute; reflexivity|]. cbv zeta.
  split; [vm_compute; left; reflexivity|]. split; [vm_compute; right; left; reflexivity|].
  repeat split; vm_compute; reflexivity.
Qed.
Print Assumptions C18_dup_tombstone_refuted.

(* non-vacuity of (1)-(3): a reachable state (by C03_reachable_states_qualify every state reached by client
   operations and restarts meets GPre) on which the pass really drops records: three 512-byte files with a
   superseded value, a delete and live keys; gc(0,1) leaves exactly the current records *)
Definition ex18_lc : l2cfg := mkL2 (mkCfg 512 4096 16 false 3 false 1) [] 0.
Definition ex18_pre : list l2op :=
  [OSet "6b31" "6161" 0 0 1 f11_z; OSet "6b32" "6262" 0 0 2 f11_z; OSet "6b31" "6363" 0 0 3 f11_z; OSet "6b33" "6464" 0 0 4 f11_z;
   ODel "6b32"; OSet "6b34" "6565" 0 0 5 f11_z; OFlush].
Example C18_nonvacuous :
  exists b, run_b ex18_lc bucket0 ex18_pre = Some b /\
    model_data b = [(0, 512, [(0, unhex "6b31", 1%Z); (256, unhex "6b32", 1%Z)]);
                    (1, 512, [(0, unhex "6b31", 2%Z); (256, unhex "6b33", 1%Z)]);
                    (2, 512, [(0, unhex "6b32", (-2)%Z); (256, unhex "6b34", 1%Z)])] /\
    model_data (fst (gc_pass (l_cfg ex18_lc) (forced_hash []) b 0 1 false)) =
                   [(0, 512, [(0, unhex "6b31", 2%Z); (256, unhex "6b33", 1%Z)]);
                    (2, 512, [(0, unhex "6b32", (-2)%Z); (256, unhex "6b34", 1%Z)])].
Proof. eexists. split; [vm_compute; reflexivity|]. split; vm_compute; reflexivity. Qed.
