From GB Require Import Bucket BucketOpen Gc.
Example C03_placeholder : True. Proof. exact I. Qed.
