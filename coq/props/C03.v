(* C03 -- GC never changes what any key reads (no loss, no resurrection).
   Property theorems only; proofs live in proofs/GcView.v. *)
From Coq Require Import NArith ZArith List Bool String.
From GB Require Import Consts Words Hash Compress Bucket BucketOpen Gc CheckL2 RefMap Refine Restart2 Restart4 GcView GcMerge.
Import ListNotations.
Open Scope N_scope.

(* (1) ONE PASS (no hint merge), for ALL ranges begin <= end below the head file and ALL bucket states that satisfy
   the refinement relation of C01 plus the GC precondition GPre (below): after the pass the SAME reference map
   still describes the bucket -- every key reads exactly what it read before: value, flags, version; deleted
   keys stay deleted, absent keys stay absent.  The pass is the model function the correspondence check
   replays: newest-test per record, copy with destination switches, in-place rewriting of the first file of
   the range with its stale tail, conditional repoint, source clearing, final truncation. *)
Theorem C03_gc_preserves_reads : forall (cf : cfg) (hf : bytes -> N) (K : list bytes),
  (forall k1 k2, In k1 K -> In k2 K -> hf k1 = hf k2 -> k1 = k2) -> 0 < c_splitcap cf ->
  forall b m begin_ end_,
  Rel hf K b m -> GPre cf hf K b -> (begin_ <= end_ < b_head b)%nat ->
  Rel hf K (fst (gc_pass cf hf b begin_ end_ false)) m.
Proof. exact gc_pass_view. Qed.
Print Assumptions C03_gc_preserves_reads.

(* (2) the precondition is met by every state that client operations and clean restarts (with any index files
   removed) can reach (their invariant is C02's), provided no record extends past DataFileMax -- which
   holds as long as DataFileMax is never lowered below an existing file's extent and no single record
   exceeds it *)
Theorem C03_reachable_states_qualify : forall cf hf K b, XInv hf K b -> FMok cf b -> GPre cf hf K b.
Proof. exact xinv_gpre. Qed.
Print Assumptions C03_reachable_states_qualify.

(* (2b) PASSES CAN FOLLOW ONE ANOTHER (previously collected files): the state a pass leaves satisfies the refinement
   relation for the same map AND the GC precondition again, with the same head file; hence any number of passes over
   any legal ranges leaves every key reading what it read before the first one. *)
Theorem C03_any_number_of_passes : forall (cf : cfg) (hf : bytes -> N) (K : list bytes),
  (forall k1 k2, In k1 K -> In k2 K -> hf k1 = hf k2 -> k1 = k2) -> 0 < c_splitcap cf ->
  forall ranges b m,
  Rel hf K b m -> GPre cf hf K b -> Forall (fun r => (fst r <= snd r < b_head b)%nat) ranges ->
  Rel hf K (gc_passes cf hf b ranges) m /\ GPre cf hf K (gc_passes cf hf b ranges) /\ b_head (gc_passes cf hf b ranges) = b_head b.
Proof. exact gc_passes_view. Qed.
Print Assumptions C03_any_number_of_passes.

(* (2c) WITH OR WITHOUT HINT MERGE: on a key set without hash collisions the merge that a pass with merge = true runs
   first (rotate + dump every hint buffer, k-way merge of all hint files, collision detection) finds no collision, so
   the collision table stays empty and data files and tree are untouched; the pass then is the pass without merge
   (gc_pass_merge_eq).  Hence for EITHER flag the pass preserves the relation, the precondition and the head file,
   and so does any sequence of passes with any flags. *)
Theorem C03_gc_preserves_reads_any_merge : forall (cf : cfg) (hf : bytes -> N) (K : list bytes),
  (forall k1 k2, In k1 K -> In k2 K -> hf k1 = hf k2 -> k1 = k2) -> 0 < c_splitcap cf ->
  forall b m begin_ end_ merge,
  Rel hf K b m -> GPre cf hf K b -> (begin_ <= end_ < b_head b)%nat ->
  let b' := fst (gc_pass cf hf b begin_ end_ merge) in
  Rel hf K b' m /\ GPre cf hf K b' /\ b_head b' = b_head b.
Proof. exact gc_pass_view_any. Qed.
Print Assumptions C03_gc_preserves_reads_any_merge.

Theorem C03_any_passes_any_merge : forall (cf : cfg) (hf : bytes -> N) (K : list bytes),
  (forall k1 k2, In k1 K -> In k2 K -> hf k1 = hf k2 -> k1 = k2) -> 0 < c_splitcap cf ->
  forall ranges b m,
  Rel hf K b m -> GPre cf hf K b -> Forall (fun r => (fst (fst r) <= snd (fst r) < b_head b)%nat) ranges ->
  Rel hf K (gc_passes_m cf hf b ranges) m /\ GPre cf hf K (gc_passes_m cf hf b ranges) /\ b_head (gc_passes_m cf hf b ranges) = b_head b.
Proof. exact gc_passes_view_any. Qed.
Print Assumptions C03_any_passes_any_merge.

(* (3) and life goes on: a GC pass followed by ANY history of client operations answers exactly as the
   reference map does, the pass itself being invisible *)
Theorem C03_gc_then_history : forall (lc : l2cfg) (K : list bytes) b m x y ops sops,
  (forall k1 k2, In k1 K -> In k2 K -> forced_hash (l_forced lc) k1 = forced_hash (l_forced lc) k2 -> k1 = k2) ->
  0 < c_splitcap (l_cfg lc) ->
  Rel (forced_hash (l_forced lc)) K b m -> GPre (l_cfg lc) (forced_hash (l_forced lc)) K b -> (x <= y < b_head b)%nat ->
  sops_of ops = Some sops -> ops_ok lc K m sops ->
  model_run lc b (OGc x y false :: ops) = POk :: spec_run (c_checkvhash (l_cfg lc)) m sops.
Proof.
  intros lc K b m x y ops sops Hinj Hcap HR HP Hr Hs Hok. cbn [model_run l2_step].
  pose proof (gc_pass_view (l_cfg lc) (forced_hash (l_forced lc)) K Hinj Hcap b m x y HR HP Hr) as HR'.
  destruct (gc_pass (l_cfg lc) (forced_hash (l_forced lc)) b x y false) as [b' gs]. cbn [fst] in HR'. cbn [proj proj_out].
  f_equal. exact (run_refines lc K Hinj ops b' m sops HR' Hs Hok).
Qed.
Print Assumptions C03_gc_then_history.

(* non-vacuity: three 512-byte files with a superseded value, a delete and live keys; GC over [0,1] rewrites file 0
   in place and drains file 1 into it; every key reads as before *)
Definition ex3_lc : l2cfg := mkL2 (mkCfg 512 4096 16 false 3 false 1) [] 0.
Definition ex3_z : zinfo := mkZ true 0 0.
Definition ex3_pre : list l2op :=
  [OSet "6b31" "6161" 0 0 1 ex3_z; OSet "6b32" "6262" 0 0 2 ex3_z; OSet "6b31" "6363" 0 0 3 ex3_z; OSet "6b33" "6464" 0 0 4 ex3_z;
   ODel "6b32"; OSet "6b34" "6565" 0 0 5 ex3_z; OFlush].
Definition ex3_reads : list l2op := [OGet "6b31"; OGet "6b32"; OGet "6b33"; OMeta "6b31"; OMeta "6b32"].

Example C03_nonvacuous :
  model_run ex3_lc bucket0 (ex3_pre ++ OGc 0 1 false :: ex3_reads) =
  model_run ex3_lc bucket0 ex3_pre ++ POk :: skipn (List.length ex3_pre) (model_run ex3_lc bucket0 (ex3_pre ++ ex3_reads)) /\
  skipn (List.length ex3_pre) (model_run ex3_lc bucket0 (ex3_pre ++ ex3_reads)) =
    [PHit (unhex "6363") 0; PMiss; PHit (unhex "6464") 0; PMeta 2 (vhash (unhex "6363")) 0 2; PMeta (-2) 0 0 0].
Proof. split; vm_compute; reflexivity. Qed.
