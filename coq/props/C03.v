(* C03 -- GC never changes what any key reads (no loss, no resurrection).
   Property theorems only; proofs live in proofs/GcView.v. *)
From Coq Require Import NArith ZArith List Bool String.
From GB Require Import Consts Words Hash Compress Bucket BucketOpen Gc CheckL2 RefMap Refine Restart2 Restart4 Restart5 GcView GcMerge GcX1 GcX5 GcX6.
Import ListNotations.
Open Scope N_scope.

(* (1) ONE PASS (no hint merge), for ALL ranges begin <= end below the head file and ALL bucket states that satisfy
   the refinement relation of C01 plus the GC precondition GPre (below): after the pass the SAME reference map
   still describes the bucket -- every key reads exactly what it read before: value, flags, version; deleted
   keys stay deleted, absent keys stay absent.  The pass is the model function the correspondence check
   replays: newest-test per record, copy with destination switches, in-place rewriting of the first file of
   the range with its stale tail, conditional repoint, source clearing, final truncation. *)
Theorem C03_gc_preserves_reads : forall (cf : cfg) (hf : bytes -> N) (K : list bytes),
  (forall k1 k2, In k1 K -> In k2 K -> hf k1 = hf k2 -> k1 = k2) -> 0 < c_splitcap cf ->
  forall b m begin_ end_,
  Rel hf K b m -> GPre cf hf K b -> (begin_ <= end_ < b_head b)%nat ->
  Rel hf K (fst (gc_pass cf hf b begin_ end_ false)) m.
Proof. exact gc_pass_view. Qed.
Print Assumptions C03_gc_preserves_reads.

(* (2) the precondition is met by every state that client operations and clean restarts (with any index files
   removed) can reach (their invariant is C02's), provided no record extends past DataFileMax -- which
   holds as long as DataFileMax is never lowered below an existing file's extent and no single record
   exceeds it *)
Theorem C03_reachable_states_qualify : forall cf hf K b, XInv hf K b -> FMok cf b -> GPre cf hf K b.
Proof. exact xinv_gpre. Qed.
Print Assumptions C03_reachable_states_qualify.

(* (2b) PASSES CAN FOLLOW ONE ANOTHER (previously collected files): the state a pass leaves satisfies the refinement
   relation for the same map AND the GC precondition again, with the same head file; hence any number of passes over
   any legal ranges leaves every key reading what it read before the first one. *)
Theorem C03_any_number_of_passes : forall (cf : cfg) (hf : bytes -> N) (K : list bytes),
  (forall k1 k2, In k1 K -> In k2 K -> hf k1 = hf k2 -> k1 = k2) -> 0 < c_splitcap cf ->
  forall ranges b m,
  Rel hf K b m -> GPre cf hf K b -> Forall (fun r => (fst r <= snd r < b_head b)%nat) ranges ->
  Rel hf K (gc_passes cf hf b ranges) m /\ GPre cf hf K (gc_passes cf hf b ranges) /\ b_head (gc_passes cf hf b ranges) = b_head b.
Proof. exact gc_passes_view. Qed.
Print Assumptions C03_any_number_of_passes.

(* (2c) WITH OR WITHOUT HINT MERGE: on a key set without hash collisions the merge that a pass with merge = true runs
   first (rotate + dump every hint buffer, k-way merge of all hint files, collision detection) finds no collision, so
   the collision table stays empty and data files and tree are untouched; the pass then is the pass without merge
   (gc_pass_merge_eq).  Hence for EITHER flag the pass preserves the relation, the precondition and the head file,
   and so does any sequence of passes with any flags. *)
Theorem C03_gc_preserves_reads_any_merge : forall (cf : cfg) (hf : bytes -> N) (K : list bytes),
  (forall k1 k2, In k1 K -> In k2 K -> hf k1 = hf k2 -> k1 = k2) -> 0 < c_splitcap cf ->
  forall b m begin_ end_ merge,
  Rel hf K b m -> GPre cf hf K b -> (begin_ <= end_ < b_head b)%nat ->
  let b' := fst (gc_pass cf hf b begin_ end_ merge) in
  Rel hf K b' m /\ GPre cf hf K b' /\ b_head b' = b_head b.
Proof. exact gc_pass_view_any. Qed.
Print Assumptions C03_gc_preserves_reads_any_merge.

Theorem C03_any_passes_any_merge : forall (cf : cfg) (hf : bytes -> N) (K : list bytes),
  (forall k1 k2, In k1 K -> In k2 K -> hf k1 = hf k2 -> k1 = k2) -> 0 < c_splitcap cf ->
  forall ranges b m,
  Rel hf K b m -> GPre cf hf K b -> Forall (fun r => (fst (fst r) <= snd (fst r) < b_head b)%nat) ranges ->
  Rel hf K (gc_passes_m cf hf b ranges) m /\ GPre cf hf K (gc_passes_m cf hf b ranges) /\ b_head (gc_passes_m cf hf b ranges) = b_head b.
Proof. exact gc_passes_view_any. Qed.
Print Assumptions C03_any_passes_any_merge.

(* (3) and life goes on: a GC pass followed by ANY history of client operations answers exactly as the
   reference map does, the pass itself being invisible *)
Theorem C03_gc_then_history : forall (lc : l2cfg) (K : list bytes) b m x y ops sops,
  (forall k1 k2, In k1 K -> In k2 K -> forced_hash (l_forced lc) k1 = forced_hash (l_forced lc) k2 -> k1 = k2) ->
  0 < c_splitcap (l_cfg lc) ->
  Rel (forced_hash (l_forced lc)) K b m -> GPre (l_cfg lc) (forced_hash (l_forced lc)) K b -> (x <= y < b_head b)%nat ->
  sops_of ops = Some sops -> ops_ok lc K m sops ->
  model_run lc b (OGc x y false :: ops) = POk :: spec_run (c_checkvhash (l_cfg lc)) m sops.
Proof.
  intros lc K b m x y ops sops Hinj Hcap HR HP Hr Hs Hok. cbn [model_run l2_step].
  pose proof (gc_pass_view (l_cfg lc) (forced_hash (l_forced lc)) K Hinj Hcap b m x y HR HP Hr) as HR'.
  destruct (gc_pass (l_cfg lc) (forced_hash (l_forced lc)) b x y false) as [b' gs]. cbn [fst] in HR'. cbn [proj proj_out].
  f_equal. exact (run_refines lc K Hinj ops b' m sops HR' Hs Hok).
Qed.
Print Assumptions C03_gc_then_history.

(* (4) A RESTART AFTER GC.  A pass re-establishes the WHOLE restart invariant of C02 (XInv: per-file layout, every
   file covered by its hint splits, the tree equal to the replay of the record log, tree id below the newest dumped
   hint), together with two further invariants of histories -- a slot of negative version points at the last record
   of its hash (NL) and no record has version 0 (NZ) -- and "no record past DataFileMax" (FMok).  Hence C02_restart
   applies to the state a pass leaves: whatever index files are removed, the rebuilt index makes every key read what
   it read before the pass; no older value outside or inside the range can come back to life.  The proof
   (proofs/GcX1..GcX5.v) reads the update log positionally: after the pass the record a slot points at is still
   the record of its hash with the greatest (file, offset) position, forgotten tombstones that must survive
   (begin > 0) do survive in the written region, and the hint buffers of every written file describe exactly the
   records below its writing head. *)
Theorem C03_gc_reestablishes_restart_invariant : forall (cf : cfg) (hf : bytes -> N) (K : list bytes),
  (forall k1 k2, In k1 K -> In k2 K -> hf k1 = hf k2 -> k1 = k2) -> 0 < c_splitcap cf ->
  forall b m begin_ end_,
  Rel hf K b m -> XInv hf K b -> FMok cf b -> NLZ hf b -> MDok b -> (begin_ <= end_ < b_head b)%nat ->
  let b' := fst (gc_pass cf hf b begin_ end_ false) in
  Rel hf K b' m /\ XInv hf K b' /\ FMok cf b' /\ NLZ hf b' /\ MDok b' /\ b_head b' = b_head b.
Proof. exact gc_pass_xinv. Qed.
Print Assumptions C03_gc_reestablishes_restart_invariant.

(* (5) WHOLE HISTORIES WITH GC AND RESTARTS ANYWHERE: for ALL configurations with check_vhash off, ALL collision-free
   key sets and ALL histories of any length mixing client operations (set / delete / incr / get / meta-get / flush /
   hint dump), clean restarts (each with its own arbitrary subset of index files removed) and GC passes (any range,
   with or without hint merge) at ANY positions: every reply equals the reference map's reply; a pass never changes
   the map, a restart replaces it by a view of itself (live entries identical, tombstones possibly forgotten).
   [ready] is the side condition on the GC requests: each meets a state in which its range lies below the head
   file, no record extends past DataFileMax and some hint file has been written since the store was created (true
   after any restart or hint dump of a non-empty store); C17_range_sound gives the first for ranges resolved by the
   range check. *)
Theorem C03_histories_with_gc_and_restarts : forall (lc : l2cfg) (K : list bytes),
  (forall k1 k2, In k1 K -> In k2 K -> forced_hash (l_forced lc) k1 = forced_hash (l_forced lc) k2 -> k1 = k2) ->
  0 < c_splitcap (l_cfg lc) -> c_checkvhash (l_cfg lc) = false ->
  forall ops, Forall (op_valid3 K) ops -> ready lc bucket0 ops -> spec_ok3 lc K [] ops (model_run lc bucket0 ops).
Proof.
  intros lc K Hinj Hcap Hcv ops Hv Hr.
  exact (full_history lc K Hinj Hcap Hcv ops bucket0 [] (rinv2_init lc K Hcap Hcv) (nlz_init lc) Hv Hr).
Qed.
Print Assumptions C03_histories_with_gc_and_restarts.

(* non-vacuity of (5): overwrites and a delete over three 512-byte files, hint dump, GC of files 0..1 (in-place rewrite
   and draining), restart with the tree and a hint file removed, a write, GC with merge, restart: [ready] holds
   (computed), every operation is valid, and the replies are those of a plain map *)
Definition ex5_lc : l2cfg := mkL2 (mkCfg 512 4096 16 false 3 false 1) [] 0.
Definition ex5_K : list bytes := [unhex "6b31"; unhex "6b32"; unhex "6b33"; unhex "6b34"].
Definition ex5_z : zinfo := mkZ true 0 0.
Definition ex5_ops : list l2op :=
  [OSet "6b31" "6161" 0 0 1 ex5_z; OSet "6b32" "6262" 0 0 2 ex5_z; OSet "6b31" "6363" 0 0 3 ex5_z; OSet "6b33" "6464" 0 0 4 ex5_z;
   ODel "6b32"; OSet "6b34" "6565" 0 0 5 ex5_z; OFlush; OHintDump;
   OGc 0 1 false; OGet "6b31"; OGet "6b32"; ORestart (mkRm true [(0, 0)]%nat false); OGet "6b31"; OGet "6b32"; OMeta "6b33";
   OSet "6b32" "6666" 0 0 6 ex5_z; OFlush; OGc 0 0 true; ORestart rm_none; OGet "6b31"; OGet "6b32"; OGet "6b34"].
Example C03_history_nonvacuous :
  ready ex5_lc bucket0 ex5_ops /\
  model_run ex5_lc bucket0 ex5_ops =
    [PStored; PStored; PStored; PStored; PDeleted; PStored; POk; POk;
     POk; PHit (unhex "6363") 0; PMiss; POk; PHit (unhex "6363") 0; PMiss; PMeta 1 (vhash (unhex "6464")) 0 2;
     PStored; POk; POk; POk; PHit (unhex "6363") 0; PHit (unhex "6666") 0; PHit (unhex "6565") 0].
Proof. split; [apply ready_b_ok; vm_compute; reflexivity|vm_compute; reflexivity]. Qed.

(* non-vacuity: three 512-byte files with a superseded value, a delete and live keys; GC over [0,1] rewrites file 0
   in place and drains file 1 into it; every key reads as before *)
Definition ex3_lc : l2cfg := mkL2 (mkCfg 512 4096 16 false 3 false 1) [] 0.
Definition ex3_z : zinfo := mkZ true 0 0.
Definition ex3_pre : list l2op :=
  [OSet "6b31" "6161" 0 0 1 ex3_z; OSet "6b32" "6262" 0 0 2 ex3_z; OSet "6b31" "6363" 0 0 3 ex3_z; OSet "6b33" "6464" 0 0 4 ex3_z;
   ODel "6b32"; OSet "6b34" "6565" 0 0 5 ex3_z; OFlush].
Definition ex3_reads : list l2op := [OGet "6b31"; OGet "6b32"; OGet "6b33"; OMeta "6b31"; OMeta "6b32"].

Example C03_nonvacuous :
  model_run ex3_lc bucket0 (ex3_pre ++ OGc 0 1 false :: ex3_reads) =
  model_run ex3_lc bucket0 ex3_pre ++ POk :: skipn (List.length ex3_pre) (model_run ex3_lc bucket0 (ex3_pre ++ ex3_reads)) /\
  skipn (List.length ex3_pre) (model_run ex3_lc bucket0 (ex3_pre ++ ex3_reads)) =
    [PHit (unhex "6363") 0; PMiss; PHit (unhex "6464") 0; PMeta 2 (vhash (unhex "6363")) 0 2; PMeta (-2) 0 0 0].
Proof. split; vm_compute; reflexivity. Qed.
