(* C16 -- key hash, value hash and CRC match the historical beansdb definitions.
   Property theorems only; proofs live in proofs/HashProofs.v. *)
From Coq Require Import NArith ZArith List Bool String.
From GB Require Import Consts Words Hash HashRef HashProofs.
Import ListNotations.
Open Scope N_scope.

(* the signed-byte FNV-1a of the code is the C `signed char` definition, for every byte string *)
Theorem C16_fnv1a_is_historical : forall bs, allbytes bs = true ->
  Z.of_N (fnv1a_key bs) = fnv1a_ref bs /\ Z.of_N (fnv1a_val bs) = fnv1a_ref bs.
Proof. intros bs H. split; [exact (fnv1a_key_is_ref bs H)|exact (fnv1a_val_is_ref bs H)]. Qed.
Print Assumptions C16_fnv1a_is_historical.

(* below 0x80 the variant coincides with textbook FNV-1a ... *)
Theorem C16_fnv1a_ascii : forall bs, forallb (fun b => b <? 128) bs = true ->
  fnv1a_ref bs = fnv1a_std bs.
Proof. intros bs H. apply fnv_ref_std_ascii; [split; [discriminate|reflexivity]|exact H]. Qed.
Print Assumptions C16_fnv1a_ascii.

(* ... and above it does not: the quirk is real *)
Theorem C16_fnv1a_high_byte_differs : exists bs, allbytes bs = true /\ fnv1a_ref bs <> fnv1a_std bs.
Proof. exists [200]. split; [reflexivity|vm_compute; discriminate]. Qed.
Print Assumptions C16_fnv1a_high_byte_differs.

Theorem C16_murmur_is_ref : forall bs, allbytes bs = true -> murmur32 bs = murmur32_ref bs.
Proof. exact murmur32_is_ref. Qed.
Print Assumptions C16_murmur_is_ref.

(* 64-bit key hash: historical FNV variant in the high half, murmur3-32 in the low half *)
Theorem C16_keyhash_is_ref : forall bs, allbytes bs = true -> keyhash bs = keyhash_ref bs.
Proof. exact keyhash_is_ref. Qed.
Print Assumptions C16_keyhash_is_ref.

Theorem C16_keyhash_halves : forall bs,
  keyhash bs / 4294967296 = fnv1a_key bs /\ keyhash bs mod 4294967296 = murmur32 bs /\
  keyhash bs < 18446744073709551616.
Proof. intros bs. split; [apply keyhash_high|split; [apply keyhash_low|apply keyhash_lt]]. Qed.
Print Assumptions C16_keyhash_halves.

Theorem C16_vhash_is_ref : forall v, allbytes v = true -> vhash v = vhash_ref v /\ vhash v < 65536.
Proof. intros v H. split; [exact (vhash_is_ref v H)|apply vhash_lt]. Qed.
Print Assumptions C16_vhash_is_ref.

(* table-driven CRC-32 of the code (table from gen/Consts.v) = bitwise IEEE CRC-32 *)
Theorem C16_crc_table_is_bitwise : forall bs, allbytes bs = true -> crc32 bs = crc32_ref bs.
Proof. exact crc32_is_ref. Qed.
Print Assumptions C16_crc_table_is_bitwise.

(* non-vacuity / anchoring of the reference itself: the standard check value *)
Example C16_crc_check_value : crc32_ref (unhex "313233343536373839") = 0xCBF43926.
Proof. vm_compute. reflexivity. Qed.
Example C16_murmur_known : murmur32_ref (unhex "68656c6c6f") = 0x248bfa47.  (* "hello", seed 0 *)
Proof. vm_compute. reflexivity. Qed.
