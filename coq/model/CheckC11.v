(* Correspondence checker for C11 / C12: the protocol model over the reference map as storage. *)
From Coq Require Import NArith ZArith List Bool String.
From GB Require Import Consts Words Hash Bucket RefMap Proto CheckC09.
Import ListNotations.
Open Scope N_scope.

(* ---- store.IsValidKeyString: Go's `range` over a string decodes UTF-8 ---- *)
Definition cont (b : N) : bool := (128 <=? b) && (b <=? 191).
(* returns (rune, width); invalid encodings give U+FFFD, width 1 *)
Definition decode_rune (s : bytes) : N * nat :=
  match s with
  | [] => (65533, 1%nat)
  | b0 :: t =>
    if b0 <? 128 then (b0, 1%nat)
    else if (194 <=? b0) && (b0 <=? 223) then
      match t with b1 :: _ => if cont b1 then ((b0 - 192) * 64 + (b1 - 128), 2%nat) else (65533, 1%nat) | _ => (65533, 1%nat) end
    else if (224 <=? b0) && (b0 <=? 239) then
      match t with
      | b1 :: b2 :: _ =>
          let lo := if b0 =? 224 then 160 else 128 in
          let hi := if b0 =? 237 then 159 else 191 in
          if (lo <=? b1) && (b1 <=? hi) && cont b2 then ((b0 - 224) * 4096 + (b1 - 128) * 64 + (b2 - 128), 3%nat) else (65533, 1%nat)
      | _ => (65533, 1%nat)
      end
    else if (240 <=? b0) && (b0 <=? 244) then
      match t with
      | b1 :: b2 :: b3 :: _ =>
          let lo := if b0 =? 240 then 144 else 128 in
          let hi := if b0 =? 244 then 143 else 191 in
          if (lo <=? b1) && (b1 <=? hi) && cont b2 && cont b3
          then ((b0 - 240) * 262144 + (b1 - 128) * 4096 + (b2 - 128) * 64 + (b3 - 128), 4%nat) else (65533, 1%nat)
      | _ => (65533, 1%nat)
      end
    else (65533, 1%nat)
  end.

Definition is_control (r : N) : bool := (r <? 32) || ((127 <=? r) && (r <=? 159)).
Definition is_space (r : N) : bool :=
  ((9 <=? r) && (r <=? 13)) || (r =? 32) || (r =? 133) || (r =? 160) || (r =? 5760) ||
  ((8192 <=? r) && (r <=? 8202)) || (r =? 8232) || (r =? 8233) || (r =? 8239) || (r =? 8287) || (r =? 12288).

Fixpoint runes_ok (fuel : nat) (s : bytes) : bool :=
  match fuel with
  | O => true
  | S f => match s with
           | [] => true
           | _ => let '(r, w) := decode_rune s in
                  if is_control r || is_space r then false else runes_ok f (skipn w s)
           end
  end.

Definition valid_key_string (k : bytes) : bool :=
  match k with
  | [] => false
  | c :: _ => (lenN k <=? max_key_len) && negb (c <=? 32) && negb (c =? 63) && negb (c =? 64) && runes_ok (List.length k) k
  end.

(* ---- StorageClient over the reference map ---- *)
Definition m_bad_format : bytes := [98;97;100;32;99;111;109;109;97;110;100;32;108;105;110;101;32;102;111;114;109;97;116].
Definition m_bad_key_q : bytes := [98;97;100;32;107;101;121;32;63].
Definition m_not_found : bytes := [78;79;84;95;70;79;85;78;68].
Definition s_collision : bytes := [99;111;108;108;105;115;105;111;110;95].
Definition s_all : bytes := [97;108;108;95].
Definition dir_placeholder : bytes := [68;73;82].
Definition is_hex (c : N) : bool := ((48 <=? c) && (c <=? 57)) || ((97 <=? c) && (c <=? 102)) || ((65 <=? c) && (c <=? 70)).

Definition wrap32 (z : Z) : Z := ((z + 2147483648) mod 4294967296 - 2147483648)%Z.

Definition rm_get (m : smap) (key : bytes) : smap * sget :=
  match key with
  | 64 :: rest =>                                     (* '@' *)
      match rest with
      | 64 :: key2 =>
          if negb (lenN key2 =? 16) then (m, SGErr m_bad_format)
          else if forallb is_hex key2 then (m, SGMiss)          (* record dump by hash: not generated *)
          else (m, SGPanic)
      | _ =>
          if (11 <? lenN key) && beq (firstn 10 rest) s_collision then
            (if (15 <? lenN key) && beq (firstn 4 (skipn 10 rest)) s_all then (m, SGMiss)
             else (m, SGItem [48;32;48;32;48;32;48] 0 false))
          else if 16 <? lenN rest then (m, SGPanic)
          else (m, SGItem dir_placeholder 0 false)
      end
  | 63 :: rest =>                                     (* '?' *)
      match rest with
      | [] => (m, SGErr m_bad_key_q)
      | _ =>
          let k := match rest with 63 :: k2 => k2 | _ => rest end in
          if negb (valid_key_string k) then (m, SGMiss)
          else match s_get m k with
               | Some e => (m, SGItem (itoa (e_ver e) ++ [32] ++ itoa (Z.of_N (if live e then vhash (e_val e) else 0)) ++ [32]
                                       ++ itoa (Z.of_N (e_flag e)) ++ [32] ++ itoa (Z.of_N (lenN (e_val e)))) 0 false)
               | None => (m, SGMiss)
               end
      end
  | _ =>
      match s_get m key with
      | Some e => if live e then (m, SGItem (e_val e) (Z.of_N (e_flag e)) true) else (m, SGMiss)
      | None => (m, SGMiss)
      end
  end.

(* Set: (state, result, SetData released?) *)
Definition rm_set (m : smap) (key : bytes) (flag exptime : Z) (body : bytes) : smap * sset * bool :=
  if negb (valid_key_string key) then (m, SSNotStored, true)
  else
    let f := Z.to_N (flag mod 4294967296)%Z in
    let rev := wrap32 exptime in
    if (0 <=? rev)%Z then
      let '(m', _) := spec_step false m (SSet key body f rev) in (m', SSStored, true)
    else
      (* negative exptime: handled as a delete that carries a body; the buffer is never released *)
      match s_get m key with
      | Some e => if live e then (s_put m key (mkE body f (- Z.abs (e_ver e) - 1)%Z), SSStored, false)   (* a tombstone that keeps the body *)
                  else (m, SSErr m_not_found, false)
      | None => (m, SSErr m_not_found, false)
      end.

(* Incr: (state, result, GetData count delta, GetData size delta, SetData count released?) *)
Definition rm_incr (m : smap) (key : bytes) (d : Z) : smap * option Z * Z * bool :=
  if negb (valid_key_string key) then (m, Some 0%Z, 0%Z, false)
  else
    match s_get m key with
    | Some e =>
        if live e then
          if 22 <? lenN (e_val e) then (m, Some 0%Z, 1%Z, false)
          else match (if e_flag e =? flag_incr then atoi (e_val e) else None) with
               | None => (m, Some 0%Z, 0%Z, true)
               | Some x => let nv := wrap64 (d + x)%Z in
                           (s_put m key (mkE (itoa nv) flag_incr (e_ver e + 1)%Z), Some nv, 1%Z, true)
               end
        else (s_put m key (mkE (itoa d) flag_incr 1%Z), Some d, 1%Z, true)   (* the tombstone's payload was read and is never released *)
    | None => (s_put m key (mkE (itoa d) flag_incr 1%Z), Some d, 0%Z, true)
    end.

Definition rm_delete (m : smap) (key : bytes) : smap * sset :=
  if negb (valid_key_string key) then (m, SSNotStored)
  else match spec_step false m (SDel key) with
       | (m', PDeleted) => (m', SSStored)
       | (m', _) => (m', SSNotStored)
       end.

Definition s_optimize_stat : bytes := [111;112;116;105;109;105;122;101;95;115;116;97;116].
Definition rm_process (cmd : bytes) (args : list bytes) : bytes * bytes :=
  if beq cmd s_optimize_stat then ([110;111;110;101], []) else ([69;82;82;79;82], []).

Definition version_bytes : bytes := [50;46;49;46;48;46;49;56].

Definition rm_serve (pc : pcfg) (m : smap) (s : bytes) (a : acct) : smap * bytes * acct :=
  serve smap rm_get rm_set rm_incr rm_delete rm_process version_bytes (S (List.length s)) pc m s a.

(* a case: several connections served one after the other on one store:
   (stream hex, canonical output hex); then the final accounting (set count, set size, get count, get size, tokens out) *)
Record c11case := mkC11 { y_i : N; y_pc : pcfg; y_conns : list (string * string); y_acct : Z * Z * Z * Z * Z }.

Definition c11_check (c : c11case) : N :=
  let '(m, a, bad) :=
    fold_left (fun (st : smap * acct * N) (cn : string * string) =>
                 let '(m, a, bad) := st in
                 let '(m', out, a') := rm_serve (y_pc c) m (unhex (fst cn)) a in
                 (m', a', if negb (bad =? 0) then bad else if list_eqb N.eqb out (unhex (snd cn)) then 0 else 1))
              (y_conns c) ([], acct0, 0) in
  if negb (bad =? 0) then bad
  else let '(sc, ss, gc, gs, tk) := y_acct c in
       if (a_set_c a =? sc)%Z && (a_set_s a =? ss)%Z && (a_get_c a =? gc)%Z && (a_tokens_out a =? tk)%Z then 0 else 2.

Definition c11_run (cs : list c11case) : list N :=
  fold_right (fun c acc => let k := c11_check c in if k =? 0 then acc else (y_i c * 100 + k) :: acc) [] cs.
