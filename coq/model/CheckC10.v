(* Correspondence checker for C10: the safe C decompressor entry point vs the model. *)
From Coq Require Import NArith ZArith List Bool String.
From GB Require Import Consts Words Hash Qlz CheckC09.
Import ListNotations.
Open Scope N_scope.

(* index, source hex, C ok?, C output hex ("" when not shipped), length, crc *)
Definition c10case : Type := N * string * bool * string * N * N.

(* 0 agree, 1 differ, 2 the model says the C code reads or writes out of bounds on this input *)
Definition c10_check (c : c10case) : N :=
  let '(i, src, cok, cout, clen, ccrc) := c in
  match qlz_safe_entry (unhex src) with
  | DOob => 2
  | DErr => if cok then 1 else 0
  | DOk out =>
      if cok && (lenN out =? clen) && (crc32 out =? ccrc)
         && (match cout with EmptyString => true | h => list_eqb N.eqb out (unhex h) end) then 0 else 1
  end.

Definition c10_run (cs : list c10case) : list N * list N :=
  fold_right (fun c acc =>
                let '(i, _, _, _, _, _) := c in
                let k := c10_check c in
                if k =? 1 then (i :: fst acc, snd acc) else if k =? 2 then (fst acc, i :: snd acc) else acc) ([], []) cs.
