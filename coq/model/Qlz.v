(* L1: QuickLZ level-3 decompressor (quicklz/quicklz.c qlz_decompress / qlz_decompress_core) and the
   "safe" Go entry point CDecompressSafe (quicklz/cquicklz.go), with explicit out-of-bounds outcomes. *)
From Coq Require Import NArith ZArith List Bool.
From GB Require Import Consts Words.
Import ListNotations.
Open Scope Z_scope.

Inductive dres := DOk (out : bytes) | DErr | DOob.

Definition zlen (l : bytes) : Z := Z.of_nat (length l).
(* source byte at index i, None when outside the buffer *)
Definition sb (src : bytes) (i : Z) : option Z :=
  if (i <? 0) || (zlen src <=? i) then None else Some (Z.of_N (nth (Z.to_nat i) src 0%N)).
Definition read32 (src : bytes) (i : Z) : option Z :=
  match sb src i, sb src (i + 1), sb src (i + 2), sb src (i + 3) with
  | Some a, Some b, Some c, Some d => Some (a + 256 * b + 65536 * c + 16777216 * d)
  | _, _, _, _ => None
  end.

Definition bitlut (x : Z) : Z :=
  nth (Z.to_nat (Z.land x 15)) [4; 0; 1; 0; 2; 0; 1; 0; 3; 0; 1; 0; 2; 0; 1; 0] 0.

(* destination kept in reverse: the byte written most recently first *)
Fixpoint copy_match (n : nat) (offset : nat) (rdst : list N) : list N :=
  match n with
  | O => rdst
  | S k => copy_match k offset (nth (offset - 1) rdst 0%N :: rdst)
  end.

Fixpoint take_src (n : nat) (src : bytes) (i : Z) (rdst : list N) : list N :=
  match n with
  | O => rdst
  | S k => take_src k src (i + 1) (nth (Z.to_nat i) src 0%N :: rdst)
  end.

(* the final byte-by-byte loop *)
Fixpoint tail_loop (fuel : nat) (safe : bool) (src : bytes) (last_src size : Z) (i d cword : Z) (rdst : list N) : dres :=
  match fuel with
  | O => DErr
  | S f =>
    if size - 1 <? d then DOk (rev' rdst)
    else
      let '(i1, cw1) := if cword =? 1 then (i + 4, 2147483648) else (i, cword) in
      if safe && (last_src + 1 <=? i1) then DErr
      else match sb src i1 with
           | None => DOob
           | Some b => tail_loop f safe src last_src size (i1 + 1) (d + 1) (Z.shiftr cw1 1) (Z.to_N b :: rdst)
           end
  end.

(* qlz_decompress_core, compression level 3.  [src] is the whole compressed buffer, [i] an index into it,
   [last_src] = qlz_size_compressed - 1, [size] the announced decompressed size. *)
Fixpoint core (fuel : nat) (safe : bool) (src : bytes) (last_src size : Z) (i d cword : Z) (rdst : list N) : dres :=
  match fuel with
  | O => DErr
  | S f =>
    let step := fun (i cword : Z) =>
      if safe && (last_src <? i + 3) then DErr
      else match read32 src i with
      | None => DOob
      | Some fetch =>
        if Z.land cword 1 =? 1 then
          let cw := Z.shiftr cword 1 in
          let '(offset, matchlen, adv) :=
            if Z.land fetch 3 =? 0 then (Z.shiftr (Z.land fetch 255) 2, 3, 1)
            else if Z.land fetch 2 =? 0 then (Z.shiftr (Z.land fetch 65535) 2, 3, 2)
            else if Z.land fetch 1 =? 0 then (Z.shiftr (Z.land fetch 65535) 6, Z.land (Z.shiftr fetch 2) 15 + 3, 2)
            else if negb (Z.land fetch 127 =? 3) then (Z.land (Z.shiftr fetch 7) 131071, Z.land (Z.shiftr fetch 2) 31 + 2, 3)
            else (Z.shiftr fetch 15, Z.land (Z.shiftr fetch 7) 255 + 3, 4) in
          let offset2 := d - offset in
          (* (ui32)(last_destination_byte - dst - UNCOMPRESSED_END + 1) *)
          let room := (size - 1 - d - 4 + 1) mod 4294967296 in
          if safe && ((offset2 <? 0) || (d - 3 <? offset2) || (room <? matchlen)) then DErr
          else if (offset2 <? 0) || (d <=? offset2) || (size <? d + matchlen) then DOob
          else core f safe src last_src size (i + adv) (d + matchlen) cw (copy_match (Z.to_nat matchlen) (Z.to_nat offset) rdst)
        else if d <? size - 1 - 6 - 4 then
          let n := bitlut cword in
          if size <? d + 4 then DOob
          else core f safe src last_src size (i + n) (d + n) (Z.shiftr cword n) (take_src (Z.to_nat n) src i rdst)
        else tail_loop (S (length src)) safe src last_src size i d cword rdst
      end in
    if cword =? 1 then
      if safe && (last_src <? i + 3) then DErr
      else match read32 src i with
           | None => DOob
           | Some cw => step (i + 4) cw
           end
    else step i cword
  end.

Definition hdr_len (src : bytes) : option Z :=
  match sb src 0 with Some b => Some (if Z.land b 2 =? 2 then 9 else 3) | None => None end.
Definition rd_le (src : bytes) (i n : Z) : option Z :=
  if n =? 4 then read32 src i else sb src i.
Definition size_compressed (src : bytes) : option Z :=
  match hdr_len src with Some h => rd_le src 1 (if h =? 9 then 4 else 1) | None => None end.
Definition size_decompressed (src : bytes) : option Z :=
  match hdr_len src with Some h => let n := if h =? 9 then 4 else 1 in rd_le src (1 + n) n | None => None end.

(* qlz_decompress on a buffer the caller has sized to [size_decompressed] *)
Definition c_decompress (safe : bool) (src : bytes) : dres :=
  match hdr_len src, size_decompressed src, size_compressed src, sb src 0 with
  | Some h, Some dsiz, Some csiz, Some b0 =>
      (* every iteration consumes at least one source byte: the source length bounds the loop *)
      if Z.land b0 1 =? 1 then core (S (length src)) safe src (csiz - 1) dsiz h 0 1 []
      else (* stored block: memcpy(destination, source + headerlen, dsiz) *)
        if zlen src <? h + dsiz then DOob
        else DOk (firstn (Z.to_nat dsiz) (skipn (Z.to_nat h) src))
  | _, _, _, _ => DOob
  end.

(* CDecompressSafe; [stored_checked] = the wrapper verifies the stored-block length
   (Consts.qlz_stored_len_checked), [safe] = QLZ_MEMORY_SAFE (Consts.qlz_memory_safe) *)
Definition c_decompress_safe (safe stored_checked : bool) (src : bytes) : dres :=
  match hdr_len src, size_compressed src, size_decompressed src, sb src 0 with
  | Some h, Some sc, Some sd, Some b0 =>        (* Go reads: a short buffer panics, recovered => error *)
      if negb (zlen src =? sc) then DErr
      else if stored_checked && (Z.land b0 1 =? 0) && negb (sd =? sc - h) then DErr
      else if sd =? 0 then DErr                 (* &dst.Body[0] of an empty allocation panics, recovered *)
      else match c_decompress safe src with
           | DOk out => if zlen out =? sd then DOk out else DErr
           | r => r
           end
  | _, _, _, _ => DErr
  end.

Definition qlz_safe_entry (src : bytes) : dres := c_decompress_safe qlz_memory_safe qlz_stored_len_checked src.
