(* L2: record-level state machine of one bucket (store/bucket.go, data.go, datachunk.go,
   hint.go, collision.go).  Definitions only. *)
From Coq Require Import NArith ZArith List Bool.
From GB Require Import Consts Words Hash HintFile HTree Compress.
Import ListNotations.
Open Scope N_scope.

(* ------------------------------------------------------------------ data *)
Record drec := mkD { d_key : bytes; d_val : bytes; d_flag : N; d_ver : Z; d_ts : N; d_slen : N }.
(* d_val: logical (uncompressed) value; d_flag: stored flag; d_slen: stored body length *)

Definition dsize (r : drec) : N := padded (sizes_header + lenN (d_key r) + d_slen r).

Record pos := mkPos { p_chunk : nat; p_off : N }.
Definition pos_eqb (a b : pos) : bool := Nat.eqb (p_chunk a) (p_chunk b) && (p_off a =? p_off b).

Record slot := mkSlot { s_pos : pos; s_ver : Z; s_vh : N }.

Record chunk := mkChunk {
  k_exists : bool;                 (* NNN.data exists *)
  k_disk : list (N * drec);        (* records in the file, by offset (gaps = junk) *)
  k_fsize : N;                     (* physical file size *)
  k_wbuf : list (N * drec);        (* write buffer, offset order *)
  k_whead : N;                     (* writingHead *)
  k_size : N;                      (* size *)
  k_rewriting : bool }.

Definition chunk0 : chunk := mkChunk false [] 0 [] 0 0 false.

Record hsplit := mkSplit { sp_items : list hitem; sp_file : bool; sp_max : N }.
Record hchunk := mkHC { hc_splits : list hsplit; hc_active : bool }.   (* lastTS <> 0 *)
Definition split0 : hsplit := mkSplit [] false 0.
Definition hchunk0 : hchunk := mkHC [split0] false.

Definition hid := (nat * Z)%type.      (* HintID (chunk, split) *)
Definition hid_larger (id : hid) (ck : nat) (sp : Z) : bool :=   (* id.isLarger(ck, sp) *)
  Nat.ltb (fst id) ck || (Nat.eqb ck (fst id) && (snd id <=? sp)%Z).

Record cfg := mkCfg {
  c_filemax : N; c_bodymax : N; c_splitcap : N; c_checkvhash : bool; c_treedump : Z;
  c_nomerged : bool; c_nogcdays : Z }.

Record bucket := mkB {
  b_chunks : list chunk; b_head : nat;
  b_tree : nmap slot;
  b_hints : list hchunk; b_hmax : nat; b_maxdumped : hid; b_dumpable : nat;
  b_merged : option (list hitem);
  b_ctab : list hitem; b_ctid : hid;
  b_treeid : hid; b_nextgc : nat;
  (* index files that exist on disk besides the per-split hint files *)
  b_treefiles : list (hid * nmap slot);
  b_mergedfile : option (hid * list hitem);
  b_ctfile : option (list hitem * hid);
  b_nextgcfile : option nat }.

Definition NCH : nat := 24.
Definition bucket0 : bucket :=
  mkB (repeat chunk0 NCH) 0 (PM.empty _) (repeat hchunk0 NCH) 0 (O, (-1)%Z) (N.to_nat max_num_chunk - 1)
      None [] (O, 0%Z) (O, (-1)%Z) 0 [] None None None.

(* update position i of a table whose missing entries read as the default d (the table grows on demand) *)
Fixpoint updd {A} (d : A) (l : list A) (i : nat) (x : A) : list A :=
  match i, l with
  | O, [] => [x]
  | O, _ :: t => x :: t
  | S k, [] => d :: updd d [] k x
  | S k, y :: t => y :: updd d t k x
  end.

Definition chunk_at (b : bucket) (c : nat) : chunk := nth c (b_chunks b) chunk0.
Definition hchunk_at (b : bucket) (c : nat) : hchunk := nth c (b_hints b) hchunk0.

Definition set_chunks (b : bucket) (cs : list chunk) : bucket :=
  mkB cs (b_head b) (b_tree b) (b_hints b) (b_hmax b) (b_maxdumped b) (b_dumpable b) (b_merged b) (b_ctab b) (b_ctid b)
      (b_treeid b) (b_nextgc b) (b_treefiles b) (b_mergedfile b) (b_ctfile b) (b_nextgcfile b).
Definition set_chunk (b : bucket) (c : nat) (k : chunk) : bucket := set_chunks b (updd chunk0 (b_chunks b) c k).
Definition set_head (b : bucket) (h : nat) : bucket :=
  mkB (b_chunks b) h (b_tree b) (b_hints b) (b_hmax b) (b_maxdumped b) (b_dumpable b) (b_merged b) (b_ctab b) (b_ctid b)
      (b_treeid b) (b_nextgc b) (b_treefiles b) (b_mergedfile b) (b_ctfile b) (b_nextgcfile b).
Definition set_tree (b : bucket) (t : nmap slot) : bucket :=
  mkB (b_chunks b) (b_head b) t (b_hints b) (b_hmax b) (b_maxdumped b) (b_dumpable b) (b_merged b) (b_ctab b) (b_ctid b)
      (b_treeid b) (b_nextgc b) (b_treefiles b) (b_mergedfile b) (b_ctfile b) (b_nextgcfile b).
Definition set_hints (b : bucket) (hs : list hchunk) (hmax : nat) (md : hid) : bucket :=
  mkB (b_chunks b) (b_head b) (b_tree b) hs hmax md (b_dumpable b) (b_merged b) (b_ctab b) (b_ctid b)
      (b_treeid b) (b_nextgc b) (b_treefiles b) (b_mergedfile b) (b_ctfile b) (b_nextgcfile b).
Definition set_ctab (b : bucket) (ct : list hitem) : bucket :=
  mkB (b_chunks b) (b_head b) (b_tree b) (b_hints b) (b_hmax b) (b_maxdumped b) (b_dumpable b) (b_merged b) ct (b_ctid b)
      (b_treeid b) (b_nextgc b) (b_treefiles b) (b_mergedfile b) (b_ctfile b) (b_nextgcfile b).

(* ------------------------------------------------------------- reading *)
Fixpoint find_off (l : list (N * drec)) (off : N) : option drec :=
  match l with
  | [] => None
  | (o, r) :: t => if o =? off then Some r else find_off t off
  end.

Inductive rdres := RRec (r : drec) (inbuf : bool) | RNil | RFail.

(* dataChunk.GetRecordByOffset *)
Definition chunk_read (k : chunk) (off : N) : rdres :=
  match k_wbuf k with
  | (o0, _) :: _ =>
      if (off <? o0) || (k_whead k <=? off) then
        (if k_exists k then match find_off (k_disk k) off with Some r => RRec r false | None => RFail end else RFail)
      else match find_off (k_wbuf k) off with Some r => RRec r true | None => RFail end
  | [] =>
      if k_exists k then match find_off (k_disk k) off with Some r => RRec r false | None => RFail end else RFail
  end.

Definition read_pos (b : bucket) (p : pos) : rdres := chunk_read (chunk_at b (p_chunk p)) (p_off p).

(* ------------------------------------------------------- collision table *)
Definition ct_get (ct : list hitem) (h : N) (key : bytes) : option hitem :=
  find (fun x => (hi_hash x =? h) && bytes_eqb (hi_key x) key) ct.
Definition ct_has_hash (ct : list hitem) (h : N) : bool := existsb (fun x => hi_hash x =? h) ct.

(* compareAndSet(it, reason): [force] = reason "gc"; with the repair of finding F22
   (Consts.gc_collision_update_versioned) a GC relocation does not replace an entry of a newer version *)
Fixpoint ct_cas_gen (versioned : bool) (ct : list hitem) (it : hitem) (force : bool) : list hitem :=
  match ct with
  | [] => [it]
  | x :: r => if same_hk x it then
                (if (if force then (if versioned then (Z.abs (hi_ver x) <=? Z.abs (hi_ver it))%Z else true)
                     else pos_key x <=? pos_key it) then it else x) :: r
              else x :: ct_cas_gen versioned r it force
  end.
Definition ct_cas := ct_cas_gen gc_collision_update_versioned.

(* ------------------------------------------------------------- hints *)
Definition buf_get (l : list hitem) (h : N) (key : bytes) : option hitem :=
  find (fun x => (hi_hash x =? h) && bytes_eqb (hi_key x) key) l.

(* hintChunk.get: newest split first; buffers, then files *)
Fixpoint splits_get (sps : list hsplit) (h : N) (key : bytes) : option hitem :=
  match sps with
  | [] => None
  | sp :: older => match buf_get (sp_items sp) h key with Some it => Some it | None => splits_get older h key end
  end.
Definition hchunk_get (hc : hchunk) (h : N) (key : bytes) : option hitem := splits_get (rev (hc_splits hc)) h key.

(* hintMgr.getItem (memOnly = false) *)
Fixpoint hints_get_from (b : bucket) (n : nat) (h : N) (key : bytes) : option (hitem * nat) :=
  let here := fun (i : nat) =>
    match b_merged b with
    | Some m => if Nat.leb i (fst (b_ctid b)) then
                  Some (match buf_get m h key with
                        | Some it => Some (mkHI (hi_hash it) 0 (hi_off it) (hi_ver it) (hi_vh it) (hi_key it), N.to_nat (hi_chunk it))
                        | None => None end)
                else None
    | None => None
    end in
  match here n with
  | Some r => r
  | None =>
    match hchunk_get (hchunk_at b n) h key with
    | Some it => Some (it, n)
    | None => match n with O => None | S k => hints_get_from b k h key end
    end
  end.
Definition hints_get (b : bucket) (h : N) (key : bytes) : option (hitem * nat) := hints_get_from b (b_hmax b) h key.

(* HintBuffer.Set on the last split of a chunk; rotation when full *)
Definition split_set (cap : N) (sp : hsplit) (it : hitem) (recsize : N) : option hsplit :=
  match buf_set cap (sp_items sp) it with
  | Some l => Some (mkSplit l false (N.max (sp_max sp) (hi_off it + recsize)))
  | None => None
  end.

Definition last_split (sps : list hsplit) : hsplit := last sps split0.

(* hintMgr.dump of split index j of chunk c: the buffer becomes a sorted file *)
Definition dump_split (sp : hsplit) : hsplit := mkSplit (sort_by hk_ltb (sp_items sp)) true (sp_max sp).
Definition need_dump (sp : hsplit) : bool := negb (sp_file sp) && negb (match sp_items sp with [] => true | _ => false end).

Fixpoint dump_old (sps : list hsplit) (j : Z) (md : hid) (c : nat) : list hsplit * hid :=
  match sps with
  | [] => ([], md)
  | [lastsp] => ([lastsp], md)
  | sp :: t =>
      let '(t', md') := dump_old t (j + 1) (if need_dump sp && hid_larger md c j then (c, j) else md) c in
      ((if need_dump sp then dump_split sp else sp) :: t', md')
  end.

(* hintMgr.trydump(chunk, dumplast) with SecsBeforeDump = -1 (the silence test always passes) *)
Definition trydump (b : bucket) (c : nat) (dumplast : bool) : bucket :=
  let hc := hchunk_at b c in
  let '(sps, md) := dump_old (hc_splits hc) 0 (b_maxdumped b) c in
  let hc1 := mkHC sps (hc_active hc) in
  let stop := (negb dumplast && Nat.eqb c (b_hmax b)) || negb (hc_active hc) in
  let j := Z.of_nat (length sps - 1) in
  if stop || negb (need_dump (last_split sps)) then set_hints b (updd hchunk0 (b_hints b) c hc1) (b_hmax b) md
  else
    let sps' := removelast sps ++ [dump_split (last_split sps); split0] in
    let md' := if hid_larger md c j then (c, j) else md in
    set_hints b (updd hchunk0 (b_hints b) c (mkHC sps' false)) (b_hmax b) md'.

(* hintMgr.setItem *)
Definition hints_set_item (cf : cfg) (b : bucket) (it : hitem) (c : nat) (recsize : N) : bucket :=
  let hc := hchunk_at b c in
  let sps := hc_splits hc in
  let '(sps', rotated) :=
    match split_set (c_splitcap cf) (last_split sps) it recsize with
    | Some sp => (removelast sps ++ [sp], false)
    | None =>
        let full := last_split sps in
        let full' := mkSplit (sp_items full) (sp_file full) (N.max (sp_max full) (hi_off it)) in
        let fresh := match split_set (c_splitcap cf) split0 it recsize with Some sp => sp | None => split0 end in
        (removelast sps ++ [full'; fresh], true)
    end in
  let b1 := set_hints b (updd hchunk0 (b_hints b) c (mkHC sps' true)) (b_hmax b) (b_maxdumped b) in
  let b2 := if rotated then trydump b1 c false else b1 in
  if Nat.ltb (b_hmax b2) c then set_hints b2 (b_hints b2) c (b_maxdumped b2) else b2.

(* hintMgr.set *)
Definition hints_set (cf : cfg) (b : bucket) (h : N) (key : bytes) (ver : Z) (vh : N) (p : pos) (recsize : N) (gc : bool) : bucket :=
  let it := mkHI h 0 (p_off p) ver vh key in
  (* `_, ok := collisions.get(hash, key)`: ok reports that the HASH is in the table *)
  let b1 := if ct_has_hash (b_ctab b) h
            then set_ctab b (ct_cas (b_ctab b) (mkHI h (N.of_nat (p_chunk p)) (p_off p) ver vh key) gc)
            else b in
  hints_set_item cf b1 it (p_chunk p) recsize.

(* -------------------------------------------------------- write path *)
(* dataStore.flush(chunk): buffer to file *)
Definition flush_chunk (b : bucket) (c : nat) : bucket :=
  let k := chunk_at b c in
  match k_wbuf k with
  | [] => b
  | _ => set_chunk b c (mkChunk true (k_disk k ++ k_wbuf k) (k_whead k) [] (k_whead k) (k_size k) (k_rewriting k))
  end.

Definition wbuf_total (b : bucket) : N :=
  fold_left (fun n k => fold_left (fun m e => m + dsize (snd e)) (k_wbuf k) n) (b_chunks b) 0.

(* dataStore.flush(-1, force) as called by the flusher / close: head chunk only; creates the file *)
Definition flush_head (b : bucket) : bucket :=
  if wbuf_total b =? 0 then b
  else
    let k := chunk_at b (b_head b) in
    match k_wbuf k with
    | [] => set_chunk b (b_head b) (mkChunk true (k_disk k) (k_fsize k) [] (k_whead k) (k_size k) (k_rewriting k))
    | _ => flush_chunk b (b_head b)
    end.

(* dataStore.AppendRecord; the post-rotation `go flush(prev)` is taken synchronously here
   (the interleaving semantics of L3 splits it off) *)
Definition append_record (cf : cfg) (b : bucket) (r : drec) : bucket * pos :=
  let size := dsize r in
  let cur := k_whead (chunk_at b (b_head b)) in
  let '(b1, off) :=
    if c_filemax cf <? cur + size then (flush_chunk (set_head b (S (b_head b))) (b_head b), 0)
    else (b, cur) in
  let k := chunk_at b1 (b_head b1) in
  let k' := mkChunk (k_exists k) (k_disk k) (k_fsize k) (k_wbuf k ++ [(off, r)]) (k_whead k + size) (k_whead k + size) (k_rewriting k) in
  (set_chunk b1 (b_head b1) k', mkPos (b_head b1) off).

Definition tree_get_slot (b : bucket) (h : N) : option slot := PM.find (N.succ_pos h) (b_tree b).
Definition tree_put (b : bucket) (h : N) (s : slot) : bucket := set_tree b (PM.add (N.succ_pos h) s (b_tree b)).
Definition tree_del (b : bucket) (h : N) : bucket := set_tree b (PM.remove (N.succ_pos h) (b_tree b)).

(* bucket.set *)
Definition bkt_set (cf : cfg) (b : bucket) (h : N) (r : drec) (vh : N) : bucket :=
  let '(b1, p) := append_record cf b r in
  let b2 := tree_put b1 h (mkSlot p (d_ver r) vh) in
  hints_set cf b2 h (d_key r) (d_ver r) vh p (dsize r) false.

(* bucket.get(ki, memOnly = true): (ver, vhash, pos) from the collision table or the tree *)
Definition bkt_get_mem (b : bucket) (h : N) (key : bytes) : option (Z * N * pos) :=
  match ct_get (b_ctab b) h key with
  | Some it => Some (hi_ver it, hi_vh it, mkPos (N.to_nat (hi_chunk it)) (hi_off it))
  | None => match tree_get_slot b h with
            | Some s => Some (s_ver s, s_vh s, s_pos s)
            | None => None
            end
  end.

Inductive getout :=
| GMiss
| GHit (val : bytes) (flag : N) (ver : Z) (ts : N) (p : pos)
| GFail.

Definition vhash_of (r : drec) : N := if (0 <? d_ver r)%Z then vhash (d_val r) else 0.

(* bucket.get(ki, memOnly = false); [hf] = key hash function *)
Definition bkt_get (hf : bytes -> N) (b : bucket) (key : bytes) : bucket * getout :=
  let h := hf key in
  match bkt_get_mem b h key with
  | None => (b, GMiss)
  | Some (ver, _, p) =>
    match read_pos b p with
    | RFail => (b, GFail)
    | RNil => (b, GFail)
    | RRec r inbuf =>
      if bytes_eqb (d_key r) key then (b, GHit (d_val r) (client_flag (d_flag r)) ver (d_ts r) p)
      else if negb (hf (d_key r) =? h) then
        (if inbuf && Nat.ltb (p_chunk p) (b_head b - 1) then (b, GMiss) else (b, GFail))
      else
        match hints_get b h key with
        | None => (b, GMiss)
        | Some (it, ck) =>
          let it1 := mkHI h (N.of_nat (p_chunk p)) (p_off p) (d_ver r) (vhash_of r) (d_key r) in
          let it2 := mkHI h (N.of_nat ck) (hi_off it) (hi_ver it) (hi_vh it) (hi_key it) in
          let b' := set_ctab b (ct_cas (ct_cas (b_ctab b) it1 false) it2 false) in
          let p2 := mkPos ck (hi_off it) in
          match read_pos b' p2 with
          | RRec r2 _ => (b', GHit (d_val r2) (client_flag (d_flag r2)) (d_ver r2) (d_ts r2) p2)
          | RNil => (b', GMiss)
          | RFail => (b', GFail)
          end
        end
    end
  end.

(* checkAndUpdateVerison *)
Definition zabs (z : Z) : Z := Z.abs z.
Definition next_version (oldv rev : Z) : option Z :=
  if (rev =? 0)%Z then Some (if (0 <=? oldv)%Z then oldv + 1 else - oldv + 1)%Z
  else if (rev <? 0)%Z then Some (- zabs oldv - 1)%Z
  else if (zabs rev <=? zabs oldv)%Z then None
  else Some rev.

Inductive setout := SStored | SNotFound.    (* nil error / "NOT_FOUND" error *)

(* bucket.checkAndSet: rev = 0 auto, > 0 explicit, < 0 delete *)
Definition check_and_set_gen (sets_only : bool) (cf : cfg) (hf : bytes -> N) (b : bucket)
           (key val : bytes) (flag : N) (rev : Z) (ts : N) (z : zinfo) : bucket * setout :=
  let h := hf key in
  let vh := if (0 <=? rev)%Z then vhash val else 0 in
  let comp := compress_decide (lenN key) (lenN val) flag rev z in
  let old := bkt_get_mem b h key in
  let oldv := match old with Some (v, _, _) => v | None => 0%Z end in
  (* [sets_only]: the shortcut is guarded by v.Ver >= 0 (Consts.vhash_shortcut_sets_only, finding F16) *)
  let same := (if sets_only then (0 <=? rev)%Z else true) &&
              match old with Some (v, ovh, _) => (0 <? v)%Z && (vh =? ovh) | None => false end in
  if same && c_checkvhash cf then
    match old with
    | Some (_, _, p) => if negb (rev =? 0)%Z then (tree_put b h (mkSlot p rev vh), SStored) else (b, SStored)
    | None => (b, SStored)
    end
  else
    match next_version oldv rev with
    | None => (b, SStored)
    | Some ver =>
      if (ver <? 0)%Z && (match old with None => true | Some _ => (oldv <? 0)%Z end) then (b, SNotFound)
      else
        let r := mkD key val (stored_flag flag (match comp with Some _ => true | None => false end)) ver ts
                     (match comp with Some n => n | None => lenN val end) in
        (bkt_set cf b h r vh, SStored)
    end.

Definition check_and_set := check_and_set_gen vhash_shortcut_sets_only.

(* ---- incr ---- *)
Definition digit (c : N) : option Z := if (48 <=? c) && (c <=? 57) then Some (Z.of_N (c - 48)) else None.
Fixpoint parse_digits_z (s : bytes) (acc : Z) : option Z :=
  match s with
  | [] => Some acc
  | c :: t => match digit c with Some d => parse_digits_z t (acc * 10 + d)%Z | None => None end
  end.
(* strconv.Atoi on a short string (<= 22 bytes): optional sign, digits, int64 range *)
Definition atoi (s : bytes) : option Z :=
  let '(neg, ds) := match s with
                    | 45 :: t => (true, t)
                    | 43 :: t => (false, t)
                    | _ => (false, s)
                    end in
  match ds with
  | [] => None
  | _ => match parse_digits_z ds 0 with
         | Some v => let v' := if neg then (- v)%Z else v in
                     if (v' <? -9223372036854775808)%Z || (9223372036854775807 <? v')%Z then None else Some v'
         | None => None
         end
  end.
Definition wrap64 (z : Z) : Z := ((z + 9223372036854775808) mod 18446744073709551616 - 9223372036854775808)%Z.

Fixpoint pos_digits (fuel : nat) (p : Z) (acc : bytes) : bytes :=
  match fuel with
  | O => acc
  | S f => if (p <? 10)%Z then (48 + Z.to_N p) :: acc
           else pos_digits f (p / 10)%Z ((48 + Z.to_N (p mod 10)%Z) :: acc)
  end.
Definition itoa (z : Z) : bytes :=
  if (z <? 0)%Z then 45 :: pos_digits 25 (- z)%Z [] else pos_digits 25 z [].

(* bucket.incr; returns the reply number *)
Definition bkt_incr (cf : cfg) (hf : bytes -> N) (b : bucket) (key : bytes) (delta : Z) (ts : N) : bucket * Z :=
  let '(b1, g) := bkt_get hf b key in
  let err0 := match g with GFail => true | _ => false end in
  let live := match g with GHit v fl ver _ _ => if (0 <? ver)%Z then Some (v, fl, ver) else None | _ => None end in
  match live with
  | Some (v, fl, ver) =>
    if 22 <? lenN v then (b1, 0%Z)
    else
      let bad := err0 || negb (fl =? flag_incr) || (match atoi v with None => true | Some _ => false end) in
      if bad then (b1, 0%Z)
      else
        let nv := wrap64 (delta + match atoi v with Some x => x | None => 0 end)%Z in
        let body := itoa nv in
        (bkt_set cf b1 (hf key) (mkD key body flag_incr (ver + 1)%Z ts (lenN body)) (vhash body), nv)
  | None =>
    if err0 then (b1, 0%Z)
    else let body := itoa delta in
         (bkt_set cf b1 (hf key) (mkD key body flag_incr 1%Z ts (lenN body)) (vhash body), delta)
  end.
