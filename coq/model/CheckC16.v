(* Correspondence checker for C16: evaluates model and spec on harness cases. *)
From Coq Require Import NArith ZArith List Bool String.
From GB Require Import Consts Words Hash HashRef.
Import ListNotations.
Open Scope N_scope.

(* index, hex input, lcg seed (0 = use hex), length, impl outputs:
   fnv (store), fnv (utils), murmur, keyhash, vhash, crc, crc fed in 3 parts *)
Definition c16case : Type := N * string * N * N * (N * N * N * N * N * N * N).

Definition c16_input (hex : string) (gen len : N) : bytes :=
  if gen =? 0 then unhex hex else lcg_bytes len gen.

Definition c16_model (bs : bytes) : N * N * N * N * N * N * N :=
  (fnv1a_key bs, fnv1a_val bs, murmur32 bs, keyhash bs, vhash bs, crc32 bs, crc32 bs).
Definition c16_spec (bs : bytes) : N * N * N * N * N * N * N :=
  let f := Z.to_N (fnv1a_ref bs) in
  let c := crc32_ref bs in
  (f, f, murmur32_ref bs, keyhash_ref bs, vhash_ref bs, c, c).

Definition eq7 (a b : N * N * N * N * N * N * N) : bool :=
  let '(a1, a2, a3, a4, a5, a6, a7) := a in
  let '(b1, b2, b3, b4, b5, b6, b7) := b in
  (a1 =? b1) && (a2 =? b2) && (a3 =? b3) && (a4 =? b4) && (a5 =? b5) && (a6 =? b6) && (a7 =? b7).

(* returns (indices where model <> impl, indices where spec <> impl, cases whose length differs) *)
Definition c16_run (cs : list c16case) : list N * list N * list N :=
  fold_right (fun (c : c16case) acc =>
    let '(i, hex, gen, len, impl) := c in
    let '(mm, sm, lm) := acc in
    let bs := c16_input hex gen len in
    ((if eq7 (c16_model bs) impl then mm else i :: mm),
     (if eq7 (c16_spec bs) impl then sm else i :: sm),
     (if lenN bs =? len then lm else i :: lm))) ([], [], []) cs.

(* big inputs (lcg generated): CRC only -- (index, seed, length, crc, crc3) *)
Definition c16_run_big (cs : list (N * N * N * N * N)) : list N * list N * list N :=
  fold_right (fun (c : N * N * N * N * N) acc =>
    let '(i, gen, len, crc, crc3) := c in
    let '(mm, sm, lm) := acc in
    let bs := lcg_bytes len gen in
    let m := crc32 bs in let s := crc32_ref bs in
    ((if (m =? crc) && (m =? crc3) then mm else i :: mm),
     (if (s =? crc) && (s =? crc3) then sm else i :: sm),
     (if lenN bs =? len then lm else i :: lm))) ([], [], []) cs.
