(* L1: key hash -> 16 hex digits -> bucket id; path parsing (store/key.go, store/config.go). *)
From Coq Require Import NArith ZArith List Bool.
From GB Require Import Consts Words.
Import ListNotations.
Open Scope N_scope.

(* ParsePathUint64: digit i (0 = most significant) of a 64-bit hash *)
Definition hexdigit (khash : N) (i : N) : N := N.land (N.shiftr khash (4 * (15 - i))) 15.
Definition path_of_hash (khash : N) : list N :=
  map (hexdigit khash) [0;1;2;3;4;5;6;7;8;9;10;11;12;13;14;15].

(* KeyInfo.Prepare for a normal key: BucketID from the first depth digits *)
Definition bucket_of_path (depth : nat) (path : list N) : N :=
  fold_left (fun b v => b * 16 + v) (firstn depth path) 0.
Definition bucket_id (depth : nat) (khash : N) : N := bucket_of_path depth (path_of_hash khash).

(* InitTree: depth from the number of buckets (1, 16, 256) *)
Fixpoint depth_of (fuel : nat) (n : N) : nat :=
  match fuel with O => O | S f => if 1 <? n then S (depth_of f (n / 16)) else O end.
Definition tree_depth (numbucket : N) : nat := depth_of 16 numbucket.

(* ---- directory ("@...") keys ---- *)
Definition hexchar_val (c : N) : option N :=      (* strconv.ParseInt(s, 16, 0) on one character *)
  if (48 <=? c) && (c <=? 57) then Some (c - 48)
  else if (97 <=? c) && (c <=? 102) then Some (c - 87)
  else if (65 <=? c) && (c <=? 70) then Some (c - 55)
  else None.

Inductive pathres := PathOK (p : list N) | PathErr | PathPanic.

Fixpoint parse_digits (s : bytes) : option (list N) :=
  match s with
  | [] => Some []
  | c :: t => match hexchar_val c, parse_digits t with
              | Some d, Some r => Some (d :: r)
              | _, _ => None
              end
  end.

(* ParsePathString(pathStr, buf[:16]): slicing buf[:len] panics beyond 16 *)
Definition parse_path_string (s : bytes) : pathres :=
  if 16 <? lenN s then PathPanic
  else match parse_digits s with Some p => PathOK p | None => PathErr end.

(* setKeyHashByPath *)
Definition hash_of_path (p : list N) : N :=
  fst (fold_left (fun st v => let '(h, sh) := st in (N.lor h (N.shiftl v sh), sh - 4)) p (0, 60)).

(* GetBucketDir *)
Definition hexc (d : N) : N := if d <? 10 then 48 + d else 87 + d.
Definition bucket_dir (numbucket bucket : N) : option bytes :=
  if numbucket =? 1 then Some []
  else if numbucket =? 16 then Some [hexc bucket]
  else if numbucket =? 256 then Some [hexc (bucket / 16); 47; hexc (bucket mod 16)]
  else None.
