(* L3: interleaving semantics of concurrent clients on one bucket (store/bucket.go).
   Writers (checkAndSet, incr) run under Bucket.writeLock from the version read to the index update, the
   flusher and hint dumper take the chunk / hint locks; each of those is ONE atomic step here.  A reader
   takes no bucket-wide lock: it looks its position up (tree lock), releases everything, and reads the
   record by position later (chunk lock) -- so a get is TWO steps with arbitrary other steps between. *)
From Coq Require Import NArith ZArith List Bool String.
From GB Require Import Consts Words Hash HintFile HTree Compress Bucket BucketOpen Gc CheckL2 RefMap.
Import ListNotations.
Open Scope N_scope.

(* bucket.get split at the lock release: [look] is what getMem returned earlier, [b] is the bucket now *)
Definition get_begin (hf : bytes -> N) (b : bucket) (key : bytes) : option (Z * N * pos) := bkt_get_mem b (hf key) key.

Definition get_end (hf : bytes -> N) (b : bucket) (key : bytes) (look : option (Z * N * pos)) : bucket * getout :=
  let h := hf key in
  match look with
  | None => (b, GMiss)
  | Some (ver, _, p) =>
    match read_pos b p with
    | RFail => (b, GFail)
    | RNil => (b, GFail)
    | RRec r inbuf =>
      if bytes_eqb (d_key r) key then (b, GHit (d_val r) (client_flag (d_flag r)) ver (d_ts r) p)
      else if negb (hf (d_key r) =? h) then
        (if inbuf && Nat.ltb (p_chunk p) (b_head b - 1) then (b, GMiss) else (b, GFail))
      else
        match hints_get b h key with
        | None => (b, GMiss)
        | Some (it, ck) =>
          let it1 := mkHI h (N.of_nat (p_chunk p)) (p_off p) (d_ver r) (vhash_of r) (d_key r) in
          let it2 := mkHI h (N.of_nat ck) (hi_off it) (hi_ver it) (hi_vh it) (hi_key it) in
          let b' := set_ctab b (ct_cas (ct_cas (b_ctab b) it1 false) it2 false) in
          let p2 := mkPos ck (hi_off it) in
          match read_pos b' p2 with
          | RRec r2 _ => (b', GHit (d_val r2) (client_flag (d_flag r2)) (d_ver r2) (d_ts r2) p2)
          | RNil => (b', GMiss)
          | RFail => (b', GFail)
          end
        end
    end
  end.

(* events of a concurrent history *)
Inductive cev :=
| CAtomic (o : l2op)                         (* a whole write / flush / dump / single-step read *)
| CBegin (c : nat) (k : string) (meta : bool) (* client c starts get / meta-get of k: position lookup *)
| CEnd (c : nat).                            (* client c finishes its pending read: read by position *)

Definition pending := list (nat * (string * bool * option (Z * N * pos))).

Fixpoint take_pending {A} (c : nat) (l : list (nat * A)) : option (A * list (nat * A)) :=
  match l with
  | [] => None
  | (c', x) :: t => if Nat.eqb c c' then Some (x, t)
                    else match take_pending c t with Some (y, t') => Some (y, (c', x) :: t') | None => None end
  end.

Definition get_reply (meta : bool) (g : getout) : mout :=
  if meta then MOut (match g with
                     | GMiss => XMiss | GFail => XErr
                     | GHit v fl ver ts p => XMeta ver (if (0 <? ver)%Z then vhash v else 0) fl (lenN v) ts (N.of_nat (p_chunk p)) (p_off p)
                     end)
  else match g with
       | GMiss => MOut XMiss | GFail => MOut XErr
       | GHit v fl ver _ _ => if (ver <? 0)%Z then MOut XMiss else MHit v fl
       end.

(* one event on the model; None output = no reply produced by this event *)
Definition c_step (lc : l2cfg) (st : bucket * pending) (e : cev) : option (bucket * pending) * option mout :=
  let '(b, pd) := st in
  let hf := forced_hash (l_forced lc) in
  match e with
  | CAtomic o => match l2_step lc b o with
                 | (Some b', x) => (Some (b', pd), Some x)
                 | (None, x) => (None, Some x)
                 end
  | CBegin c k meta => (Some (b, (c, (k, meta, get_begin hf b (unhex k))) :: pd), None)
  | CEnd c => match take_pending c pd with
              | Some ((k, meta, look), pd') =>
                  let '(b', g) := get_end hf b (unhex k) look in (Some (b', pd'), Some (get_reply meta g))
              | None => (Some (b, pd), None)
              end
  end.
