(* L3: the GC request protocol (store/hstore.go HStore.GC + GCMgr.gc registration), as an interleaving
   model: every client request is split at the points where the implementation drops its locks. *)
From Coq Require Import List Bool Arith.
From GB Require Import Consts.
Import ListNotations.

Inductive rq :=
| RIdle (bk : nat)          (* request not yet issued *)
| RChecked (bk : nat)       (* passed the 'already running' test under the read lock *)
| RReserved (bk : nat)      (* (with the repair) holds the reservation; goroutine not yet scheduled *)
| RRunning (bk : nat)       (* GCMgr.gc is executing on bk *)
| RDone | RRefused.

Record gsys := mkG { g_stat : list nat;   (* keys of GCMgr.stat *)
                     g_rq : list rq }.

Definition in_stat (bk : nat) (st : list nat) : bool := existsb (Nat.eqb bk) st.
Definition stat_add (bk : nat) (st : list nat) : list nat := if in_stat bk st then st else bk :: st.
Definition stat_del (bk : nat) (st : list nat) : list nat := filter (fun x => negb (Nat.eqb bk x)) st.

Fixpoint upd {A} (l : list A) (i : nat) (x : A) : list A :=
  match l, i with
  | [], _ => []
  | _ :: t, O => x :: t
  | y :: t, S k => y :: upd t k x
  end.

(* one scheduler step: client i advances by one atomic section.  [reserves] = Consts.gc_request_reserves *)
Definition gstep (reserves : bool) (g : gsys) (i : nat) : gsys :=
  match nth_error (g_rq g) i with
  | Some (RIdle bk) =>
      if in_stat bk (g_stat g) then mkG (g_stat g) (upd (g_rq g) i RRefused)
      else mkG (g_stat g) (upd (g_rq g) i (RChecked bk))
  | Some (RChecked bk) =>
      if reserves then
        (if in_stat bk (g_stat g) then mkG (g_stat g) (upd (g_rq g) i RRefused)
         else mkG (stat_add bk (g_stat g)) (upd (g_rq g) i (RReserved bk)))
      else mkG (g_stat g) (upd (g_rq g) i (RReserved bk))
  | Some (RReserved bk) => mkG (stat_add bk (g_stat g)) (upd (g_rq g) i (RRunning bk))
  | Some (RRunning bk) => mkG (stat_del bk (g_stat g)) (upd (g_rq g) i RDone)
  | _ => g
  end.

Definition grun (reserves : bool) (g : gsys) (sched : list nat) : gsys := fold_left (gstep reserves) sched g.

Definition holds (bk : nat) (r : rq) : bool :=
  match r with RReserved b | RRunning b => Nat.eqb b bk | _ => false end.
Definition running_on (bk : nat) (r : rq) : bool := match r with RRunning b => Nat.eqb b bk | _ => false end.
Definition count {A} (f : A -> bool) (l : list A) : nat := length (filter f l).

Definition ginit (bks : list nat) : gsys := mkG [] (map RIdle bks).
