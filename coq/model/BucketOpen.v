(* L2: clean shutdown (bucket.close) and start-up (bucket.open), restart with a
   subset of the derived index files removed. *)
From Coq Require Import NArith ZArith List Bool.
From GB Require Import Consts Words Hash HintFile HTree Compress Bucket.
Import ListNotations.
Open Scope N_scope.

Definition hid_eqb (a b : hid) : bool := Nat.eqb (fst a) (fst b) && (snd a =? snd b)%Z.
Definition hid_ltb (a b : hid) : bool := Nat.ltb (fst a) (fst b) || (Nat.eqb (fst a) (fst b) && (snd a <? snd b)%Z).

Definition set_treefiles (b : bucket) (tf : list (hid * nmap slot)) (tid : hid) : bucket :=
  mkB (b_chunks b) (b_head b) (b_tree b) (b_hints b) (b_hmax b) (b_maxdumped b) (b_dumpable b) (b_merged b) (b_ctab b) (b_ctid b)
      tid (b_nextgc b) tf (b_mergedfile b) (b_ctfile b) (b_nextgcfile b).

(* bucket.dumpHtree *)
Definition dump_htree (b : bucket) : bucket :=
  let id := b_maxdumped b in
  if hid_larger (b_treeid b) (fst id) (snd id) then set_treefiles b [(id, b_tree b)] id else b.

Definition any_data (b : bucket) : bool := existsb k_exists (b_chunks b).

Fixpoint close_hints (b : bucket) (n : nat) (i : nat) : bucket :=
  match n with
  | O => b
  | S k => close_hints (trydump b i true) k (S i)
  end.

(* bucket.close *)
Definition bkt_close (b : bucket) : bucket :=
  let b1 := flush_head b in
  if negb (any_data b1) then b1
  else
    let b2 := mkB (b_chunks b1) (b_head b1) (b_tree b1) (b_hints b1) (b_hmax b1) (b_maxdumped b1) (b_dumpable b1) (b_merged b1)
                  (b_ctab b1) (b_ctid b1) (b_treeid b1) (b_nextgc b1) (b_treefiles b1) (b_mergedfile b1)
                  (Some (b_ctab b1, b_ctid b1)) (b_nextgcfile b1) in
    dump_htree (close_hints b2 (S (b_hmax b2)) 0).

(* ---- which index files are removed between close and open ---- *)
Record rmset := mkRm { rm_trees : bool; rm_hints : list (nat * nat); rm_merged : bool }.
Definition rm_none : rmset := mkRm false [] false.

(* the directory as open() sees it *)
Record dirstate := mkDir {
  dr_chunks : list chunk;                      (* only k_exists / k_disk / k_fsize are meaningful *)
  dr_hintfiles : list (list (option hsplit));  (* per chunk, by split id: Some file / None missing *)
  dr_trees : list (hid * nmap slot);
  dr_merged : option (hid * list hitem);
  dr_ct : option (list hitem * hid);
  dr_nextgc : option nat }.

Definition dir_of (b : bucket) (rm : rmset) : dirstate :=
  mkDir (b_chunks b)
        (map (fun p => let '(c, hc) := p in
                       map (fun q => let '(j, sp) := q in
                                     if sp_file sp && negb (existsb (fun x => Nat.eqb (fst x) c && Nat.eqb (snd x) j) (rm_hints rm))
                                     then Some sp else None)
                           (combine (seq 0 (length (hc_splits hc))) (hc_splits hc)))
             (combine (seq 0 (length (b_hints b))) (b_hints b)))
        (if rm_trees rm then [] else b_treefiles b)
        (if rm_merged rm then None else b_mergedfile b)
        (b_ctfile b) (b_nextgcfile b).

(* findValidPaths + loadHintsByChunk: the longest prefix of present splits 0,1,2,... *)
Fixpoint valid_prefix (l : list (option hsplit)) : list hsplit :=
  match l with
  | Some sp :: t => sp :: valid_prefix t
  | _ => []
  end.

Definition hint_datasize (files : list hsplit) : N := fold_left (fun m sp => N.max m (sp_max sp)) files 0.

Inductive openres := Opened (b : bucket) | Refused.

(* records of a chunk file from offset [start] on, as the sequential scan yields them *)
Definition scan_from (k : chunk) (start : N) : list (N * drec) :=
  filter (fun e => start <=? fst e) (k_disk k).

(* buildHintFromData(chunk, start) *)
Definition build_hint (cf : cfg) (hf : bytes -> N) (b : bucket) (c : nat) (start : N) : bucket :=
  let k := chunk_at b c in
  let b1 := fold_left (fun bb e =>
              let '(off, r) := e in
              hints_set_item cf bb (mkHI (hf (d_key r)) 0 off (d_ver r) (vhash (d_val r)) (d_key r)) c (dsize r))
            (scan_from k start) b in
  trydump b1 c true.

(* checkHintWithData(chunk) *)
Definition check_hint (cf : cfg) (hf : bytes -> N) (d : dirstate) (b : bucket) (c : nat) : bucket :=
  let k := chunk_at b c in
  if k_size k =? 0 then b   (* RemoveHintfilesByChunk: in-memory chunk stays [split0] *)
  else
    let files := valid_prefix (nth c (dr_hintfiles d) []) in
    let b1 := match files with
              | [] => b
              | _ => set_hints b (updd hchunk0 (b_hints b) c (mkHC (files ++ [split0]) false)) (b_hmax b) (b_maxdumped b)
              end in
    let ds := hint_datasize files in
    if ds <? k_size k then build_hint cf hf b1 c ds else b1.

(* updateHtreeFromHint *)
Definition replay_split (b : bucket) (c : nat) (sp : hsplit) : bucket :=
  fold_left (fun bb it =>
               if (0 <? hi_ver it)%Z then tree_put bb (hi_hash it) (mkSlot (mkPos c (hi_off it)) (hi_ver it) (hi_vh it))
               else tree_del bb (hi_hash it))
            (sp_items sp) b.

Definition open_chunk (cf : cfg) (hf : bytes -> N) (d : dirstate) (tid : hid) (b : bucket) (i : nat) : bucket :=
  let startsp := if Nat.eqb i (fst tid) then (snd tid + 1)%Z else 0%Z in
  let b1 := check_hint cf hf d b i in
  let sps := hc_splits (hchunk_at b1 i) in
  let nfile := (length sps - 1)%nat in
  if (Z.of_nat nfile <=? startsp)%Z then b1
  else
    let b2 := fold_left (fun bb sp => replay_split bb i sp) (firstn nfile sps) b1 in
    set_hints b2 (b_hints b2) (b_hmax b2) (i, (startsp + Z.of_nat nfile - 1)%Z).

Definition max_data (cs : list chunk) : Z :=
  fold_left (fun m p => if k_exists (snd p) then Z.of_nat (fst p) else m) (combine (seq 0 (length cs)) cs) (-1)%Z.

Definition pick_tree (trees : list (hid * nmap slot)) (maxdata : Z) : option (hid * nmap slot) :=
  fold_left (fun best t =>
               if (maxdata <? Z.of_nat (fst (fst t)))%Z then best
               else match best with
                    | Some bt => if hid_ltb (fst bt) (fst t) then Some t else best
                    | None => Some t
                    end) trees None.

(* bucket.open *)
Definition bkt_open (cf : cfg) (hf : bytes -> N) (d : dirstate) : openres :=
  if existsb (fun k => k_exists k && negb (k_fsize k mod 256 =? 0)) (dr_chunks d) then Refused
  else
    let cs := map (fun k => if k_exists k then mkChunk true (k_disk k) (k_fsize k) [] (k_fsize k) (k_fsize k) false
                            else chunk0) (dr_chunks d) in
    let md := max_data cs in
    let head := Z.to_nat (md + 1) in
    let picked := pick_tree (dr_trees d) md in
    let tid := match picked with Some t => fst t | None => (O, (-1)%Z) end in
    let tree := match picked with Some t => snd t | None => PM.empty _ end in
    let '(ct, ctid) := match dr_ct d with Some x => x | None => ([], (O, 0%Z)) end in
    let b0 := mkB cs head tree (repeat hchunk0 NCH) 0 tid (N.to_nat max_num_chunk - 1) None ct ctid tid
                  (match dr_nextgc d with Some n => n | None => O end)
                  (match picked with Some t => [t] | None => [] end)
                  (dr_merged d) (dr_ct d) (dr_nextgc d) in
    (* chunks tid.chunk .. : check hints and replay; earlier chunks: check hints only (background goroutine) *)
    let b1 := fold_left (open_chunk cf hf d tid) (seq (fst tid) (S head - fst tid)) b0 in   (* chunks above the head have no data: no-ops *)
    let b2 := fold_left (fun bb i => check_hint cf hf d bb i) (seq 0 (fst tid)) b1 in
    (* checkForDump: only when no tree file is left *)
    let b3 := if (0 <=? md)%Z && (match b_treefiles b2 with [] => true | _ => false end) then dump_htree b2 else b2 in
    Opened b3.

Definition restart (cf : cfg) (hf : bytes -> N) (b : bucket) (rm : rmset) : openres :=
  bkt_open cf hf (dir_of (bkt_close b) rm).
