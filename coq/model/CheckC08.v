(* Correspondence checker for C08 (merkle tree listings). *)
From Coq Require Import NArith ZArith List Bool String Ascii FMapPositive.
From GB Require Import Consts Words KeyPath HTree CheckC09.
Import ListNotations.
Open Scope N_scope.

Inductive top := TSet (h : N) (ver : Z) (vh : N) (ck : Z) (off : N) | TRem (h : N) (ck : Z) (off : N).

Definition apply_top (t : htree) (o : top) : htree :=
  match o with
  | TSet h ver vh ck off => tree_set t h ver vh ck off
  | TRem h ck off => tree_remove t h ck off
  end.

Fixpoint digits_of (s : string) : list N :=
  match s with
  | EmptyString => []
  | String c r => hexval c :: digits_of r
  end.

(* expected listing from the harness: 0 = nil/empty, 1 = nodes, 2 = items *)
Inductive jl := JNil | JNodes (ns : list (N * N)) | JItems (its : list (N * Z * N)).

Definition listing_eqb (l : listing) (j : jl) : bool :=
  match l, j with
  | LNil, JNil => true
  | LItems [], JNil => true
  | LNodes a, JNodes b => list_eqb (fun x y => (fst x =? fst y) && (snd x =? snd y)) a b
  | LItems a, JItems b =>
      list_eqb (fun x y => (fst (fst x) =? fst (fst y)) && (snd (fst x) =? snd (fst y))%Z && (snd x =? snd y)) a b
  | _, _ => false
  end.

(* listings thread the tree through (updateNodes marks nodes) *)
Fixpoint listings_ok (t : htree) (ps : list string) (exp : list jl) : bool :=
  match ps, exp with
  | [], [] => true
  | p :: ps', e :: exp' =>
      let '(t', l) := list_dir t (digits_of p) in
      listing_eqb l e && listings_ok t' ps' exp'
  | _, _ => false
  end.

(* HTree.load of a dump: leaf-level nodes and leaves only, inner nodes start not updated *)
Definition tree_reload (t : htree) : htree :=
  let lv := N.of_nat (t_height t - 1) in
  mkTree (t_depth t) (t_height t)
    (PM.fold (fun k v acc => if (N.pred (Npos k)) / 4294967296 =? lv
                             then PM.add k (mkNode (n_count v) (n_hash v) true) acc else acc) (t_inner t) (PM.empty _))
    (t_leafs t).

Definition jget : Type := N * bool * Z * N * N * N.   (* hash found ver vhash chunk off *)
Definition get_ok (t : htree) (g : jget) : bool :=
  let '(h, found, ver, vh, ck, off) := g in
  match tree_get t h, found with
  | None, false => true
  | Some it, true => (ti_ver it =? ver)%Z && (ti_vh it =? vh) && (ti_chunk it =? ck) && (ti_off it =? off)
  | _, _ => false
  end.

Record c08case := mkC08 {
  e_i : N; e_depth : nat; e_height : nat; e_opsa : list top; e_opsb : list top; e_prefixes : list string;
  e_outa : list jl; e_outb : list jl; e_outl : list jl; e_gets : list jget; e_roota : N * N; e_rootb : N * N;
  e_mid : nat; e_midp : string; e_outmid : jl }.

Definition root_ok (t : htree) (r : N * N) : bool :=
  let nd := snd (tree_update t) in (n_hash nd =? fst r) && (n_count nd =? snd r).

Definition c08_check (c : c08case) : N :=
  (* history A is interrupted by a listing after its first e_mid operations (marks nodes as updated) *)
  let '(tmid, lmid) := list_dir (fold_left apply_top (firstn (e_mid c) (e_opsa c)) (new_tree (e_depth c) (e_height c))) (digits_of (e_midp c)) in
  let ta := fold_left apply_top (skipn (e_mid c) (e_opsa c)) tmid in
  let tb := fold_left apply_top (e_opsb c) (new_tree (e_depth c) (e_height c)) in
  if negb (listing_eqb lmid (e_outmid c)) then 6
  else if negb (listings_ok ta (e_prefixes c) (e_outa c)) then 1
  else if negb (listings_ok tb (e_prefixes c) (e_outb c)) then 2
  else if negb (root_ok ta (e_roota c) && root_ok tb (e_rootb c)) then 3
  else if negb (forallb (get_ok tb) (e_gets c)) then 4
  else if negb (listings_ok (tree_reload ta) (e_prefixes c) (e_outl c)) then 5
  else 0.

Definition c08_run (cs : list c08case) : list N :=
  fold_right (fun c acc => let k := c08_check c in if k =? 0 then acc else (e_i c * 100 + k) :: acc) [] cs.
