(* Correspondence checker for C09: rebuilds the data file from the case's
   records with the model encoder, applies the same damage, and compares every
   observable of the implementation (file bytes, offsets, positional reads,
   sequential scan) with the model's. *)
From Coq Require Import NArith ZArith List Bool String.
From GB Require Import Consts Words Hash Record.
Import ListNotations.
Open Scope N_scope.

Definition jrec : Type := string * string * N * N * N * Z * N.   (* khex vhex vgen vlen flag ver ts *)
Definition jdig : Type := N * N * string * N * Z * N * N * N.    (* off broken khex flag ver ts vlen vcrc *)

Definition mk_rec (j : jrec) : rec :=
  let '(kh, vh, vgen, vlen, flag, ver, ts) := j in
  mkRec (unhex kh) (if vgen =? 0 then unhex vh else lcg_bytes vlen vgen) flag ver ts.

Fixpoint set_at (l : bytes) (pos : N) (v : N) : bytes :=
  match l with
  | [] => []
  | x :: t => if pos =? 0 then v :: t else x :: set_at t (N.pred pos) v
  end.

Definition damage (file : bytes) (muts : list (N * N)) (trunc : Z) : bytes :=
  let f := fold_left (fun f m => set_at f (fst m) (snd m)) muts file in
  if (trunc <? 0)%Z then f else takeN (Z.to_N trunc) f.

Fixpoint offsets_of (rs : list rec) (off : N) : list N :=
  match rs with [] => [] | r :: t => off :: offsets_of t (off + rsize r) end.

Fixpoint list_eqb {A} (eq : A -> A -> bool) (a b : list A) : bool :=
  match a, b with
  | [], [] => true
  | x :: a', y :: b' => eq x y && list_eqb eq a' b'
  | _, _ => false
  end.

Definition dig_eqb (r : rec) (off broken : N) (d : jdig) : bool :=
  let '(o, b, kh, flag, ver, ts, vlen, vcrc) := d in
  (off =? o) && (broken =? b) && list_eqb N.eqb (rkey r) (unhex kh) && (rflag r =? flag)
  && (rver r =? ver)%Z && (rts r =? ts) && (lenN (rval r) =? vlen) && (crc32 (rval r) =? vcrc).

Definition rd_code (x : rd) : N :=
  match x with
  | RdOK _ => 0 | RdErr EHead => 1 | RdErr EKeySize => 2 | RdErr EValSize => 3
  | RdErr EBody => 4 | RdErr ECrc => 5
  end.

(* positional reads at the first n block boundaries *)
Fixpoint readats (n : nat) (c : rcfg) (s : bytes) (off : N) : list (N * rd) :=
  match n with
  | O => []
  | S k => match s with
           | [] => []
           | _ => (off, read_at c s) :: readats k c (dropN 256 s) (off + 256)
           end
  end.

Fixpoint readat_digs_ok (l : list (N * rd)) (ds : list jdig) : bool :=
  match l with
  | [] => match ds with [] => true | _ => false end
  | (off, RdOK r) :: t => match ds with d :: ds' => dig_eqb r off 0 d && readat_digs_ok t ds' | [] => false end
  | (_, RdErr _) :: t => readat_digs_ok t ds
  end.

Fixpoint scan_digs_ok (l : list (N * rec * N)) (ds : list jdig) : bool :=
  match l, ds with
  | [], [] => true
  | (o, r, b) :: t, d :: ds' => dig_eqb r o b d && scan_digs_ok t ds'
  | _, _ => false
  end.

Record c09case := mkC09 {
  c_i : N; c_maxkey : N; c_bodymax : N; c_recs : list jrec; c_muts : list (N * N); c_trunc : Z;
  c_offsets : list N; c_filelen : N; c_filehex : string; c_filecrc : N;
  c_readat : list N; c_readatd : list jdig; c_scan : list jdig; c_scanok : bool; c_scanfrom : N }.

(* 0 = all equal; otherwise the number of the first differing observable *)
Definition c09_check (c : c09case) : N :=
  let cfg := mkRcfg (c_maxkey c) (c_bodymax c) in
  let rs := map mk_rec (c_recs c) in
  let file0 := List.concat (map encode rs) in
  if negb (list_eqb N.eqb (offsets_of rs 0) (c_offsets c)) then 1
  else if negb (lenN file0 =? c_filelen c) then 2
  else if negb (match c_filehex c with EmptyString => true | h => list_eqb N.eqb file0 (unhex h) end) then 3
  else if negb (crc32 file0 =? c_filecrc c) then 4
  else
    let file1 := damage file0 (c_muts c) (c_trunc c) in
    let ra := readats 48 cfg file1 0 in
    if negb (list_eqb N.eqb (map (fun x => rd_code (snd x)) ra) (c_readat c)) then 5
    else if negb (readat_digs_ok ra (c_readatd c)) then 6
    else
      let '(sc, e) := scan_file cfg file1 (c_scanfrom c) in
      if negb (scan_digs_ok sc (c_scan c)) then 7
      else match e, c_scanok c with
           | ScanOK, true => 0 | ScanErr, false => 0 | _, _ => 8
           end.

Definition c09_run (cs : list c09case) : list N :=
  fold_right (fun c acc => let k := c09_check c in if k =? 0 then acc else (c_i c * 100 + k) :: acc) [] cs.
