(* L1/L4: the memcached text protocol (memcache/protocol.go Request.Read / Process /
   Response.Write, server.go ServeOnce / Serve) over an abstract storage client, with the
   request-token and buffer accounting as ghost state (C11, C12). *)
From Coq Require Import NArith ZArith List Bool.
From GB Require Import Consts Words Bucket.
Import ListNotations.
Open Scope N_scope.

(* ---- text helpers ---- *)
Fixpoint bytes_of_string_aux (l : list N) : bytes := l.
Definition sp : N := 32. Definition cr : N := 13. Definition lf : N := 10.
Definition crlf : bytes := [13; 10].

(* b.ReadString('\n'): the line including the terminator, or None when the stream ends first *)
Fixpoint read_line (s : bytes) : option (bytes * bytes) :=
  match s with
  | [] => None
  | c :: t => if c =? lf then Some ([c], t)
              else match read_line t with Some (l, r) => Some (c :: l, r) | None => None end
  end.

Definition ends_crlf (l : bytes) : bool :=
  match rev l with 10 :: 13 :: _ => true | _ => false end.

(* strings.FieldsFunc(s, r == ' ') *)
Fixpoint fields_aux (s : bytes) (cur : bytes) : list bytes :=
  match s with
  | [] => match cur with [] => [] | _ => [rev' cur] end
  | c :: t => if c =? sp then match cur with [] => fields_aux t [] | _ => rev' cur :: fields_aux t [] end
              else fields_aux t (c :: cur)
  end.
Definition split_keys (line : bytes) : list bytes := fields_aux (removelast (removelast line)) [].

Definition str (l : list N) : bytes := l.
Definition s_get_ : bytes := [103;101;116]. Definition s_gets : bytes := [103;101;116;115].
Definition s_set : bytes := [115;101;116]. Definition s_add : bytes := [97;100;100].
Definition s_replace : bytes := [114;101;112;108;97;99;101]. Definition s_cas : bytes := [99;97;115].
Definition s_append : bytes := [97;112;112;101;110;100]. Definition s_prepend : bytes := [112;114;101;112;101;110;100].
Definition s_delete : bytes := [100;101;108;101;116;101].
Definition s_incr : bytes := [105;110;99;114]. Definition s_decr : bytes := [100;101;99;114].
Definition s_stats : bytes := [115;116;97;116;115]. Definition s_quit : bytes := [113;117;105;116].
Definition s_version : bytes := [118;101;114;115;105;111;110]. Definition s_flush_all : bytes := [102;108;117;115;104;95;97;108;108].
Definition s_verbosity : bytes := [118;101;114;98;111;115;105;116;121].
Definition s_noreply : bytes := [110;111;114;101;112;108;121].
Definition beq (a b : bytes) : bool := if list_eq_dec N.eq_dec a b then true else false.

Inductive verb := VGet (cas : bool) | VSetLike (name : bytes) | VDelete | VIncr | VDecr | VStats | VQuit | VVersion | VFlushAll | VVerbosity | VOther.
Definition verb_of (w : bytes) : verb :=
  if beq w s_get_ then VGet false else if beq w s_gets then VGet true
  else if beq w s_set || beq w s_add || beq w s_replace || beq w s_cas || beq w s_append || beq w s_prepend then VSetLike w
  else if beq w s_delete then VDelete else if beq w s_incr then VIncr else if beq w s_decr then VDecr
  else if beq w s_stats then VStats else if beq w s_quit then VQuit else if beq w s_version then VVersion
  else if beq w s_flush_all then VFlushAll else if beq w s_verbosity then VVerbosity else VOther.

Record pcfg := mkP { p_maxkey : N; p_bodymax : N; p_body_in_c : N; p_maxreq : N }.

(* ---- accounting ghost state: SetData / GetData / FlushData / Alloc (count, size) and tokens out ---- *)
Record acct := mkA { a_set_c : Z; a_set_s : Z; a_get_c : Z; a_get_s : Z; a_tokens_out : Z }.
Definition acct0 : acct := mkA 0 0 0 0 0.
Definition add_set (a : acct) (c s : Z) : acct := mkA (a_set_c a + c) (a_set_s a + s) (a_get_c a) (a_get_s a) (a_tokens_out a).
Definition add_get (a : acct) (c s : Z) : acct := mkA (a_set_c a) (a_set_s a) (a_get_c a + c) (a_get_s a + s) (a_tokens_out a).
Definition add_tok (a : acct) (d : Z) : acct := mkA (a_set_c a) (a_set_s a) (a_get_c a) (a_get_s a) (a_tokens_out a + d).

(* ---- requests ---- *)
Inductive rerr := ENetwork | EInvalid | ENonMemcache | ETooLarge | EBadChunk.

Record request := mkReq {
  q_verb : verb; q_cmd : bytes; q_keys : list bytes; q_flag : Z; q_exptime : Z; q_cas : Z;
  q_body : bytes; q_noreply : bool; q_token : bool }.

Definition req0 (w : bytes) : request := mkReq (verb_of w) w [] 0 0 0 [] false false.

(* Request.Read: returns the request or an error, the rest of the stream, the accounting after the read.
   (cap of a body = its length; BodyMax check is on uint32(length)) *)
Definition read_request (pc : pcfg) (s : bytes) (a : acct) : (request + rerr) * request * bytes * acct :=
  match read_line s with
  | None => (inr ENetwork, req0 [], [], a)
  | Some (line, rest) =>
    if negb (ends_crlf line) then (inr EInvalid, req0 [], rest, a)
    else
      match split_keys line with
      | [] => (inr EInvalid, req0 [], rest, a)
      | w :: args =>
        let q := req0 w in
        let nparts := S (length args) in
        match verb_of w with
        | VGet _ =>
            match args with
            | [] => (inr EInvalid, q, rest, a)
            | _ => let q' := mkReq (q_verb q) w args 0 0 0 [] false true in (inl q', q', rest, add_tok a 1)
            end
        | VSetLike _ =>
            if Nat.ltb nparts 5 || Nat.ltb 7 nparts then (inr EInvalid, q, rest, a)
            else
              let key := nth 0 args [] in
              let qk := mkReq (q_verb q) w [key] 0 0 0 [] false false in
              match atoi (nth 1 args []), atoi (nth 2 args []), atoi (nth 3 args []) with
              | Some flag, Some expt, Some len =>
                let ulen := Z.to_N (len mod 4294967296)%Z in
                if p_bodymax pc <? ulen then (inr ETooLarge, qk, rest, a)
                else
                  let iscas := beq w s_cas in
                  let noreply_at := if iscas then 5%nat else 4%nat in
                  if iscas && Nat.ltb nparts 6 then (inr EInvalid, qk, rest, a)
                  else if Nat.ltb (S noreply_at) nparts && negb (beq (nth noreply_at args []) s_noreply) then (inr EInvalid, qk, rest, a)
                  else
                    let nr := Nat.ltb (S noreply_at) nparts && beq (nth noreply_at args []) s_noreply in
                    let a1 := add_tok a 1 in
                    let body := takeN (Z.to_N len) rest in
                    let qb := mkReq (q_verb q) w [key] flag expt 0 body nr true in
                    if lenN body <? Z.to_N len then (inr ENetwork, qb, [], a1)        (* body cut off *)
                    else
                      let rest' := dropN (Z.to_N len) rest in
                      match rest' with
                      | c1 :: c2 :: rest'' =>
                          if (c1 =? cr) && (c2 =? lf) then (inl qb, qb, rest'', add_set a1 1 (Z.of_N (lenN body)))
                          else (inr EBadChunk, qb, rest'', a1)
                      | _ => (inr ENetwork, qb, [], a1)
                      end
              | _, _, _ => (inr EInvalid, qk, rest, a)
              end
        | VDelete =>
            if Nat.ltb nparts 2 || Nat.ltb 4 nparts then (inr EInvalid, q, rest, a)
            else let nr := Nat.ltb 2 nparts && beq (last args []) s_noreply in
                 let q' := mkReq (q_verb q) w [nth 0 args []] 0 0 0 [] nr false in (inl q', q', rest, a)
        | VIncr | VDecr =>
            if Nat.ltb nparts 3 || Nat.ltb 4 nparts then (inr EInvalid, q, rest, a)
            else let nr := Nat.ltb 3 nparts && beq (nth 2 args []) s_noreply in
                 let q' := mkReq (q_verb q) w [nth 0 args []] 0 0 0 (nth 1 args []) nr true in
                 (inl q', q', rest, add_tok (add_set a 1 0) 1)
        | VStats => let q' := mkReq VStats w args 0 0 0 [] false false in (inl q', q', rest, a)
        | VQuit | VVersion | VFlushAll => (inl q, q, rest, a)
        | VVerbosity => let q' := mkReq VVerbosity w args 0 0 0 [] false false in (inl q', q', rest, a)
        | VOther => let q' := mkReq VOther w args 0 0 0 [] false false in (inr ENonMemcache, q', rest, a)
        end
      end
  end.

(* ---- abstract storage client ---- *)
Inductive sget := SGMiss | SGItem (body : bytes) (flag : Z) (charged : bool) | SGErr (msg : bytes) | SGPanic.
Inductive sset := SSStored | SSNotStored | SSErr (msg : bytes) | SSPanic.

Section Server.
Variable St : Type.
Variable st_get : St -> bytes -> St * sget.
Variable st_set : St -> bytes -> Z -> Z -> bytes -> St * sset * bool.   (* bool: the set buffer was released/handed over *)
Variable st_incr : St -> bytes -> Z -> St * option Z * Z * bool.        (* result (None = panic), GetData count delta, SetData count released *)
Variable st_delete : St -> bytes -> St * sset.
Variable st_process : bytes -> list bytes -> bytes * bytes.
Variable version_str : bytes.

Inductive response :=
| RNone                                   (* resp == nil: close without reply *)
| RValues (cas : bool) (items : list (bytes * bytes * Z))
| RStatus (status msg : bytes)
| RNum (z : Z)
| RStats.

Definition s_of (l : list N) := l.
Definition t_VALUE : bytes := [86;65;76;85;69]. Definition t_END : bytes := [69;78;68].
Definition t_STORED : bytes := [83;84;79;82;69;68]. Definition t_NOT_STORED : bytes := [78;79;84;95;83;84;79;82;69;68].
Definition t_DELETED : bytes := [68;69;76;69;84;69;68]. Definition t_NOT_FOUND : bytes := [78;79;84;95;70;79;85;78;68].
Definition t_CLIENT_ERROR : bytes := [67;76;73;69;78;84;95;69;82;82;79;82].
Definition t_SERVER_ERROR : bytes := [83;69;82;86;69;82;95;69;82;82;79;82].
Definition t_OK : bytes := [79;75]. Definition t_VERSION : bytes := [86;69;82;83;73;79;78].
Definition m_invalid_cmd : bytes := [105;110;118;97;108;105;100;32;99;109;100].
Definition m_too_large : bytes := [118;97;108;117;101;32;116;111;111;32;108;97;114;103;101].
Definition m_bad_chunk : bytes := [98;97;100;32;100;97;116;97;32;99;104;117;110;107].
Definition m_key_length : bytes := [107;101;121;32;108;101;110;103;116;104;32;101;114;114;111;114].
Definition m_invalid_number : bytes := [105;110;118;97;108;105;100;32;110;117;109;98;101;114].
Definition m_not_support : bytes := [111;112;101;114;97;116;105;111;110;32;110;111;116;32;115;117;112;112;111;114;116].

(* Response.Write *)
Definition write_response (r : response) : bytes :=
  match r with
  | RNone => []
  | RValues cas items =>
      concat (map (fun it => let '(k, body, flag) := it in
                             t_VALUE ++ [sp] ++ k ++ [sp] ++ itoa flag ++ [sp] ++ itoa (Z.of_N (lenN body))
                             ++ (if cas then [sp; 48] else []) ++ crlf ++ body ++ crlf) items) ++ t_END ++ crlf
  | RStatus st msg => st ++ (match msg with [] => [] | _ => sp :: msg end) ++ crlf
  | RNum z => itoa z ++ crlf
  | RStats => [83;84;65;84;83] ++ crlf       (* canonical placeholder: the harness replaces the STAT block *)
  end.

Definition valid_keysize (pc : pcfg) (k : bytes) : bool := negb (lenN k =? 0) && (lenN k <=? p_maxkey pc).

Inductive outcome := OReply (r : response) | OPanic | OClose.

Fixpoint bytes_lt (a b : bytes) : bool :=
  match a, b with
  | [], [] => false | [], _ :: _ => true | _ :: _, [] => false
  | x :: a', y :: b' => if x <? y then true else if y <? x then false else bytes_lt a' b'
  end.
Fixpoint ins_item (x : bytes * bytes * Z) (l : list (bytes * bytes * Z)) :=
  match l with
  | [] => [x]
  | y :: t => if bytes_lt (fst (fst y)) (fst (fst x)) then y :: ins_item x t else x :: l
  end.
Definition sort_items (l : list (bytes * bytes * Z)) := fold_right ins_item [] l.

(* GetMulti / Get: items found, in request order (the harness sorts VALUE blocks of both sides).  The items live in a
   map keyed by the key.  [dedup] = GetMulti skips a key it has already fetched (Consts.getmulti_skips_duplicates,
   translated from gobeansdb/store.go: the repair of finding F23); without it a repeated key is fetched and charged
   again and the earlier item, replaced in the map, is never released. *)
Definition has_key (k : bytes) (items : list (bytes * bytes * Z)) : bool := existsb (fun it => beq (fst (fst it)) k) items.

Fixpoint get_many_gen (dedup : bool) (st : St) (keys : list bytes) (a : acct) (single : bool) (seen : list bytes)
  : St * outcome * list (bytes * bytes * Z) * acct :=
  match keys with
  | [] => (st, OReply (RValues false []), [], a)
  | k :: t =>
    if dedup && existsb (beq k) seen then get_many_gen dedup st t a single seen
    else
    let '(st1, g) := st_get st k in
    match g with
    | SGPanic => (st1, OPanic, [], a)
    | SGErr msg => if single then (st1, OReply (RStatus t_SERVER_ERROR msg), [], a)
                   else get_many_gen dedup st1 t a single seen
    | SGMiss => get_many_gen dedup st1 t a single seen
    | SGItem body flag charged =>
        let a1 := if charged then add_get a 1 (Z.of_N (lenN body)) else a in
        let '(st2, o, items, a2) := get_many_gen dedup st1 t a1 single (k :: seen) in
        (* a later occurrence of the key replaced this item in the map *)
        (st2, o, if has_key k items then items else (k, body, flag) :: items, a2)
    end
  end.
Definition get_many (st : St) (keys : list bytes) (a : acct) (single : bool) := get_many_gen getmulti_skips_duplicates st keys a single [].

(* Request.Process + the buffer hand-over rules; returns the outcome and the accounting *)
Definition process (pc : pcfg) (st : St) (q : request) (a : acct) : St * outcome * acct :=
  match q_verb q with
  | VGet cas =>
      if negb (forallb (valid_keysize pc) (q_keys q)) then (st, OReply (RStatus t_CLIENT_ERROR m_key_length), a)
      else
        let single := match q_keys q with [_] => true | _ => false end in
        let '(st1, o, items, a1) := get_many st (q_keys q) a single in
        match o with
        | OReply (RValues _ _) =>
            (* CleanBuffer after the reply: every charged item is released again *)
            (st1, OReply (RValues cas (sort_items items)),
             fold_left (fun acc it => let '(k, body, _) := it in
                                      match k with
                                      | 64 :: _ => acc | 63 :: _ => acc
                                      | _ => add_get acc (-1) (- Z.of_N (lenN body))
                                      end) items a1)
        | _ => (st1, o, a1)
        end
  | VSetLike name =>
      if beq name s_append then
        (* store.Append is not supported: SERVER_ERROR, the request body is never released *)
        (st, OReply (RStatus t_SERVER_ERROR m_not_support), a)
      else if beq name s_prepend then (st, OClose, a)     (* no case in Process: resp = nil *)
      else
        let key := nth 0 (q_keys q) [] in
        let '(st1, r, released) := st_set st key (q_flag q) (q_exptime q) (q_body q) in
        let a1 := if released then add_set a (-1) (- Z.of_N (lenN (q_body q))) else a in
        match r with
        | SSStored => (st1, OReply (RStatus t_STORED []), a1)
        | SSNotStored => (st1, OReply (RStatus t_NOT_STORED []), a1)
        | SSErr msg => (st1, OReply (RStatus t_SERVER_ERROR msg), a1)
        | SSPanic => (st1, OPanic, a1)
        end
  | VIncr =>
      match atoi (q_body q) with
      | None => (st, OReply (RStatus t_CLIENT_ERROR m_invalid_number), a)
      | Some d =>
          let '(st1, r, dget, rel) := st_incr st (nth 0 (q_keys q) []) d in
          let a1 := add_get (if rel then add_set a (-1) 0 else a) dget 0 in
          match r with
          | Some z => (st1, OReply (RNum z), a1)
          | None => (st1, OPanic, a1)
          end
      end
  | VDecr => (st, OClose, a)
  | VDelete =>
      let '(st1, r) := st_delete st (nth 0 (q_keys q) []) in
      match r with
      | SSStored => (st1, OReply (RStatus t_DELETED []), a)
      | SSNotStored => (st1, OReply (RStatus t_NOT_FOUND []), a)
      | SSErr msg => (st1, OReply (RStatus t_SERVER_ERROR msg), a)
      | SSPanic => (st1, OPanic, a)
      end
  | VStats => (st, OReply RStats, a)
  | VVersion => (st, OReply (RStatus t_VERSION version_str), a)
  | VVerbosity | VFlushAll => (st, OReply (RStatus t_OK []), a)
  | VQuit => (st, OClose, a)
  | VOther => (st, OClose, a)
  end.

Definition err_msg (e : rerr) : bytes :=
  match e with
  | EInvalid => m_invalid_cmd | ETooLarge => m_too_large | EBadChunk => m_bad_chunk
  | ENetwork => [] | ENonMemcache => []
  end.

(* ServeOnce: (state, rest of input, output, close?, accounting, fresh').
   [fresh]: no line with a proper terminator has been read on this connection yet, so req.ReceiveTime is
   still the zero time: a reply to a bare-LF line is then swallowed by the process-timeout test. *)
Definition serve_once (pc : pcfg) (st : St) (s : bytes) (a : acct) (fresh : bool) : St * bytes * bytes * bool * acct * bool :=
  let '(r, q, rest, a1) := read_request pc s a in
  let put := fun (x : acct) => if q_token q then add_tok x (-1) else x in   (* deferred RL.Put when req.Working *)
  let bare := match read_line s with Some (line, _) => negb (ends_crlf line) | None => false end in
  let fresh' := fresh && (bare || match read_line s with None => true | _ => false end) in
  match r with
  | inr ENetwork => (st, rest, [], true, put a1, fresh')
  | inr ENonMemcache =>
      let '(status, msg) := st_process (q_cmd q) (q_keys q) in
      (st, rest, write_response (RStatus status msg), false, put a1, fresh')
  | inr e => (st, rest, (if fresh && bare then [] else write_response (RStatus t_CLIENT_ERROR (err_msg e))), false, put a1, fresh')
  | inl q =>
      let '(st1, o, a2) := process pc st q a1 in
      match o with
      | OReply resp => (st1, rest, (if q_noreply q then [] else write_response resp), false, put a2, fresh')
      | OPanic => (st1, rest, [], false, put a2, fresh')       (* recovered: no reply is written *)
      | OClose => (st1, rest, [], true, put a2, fresh')
      end
  end.

(* Serve: until the connection is closed; fuel = number of bytes + 1 *)
Fixpoint serve_loop (fuel : nat) (pc : pcfg) (st : St) (s : bytes) (a : acct) (fresh : bool) : St * bytes * acct :=
  match fuel with
  | O => (st, [], a)
  | S f =>
    let '(st1, rest, out, close, a1, fresh') := serve_once pc st s a fresh in
    if close then (st1, out, a1)
    else let '(st2, out2, a2) := serve_loop f pc st1 rest a1 fresh' in (st2, out ++ out2, a2)
  end.
Definition serve (fuel : nat) (pc : pcfg) (st : St) (s : bytes) (a : acct) := serve_loop fuel pc st s a true.

End Server.
