(* L1: the hash functions as coded (store/key.go, utils/hash.go, store/item.go,
   store/crc32.go, murmur3 v1.1.0), parameterised by gen/Consts.v. *)
From Coq Require Import NArith ZArith List Bool.
From GB Require Import Consts Words.
Import ListNotations.
Open Scope N_scope.

(* uint32(int8(b)) : sign extension of a byte to 32 bits *)
Definition sext8_32 (b : N) : N := if b <? 128 then b else b + 4294967040.

Definition fnv_step_gen (sign : bool) (prime : N) (h b : N) : N :=
  w32 (N.lxor h (if sign then sext8_32 b else b) * prime).

Definition fnv1a_key (bs : bytes) : N :=
  fold_left (fnv_step_gen fnv_sign_extend fnv_prime) bs fnv_basis.
Definition fnv1a_val (bs : bytes) : N :=
  fold_left (fnv_step_gen vfnv_sign_extend vfnv_prime) bs vfnv_basis.

(* ---- murmur3 32, as the library runs it for one Write on a fresh hasher ---- *)
Definition mm_k (k1 : N) : N :=
  w32 (rotl32 (w32 (k1 * mm_c1)) mm_r1 * mm_c2).
Definition mm_block (h1 k : N) : N :=
  let h := N.lxor h1 (mm_k k) in
  let h := rotl32 h mm_r2 in
  w32 (h * 4 + h + mm_n).

(* bmix: loop i over nblocks = len/4 reading p[i*4 .. i*4+3]; returns (h1, tail) *)
Fixpoint mm_bmix (fuel : nat) (h1 : N) (p : bytes) : N * bytes :=
  match fuel with
  | O => (h1, p)
  | S f =>
    match p with
    | b0 :: b1 :: b2 :: b3 :: rest => mm_bmix f (mm_block h1 (rd32 b0 b1 b2 b3)) rest
    | _ => (h1, p)
    end
  end.

Definition mm_tail (h1 : N) (tail : bytes) : N :=
  match tail with
  | [t0] => N.lxor h1 (mm_k t0)
  | [t0; t1] => N.lxor h1 (mm_k (N.lxor (N.shiftl t1 8) t0))
  | [t0; t1; t2] => N.lxor h1 (mm_k (N.lxor (N.lxor (N.shiftl t2 16) (N.shiftl t1 8)) t0))
  | _ => h1
  end.

Definition mm_fmix (h : N) : N :=
  let h := N.lxor h (N.shiftr h mm_f1) in
  let h := w32 (h * mm_fm1) in
  let h := N.lxor h (N.shiftr h mm_f2) in
  let h := w32 (h * mm_fm2) in
  N.lxor h (N.shiftr h mm_f3).

Definition murmur32 (bs : bytes) : N :=
  let '(h1, tail) := mm_bmix (length bs / 4) mm_seed bs in
  let h1 := mm_tail h1 tail in
  let h1 := N.lxor h1 (w32 (lenN bs)) in
  mm_fmix h1.

Definition keyhash (bs : bytes) : N :=
  N.lor (N.shiftl (fnv1a_key bs) keyhash_fnv_shift) (murmur32 bs).

(* ---- 16-bit value hash (store/item.go Getvhash) ---- *)
Definition vhash (v : bytes) : N :=
  let l := lenN v in
  let h := w32 (w32 l * vh_mul1) in
  if l <=? vh_switch then
    w16 (w32 (h + fnv1a_val v))
  else
    let h := w32 (h + fnv1a_val (takeN vh_head v)) in
    let h := w32 (h * vh_mul2) in
    w16 (w32 (h + fnv1a_val (dropN (l - vh_tail) v))).

(* ---- CRC-32, table driven (store/crc32.go) ---- *)
Definition crc_step (crc b : N) : N :=
  N.lxor (nth (N.to_nat (N.land (N.lxor crc b) 255)) crc_table 0) (N.shiftr crc 8).
Definition crc_update (crc : N) (bs : bytes) : N := fold_left crc_step bs crc.
Definition crc32 (bs : bytes) : N := N.lxor (crc_update crc_init bs) crc_final_xor.
