(* L1: hint files (store/hintfile.go, hintindex.go, hintmerge.go, hint.go HintBuffer). *)
From Coq Require Import NArith ZArith List Bool.
From GB Require Import Consts Words.
Import ListNotations.
Open Scope N_scope.

Record hitem := mkHI { hi_hash : N; hi_chunk : N; hi_off : N; hi_ver : Z; hi_vh : N; hi_key : bytes }.

Definition enc_item (it : hitem) : bytes :=
  le64 (hi_hash it) ++ le32 (hi_chunk it) ++ le32 (hi_off it) ++ le32 (of_i32 (hi_ver it))
  ++ le16 (hi_vh it) ++ [w8 (lenN (hi_key it))] ++ hi_key it.

Definition item_size (it : hitem) : N := hintitem_head_size + lenN (hi_key it).

(* writer: items in the given order; sparse index entry (hash, offset of the item) whenever
   offset - lastoffset > interval - 23 - 256 (signed arithmetic) *)
Definition index_due (off last interval : N) : bool :=
  (Z.of_N off - Z.of_N last >? Z.of_N interval - Z.of_N hintitem_head_size - Z.of_N hint_index_slack)%Z.

Fixpoint write_items (items : list hitem) (interval off last : N) (idx : list (N * N))
  : bytes * N * list (N * N) :=
  match items with
  | [] => ([], off, rev' idx)
  | it :: t =>
    let due := index_due off last interval in
    let idx' := if due then (hi_hash it, off) :: idx else idx in
    let last' := if due then off else last in
    let '(bs, off', ix) := write_items t interval (off + item_size it) last' idx' in
    (enc_item it ++ bs, off', ix)
  end.

Definition enc_index (ix : list (N * N)) : bytes :=
  concat (map (fun e => le64 (fst e) ++ le64 (snd e)) ix).

Definition hint_write (items : list hitem) (interval datasize : N) : bytes :=
  let '(bs, ioff, ix) := write_items items interval hintfile_head_size 0 [] in
  le64 ioff ++ le32 (w32 (lenN items)) ++ le32 datasize ++ bs ++ enc_index ix.

Definition hint_index_of (items : list hitem) (interval : N) : list (N * N) :=
  snd (write_items items interval hintfile_head_size 0 []).

(* ---- reader ---- *)
Record hmeta := mkHM { hm_index_off : N; hm_numkey : N; hm_datasize : N }.

Definition parse_meta (file : bytes) : option hmeta :=
  match get64 file, get32 (dropN 8 file), get32 (dropN 12 file) with
  | Some io, Some nk, Some ds => Some (mkHM io nk ds)
  | _, _, _ => None
  end.

Definition parse_item (s : bytes) : option (hitem * bytes) :=
  match get64 s, get32 (dropN 8 s), get32 (dropN 12 s), get32 (dropN 16 s), get16 (dropN 20 s), dropN 22 s with
  | Some h, Some ck, Some off, Some ver, Some vh, ksz :: rest =>
      let key := takeN ksz rest in
      if lenN key <? ksz then None
      else Some (mkHI h ck off (to_i32 ver) vh key, dropN ksz rest)
  | _, _, _, _, _, _ => None
  end.

Inductive nxt := NEnd | NErr | NItem (it : hitem) (rest : bytes) (loff : N).

(* hintFileReader.next with physical suffix s and logical offset loff *)
Definition hnext (index_off : N) (s : bytes) (loff : N) : nxt :=
  if index_off <=? loff then NEnd
  else match parse_item s with
       | None => NErr
       | Some (it, rest) => NItem it rest (loff + item_size it)
       end.

(* effective index offset after open(): 0 means "no index" -> file size *)
Definition eff_index_off (m : hmeta) (file : bytes) : N :=
  if hm_index_off m =? 0 then lenN file else hm_index_off m.

Fixpoint read_items (fuel : nat) (ioff : N) (s : bytes) (loff : N) : option (list hitem) :=
  match fuel with
  | O => None
  | S f => match hnext ioff s loff with
           | NEnd => Some []
           | NErr => None
           | NItem it rest loff' =>
               match read_items f ioff rest loff' with
               | Some l => Some (it :: l)
               | None => None
               end
           end
  end.

(* read the whole file: (items, datasize) or an error *)
Definition hint_read_all (file : bytes) : option (list hitem * N) :=
  match parse_meta file with
  | None => None
  | Some m =>
    match read_items (S (length file)) (eff_index_off m file) (dropN hintfile_head_size file) hintfile_head_size with
    | Some l => Some (l, hm_datasize m)
    | None => None
    end
  end.

(* loadHintIndex: the 16-byte rows after indexOffset *)
Fixpoint parse_index (fuel : nat) (s : bytes) : list (N * N) :=
  match fuel with
  | O => []
  | S f => match get64 s, get64 (dropN 8 s) with
           | Some kh, Some off => (kh, off) :: parse_index f (dropN 16 s)
           | _, _ => []
           end
  end.

Definition load_index (file : bytes) : option (hmeta * list (N * N)) :=
  match parse_meta file with
  | None => None
  | Some m => let s := dropN (hm_index_off m) file in
              Some (m, parse_index (length s / 16) s)
  end.

(* Go's sort.Search(n, f): smallest i in [0,n] with f(i), by binary search *)
Fixpoint bsearch (fuel : nat) (f : N -> bool) (i j : N) : N :=
  match fuel with
  | O => i
  | S k => if i <? j then
             let h := (i + j) / 2 in
             if f h then bsearch k f i h else bsearch k f (h + 1) j
           else i
  end.

Definition nthN {A} (l : list A) (i : N) (d : A) : A := nth (N.to_nat i) l d.

Inductive getres := GFound (it : hitem) | GNotFound | GErr.

Fixpoint get_loop (fuel : nat) (ioff : N) (s : bytes) (loff : N) (h : N) (key : bytes) : getres :=
  match fuel with
  | O => GErr
  | S f =>
    match hnext ioff s loff with
    | NEnd => GNotFound
    | NErr => GErr
    | NItem it rest loff' =>
        if hi_hash it <? h then get_loop f ioff rest loff' h key
        else if h <? hi_hash it then GNotFound
        else if list_eq_dec N.eq_dec (hi_key it) key then GFound it
        else get_loop f ioff rest loff' h key
    end
  end.

(* hintFileIndex.get as coded; [synced] = whether the reader's logical offset follows the seek
   (Consts.hint_get_offset_synced, translated from store/hintindex.go) *)
Definition index_get_gen (synced : bool) (file : bytes) (ix : list (N * N)) (h : N) (key : bytes) : getres :=
  match parse_meta file with
  | None => GErr
  | Some m =>
    let n := lenN ix in
    let j := bsearch (S (N.to_nat (N.log2 n + 1))) (fun i => h <=? fst (nthN ix i (0, 0))) 0 n in
    let offset := if 1 <? j then snd (nthN ix (j - 1) (0, 0)) else hintfile_head_size in
    let loff := if synced then offset else hintfile_head_size in
    get_loop (S (length file)) (eff_index_off m file) (dropN offset file) loff h key
  end.

Definition index_get (file : bytes) (h : N) (key : bytes) : getres :=
  match load_index file with
  | None => GErr
  | Some (_, ix) => index_get_gen hint_get_offset_synced file ix h key
  end.

(* ---- ordering used by Dump (byKeyHash) and by the merge heap ---- *)
Fixpoint bytes_ltb (a b : bytes) : bool :=     (* Go string < : bytewise lexicographic *)
  match a, b with
  | [], [] => false
  | [], _ :: _ => true
  | _ :: _, [] => false
  | x :: a', y :: b' => if x <? y then true else if y <? x then false else bytes_ltb a' b'
  end.
Definition bytes_eqb (a b : bytes) : bool := if list_eq_dec N.eq_dec a b then true else false.

Definition hk_ltb (a b : hitem) : bool :=
  if hi_hash a <? hi_hash b then true
  else if hi_hash b <? hi_hash a then false
  else bytes_ltb (hi_key a) (hi_key b).

Definition pos_key (it : hitem) : N := hi_chunk it * 4294967296 + hi_off it.

Definition merge_ltb (a b : hitem) : bool :=
  if negb (hi_hash a =? hi_hash b) then hi_hash a <? hi_hash b
  else if negb (bytes_eqb (hi_key a) (hi_key b)) then bytes_ltb (hi_key a) (hi_key b)
  else pos_key a <? pos_key b.

Fixpoint insert_by (lt : hitem -> hitem -> bool) (x : hitem) (l : list hitem) : list hitem :=
  match l with
  | [] => [x]
  | y :: t => if lt y x then y :: insert_by lt x t else x :: l
  end.
Definition sort_by (lt : hitem -> hitem -> bool) (l : list hitem) : list hitem :=
  fold_right (insert_by lt) [] l.

(* ---- HintBuffer: last write per (hash,key) wins, insertion order kept, capacity checked for new keys ---- *)
Definition same_hk (a b : hitem) : bool := (hi_hash a =? hi_hash b) && bytes_eqb (hi_key a) (hi_key b).

(* replaced items move to the end, so the last item of a hash is the key most recently set
   for it (what HintBuffer.index points at); the order is otherwise irrelevant (Dump sorts) *)
Definition buf_has (l : list hitem) (it : hitem) : bool := existsb (fun x => same_hk x it) l.

(* None = buffer full (caller rotates to a new split) *)
Definition buf_set (cap : N) (l : list hitem) (it : hitem) : option (list hitem) :=
  if buf_has l it then Some (filter (fun x => negb (same_hk x it)) l ++ [it])
  else if cap <=? lenN l then None else Some (l ++ [it]).

Definition buf_dump (l : list hitem) (interval datasize : N) : bytes :=
  hint_write (sort_by hk_ltb l) interval datasize.

(* ---- merge (hintmerge.go): k-way by (hash, key, position), later position replaces earlier ---- *)
Fixpoint min_head (srcs : list (list hitem)) : option hitem :=
  match srcs with
  | [] => None
  | [] :: t => min_head t
  | (x :: _) :: t => match min_head t with
                     | Some y => if merge_ltb y x then Some y else Some x
                     | None => Some x
                     end
  end.

Fixpoint pop_item (x : hitem) (srcs : list (list hitem)) : list (list hitem) :=
  match srcs with
  | [] => []
  | [] :: t => [] :: pop_item x t
  | (y :: r) :: t =>
      if negb (merge_ltb x y) && negb (merge_ltb y x) then r :: t else (y :: r) :: pop_item x t
  end.

Fixpoint kway (fuel : nat) (srcs : list (list hitem)) : list hitem :=
  match fuel with
  | O => []
  | S f => match min_head srcs with
           | None => []
           | Some x => x :: kway f (pop_item x srcs)
           end
  end.

(* mergeWriter: groups of equal hash; inside a group consecutive equal keys keep the last *)
Fixpoint mw_groups (l : list hitem) (cur : list hitem) : list (list hitem) :=
  match l with
  | [] => match cur with [] => [] | _ => [rev' cur] end
  | it :: t =>
    match cur with
    | [] => mw_groups t [it]
    | last :: cur' =>
        if negb (hi_hash last =? hi_hash it) then rev' cur :: mw_groups t [it]
        else if negb (bytes_eqb (hi_key last) (hi_key it)) then mw_groups t (it :: cur)
        else mw_groups t (it :: cur')
    end
  end.

(* collision table: hash -> key -> item ; compareAndSet with reason "merge" *)
Definition ctab := list hitem.  (* at most one entry per (hash,key) *)
Fixpoint ct_set (t : ctab) (it : hitem) : ctab :=
  match t with
  | [] => [it]
  | x :: r => if same_hk x it then (if pos_key x <=? pos_key it then it else x) :: r
              else x :: ct_set r it
  end.

Definition tag_chunk (ck : N) (l : list hitem) : list hitem :=
  map (fun it => mkHI (hi_hash it) ck (hi_off it) (hi_ver it) (hi_vh it) (hi_key it)) l.

(* sources: (reader chunk id, items in file order, datasize). returns (merged items, datasize, collision table) *)
Definition hint_merge (srcs : list (N * list hitem * N)) (ct : ctab) : list hitem * N * ctab :=
  let lists := map (fun s => tag_chunk (fst (fst s)) (snd (fst s))) srcs in
  let total := fold_right (fun l n => (length l + n)%nat) O lists in
  let groups := mw_groups (kway total lists) [] in
  let ct' := fold_left (fun t g => match g with _ :: _ :: _ => fold_left ct_set g t | _ => t end) groups ct in
  let ds := fold_right (fun s m => N.max (snd s) m) 0 srcs in
  (concat groups, ds, ct').
