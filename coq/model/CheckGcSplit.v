(* Correspondence checker for GC passes overtaken by a client write (C05): the pass is replayed with the
   split record step of GcSplit.v and the client's operation inserted right after the copy of the n-th
   relocated record -- the point where the harness parks the real GC (verifPoint gc.appended). *)
From Coq Require Import NArith ZArith List Bool String.
From GB Require Import Consts Words Hash HintFile HTree Compress Bucket BucketOpen Gc GcSplit CheckL2.
Import ListNotations.
Open Scope N_scope.

Definition intr := option (nat * l2op).   (* relocations still to pass, client operation *)

Definition apply_op (lc : l2cfg) (b : bucket) (o : l2op) : bucket * mout :=
  match l2_step lc b o with
  | (Some b', x) => (b', x)
  | (None, x) => (b, x)
  end.

Definition gc_record_i (lc : l2cfg) (begin src : nat) (acc : gcst * intr * option mout) (e : N * drec) : gcst * intr * option mout :=
  let '(st, it, out) := acc in
  let cf := l_cfg lc in
  let hf := forced_hash (l_forced lc) in
  match gc_record_copy cf hf begin src st e with
  | (st1, None) => (st1, it, out)
  | (st1, Some m) =>
      match it with
      | Some (O, o) =>
          let '(b', x) := apply_op lc (gc_b st1) o in
          (mkGC (gc_record_finish cf b' m) (gc_dst st1) (gc_stat st1), None, Some x)
      | Some (S n, o) => (mkGC (gc_record_finish cf (gc_b st1) m) (gc_dst st1) (gc_stat st1), Some (n, o), out)
      | None => (mkGC (gc_record_finish cf (gc_b st1) m) (gc_dst st1) (gc_stat st1), None, out)
      end
  end.

Definition gc_file_i (lc : l2cfg) (begin : nat) (acc : gcst * intr * option mout) (src : nat) : gcst * intr * option mout :=
  let '(st, it, out) := acc in
  let b := gc_b st in
  if k_size (chunk_at b src) =? 0 then acc
  else
    let recs := k_disk (chunk_at b src) in
    let st1 := mkGC (clear_hint_chunk b src) (gc_dst st) (gc_stat st) in
    let '(st2, it2, out2) := fold_left (gc_record_i lc begin src) recs (st1, it, out) in
    let b2 := gc_b st2 in
    let b3 := if Nat.eqb src (gc_dst st2) then
                (if gc_truncates_after_inplace && k_rewriting (chunk_at b2 src)
                 then begin_gc_writing (end_gc_writing b2 src) src (S src) else b2)
              else clear_chunk b2 src in
    let b4 := if Nat.leb (b_nextgc b3) (S src) then set_nextgc b3 (S src) else b3 in
    (mkGC b4 (gc_dst st2) (gc_stat st2), it2, out2).

Definition gc_pass_i (lc : l2cfg) (b : bucket) (begin end_ : nat) (merge : bool) (it : intr) : bucket * gcstat * intr * option mout :=
  let cf := l_cfg lc in
  let b1 := before_bucket cf b merge in
  let dst := pick_dst cf b1 begin begin in
  let b2 := begin_gc_writing b1 dst begin in
  let '(st, it', out) := fold_left (gc_file_i lc begin) (seq begin (S end_ - begin)) (mkGC b2 dst gc0, it, None) in
  let b3 := trydump (end_gc_writing (gc_b st) (gc_dst st)) (gc_dst st) true in
  (b3, gc_stat st, it', out).

(* like l2_run, but hands the final bucket on *)
Fixpoint l2_run_b (lc : l2cfg) (b : bucket) (ops : list (l2op * l2out * option dirsnap)) (i : N) : N * option bucket :=
  match ops with
  | [] => (0, Some b)
  | (o, x, d) :: t =>
      let '(ob, m) := l2_step lc b o in
      if negb (mout_eqb m x) then (i + 1, None)
      else match ob with
           | None => (0, None)
           | Some b' =>
               if match d with Some s => negb (dir_ok b' s) | None => false end then (i + 501, None)
               else l2_run_b lc b' t (i + 1)
           end
  end.

Record gicase := mkGI {
  gi_id : N; gi_lc : l2cfg;
  gi_pre : list (l2op * l2out * option dirsnap);
  gi_begin : nat; gi_end : nat; gi_merge : bool;
  gi_skip : nat; gi_op : l2op; gi_opout : l2out; gi_gcout : l2out;
  gi_post : list (l2op * l2out * option dirsnap) }.

(* 0 = agrees; 1000+k: pre-history op k-1; 2001: client reply; 2002: GC statistics; 3000+k: post op k-1 *)
Definition gi_run (c : gicase) : N :=
  let lc := gi_lc c in
  match l2_run_b lc bucket0 (gi_pre c) 0 with
  | (0, Some b) =>
      let '(b1, gs, lft, out) := gc_pass_i lc b (gi_begin c) (gi_end c) (gi_merge c) (Some (gi_skip c, gi_op c)) in
      (* the pass ended before the park point was reached: the client ran after it *)
      let '(b2, out2) := match lft with
                         | Some (_, o) => let '(b', x) := apply_op lc b1 o in (b', Some x)
                         | None => (b1, out)
                         end in
      if negb (match out2 with Some x => mout_eqb x (gi_opout c) | None => false end) then 2001
      else if negb (out_eqb (XGc (g_before gs) (g_released gs) (g_size_released gs) (g_not_in_tree gs)) (gi_gcout c)) then 2002
      else match l2_run_b lc b2 (gi_post c) 0 with
           | (0, _) => 0
           | (k, _) => 3000 + k
           end
  | (0, None) => 0
  | (k, _) => 1000 + k
  end.

Definition gi_check (cs : list gicase) : list N :=
  fold_right (fun c acc => let k := gi_run c in if k =? 0 then acc else (gi_id c * 10000 + k) :: acc) [] cs.

(* ---- a GC pass killed right after the copy of the n-th relocated record (C07 witnesses) ---- *)
Definition gc_record_k (lc : l2cfg) (begin src : nat) (acc : gcst * option nat) (e : N * drec) : gcst * option nat :=
  let '(st, cnt) := acc in
  match cnt with
  | None => acc                                   (* the process is dead *)
  | Some n =>
      match gc_record_copy (l_cfg lc) (forced_hash (l_forced lc)) begin src st e with
      | (st1, None) => (st1, Some n)
      | (st1, Some m) =>
          match n with
          | O => (st1, None)                       (* killed: the copy is on disk, tree and hints are not updated *)
          | S k => (mkGC (gc_record_finish (l_cfg lc) (gc_b st1) m) (gc_dst st1) (gc_stat st1), Some k)
          end
      end
  end.

Definition gc_file_k (lc : l2cfg) (begin : nat) (acc : gcst * option nat) (src : nat) : gcst * option nat :=
  let '(st, cnt) := acc in
  match cnt with
  | None => acc
  | Some _ =>
    let b := gc_b st in
    if k_size (chunk_at b src) =? 0 then acc
    else
      let recs := k_disk (chunk_at b src) in
      let st1 := mkGC (clear_hint_chunk b src) (gc_dst st) (gc_stat st) in
      let '(st2, cnt2) := fold_left (gc_record_k lc begin src) recs (st1, cnt) in
      match cnt2 with
      | None => (st2, None)
      | Some _ =>
          let b2 := gc_b st2 in
          let b3 := if Nat.eqb src (gc_dst st2) then b2 else clear_chunk b2 src in
          let b4 := if Nat.leb (b_nextgc b3) (S src) then set_nextgc b3 (S src) else b3 in
          (mkGC b4 (gc_dst st2) (gc_stat st2), cnt2)
      end
  end.

(* the bucket at the moment of the kill (None: the pass finished before the n-th relocation) *)
Definition gc_pass_killed (lc : l2cfg) (b : bucket) (begin end_ : nat) (n : nat) : option bucket :=
  let cf := l_cfg lc in
  let b1 := before_bucket cf b false in
  let dst := pick_dst cf b1 begin begin in
  let b2 := begin_gc_writing b1 dst begin in
  let '(st, cnt) := fold_left (gc_file_k lc begin) (seq begin (S end_ - begin)) (mkGC b2 dst gc0, Some n) in
  match cnt with None => Some (gc_b st) | Some _ => None end.

(* a data file is bytes: a scan meets its records in offset order, whatever order the model's list has *)
Definition norm_disk (b : bucket) : bucket :=
  set_chunks b (map (fun k => mkChunk (k_exists k) (sort_off (k_disk k)) (k_fsize k) (k_wbuf k) (k_whead k) (k_size k) (k_rewriting k)) (b_chunks b)).

Definition kill_gc_reopen (lc : l2cfg) (b : bucket) (begin end_ n : nat) : option openres :=
  match gc_pass_killed lc b begin end_ n with
  | Some bk => Some (bkt_open (l_cfg lc) (forced_hash (l_forced lc)) (dir_of (norm_disk bk) rm_none))
  | None => None
  end.

(* killed after the first k source files have been processed and cleared, before anything else happens *)
Definition gc_pass_killed_after_files (lc : l2cfg) (b : bucket) (begin k : nat) : bucket :=
  let cf := l_cfg lc in
  let b1 := before_bucket cf b false in
  let dst := pick_dst cf b1 begin begin in
  let b2 := begin_gc_writing b1 dst begin in
  gc_b (fold_left (gc_file cf (forced_hash (l_forced lc)) begin) (seq begin k) (mkGC b2 dst gc0)).

Definition kill_gc_files_reopen (lc : l2cfg) (b : bucket) (begin k : nat) : openres :=
  bkt_open (l_cfg lc) (forced_hash (l_forced lc)) (dir_of (norm_disk (gc_pass_killed_after_files lc b begin k)) rm_none).
