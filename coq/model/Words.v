(* L0: bytes and fixed-width words as N with explicit truncation; little-endian
   encoding; hex strings for the harness-written case files. Definitions only. *)
From Coq Require Import NArith ZArith List Bool String Ascii.
Import ListNotations.
Open Scope N_scope.

Definition byte := N.
Definition bytes := list N.

Definition w8  (x : N) : N := N.land x 255.
Definition w16 (x : N) : N := N.land x 65535.
Definition w32 (x : N) : N := N.land x 4294967295.
Definition w64 (x : N) : N := N.land x 18446744073709551615.

Definition isbyte (b : N) : bool := b <? 256.
Definition allbytes (bs : bytes) : bool := forallb isbyte bs.

(* length as N (never nat for data-dependent sizes in arithmetic) *)
Fixpoint lenN {A} (l : list A) : N :=
  match l with [] => 0 | _ :: t => N.succ (lenN t) end.

Definition rotl32 (x r : N) : N :=
  w32 (N.lor (N.shiftl x r) (N.shiftr x (32 - r))).

(* little endian *)
Definition le32 (x : N) : bytes :=
  [w8 x; w8 (N.shiftr x 8); w8 (N.shiftr x 16); w8 (N.shiftr x 24)].
Definition le16 (x : N) : bytes := [w8 x; w8 (N.shiftr x 8)].
Definition le64 (x : N) : bytes := le32 (w32 x) ++ le32 (N.shiftr x 32).

Definition rd32 (b0 b1 b2 b3 : N) : N :=
  b0 + 256 * b1 + 65536 * b2 + 16777216 * b3.

Definition get32 (bs : bytes) : option N :=
  match bs with
  | b0 :: b1 :: b2 :: b3 :: _ => Some (rd32 b0 b1 b2 b3)
  | _ => None
  end.
Definition get16 (bs : bytes) : option N :=
  match bs with
  | b0 :: b1 :: _ => Some (b0 + 256 * b1)
  | _ => None
  end.
Definition get64 (bs : bytes) : option N :=
  match get32 bs, get32 (skipn 4 bs) with
  | Some lo, Some hi => Some (lo + 4294967296 * hi)
  | _, _ => None
  end.

(* int32 view of a 32-bit word and back *)
Definition to_i32 (x : N) : Z :=
  if x <? 2147483648 then Z.of_N x else (Z.of_N x - 4294967296)%Z.
Definition of_i32 (z : Z) : N := Z.to_N (z mod 4294967296)%Z.

(* take / drop with N counts, structural on the list (never converts a
   data-dependent size to nat) *)
Fixpoint takeN {A} (n : N) (l : list A) : list A :=
  match l with
  | [] => []
  | x :: t => if n =? 0 then [] else x :: takeN (N.pred n) t
  end.
Fixpoint dropN {A} (n : N) (l : list A) : list A :=
  match l with
  | [] => []
  | x :: t => if n =? 0 then l else dropN (N.pred n) t
  end.

Fixpoint zeros (n : nat) : bytes :=
  match n with O => [] | S k => 0 :: zeros k end.

(* ---- hex strings (case files written by the harness) ---- *)
Definition hexval (c : ascii) : N :=
  let n := N_of_ascii c in
  if (48 <=? n) && (n <=? 57) then n - 48
  else if (97 <=? n) && (n <=? 102) then n - 87
  else if (65 <=? n) && (n <=? 70) then n - 55
  else 0.

Fixpoint unhex (s : string) : bytes :=
  match s with
  | String a (String b rest) => (16 * hexval a + hexval b) :: unhex rest
  | _ => []
  end.

(* deterministic byte generator shared with the Go harness (for large inputs):
   x_{i+1} = (x_i * 1103515245 + 12345) mod 2^31, byte = (x >> 16) land 255 *)
Definition lcg_next (x : N) : N := N.land (x * 1103515245 + 12345) 2147483647.
Definition lcg_bytes (n : N) (x : N) : bytes :=
  rev' (snd (N.iter n (fun st : N * bytes =>
                         let x' := lcg_next (fst st) in
                         (x', N.land (N.shiftr x' 16) 255 :: snd st)) (x, []))).
