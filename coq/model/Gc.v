(* L2: garbage collection (store/gc.go) on the bucket model. *)
From Coq Require Import NArith ZArith List Bool.
From GB Require Import Consts Words Hash HintFile HTree Compress Bucket BucketOpen.
Import ListNotations.
Open Scope N_scope.

(* ---------------------------------------------------------- range check *)
Inductive rangeres := RangeOK (b e : nat) | RangeErr (code : N).   (* 1 start>head, 2 no file within days, 3 end<start, 4 ts read error *)

Definition disk_file_size (k : chunk) : N :=
  match k_wbuf k with (o, _) :: _ => o | [] => k_size k end.

Fixpoint first_nonempty_from (b : bucket) (n : nat) (start : nat) : nat :=
  match n with
  | O => start
  | S k => if Nat.ltb start (b_head b) && (k_size (chunk_at b start) =? 0) then first_nonempty_from b k (S start) else start
  end.

Definition gc_check_start (b : bucket) (start : Z) : option nat :=
  if (start <? 0)%Z then Some (first_nonempty_from b (b_head b) (b_nextgc b))
  else if (Z.of_nat (b_head b) <? start)%Z then None
  else Some (first_nonempty_from b (b_head b) (Z.to_nat start)).

(* first record timestamp of a chunk file (getFirstRecTs) *)
Definition first_ts (k : chunk) : option N :=
  if k_exists k then match find_off (k_disk k) 0 with Some r => Some (d_ts r) | None => None end else None.

Fixpoint last_nonempty_down (b : bucket) (n : nat) (e : Z) (start : nat) : Z :=
  match n with
  | O => e
  | S k => if (e <? Z.of_nat start)%Z then e
           else if 0 <? k_size (chunk_at b (Z.to_nat e)) then e
           else last_nonempty_down b k (e - 1)%Z start
  end.

Fixpoint gc_check_end_loop (cf : cfg) (b : bucket) (n : nat) (next : Z) (start : nat) (days : Z) (now : Z) : rangeres :=
  match n with
  | O => RangeErr 2
  | S k =>
    if (next <? Z.of_nat start + 1)%Z then RangeErr 2
    else
      let kn := chunk_at b (Z.to_nat next) in
      if disk_file_size kn =? 0 then gc_check_end_loop cf b k (next - 1)%Z start days now
      else match first_ts kn with
           | None => RangeErr 4
           | Some ts =>
             if (days * 86400 <? now - Z.of_N ts)%Z then
               let e := last_nonempty_down b (S (b_head b)) (next - 1)%Z start in
               if (e <? Z.of_nat start)%Z then RangeErr 3 else RangeOK start (Z.to_nat e)
             else gc_check_end_loop cf b k (next - 1)%Z start days now
           end
  end.

Definition gc_check_range (cf : cfg) (b : bucket) (s e days now : Z) : rangeres :=
  match gc_check_start b s with
  | None => RangeErr 1
  | Some start =>
    let e' := if (e <? 0)%Z || (Z.of_nat (b_head b) - 1 <=? e)%Z then (Z.of_nat (b_head b) - 1)%Z else e in
    let days' := if (days <? 0)%Z then c_nogcdays cf else days in
    gc_check_end_loop cf b (S (S (b_head b))) (e' + 1)%Z start days' now
  end.

(* ---------------------------------------------------------------- pass *)
Definition clear_hint_chunk (b : bucket) (c : nat) : bucket :=
  set_hints b (updd hchunk0 (b_hints b) c hchunk0) (b_hmax b) (b_maxdumped b).

(* getItemCollision: in-memory hint buffers only, newest first; (item, chunk, collision) *)
Definition buf_get_coll (l : list hitem) (h : N) (key : bytes) : option hitem * bool :=
  (* HintBuffer.Get: iscollision when the hash is present under another "index" key *)
  match find (fun x => hi_hash x =? h) (rev l) with   (* index[hash] points at the most recently set key of that hash *)
  | None => (None, false)
  | Some x => if bytes_eqb (hi_key x) key then (Some x, false) else (buf_get l h key, true)
  end.

Fixpoint splits_get_coll (sps : list hsplit) (h : N) (key : bytes) (lastc : bool) : option hitem * bool * bool :=  (* it, collision, stop *)
  match sps with
  | [] => (None, lastc, false)
  | sp :: older =>
      if sp_file sp then (None, lastc, true)
      else match buf_get_coll (sp_items sp) h key with
           | (Some it, c) => (Some it, c, false)
           | (None, c) => splits_get_coll older h key c
           end
  end.

(* hintMgr.getItemCollision: from the newest hint chunk down; it returns at the first chunk that
   reports a collision or has reached a dumped split -- an item found WITHOUT the collision mark
   does not stop the loop (it is overwritten by the next chunk's answer) *)
Fixpoint hints_get_coll (b : bucket) (n : nat) (h : N) (key : bytes) : option (hitem * nat) * bool :=
  let '(it, c, stop) := splits_get_coll (rev (hc_splits (hchunk_at b n))) h key false in
  let here := match it with Some x => Some (x, n) | None => None end in
  if c || stop then (here, c)
  else match n with O => (here, c) | S k => hints_get_coll b k h key end.

(* hintMgr.getCollisionGC *)
Definition get_collision_gc (b : bucket) (h : N) (key : bytes) : option (hitem * nat) * bool :=
  if ct_has_hash (b_ctab b) h then
    (match ct_get (b_ctab b) h key with Some it => Some (it, N.to_nat (hi_chunk it)) | None => None end, true)
  else hints_get_coll b (b_hmax b) h key.

Record gcstat := mkGS { g_before : N; g_released : N; g_size_released : N; g_not_in_tree : N }.

Record gcst := mkGC { gc_b : bucket; gc_dst : nat; gc_stat : gcstat }.

(* dataChunk.beginGCWriting *)
Definition begin_gc_writing (b : bucket) (dst src : nat) : bucket :=
  let k := chunk_at b dst in
  if Nat.eqb dst src then set_chunk b dst (mkChunk true (k_disk k) (k_fsize k) (k_wbuf k) 0 (k_size k) true)   (* GetStreamWriter creates a missing file *)
  else set_chunk b dst (mkChunk true (k_disk k) (k_fsize k) (k_wbuf k) (k_size k) (k_size k) (k_rewriting k)).

(* dataChunk.endGCWriting: truncate the stale tail of an in-place rewrite *)
Definition end_gc_writing (b : bucket) (dst : nat) : bucket :=
  let k := chunk_at b dst in
  if k_rewriting k && (k_whead k <? k_size k) then
    let disk' := filter (fun e => fst e <? k_whead k) (k_disk k) in
    set_chunk b dst (mkChunk (negb (k_whead k =? 0)) disk' (k_whead k) (k_wbuf k) (k_whead k) (k_whead k) false)
  else set_chunk b dst (mkChunk (k_exists k) (k_disk k) (k_fsize k) (k_wbuf k) (k_whead k) (k_size k) false).

(* AppendRecordGC: write at writingHead, overwriting whatever was there *)
Definition append_gc (b : bucket) (dst : nat) (r : drec) : bucket * N :=
  let k := chunk_at b dst in
  let off := k_whead k in
  let sz := dsize r in
  let disk' := filter (fun e => (fst e + dsize (snd e) <=? off) || (off + sz <=? fst e)) (k_disk k) ++ [(off, r)] in
  let wh := off + sz in
  (set_chunk b dst (mkChunk true disk' (N.max (k_fsize k) wh) (k_wbuf k) wh (if k_size k <=? wh then wh else k_size k) (k_rewriting k)),
   off).

(* dataChunk.Clear *)
Definition clear_chunk (b : bucket) (c : nat) : bucket := set_chunk b c chunk0.

Definition set_nextgc (b : bucket) (n : nat) : bucket :=
  mkB (b_chunks b) (b_head b) (b_tree b) (b_hints b) (b_hmax b) (b_maxdumped b) (b_dumpable b) (b_merged b) (b_ctab b) (b_ctid b)
      (b_treeid b) n (b_treefiles b) (b_mergedfile b) (b_ctfile b) (Some n).

(* one record of the source file *)
Definition gc_record (cf : cfg) (hf : bytes -> N) (begin src : nat) (st : gcst) (e : N * drec) : gcst :=
  let '(off, r) := e in
  let b := gc_b st in
  let h := hf (d_key r) in
  let oldp := mkPos src off in
  let found := tree_get_slot b h in
  let '(newest, vh) :=
    match found with
    | Some s =>
        if pos_eqb oldp (s_pos s) then (true, s_vh s)
        else
          match get_collision_gc b h (d_key r) with
          | (Some (it, ck), true) => if pos_eqb (mkPos ck (hi_off it)) oldp then (true, hi_vh it) else (false, 0)
          | (None, true) => (true, vhash_of r)
          | (_, false) => (false, 0)
          end
    | None => (Nat.ltb 0 begin && (d_ver r <? 0)%Z, 0)
    end in
  let gs := gc_stat st in
  let gs' := mkGS (g_before gs + 1) (if newest then g_released gs else g_released gs + 1)
                  (if newest then g_size_released gs else g_size_released gs + dsize r)
                  (match found with None => g_not_in_tree gs + 1 | Some _ => g_not_in_tree gs end) in
  if negb newest then mkGC b (gc_dst st) gs'
  else
    let '(b1, dst) :=
      if c_filemax cf <? dsize r + k_whead (chunk_at b (gc_dst st)) then
        let b' := trydump (end_gc_writing b (gc_dst st)) (gc_dst st) true in
        (begin_gc_writing b' (S (gc_dst st)) src, S (gc_dst st))
      else (b, gc_dst st) in
    let '(b2, noff) := append_gc b1 dst r in
    let newp := mkPos dst noff in
    let b3 := match found with
              | Some _ => match tree_get_slot b2 h with
                          | Some s =>
                              (* UpdateHtreePos: with the repair of the repoint race (Consts.gc_repoint_conditional) the slot is
                                 moved only if it still points at the relocated record *)
                              if gc_repoint_conditional && negb (pos_eqb (s_pos s) oldp) then b2
                              else tree_put b2 h (mkSlot newp (s_ver s) (s_vh s))
                          | None => b2
                          end
              | None => b2
              end in
    let b4 := hints_set cf b3 h (d_key r) (d_ver r) vh newp (dsize r) true in
    mkGC b4 dst gs'.

(* one source file *)
Definition gc_file (cf : cfg) (hf : bytes -> N) (begin : nat) (st : gcst) (src : nat) : gcst :=
  let b := gc_b st in
  if k_size (chunk_at b src) =? 0 then st
  else
    let recs := k_disk (chunk_at b src) in
    let st1 := mkGC (clear_hint_chunk b src) (gc_dst st) (gc_stat st) in
    let st2 := fold_left (gc_record cf hf begin src) recs st1 in
    let b2 := gc_b st2 in
    (* source = destination: the in-place rewrite of this file is complete; with Consts.gc_truncates_after_inplace
       (repair of finding F4) its stale tail is dropped at once and the writer continues in append mode *)
    let b3 := if Nat.eqb src (gc_dst st2) then
                (if gc_truncates_after_inplace && k_rewriting (chunk_at b2 src)
                 then begin_gc_writing (end_gc_writing b2 src) src (S src) else b2)
              else clear_chunk b2 src in
    let b4 := if Nat.leb (b_nextgc b3) (S src) then set_nextgc b3 (S src) else b3 in
    mkGC b4 (gc_dst st2) (gc_stat st2).

(* destination choice *)
Fixpoint pick_dst (cf : cfg) (b : bucket) (n : nat) (begin : nat) : nat :=
  match n with
  | O => begin
  | S i =>   (* examine chunk i = n-1 going down from begin-1 *)
      let sz := k_size (chunk_at b i) in
      if 0 <? sz then
        (if (Z.of_N sz <? Z.of_N (c_filemax cf) - Z.of_N (c_bodymax cf))%Z then i
         else if Nat.ltb i (begin - 1) then S i else begin)
      else pick_dst cf b i begin
  end.

(* Merge(forGC = true): collision detection over all hint files, no merged file written *)
Definition all_hint_files (b : bucket) : list (N * list hitem * N) :=
  concat (map (fun p => let '(c, hc) := p in
                        map (fun sp => (N.of_nat c, sp_items sp, sp_max sp)) (filter sp_file (hc_splits hc)))
              (combine (seq 0 (length (b_hints b))) (b_hints b))).

Definition max_hint_id (b : bucket) : hid :=
  fold_left (fun (m : hid) p =>
               let '(c, hc) := p in
               fold_left (fun (m2 : hid) q => let '(j, sp) := q in
                                      if sp_file sp && hid_larger m2 c (Z.of_nat j) then (c, Z.of_nat j) else m2)
                         (combine (seq 0 (length (hc_splits hc))) (hc_splits hc)) m)
            (combine (seq 0 (length (b_hints b))) (b_hints b)) (O, 0%Z).

Definition set_merge_state (b : bucket) (ct : list hitem) (ctid : hid) : bucket :=
  mkB (b_chunks b) (b_head b) (b_tree b) (b_hints b) (b_hmax b) (b_maxdumped b) (b_dumpable b) None ct ctid
      (b_treeid b) (b_nextgc b) (b_treefiles b) None (Some (ct, ctid)) (b_nextgcfile b).

Definition remove_merged (b : bucket) : bucket :=
  mkB (b_chunks b) (b_head b) (b_tree b) (b_hints b) (b_hmax b) (b_maxdumped b) (b_dumpable b) None (b_ctab b) (b_ctid b)
      (b_treeid b) (b_nextgc b) (b_treefiles b) None (b_ctfile b) (b_nextgcfile b).

Definition force_rotate (b : bucket) : bucket :=
  let hc := hchunk_at b (b_hmax b) in
  set_hints b (updd hchunk0 (b_hints b) (b_hmax b) (mkHC (hc_splits hc ++ [split0]) (hc_active hc))) (b_hmax b) (b_maxdumped b).

Definition before_bucket (cf : cfg) (b : bucket) (merge : bool) : bucket :=
  let b1 :=
    if merge then
      let b' := fold_left (fun bb i => trydump bb i false) (seq 0 NCH) (force_rotate b) in
      let '(_, _, ct) := hint_merge (all_hint_files b') (b_ctab b') in
      set_merge_state b' ct (max_hint_id b')
    else remove_merged b in
  (* removeHtree *)
  set_treefiles b1 [] (O, 0%Z).

Definition gc0 : gcstat := mkGS 0 0 0 0.

(* GCMgr.gc(bkt, begin, end, merge) *)
Definition gc_pass (cf : cfg) (hf : bytes -> N) (b : bucket) (begin end_ : nat) (merge : bool) : bucket * gcstat :=
  let b1 := before_bucket cf b merge in
  let dst := pick_dst cf b1 begin begin in
  let b2 := begin_gc_writing b1 dst begin in
  let st := fold_left (gc_file cf hf begin) (seq begin (S end_ - begin)) (mkGC b2 dst gc0) in
  let b3 := trydump (end_gc_writing (gc_b st) (gc_dst st)) (gc_dst st) true in
  (b3, gc_stat st).
