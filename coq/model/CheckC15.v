(* Correspondence checker for C15 (routing by the top hash digits, upper listing). *)
From Coq Require Import NArith ZArith List Bool String.
From GB Require Import Consts Words Hash KeyPath HTree CheckC09 CheckC08.
Import ListNotations.
Open Scope N_scope.

(* key hex, reported hash, value hex, get result: 0 miss, 1 hit (value = the one set), 2 other *)
Definition c15key : Type := string * N * string * N.

Record c15case := mkC15 {
  f_i : N; f_nb : N; f_height : nat; f_served : list N; f_keys : list c15key;
  f_dirs : list (string * list string);           (* directory (as bytes of its relative name, hex) -> key hexes found there *)
  f_listings : list (string * jl) }.              (* prefix digits -> listing *)

Definition served (c : c15case) (b : N) : bool := existsb (N.eqb b) (f_served c).
Definition depth_of_case (c : c15case) : nat := tree_depth (f_nb c).
Definition bucket_of_key (c : c15case) (k : string) : N := bucket_id (depth_of_case c) (keyhash (unhex k)).

(* per-bucket trees of the served keys (version 1, value hash of the value) *)
Definition tree_of (c : c15case) (b : N) : htree :=
  fold_left (fun t (k : c15key) =>
               let '(kh, _, vh, _) := k in
               if bucket_of_key c kh =? b then tree_set t (keyhash (unhex kh)) 1 (vhash (unhex vh)) 0 0 else t)
            (f_keys c) (new_tree (depth_of_case c) (f_height c)).

Definition root_of (c : c15case) (b : N) : N * N :=
  if served c b then let nd := snd (tree_update (tree_of c b)) in (n_hash nd, n_count nd) else (0, 0).

(* node of the store-wide tree at [path] (shorter than or equal to the bucket depth) *)
Fixpoint upper_node (fuel : nat) (c : c15case) (path : list N) : N * N :=
  let d := depth_of_case c in
  if Nat.leb d (List.length path) then root_of c (fold_left (fun o v => o * 16 + v) path 0)
  else match fuel with
       | O => (0, 0)
       | S f => upper_agg (map (fun i => upper_node f c (path ++ [i])) idx16)
       end.

Definition key_ok (c : c15case) (k : c15key) : bool :=
  let '(kh, h, _, g) := k in
  (keyhash (unhex kh) =? h) &&
  (if served c (bucket_of_key c kh) then g =? 1 else g =? 0).

Definition dir_ok15 (c : c15case) (d : string * list string) : bool :=
  forallb (fun kh => let b := bucket_of_key c kh in
                     served c b &&
                     match bucket_dir (f_nb c) b with
                     | Some name => list_eqb N.eqb name (unhex (fst d))
                     | None => false
                     end) (snd d).

Definition listing_ok15 (c : c15case) (l : string * jl) : bool :=
  let path := digits_of (fst l) in
  let d := depth_of_case c in
  if Nat.ltb (List.length path) d then
    match snd l with
    | JNodes ns => list_eqb (fun x y => (fst x =? fst y) && (snd x =? snd y))
                            (map (fun i => upper_node 3 c (path ++ [i])) idx16) ns
    | _ => false
    end
  else
    let b := bucket_of_path d path in
    if served c b then listing_eqb (snd (list_dir (tree_of c b) path)) (snd l)
    else match snd l with JNil => true | _ => false end.

Definition c15_check (c : c15case) : N :=
  if negb (forallb (key_ok c) (f_keys c)) then 1
  else if negb (forallb (dir_ok15 c) (f_dirs c)) then 2
  else if negb (forallb (listing_ok15 c) (f_listings c)) then 3
  else 0.

Definition c15_run (cs : list c15case) : list N :=
  fold_right (fun c acc => let k := c15_check c in if k =? 0 then acc else (f_i c * 100 + k) :: acc) [] cs.
