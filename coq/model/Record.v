(* L1: data records (store/datafile.go, store/item.go): encoding, positional
   read (readRecordAt) and sequential scan (DataStreamReader.Next / nextValid). *)
From Coq Require Import NArith ZArith List Bool.
From GB Require Import Consts Words Hash.
Import ListNotations.
Open Scope N_scope.

Record rec := mkRec { rkey : bytes; rval : bytes; rflag : N; rver : Z; rts : N }.

Record rcfg := mkRcfg { max_key : N; body_max : N }.

(* Record.Sizes: (24 + ksz + vsz, rounded up to 256) on uint32 *)
Definition rec_size_real (ksz vsz : N) : N := w32 (sizes_header + ksz + vsz).
Definition round_up (n : N) : N :=
  w32 (N.shiftl (N.shiftr (w32 (n + sizes_round_add)) sizes_round_shift) sizes_round_shift).
Definition rec_size (ksz vsz : N) : N := round_up (rec_size_real ksz vsz).
Definition rsize (r : rec) : N := rec_size (lenN (rkey r)) (lenN (rval r)).

(* bytes 4..24 of the header *)
Definition header_tail (ts flag : N) (ver : Z) (ksz vsz : N) : bytes :=
  le32 ts ++ le32 flag ++ le32 (of_i32 ver) ++ le32 ksz ++ le32 vsz.

Definition rec_crc (r : rec) : N :=
  crc32 (header_tail (rts r) (rflag r) (rver r) (w32 (lenN (rkey r))) (w32 (lenN (rval r)))
         ++ rkey r ++ rval r).

Definition encode_nopad (r : rec) : bytes :=
  le32 (rec_crc r)
  ++ header_tail (rts r) (rflag r) (rver r) (w32 (lenN (rkey r))) (w32 (lenN (rval r)))
  ++ rkey r ++ rval r.

Definition encode (r : rec) : bytes :=
  let real := rec_size_real (lenN (rkey r)) (lenN (rval r)) in
  let all := round_up real in
  encode_nopad r ++ zeros (N.to_nat (all - real)).

(* ---- positional read: readRecordAt on the suffix of the file starting at the offset ---- *)
Inductive rderr := EHead | EKeySize | EValSize | EBody | ECrc.
Inductive rd := RdOK (r : rec) | RdErr (e : rderr).

Definition valid_ksz (c : rcfg) (ksz : N) : bool := negb (ksz =? 0) && (ksz <=? max_key c).
Definition valid_vsz (c : rcfg) (vsz : N) : bool := vsz <=? body_max c.

Record hdr := mkHdr { h_crc : N; h_ts : N; h_flag : N; h_ver : Z; h_ksz : N; h_vsz : N }.

Definition decode_header (s : bytes) : option hdr :=
  match s with
  | c0 :: c1 :: c2 :: c3 :: t0 :: t1 :: t2 :: t3 :: f0 :: f1 :: f2 :: f3 ::
    v0 :: v1 :: v2 :: v3 :: k0 :: k1 :: k2 :: k3 :: z0 :: z1 :: z2 :: z3 :: _ =>
      Some (mkHdr (rd32 c0 c1 c2 c3) (rd32 t0 t1 t2 t3) (rd32 f0 f1 f2 f3)
                  (to_i32 (rd32 v0 v1 v2 v3)) (rd32 k0 k1 k2 k3) (rd32 z0 z1 z2 z3))
  | _ => None
  end.

Definition hdr_crc_ok (h : hdr) (key val : bytes) : bool :=
  h_crc h =? crc32 (header_tail (h_ts h) (h_flag h) (h_ver h) (h_ksz h) (h_vsz h) ++ key ++ val).

Definition read_at (c : rcfg) (s : bytes) : rd :=
  match decode_header s with
  | None => RdErr EHead
  | Some h =>
    if negb (valid_ksz c (h_ksz h)) then RdErr EKeySize
    else if negb (valid_vsz c (h_vsz h)) then RdErr EValSize
    else
      let body := dropN rec_header_size s in
      let kv := takeN (h_ksz h + h_vsz h) body in
      if lenN kv <? h_ksz h + h_vsz h then RdErr EBody
      else
        let key := takeN (h_ksz h) kv in
        let val := dropN (h_ksz h) kv in
        if hdr_crc_ok h key val then RdOK (mkRec key val (h_flag h) (h_ver h) (h_ts h))
        else RdErr ECrc
  end.

Definition read_at_off (c : rcfg) (file : bytes) (off : N) : rd := read_at c (dropN off file).

(* ---- sequential scan ---- *)
(* nextValid: try read_at at every resync_step boundary from the current (aligned) offset *)
Fixpoint next_valid (fuel : nat) (c : rcfg) (s : bytes) (off broken : N)
  : option (rec * N * bytes * N) * N :=
  match fuel with
  | O => (None, broken)
  | S f =>
    match s with
    | [] => (None, broken)
    | _ =>
      match read_at c s with
      | RdOK r => (Some (r, off, dropN (rsize r) s, off + rsize r), broken)
      | RdErr _ => next_valid f c (dropN resync_step s) (off + resync_step) (broken + resync_step)
      end
    end
  end.

Inductive nextres :=
| NxEnd                                        (* rec == nil, err == nil *)
| NxErr                                        (* err != nil *)
| NxRec (r : rec) (at_ : N) (broken : N) (rest : bytes) (off' : N).

Definition nv_fuel (s : bytes) : nat := S (length s / 256).

Definition of_nv (x : option (rec * N * bytes * N) * N) : nextres :=
  match x with
  | (Some (r, o, rest, off'), b) => NxRec r o b rest off'
  | (None, _) => NxEnd
  end.

(* one call of DataStreamReader.Next with the physical and logical position at the
   (256-aligned) offset [off], [s] the file suffix from there *)
Definition next (c : rcfg) (s : bytes) (off : N) : nextres :=
  match s with
  | [] => NxEnd
  | _ =>
    match decode_header s with
    | None => NxErr                                   (* partial header: unexpected EOF *)
    | Some h =>
      if negb (valid_ksz c (h_ksz h)) || negb (valid_vsz c (h_vsz h)) then
        of_nv (next_valid (nv_fuel s) c s off 0)
      else
        let body := dropN rec_header_size s in
        let key := takeN (h_ksz h) body in
        if lenN key <? h_ksz h then NxErr              (* key runs past EOF *)
        else
          let val := takeN (h_vsz h) (dropN (h_ksz h) body) in
          if lenN val <? h_vsz h then NxErr            (* value runs past EOF *)
          else
            let recsize := rec_size (h_ksz h) (h_vsz h) in
            if hdr_crc_ok h key val then
              NxRec (mkRec key val (h_flag h) (h_ver h) (h_ts h)) off 0 (dropN recsize s) (off + recsize)
            else of_nv (next_valid (nv_fuel s) c s off 0)   (* Next's own `sizeBroken += 1` is overwritten by nextValid's results *)
    end
  end.

Inductive scanend := ScanOK | ScanErr | ScanFuel.

(* repeated Next until nil or error; yields (offset, record, sizeBroken) *)
Fixpoint scan (fuel : nat) (c : rcfg) (s : bytes) (off : N) : list (N * rec * N) * scanend :=
  match fuel with
  | O => ([], ScanFuel)
  | S f =>
    match next c s off with
    | NxEnd => ([], ScanOK)
    | NxErr => ([], ScanErr)
    | NxRec r o b rest off' =>
        let '(l, e) := scan f c rest off' in ((o, r, b) :: l, e)
    end
  end.

Definition scan_file (c : rcfg) (file : bytes) (start : N) : list (N * rec * N) * scanend :=
  scan (S (S (length file / 256))) c (dropN start file) start.
