(* Correspondence checker for C14 (hint files). *)
From Coq Require Import NArith ZArith List Bool String.
From GB Require Import Consts Words Hash HintFile CheckC09.
Import ListNotations.
Open Scope N_scope.

Definition jh : Type := N * N * N * Z * N * string.   (* hash chunk off ver vhash keyhex *)
Definition mk_hi (j : jh) : hitem :=
  let '(h, ck, off, ver, vh, k) := j in mkHI h ck off ver vh (unhex k).

Definition hi_eqb (a b : hitem) : bool :=
  (hi_hash a =? hi_hash b) && (hi_chunk a =? hi_chunk b) && (hi_off a =? hi_off b) && (hi_ver a =? hi_ver b)%Z
  && (hi_vh a =? hi_vh b) && bytes_eqb (hi_key a) (hi_key b).

Record c14src := mkSrc {
  s_chunk : N; s_sets : list jh; s_filelen : N; s_filecrc : N; s_filehex : string;
  s_read : list jh; s_readerr : bool; s_readds : N; s_numkey : N; s_nindex : N }.

(* query: source index, hash, key hex, result (0 found, 1 not found, 2 error), item when found *)
Definition c14q : Type := N * N * string * N * list jh.

Record c14case := mkC14 {
  k_i : N; k_interval : N; k_recsize : N; k_srcs : list c14src; k_queries : list c14q;
  k_merged : list jh; k_mergedds : N; k_mergeerr : bool; k_coll : list jh }.

Definition src_buffer (s : c14src) : list hitem :=
  fold_left (fun b j => match buf_set 1000000 b (mk_hi j) with Some b' => b' | None => b end) (s_sets s) [].
Definition src_datasize (recsize : N) (s : c14src) : N :=
  fold_left (fun m j => N.max m (hi_off (mk_hi j) + recsize)) (s_sets s) 0.
Definition src_file (interval recsize : N) (s : c14src) : bytes :=
  buf_dump (src_buffer s) interval (src_datasize recsize s).

Definition src_ok (interval recsize : N) (s : c14src) (file : bytes) : N :=
  if negb (lenN file =? s_filelen s) then 1
  else if negb (crc32 file =? s_filecrc s) then 1
  else if negb (match s_filehex s with EmptyString => true | h => list_eqb N.eqb file (unhex h) end) then 1
  else match hint_read_all file, s_readerr s with
       | None, true => 0
       | Some (l, ds), false =>
           if negb (list_eqb hi_eqb l (map mk_hi (s_read s))) then 2
           else if negb (ds =? s_readds s) then 2
           else match load_index file with
                | Some (m, ix) => if (lenN ix =? s_nindex s) && (hm_numkey m =? s_numkey s) then 0 else 3
                | None => 3
                end
       | _, _ => 2
       end.

Definition q_ok (files : list bytes) (q : c14q) : bool :=
  let '(si, h, k, res, it) := q in
  match index_get (nth (N.to_nat si) files []) h (unhex k), res, it with
  | GFound x, 0, [j] => hi_eqb x (mk_hi j)
  | GNotFound, 1, _ => true
  | GErr, 2, _ => true
  | _, _, _ => false
  end.

Fixpoint ct_sorted_eqb (a b : list hitem) : bool := list_eqb hi_eqb a b.

Definition c14_check (c : c14case) : N :=
  let files := map (src_file (k_interval c) (k_recsize c)) (k_srcs c) in
  let codes := map (fun p => src_ok (k_interval c) (k_recsize c) (fst p) (snd p)) (combine (k_srcs c) files) in
  match filter (fun x => negb (x =? 0)) codes with
  | x :: _ => x
  | [] =>
    if negb (forallb (q_ok files) (k_queries c)) then 4
    else
      let srcs := map (fun p => (s_chunk (fst p),
                                 match hint_read_all (snd p) with Some (l, _) => l | None => [] end,
                                 src_datasize (k_recsize c) (fst p))) (combine (k_srcs c) files) in
      let '(items, ds, ct) := hint_merge srcs [] in
      if k_mergeerr c then 5
      else if negb (list_eqb hi_eqb items (map mk_hi (k_merged c))) then 5
      else if negb (ds =? k_mergedds c) then 5
      else if negb (list_eqb hi_eqb (sort_by hk_ltb ct) (map mk_hi (k_coll c))) then 6
      else 0
  end.

Definition c14_run (cs : list c14case) : list N :=
  fold_right (fun c acc => let k := c14_check c in if k =? 0 then acc else (k_i c * 100 + k) :: acc) [] cs.
