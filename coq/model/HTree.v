(* L1: the in-memory merkle tree (store/htree.go, store/leaf.go, hstore.go ListUpper). *)
From Coq Require Import NArith ZArith List Bool FMapPositive.
From GB Require Import Consts Words KeyPath.
Import ListNotations.
Open Scope N_scope.

Module PM := PositiveMap.
Definition nmap (A : Type) := PM.t A.
Definition mget {A} (m : nmap A) (k : N) (d : A) : A :=
  match PM.find (N.succ_pos k) m with Some v => v | None => d end.
Definition mset {A} (m : nmap A) (k : N) (v : A) : nmap A := PM.add (N.succ_pos k) v m.

(* leaf item: the low khash_len bytes of the key hash + 11 bytes (ver, vhash, offset>>8 (3 bytes), chunk (2 bytes)) *)
Record titem := mkTI { ti_low : N; ti_ver : Z; ti_vh : N; ti_off : N; ti_chunk : N }.
Record node := mkNode { n_count : N; n_hash : N; n_upd : bool }.

Record htree := mkTree {
  t_depth : nat;            (* level of this tree's root in the store-wide tree *)
  t_height : nat;           (* number of levels *)
  t_inner : nmap node;      (* key = level * 2^32 + offset, levels 0 .. height-2 and the leaf level *)
  t_leafs : nmap (list titem) }.

Definition nkey (level : nat) (offset : N) : N := N.of_nat level * 4294967296 + offset.
Definition node0 (ht level : nat) : node := mkNode 0 0 (Nat.eqb level (ht - 1)).
Definition get_node (t : htree) (level : nat) (offset : N) : node :=
  mget (t_inner t) (nkey level offset) (node0 (t_height t) level).
Definition set_node (t : htree) (level : nat) (offset : N) (n : node) : htree :=
  mkTree (t_depth t) (t_height t) (mset (t_inner t) (nkey level offset) n) (t_leafs t).
Definition get_leaf (t : htree) (offset : N) : list titem := mget (t_leafs t) offset [].
Definition set_leaf (t : htree) (offset : N) (l : list titem) : htree :=
  mkTree (t_depth t) (t_height t) (t_inner t) (mset (t_leafs t) offset l).

Definition new_tree (depth height : nat) : htree := mkTree depth height (PM.empty _) (PM.empty _).

Definition khash_len (t : htree) : N := nth (t_depth t + t_height t - 1) khash_lens 0.
Definition khash_mask (t : htree) : N := N.ones (8 * khash_len t).
Definition low_of (t : htree) (khash : N) : N := N.land khash (khash_mask t).

(* getLeaf: offset of the leaf from path digits depth .. depth+height-2 *)
Definition leaf_offset (t : htree) (khash : N) : N :=
  fold_left (fun o v => o * 16 + v) (firstn (t_height t - 1) (skipn (t_depth t) (path_of_hash khash))) 0.

(* item encoding drops the low byte of the offset and keeps 16 bits of the chunk id *)
Definition enc_off (off : N) : N := N.shiftl (N.land (N.shiftr off 8) 16777215) 8.
Definition enc_chunk (ck : Z) : N := N.land (Z.to_N (ck mod 4294967296)%Z) 65535.

Fixpoint leaf_find (l : list titem) (low : N) : option titem :=
  match l with
  | [] => None
  | x :: r => if ti_low x =? low then Some x else leaf_find r low
  end.
Fixpoint leaf_replace (l : list titem) (it : titem) : list titem :=
  match l with
  | [] => []
  | x :: r => if ti_low x =? ti_low it then it :: r else x :: leaf_replace r it
  end.
Fixpoint leaf_remove (l : list titem) (low : N) : list titem :=
  match l with
  | [] => []
  | x :: r => if ti_low x =? low then r else x :: leaf_remove r low
  end.

(* getLeafAndInvalidNodes: root and inner nodes on the path lose their "updated" mark *)
Fixpoint invalidate (t : htree) (digits : list N) (level : nat) (offset : N) (n : nat) : htree :=
  match n with
  | O => t
  | S k =>
    let nd := get_node t level offset in
    let t' := set_node t level offset (mkNode (n_count nd) (n_hash nd) false) in
    match digits with
    | [] => t'
    | d :: ds => invalidate t' ds (S level) (offset * 16 + d) k
    end
  end.
Definition invalidate_path (t : htree) (khash : N) : htree :=
  invalidate t (skipn (t_depth t) (path_of_hash khash)) 0 0 (t_height t - 1).

Definition hi16 (khash : N) : N := w16 (N.shiftr khash 32).   (* uint16(keyhash >> 32) *)

(* HTree.set *)
Definition tree_set (t : htree) (khash : N) (ver : Z) (vh : N) (chunk : Z) (off : N) : htree :=
  let t := invalidate_path t khash in
  let lo := leaf_offset t khash in
  let leaf := get_leaf t lo in
  let it := mkTI (low_of t khash) ver vh (enc_off off) (enc_chunk chunk) in
  let old := leaf_find leaf (low_of t khash) in
  let leaf' := match old with Some _ => leaf_replace leaf it | None => leaf ++ [it] end in
  let nd := get_node t (t_height t - 1) lo in
  let add := (0 <? ver)%Z in
  let sub := match old with Some o => (0 <? ti_ver o)%Z | None => false end in
  let dv := w16 ((if add then vh else 0) + 65536 - (if sub then match old with Some o => ti_vh o | None => 0 end else 0)) in
  let cnt := w32 (n_count nd + (if add then 1 else 0) + 4294967296 - (if sub then 1 else 0)) in
  let h := w16 (n_hash nd + w16 (dv * hi16 khash)) in
  set_node (set_leaf t lo leaf') (t_height t - 1) lo (mkNode cnt h (n_upd nd)).

(* HTree.remove: remove if oldPos.ChunkID = -1 or same (full) offset *)
Definition tree_remove (t : htree) (khash : N) (chunk : Z) (off : N) : htree :=
  let t := invalidate_path t khash in
  let lo := leaf_offset t khash in
  let leaf := get_leaf t lo in
  match leaf_find leaf (low_of t khash) with
  | None => t
  | Some o =>
    if (chunk =? -1)%Z || (ti_off o =? off) then
      let nd := get_node t (t_height t - 1) lo in
      let t' := set_leaf t lo (leaf_remove leaf (low_of t khash)) in
      if (0 <? ti_ver o)%Z then
        set_node t' (t_height t - 1) lo
          (mkNode (w32 (n_count nd + 4294967295))
                  (w16 (n_hash nd + 65536 - w16 (ti_vh o * hi16 khash))) (n_upd nd))
      else t'
    else t
  end.

(* HTree.get: (ver, vhash, chunk, offset) *)
Definition tree_get (t : htree) (khash : N) : option titem :=
  leaf_find (get_leaf t (leaf_offset t khash)) (low_of t khash).

(* updateNodes *)
Definition agg_hash (count : N) (hs : list N) : N :=
  fold_left (fun h x => w16 ((if threshold_list_key <? count then w16 (h * 97) else h) + x)) hs 0.

Definition idx16 : list N := [0;1;2;3;4;5;6;7;8;9;10;11;12;13;14;15].

Fixpoint update_nodes (fuel : nat) (t : htree) (level : nat) (offset : N) : htree * node :=
  let nd := get_node t level offset in
  if n_upd nd then (t, nd)
  else match fuel with
       | O => (t, nd)
       | S f =>
         let '(t', cs) := fold_left (fun (st : htree * list node) i =>
                                       let '(t2, acc) := update_nodes f (fst st) (S level) (offset * 16 + i) in
                                       (t2, snd st ++ [acc])) idx16 (t, []) in
         let cnt := fold_left (fun c x => w32 (c + n_count x)) cs 0 in
         let nd' := mkNode cnt (agg_hash cnt (map n_hash cs)) true in
         (set_node t' level offset nd', nd')
       end.

Definition tree_update (t : htree) : htree * node := update_nodes (t_height t) t 0 0.

(* ---- ListDir ---- *)
Inductive listing :=
| LNil
| LNodes (ns : list (N * N))                 (* 16 x (hash, count) *)
| LItems (its : list (N * Z * N)).           (* (full key hash, ver, vhash) in traversal order *)

(* getNodeKhash: path digits into the high 32 bits *)
Definition node_khash (path : list N) : N :=
  w32 (fst (fold_left (fun st d => let '(h, i) := st in
                                   (h + (if i <? 8 then N.shiftl (N.land d 15) (4 * (7 - i)) else 0), i + 1)) path (0, 0))).

Definition leaf_items (t : htree) (path : list N) (offset : N) (fkh fmask : N) : list (N * Z * N) :=
  let nk := N.land (N.shiftl (node_khash path) 32) (N.lxor (khash_mask t) 18446744073709551615) in
  fold_right (fun it acc =>
    let kh := N.lor (N.land (ti_low it) (khash_mask t)) nk in
    if N.land fmask kh =? fkh then (kh, ti_ver it, ti_vh it) :: acc else acc) [] (get_leaf t offset).

Fixpoint collect (fuel : nat) (t : htree) (level : nat) (path : list N) (offset : N) (fkh fmask : N) : list (N * Z * N) :=
  if Nat.leb (t_height t - 1) level then leaf_items t path offset fkh fmask
  else match fuel with
       | O => []
       | S f => concat (map (fun i => collect f t (S level) (path ++ [i]) (offset * 16 + i) fkh fmask) idx16)
       end.

(* listDir for a path (digits) of length >= depth; returns the tree too (nodes get updated) *)
Definition list_dir (t : htree) (path : list N) : htree * listing :=
  let l := Nat.min (t_depth t + t_height t - 1) (length path) in
  let level := (l - t_depth t)%nat in
  let offset := fold_left (fun o v => o * 16 + v) (firstn (l - t_depth t) (skipn (t_depth t) path)) 0 in
  let '(t', nd) := update_nodes (t_height t) t level offset in
  if Nat.leb (t_height t - 1) level || (n_count nd <? threshold_list_key) then
    let fkh := hash_of_path path in
    let shift := 64 - 4 * N.of_nat (length path) in
    let fmask := if 64 <=? shift then 0 else N.shiftl (N.shiftr 18446744073709551615 shift) shift in
    (t', LItems (collect (t_height t) t' level (firstn (t_depth t + level) path) offset fkh fmask))
  else
    (t', LNodes (map (fun i => let c := get_node t' (S level) (offset * 16 + i) in (n_hash c, n_count c)) idx16)).

(* ---- store-wide upper tree (hstore.go updateNodesUpper / ListUpper): always *97 ---- *)
Definition upper_agg (cs : list (N * N)) : N * N :=   (* (hash, count) *)
  fold_left (fun st c => (w16 (w16 (fst st * 97) + fst c), w32 (snd st + snd c))) cs (0, 0).
