(* L1: the server-side compression decision (store/item.go TryCompress) and flag handling.
   The compressor itself is an oracle: the harness supplies the sniffing verdict and the
   compressed sizes of the probe and of the whole body. *)
From Coq Require Import NArith ZArith List Bool.
From GB Require Import Consts Words.
Import ListNotations.
Open Scope N_scope.

Record zinfo := mkZ { z_sniff_ok : bool;   (* NeedCompress(probe): content type not in the not-compress list *)
                      z_probe : N;         (* len(CCompress(body[:min(len, TRY_COMPRESS_SIZE)])) *)
                      z_full : N }.        (* len(CCompress(body)) *)

Definition padded (n : N) : N := (n + 255) / 256 * 256.

(* Some n = compressed, stored body length n ; None = stored as is.
   Without the empty-value guard (Consts.compress_skips_empty = false, the code before the repair
   of finding F13) CCompress panics on an empty body: see try_compress_panics. *)
Definition try_compress_panics (ksz vlen flag : N) (ver : Z) : bool :=
  negb compress_skips_empty && (0 <=? ver)%Z && (N.land flag flag_client_compress =? 0) && (N.land flag flag_compress =? 0)
  && negb (padded (sizes_header + ksz + vlen) <=? compress_min_recsize) && (vlen =? 0).

Definition compress_decide (ksz vlen flag : N) (ver : Z) (z : zinfo) : option N :=
  if (ver <? 0)%Z then None
  else if negb (N.land flag flag_client_compress =? 0) || negb (N.land flag flag_compress =? 0) then None
  else if padded (sizes_header + ksz + vlen) <=? compress_min_recsize then None
  else if compress_skips_empty && (vlen =? 0) then None
  else if negb (z_sniff_ok z) then None
  else
    let t := N.min vlen try_compress_size in
    (* float32(c)/float32(t) > 0.7  <=>  10 c > 7 t on the reachable domain (see C10) *)
    if compress_ratio_tenths * t <? 10 * z_probe z then None
    else Some (if t <? vlen then z_full z else z_probe z).

Definition stored_flag (flag : N) (compressed : bool) : N := if compressed then flag + flag_compress else flag.
(* Payload.Decompress on read *)
Definition client_flag (stored : N) : N :=
  if N.land stored flag_compress =? 0 then stored else stored - flag_compress.
