(* Correspondence checker for the bucket-level suites (C01, C02, C03, C13, C17, C18):
   replays a harness trace on the L2 model and compares every reply. *)
From Coq Require Import NArith ZArith List Bool String.
From GB Require Import Consts Words Hash HintFile HTree Compress Bucket BucketOpen Gc CheckC09.
Import ListNotations.
Open Scope N_scope.

Definition ts_now : N := 4294967295.

Inductive l2op :=
| OSet (k v : string) (flag : N) (rev : Z) (ts : N) (z : zinfo)
| ODel (k : string)
| OIncr (k : string) (d : Z)
| OGet (k : string)
| OMeta (k : string)
| OTree (k : string)
| OFlush
| OHintDump
| ORestart (rm : rmset)
| OGcRange (s e days : Z)
| OGc (b e : nat) (merge : bool)
| ODir.

Inductive l2out :=
| XStored | XNotStored | XErr | XDeleted | XNotFound
| XNum (z : Z)
| XMiss
| XHit (v : string) (flag : N)
| XMeta (ver : Z) (vh flag len ts chunk off : N)
| XTree (ver : Z) (vh chunk off : N)
| XOk | XRefuse
| XRange (b e : N)
| XGc (before released size_released not_in_tree : N).

(* directory snapshot: data files (chunk, size, records (offset, key, version)), hint files,
   tree files, merged files, collision.yaml present, nextgc.txt present *)
Record dirsnap := mkSnap {
  sn_data : list (N * N * list (N * string * Z));
  sn_hints : list (N * N);
  sn_trees : list (N * Z);
  sn_merged : list (N * Z);
  sn_ct : bool; sn_nextgc : bool }.

Definition forced_hash (forced : list (string * N)) (k : bytes) : N :=
  match find (fun p => list_eqb N.eqb (unhex (fst p)) k) forced with
  | Some p => snd p
  | None => keyhash k
  end.

(* ---- model-side directory ---- *)
Fixpoint insert_off {A} (x : N * A) (l : list (N * A)) : list (N * A) :=
  match l with
  | [] => [x]
  | y :: t => if fst y <? fst x then y :: insert_off x t else x :: l
  end.
Definition sort_off {A} (l : list (N * A)) : list (N * A) := fold_right insert_off [] l.

Definition model_data (b : bucket) : list (N * N * list (N * bytes * Z)) :=
  List.concat (map (fun p => let '(c, k) := p in
                        if k_exists k && negb (k_fsize k =? 0) then [(N.of_nat c, k_fsize k, map (fun e => (fst e, d_key (snd e), d_ver (snd e))) (sort_off (k_disk k)))]
                        else [])
              (combine (seq 0 (List.length (b_chunks b))) (b_chunks b))).

Definition model_hints (b : bucket) : list (N * N) :=
  List.concat (map (fun p => let '(c, hc) := p in
                        List.concat (map (fun q => let '(j, sp) := q in if sp_file sp then [(N.of_nat c, N.of_nat j)] else [])
                                    (combine (seq 0 (List.length (hc_splits hc))) (hc_splits hc))))
              (combine (seq 0 (List.length (b_hints b))) (b_hints b))).

Fixpoint list_eqb2 {A B} (eq : A -> B -> bool) (a : list A) (b : list B) : bool :=
  match a, b with
  | [], [] => true
  | x :: a', y :: b' => eq x y && list_eqb2 eq a' b'
  | _, _ => false
  end.

Definition data_eqb (a : list (N * N * list (N * bytes * Z))) (b : list (N * N * list (N * string * Z))) : bool :=
  list_eqb2 (fun x y => (fst (fst x) =? fst (fst y)) && (snd (fst x) =? snd (fst y)) &&
                       list_eqb2 (fun r s => (fst (fst r) =? fst (fst s)) && list_eqb N.eqb (snd (fst r)) (unhex (snd (fst s)))
                                            && (snd r =? snd s)%Z) (snd x) (snd y)) a b.

Definition dir_ok (b : bucket) (s : dirsnap) : bool :=
  data_eqb (model_data b) (sn_data s)
  && list_eqb2 (fun x y => (fst x =? fst y) && (snd x =? snd y)) (model_hints b) (sn_hints s)
  && list_eqb2 (fun x y => (N.of_nat (fst x) =? fst y) && (snd x =? snd y)%Z) (map fst (b_treefiles b)) (sn_trees s)
  && list_eqb2 (fun x y => (N.of_nat (fst x) =? fst y) && (snd x =? snd y)%Z)
              (match b_mergedfile b with Some m => [fst m] | None => [] end) (sn_merged s)
  && Bool.eqb (match b_ctfile b with Some _ => true | None => false end) (sn_ct s)
  && Bool.eqb (match b_nextgcfile b with Some _ => true | None => false end) (sn_nextgc s).

(* ---- one step ---- *)
Definition out_eqb (m : l2out) (x : l2out) : bool :=
  match m, x with
  | XStored, XStored | XNotStored, XNotStored | XErr, XErr | XDeleted, XDeleted | XNotFound, XNotFound
  | XMiss, XMiss | XOk, XOk | XRefuse, XRefuse => true
  | XNum a, XNum b => (a =? b)%Z
  | XHit v f, XHit v' f' => list_eqb N.eqb (unhex v) (unhex v') && (f =? f')
  | XMeta ver vh fl ln ts ck off, XMeta ver' vh' fl' ln' ts' ck' off' =>
      (ver =? ver')%Z && (vh =? vh') && (fl =? fl') && (ln =? ln') && ((ts =? ts_now) || (ts =? ts')) && (ck =? ck') && (off =? off')
  | XTree ver vh ck off, XTree ver' vh' ck' off' => (ver =? ver')%Z && (vh =? vh') && (ck =? ck') && (off =? off')
  | XRange a b, XRange a' b' => (a =? a') && (b =? b')
  | XGc a b c d, XGc a' b' c' d' => (a =? a') && (b =? b') && (c =? c') && (d =? d')
  | _, _ => false
  end.

Record l2cfg := mkL2 { l_cfg : cfg; l_forced : list (string * N); l_now : Z }.

(* the model carries the value as bytes; XHit is compared through hex of the case, so the
   model output keeps bytes in a side channel *)
Inductive mout := MOut (o : l2out) | MHit (v : bytes) (flag : N).

Definition mout_eqb (m : mout) (x : l2out) : bool :=
  match m, x with
  | MHit v f, XHit v' f' => list_eqb N.eqb v (unhex v') && (f =? f')
  | MOut o, _ => out_eqb o x
  | _, _ => false
  end.

Definition l2_step (lc : l2cfg) (b : bucket) (o : l2op) : option bucket * mout :=
  let cf := l_cfg lc in
  let hf := forced_hash (l_forced lc) in
  match o with
  | OSet k v flag rev ts z =>
      let '(b', r) := check_and_set cf hf b (unhex k) (unhex v) flag rev ts z in
      (Some b', MOut (match r with SStored => XStored | SNotFound => XErr end))
  | ODel k =>
      let '(b', r) := check_and_set cf hf b (unhex k) [] 0 (-1)%Z ts_now (mkZ false 0 0) in
      (Some b', MOut (match r with SStored => XDeleted | SNotFound => XNotFound end))
  | OIncr k d =>
      let '(b', n) := bkt_incr cf hf b (unhex k) d ts_now in (Some b', MOut (XNum n))
  | OGet k =>
      let '(b', g) := bkt_get hf b (unhex k) in
      (Some b', match g with
                | GMiss => MOut XMiss
                | GFail => MOut XErr
                | GHit v fl ver _ _ => if (ver <? 0)%Z then MOut XMiss else MHit v fl
                end)
  | OMeta k =>
      let '(b', g) := bkt_get hf b (unhex k) in
      (Some b', MOut (match g with
                      | GMiss => XMiss
                      | GFail => XErr
                      | GHit v fl ver ts p =>
                          XMeta ver (if (0 <? ver)%Z then vhash v else 0) fl (lenN v) ts (N.of_nat (p_chunk p)) (p_off p)
                      end))
  | OTree k =>
      (Some b, MOut (match bkt_get_mem b (hf (unhex k)) (unhex k) with
                     | Some (ver, vh, p) => XTree ver vh (N.of_nat (p_chunk p)) (p_off p)
                     | None => XMiss
                     end))
  | OFlush => (Some (flush_head b), MOut XOk)
  | OHintDump => (Some (fold_left (fun bb i => trydump bb i false) (seq 0 NCH) b), MOut XOk)
  | ORestart rm =>
      match restart cf hf b rm with
      | Opened b' => (Some b', MOut XOk)
      | Refused => (None, MOut XRefuse)
      end
  | OGcRange s e days =>
      (Some b, MOut (match gc_check_range cf b s e days (l_now lc) with
                     | RangeOK x y => XRange (N.of_nat x) (N.of_nat y)
                     | RangeErr _ => XErr
                     end))
  | OGc x y merge =>
      let '(b', gs) := gc_pass cf hf b x y merge in
      (Some b', MOut (XGc (g_before gs) (g_released gs) (g_size_released gs) (g_not_in_tree gs)))
  | ODir => (Some b, MOut XOk)
  end.

(* returns 0 if the whole trace agrees, else 1 + index of the first differing op (+ 500 if only the directory differs) *)
Fixpoint l2_run (lc : l2cfg) (b : bucket) (ops : list (l2op * l2out * option dirsnap)) (i : N) : N :=
  match ops with
  | [] => 0
  | (o, x, d) :: t =>
      let '(ob, m) := l2_step lc b o in
      if negb (mout_eqb m x) then i + 1
      else match ob with
           | None => 0
           | Some b' =>
               if match d with Some s => negb (dir_ok b' s) | None => false end then i + 501
               else l2_run lc b' t (i + 1)
           end
  end.

Definition l2case : Type := N * l2cfg * list (l2op * l2out * option dirsnap).

Definition l2_check (cs : list l2case) : list N :=
  fold_right (fun c acc => let '(i, lc, ops) := c in
                           let k := l2_run lc bucket0 ops 0 in
                           if k =? 0 then acc else (i * 10000 + k) :: acc) [] cs.
