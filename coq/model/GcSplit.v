(* L3: one GC record step split where the implementation can be overtaken by a client write
   (store/gc.go: newest-check + copy  |  UpdateHtreePos + hints.set). *)
From Coq Require Import NArith ZArith List Bool.
From GB Require Import Consts Words Hash HintFile HTree Compress Bucket BucketOpen Gc.
Import ListNotations.
Open Scope N_scope.

Record gcmove := mkMove { mv_h : N; mv_rec : drec; mv_old : pos; mv_new : pos; mv_vh : N; mv_found : bool }.

(* phase 1: is the record the newest of its key?  if so copy it to the destination *)
Definition gc_record_copy (cf : cfg) (hf : bytes -> N) (begin src : nat) (st : gcst) (e : N * drec) : gcst * option gcmove :=
  let '(off, r) := e in
  let b := gc_b st in
  let h := hf (d_key r) in
  let oldp := mkPos src off in
  let found := tree_get_slot b h in
  let '(newest, vh) :=
    match found with
    | Some s =>
        if pos_eqb oldp (s_pos s) then (true, s_vh s)
        else
          match get_collision_gc b h (d_key r) with
          | (Some (it, ck), true) => if pos_eqb (mkPos ck (hi_off it)) oldp then (true, hi_vh it) else (false, 0)
          | (None, true) => (true, vhash_of r)
          | (_, false) => (false, 0)
          end
    | None => (Nat.ltb 0 begin && (d_ver r <? 0)%Z, 0)
    end in
  let gs := gc_stat st in
  let gs' := mkGS (g_before gs + 1) (if newest then g_released gs else g_released gs + 1)
                  (if newest then g_size_released gs else g_size_released gs + dsize r)
                  (match found with None => g_not_in_tree gs + 1 | Some _ => g_not_in_tree gs end) in
  if negb newest then (mkGC b (gc_dst st) gs', None)
  else
    let '(b1, dst) :=
      if c_filemax cf <? dsize r + k_whead (chunk_at b (gc_dst st)) then
        let b' := trydump (end_gc_writing b (gc_dst st)) (gc_dst st) true in
        (begin_gc_writing b' (S (gc_dst st)) src, S (gc_dst st))
      else (b, gc_dst st) in
    let '(b2, noff) := append_gc b1 dst r in
    (mkGC b2 dst gs', Some (mkMove h r oldp (mkPos dst noff) vh (match found with Some _ => true | None => false end))).

(* phase 2, on the bucket as it is NOW: repoint the tree slot, update hint buffer and collision table.
   [cond] = Consts.gc_repoint_conditional *)
Definition gc_record_finish_gen (cond : bool) (cf : cfg) (b : bucket) (m : gcmove) : bucket :=
  let b3 := if mv_found m then
              match tree_get_slot b (mv_h m) with
              | Some s => if cond && negb (pos_eqb (s_pos s) (mv_old m)) then b
                          else tree_put b (mv_h m) (mkSlot (mv_new m) (s_ver s) (s_vh s))
              | None => b
              end
            else b in
  hints_set cf b3 (mv_h m) (d_key (mv_rec m)) (d_ver (mv_rec m)) (mv_vh m) (mv_new m) (dsize (mv_rec m)) true.

Definition gc_record_finish := gc_record_finish_gen gc_repoint_conditional.

Definition gc_record_split (cf : cfg) (hf : bytes -> N) (begin src : nat) (st : gcst) (e : N * drec) : gcst :=
  match gc_record_copy cf hf begin src st e with
  | (st1, None) => st1
  | (st1, Some m) => mkGC (gc_record_finish cf (gc_b st1) m) (gc_dst st1) (gc_stat st1)
  end.
