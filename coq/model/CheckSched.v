(* Correspondence checker for the split-read schedules (C04): replays an event trace recorded from the
   real store (readers parked between position lookup and positional read) on the interleaving model. *)
From Coq Require Import NArith ZArith List Bool String.
From GB Require Import Consts Words Hash HintFile HTree Compress Bucket BucketOpen Gc CheckL2 Sched.
Import ListNotations.
Open Scope N_scope.

Fixpoint c_check_run (lc : l2cfg) (st : bucket * pending) (evs : list (cev * option l2out)) (i : N) : N :=
  match evs with
  | [] => 0
  | (e, x) :: t =>
      let '(ost, om) := c_step lc st e in
      let same := match om, x with
                  | Some m, Some y => mout_eqb m y
                  | None, None => true
                  | _, _ => false
                  end in
      if negb same then i + 1
      else match ost with Some st' => c_check_run lc st' t (i + 1) | None => 0 end
  end.

Definition ccase : Type := N * l2cfg * list (cev * option l2out).

Definition c_check (cs : list ccase) : list N :=
  fold_right (fun c acc => let '(i, lc, evs) := c in
                           let k := c_check_run lc (bucket0, []) evs 0 in
                           if k =? 0 then acc else (i * 10000 + k) :: acc) [] cs.
