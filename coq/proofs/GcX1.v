(* Restart after GC, part 1: the update log read positionally.  The last update of a hash in the log of a bucket
   whose files are in offset order is the update of the record of that hash with the greatest (file, offset)
   position.  Two more invariants of client histories: a slot with a negative version points at that last
   record (NL), and no record has version 0 (NZ). *)
From Coq Require Import NArith ZArith List Bool Lia ZifyN ZifyNat ZifyBool Sorting.Sorted FMapPositive.
From GB Require Import Consts Words Hash HintFile HTree Compress Bucket BucketOpen Gc CheckL2 RefMap
     BucketBasics Refine GcTouch LogMono CollideProofs Upd Restart1 Restart2 Restart3.
Import ListNotations.
Open Scope N_scope.

Section P.
Variable hf : bytes -> N.

(* positions in the log: (file, offset), lexicographic *)
Definition ple (c1 : nat) (o1 : N) (c2 : nat) (o2 : N) : Prop := (c1 < c2)%nat \/ (c1 = c2 /\ o1 <= o2).

Definition hrec (b : bucket) (n : nat) (h : N) (c : nat) (e : N * drec) : Prop :=
  (c < n)%nat /\ In e (recs_at b c) /\ hf (d_key (snd e)) = h.

Definition is_max (b : bucket) (n : nat) (h : N) (c : nat) (e : N * drec) : Prop :=
  hrec b n h c e /\ forall c' e', hrec b n h c' e' -> ple c' (fst e') c (fst e).

Lemma last_upd_rupds c recs h : spaced recs ->
  match last_upd h (rupds hf c recs) with
  | None => forall e, In e recs -> hf (d_key (snd e)) <> h
  | Some x => exists e, In e recs /\ hf (d_key (snd e)) = h /\ x = snd (rec_upd hf c e) /\
                        forall e', In e' recs -> hf (d_key (snd e')) = h -> fst e' <= fst e
  end.
Proof.
  unfold spaced. induction 1 as [|e0 t Hs IH Hall]; cbn [rupds map last_upd]; [intros e []|].
  fold (rupds hf c t). destruct (last_upd h (rupds hf c t)) as [x|].
  - destruct IH as (e & Hin & Hh & Hx & Hmax). exists e. split; [now right|]. split; [exact Hh|]. split; [exact Hx|].
    intros e' [<-|He'] Hh'; [|now apply Hmax]. rewrite Forall_forall in Hall. specialize (Hall e Hin). pose proof (dsize_pos (snd e0)). lia.
  - unfold rec_upd at 1. cbn [fst snd]. destruct (N.eqb_spec (hf (d_key (snd e0))) h) as [E|Hne].
    + exists e0. split; [now left|]. split; [exact E|]. split; [reflexivity|]. intros e' [<-|He'] Hh'; [lia|]. exfalso. now apply (IH e' He').
    + intros e [<-|He]; [exact Hne|now apply IH].
Qed.

Lemma last_upd_upto b n h : (forall c, spaced (recs_at b c)) ->
  match last_upd h (upds_upto hf b n) with
  | None => forall c e, ~ hrec b n h c e
  | Some x => exists c e, is_max b n h c e /\ x = snd (rec_upd hf c e)
  end.
Proof.
  intros Hsp. induction n as [|n IH].
  - cbn. intros c e (H & _). lia.
  - rewrite upds_upto_S, last_upd_app. pose proof (last_upd_rupds n (recs_at b n) h (Hsp n)) as Hn.
    destruct (last_upd h (rupds hf n (recs_at b n))) as [x|].
    + destruct Hn as (e & Hin & Hh & Hx & Hmax). exists n, e. split; [|exact Hx]. split; [split; [lia|split; assumption]|].
      intros c' e' (Hc' & Hin' & Hh'). destruct (Nat.eq_dec c' n) as [->|Hne]; [right; split; [reflexivity|now apply Hmax]|left; lia].
    + destruct (last_upd h (upds_upto hf b n)) as [x|].
      * destruct IH as (c & e & [(Hc & Hin & Hh) Hmax] & Hx). exists c, e. split; [|exact Hx]. split; [split; [lia|split; assumption]|].
        intros c' e' (Hc' & Hin' & Hh'). destruct (Nat.eq_dec c' n) as [->|Hne]; [exfalso; now apply (Hn e' Hin')|]. apply Hmax. split; [lia|split; assumption].
      * intros c e (Hc & Hin & Hh). destruct (Nat.eq_dec c n) as [->|Hne]; [now apply (Hn e Hin)|]. apply (IH c e). split; [lia|split; assumption].
Qed.

Lemma sorted_nodup_fst (l : list (N * drec)) : StronglySorted (fun a b => fst a < fst b) l -> NoDup (map fst l).
Proof.
  induction 1 as [|x l Hs IH Hx]; cbn [map]; constructor; [|exact IH].
  intros Hin. apply in_map_iff in Hin as (y & Hy & Hin). rewrite Forall_forall in Hx. specialize (Hx y Hin). lia.
Qed.

(* positions identify records *)
Lemma spaced_same_off recs e1 e2 : spaced recs -> In e1 recs -> In e2 recs -> fst e1 = fst e2 -> e1 = e2.
Proof.
  intros Hs H1 H2 Ho. pose proof (sorted_nodup_fst recs (spaced_lt recs Hs)) as Hnd. revert H1 H2. clear Hs.
  induction recs as [|x l IH]; [intros []|]. cbn [map] in Hnd. inversion Hnd as [|? ? Hni Hnd']; subst.
  intros [<-|H1] [<-|H2]; [reflexivity| | |now apply IH].
  - exfalso. apply Hni. rewrite Ho. now apply in_map.
  - exfalso. apply Hni. rewrite <- Ho. now apply in_map.
Qed.

Lemma is_max_unique b n h c1 e1 c2 e2 : (forall c, spaced (recs_at b c)) -> is_max b n h c1 e1 -> is_max b n h c2 e2 -> c1 = c2 /\ e1 = e2.
Proof.
  intros Hsp [H1 M1] [H2 M2]. pose proof (M1 c2 e2 H2) as P1. pose proof (M2 c1 e1 H1) as P2. unfold ple in *.
  assert (Ec : c1 = c2) by lia. subst c2. split; [reflexivity|].
  apply (spaced_same_off (recs_at b c1)); [apply Hsp|apply H1|apply H2|lia].
Qed.

(* the converse: a position-maximal record of the hash IS the last update *)
Lemma last_upd_of_max b n h c e : (forall c, spaced (recs_at b c)) -> is_max b n h c e ->
  last_upd h (upds_upto hf b n) = Some (snd (rec_upd hf c e)).
Proof.
  intros Hsp Hm. pose proof (last_upd_upto b n h Hsp) as H. destruct (last_upd h (upds_upto hf b n)) as [x|].
  - destruct H as (c' & e' & Hm' & ->). destruct (is_max_unique b n h c e c' e' Hsp Hm Hm') as [-> ->]. reflexivity.
  - exfalso. apply (H c e). apply Hm.
Qed.
End P.

Section C.
Variable cf : cfg.
Variable hf : bytes -> N.
Variable K : list bytes.
Hypothesis hf_inj : forall k1 k2, In k1 K -> In k2 K -> hf k1 = hf k2 -> k1 = k2.
Hypothesis cap_pos : 0 < c_splitcap cf.
Hypothesis no_checkvhash : c_checkvhash cf = false.

(* a slot with a negative version points at the last record of its hash *)
Definition NL (b : bucket) : Prop :=
  forall h s, tree_get_slot b h = Some s -> (s_ver s < 0)%Z ->
  forall c e, hrec hf b (S (b_head b)) h c e -> ple c (fst e) (p_chunk (s_pos s)) (p_off (s_pos s)).
(* no record has version 0 *)
Definition NZ (b : bucket) : Prop := forall c e, In e (recs_at b c) -> d_ver (snd e) <> 0%Z.

Definition NLZ (b : bucket) : Prop := NL b /\ NZ b.

Lemma nlz_same b b' : (forall c, recs_at b' c = recs_at b c) -> b_head b' = b_head b -> (forall h, tree_get_slot b' h = tree_get_slot b h) -> NLZ b -> NLZ b'.
Proof.
  intros Hr Hh Ht [H1 H2]. split.
  - intros h s Hs Hv c e (Hc & Hin & Hk). rewrite Ht in Hs. rewrite Hh in Hc. rewrite Hr in Hin. apply (H1 h s Hs Hv c e). split; [exact Hc|split; assumption].
  - intros c e Hin. rewrite Hr in Hin. now apply (H2 c e).
Qed.

Lemma bkt_set_nlz b key r vh :
  layout_ok b -> b_ctab b = [] -> XInv hf K b -> NLZ b -> d_key r = key -> d_ver r <> 0%Z ->
  NLZ (bkt_set cf b (hf key) r vh).
Proof.
  intros Hlay Hct (Hcst & Hnh & _) [HNL HNZ] Hkey Hv0.
  unfold bkt_set. pose proof (append_record_x cf b r Hlay Hcst Hnh) as Hx. cbv zeta in Hx.
  destruct (append_record cf b r) as [b1 p]. cbn [fst snd] in Hx.
  destruct Hx as (Hh1 & Hpc & Hoff & Hrecs & Hwh & Hcst1 & Hnh1 & Hmisc).
  assert (Htr : b_tree b1 = b_tree b /\ b_ctab b1 = b_ctab b) by (unfold misc in Hmisc; injection Hmisc as _ _ _ _ _ -> ->; split; reflexivity).
  destruct Htr as [Htr Hc1].
  set (sl := mkSlot p (d_ver r) vh). set (b2 := tree_put b1 (hf key) sl).
  unfold hints_set. replace (ct_has_hash (b_ctab b2) (hf key)) with false by (unfold b2; cbn [tree_put set_tree b_ctab]; now rewrite Hc1, Hct).
  cbv iota. set (it := mkHI (hf key) 0 (p_off p) (d_ver r) vh (d_key r)). set (b3 := hints_set_item cf b2 it (p_chunk p) (dsize r)).
  pose proof (hints_set_item_core cf b2 it (p_chunk p) (dsize r)) as Hcore. fold b3 in Hcore.
  assert (Hch3 : forall c, chunk_at b3 c = chunk_at b1 c) by (intros c; apply (core_chunk_at b3 b2 c Hcore)).
  assert (Hhd3 : b_head b3 = p_chunk p) by (rewrite (core_head b3 b2 Hcore); exact Hh1).
  assert (Hrecs3 : forall c, recs_at b3 c = if Nat.eqb c (p_chunk p) then recs_at b c ++ [(p_off p, r)] else recs_at b c).
  { intros c. unfold recs_at at 1. rewrite Hch3. apply Hrecs. }
  assert (Htree3 : forall h, tree_get_slot b3 h = if N.eqb (hf key) h then Some sl else tree_get_slot b h).
  { intros h. rewrite (core_tree b3 b2 h Hcore). unfold b2. destruct (N.eqb_spec (hf key) h) as [<-|Hne]; [apply tree_put_same|].
    rewrite tree_put_other by exact Hne. unfold tree_get_slot. now rewrite Htr. }
  (* every old record lies at or below the new one *)
  assert (Hold : forall c e, In e (recs_at b c) -> ple c (fst e) (p_chunk p) (p_off p)).
  { intros c e Hin. destruct (Nat.lt_ge_cases (b_head b) c) as [Hgt|Hle].
    - unfold recs_at in Hin. rewrite (proj2 Hlay c Hgt) in Hin. destruct Hin.
    - destruct (Nat.eq_dec c (p_chunk p)) as [->|Hne]; [|left; lia].
      right. split; [reflexivity|]. destruct (Hcst (p_chunk p)) as (_ & _ & Hall & _). rewrite Forall_forall in Hall. specialize (Hall e Hin).
      rewrite Hoff. pose proof (dsize_pos (snd e)). lia. }
  split.
  - intros h s Hs Hneg c e (Hc & Hin & Hk). rewrite Htree3 in Hs. rewrite Hrecs3 in Hin.
    destruct (N.eqb_spec (hf key) h) as [Eh|Hne].
    + injection Hs as <-. cbn [sl s_pos]. destruct (Nat.eqb c (p_chunk p)) eqn:Ec; [|now apply Hold].
      apply in_app_or in Hin as [Hin|[<-|[]]]; [now apply Hold|]. apply Nat.eqb_eq in Ec. right. cbn [fst]. split; [exact Ec|lia].
    + assert (Hin0 : In e (recs_at b c)).
      { destruct (Nat.eqb c (p_chunk p)); [|exact Hin]. apply in_app_or in Hin as [Hin|[<-|[]]]; [exact Hin|]. cbn [snd] in Hk. rewrite Hkey in Hk. contradiction. }
      apply (HNL h s Hs Hneg c e). split; [|split; assumption].
      destruct (Nat.lt_ge_cases (b_head b) c) as [Hgt|Hle]; [|lia]. unfold recs_at in Hin0. rewrite (proj2 Hlay c Hgt) in Hin0. destruct Hin0.
  - intros c e Hin. rewrite Hrecs3 in Hin. destruct (Nat.eqb c (p_chunk p)); [|now apply (HNZ c e)].
    apply in_app_or in Hin as [Hin|[<-|[]]]; [now apply (HNZ c e)|exact Hv0].
Qed.

Lemma next_version_nz oldv rev ver : next_version oldv rev = Some ver -> ver <> 0%Z.
Proof.
  unfold next_version, zabs. destruct (rev =? 0)%Z eqn:E0; [destruct (0 <=? oldv)%Z eqn:E; intros H; injection H as <-; lia|].
  destruct (rev <? 0)%Z eqn:E1; [intros H; injection H as <-; destruct (oldv <? 0)%Z; lia|].
  destruct (_ <=? _)%Z; [discriminate|]. intros H; injection H as <-. lia.
Qed.

Lemma check_and_set_nlz so b key val flag rev ts z :
  layout_ok b -> b_ctab b = [] -> XInv hf K b -> NLZ b ->
  NLZ (fst (check_and_set_gen so cf hf b key val flag rev ts z)).
Proof.
  intros Hlay Hct HX HN. unfold check_and_set_gen. rewrite no_checkvhash, !andb_false_r.
  destruct (bkt_get_mem b (hf key) key) as [[[ov ovh] op]|].
  - destruct (next_version ov rev) as [ver|] eqn:Env; [|exact HN]. destruct (_ && _); [exact HN|]. cbn [fst].
    apply bkt_set_nlz; try assumption; [reflexivity|]. cbn [d_ver]. now apply (next_version_nz ov rev).
  - destruct (next_version 0 rev) as [ver|] eqn:Env; [|exact HN]. destruct (_ && _); [exact HN|]. cbn [fst].
    apply bkt_set_nlz; try assumption; [reflexivity|]. cbn [d_ver]. now apply (next_version_nz 0%Z rev).
Qed.

Lemma bkt_incr_nlz b m key d ts : Rel hf K b m -> XInv hf K b -> NLZ b -> In key K -> NLZ (fst (bkt_incr cf hf b key d ts)).
Proof.
  intros HR HX HN Hk. pose proof HR as [(Hlay & Hct & _) _].
  destruct (bkt_get_spec hf K hf_inj b m key HR Hk) as [Hb _].
  unfold bkt_incr. destruct (bkt_get hf b key) as [b1 g]. cbn [fst] in Hb. subst b1.
  destruct g as [|v fl ver t0 p0|]; cbn [fst].
  - cbn [fst]. apply bkt_set_nlz; try assumption; [reflexivity|]. cbn [d_ver]. lia.
  - destruct (0 <? ver)%Z eqn:El.
    + destruct (22 <? lenN v); [exact HN|]. destruct (_ || _); [exact HN|]. cbn [fst].
      apply bkt_set_nlz; try assumption; [reflexivity|]. cbn [d_ver]. lia.
    + cbn [fst]. apply bkt_set_nlz; try assumption; [reflexivity|]. cbn [d_ver]. lia.
  - exact HN.
Qed.
End C.
