(* C05: a client write that lands between GC's copy of a record and GC's index update survives. *)
From Coq Require Import NArith ZArith List Bool Lia ZifyN ZifyNat ZifyBool.
From GB Require Import Consts Words Hash HintFile HTree Compress Bucket BucketOpen Gc GcSplit BucketBasics Refine GcTouch LogMono.
Import ListNotations.
Open Scope N_scope.

(* the split step is the GC record step of the sequential model *)
Lemma gc_record_split_eq cf hf begin_ src st e :
  gc_record cf hf begin_ src st e = gc_record_split cf hf begin_ src st e.
Proof.
  destruct e as [off r]. unfold gc_record, gc_record_split, gc_record_copy.
  destruct (tree_get_slot (gc_b st) (hf (d_key r))) as [s0|] eqn:Ef.
  - destruct (if pos_eqb _ _ then _ else _) as [newest vh]. destruct newest; cbn [negb]; [|reflexivity].
    destruct (if c_filemax cf <? _ then _ else _) as [b1 dst]. destruct (append_gc b1 dst r) as [b2 noff].
    unfold gc_record_finish, gc_record_finish_gen. cbn [mv_found mv_h mv_old mv_new mv_rec mv_vh gc_b gc_dst gc_stat]. reflexivity.
  - destruct (_ && _); cbn [negb]; [|reflexivity].
    destruct (if c_filemax cf <? _ then _ else _) as [b1 dst]. destruct (append_gc b1 dst r) as [b2 noff].
    unfold gc_record_finish, gc_record_finish_gen. cbn [mv_found mv_h mv_old mv_new mv_rec mv_vh gc_b gc_dst gc_stat]. reflexivity.
Qed.

Lemma pos_eqb_eq a b : pos_eqb a b = true <-> a = b.
Proof.
  unfold pos_eqb. destruct a as [c o], b as [c' o']. cbn [p_chunk p_off]. split.
  - intros H. apply andb_prop in H as [H1 H2]. apply Nat.eqb_eq in H1. apply N.eqb_eq in H2. now subst.
  - intros H. injection H as -> ->. now rewrite Nat.eqb_refl, N.eqb_refl.
Qed.

(* ---- collision table: a forced (GC) update keeps an entry of a newer version ---- *)
Lemma ct_get_cas_keeps ct it h key x :
  ct_get ct h key = Some x -> (Z.abs (hi_ver it) < Z.abs (hi_ver x))%Z ->
  ct_get (ct_cas_gen true ct it true) h key = Some x.
Proof.
  unfold ct_get. induction ct as [|y ct IH]; intros Hg Hv; [discriminate|].
  cbn [find] in Hg. cbn [ct_cas_gen].
  destruct (same_hk y it) eqn:Es.
  - destruct ((hi_hash y =? h) && bytes_eqb (hi_key y) key) eqn:Ey.
    + injection Hg as ->. replace (Z.abs (hi_ver x) <=? Z.abs (hi_ver it))%Z with false by lia.
      cbn [find]. now rewrite Ey.
    + destruct (Z.abs (hi_ver y) <=? Z.abs (hi_ver it))%Z; cbn [find].
      * (* y replaced by it: it has y's hash and key, which are not (h, key) *)
        unfold same_hk in Es. apply andb_prop in Es as [E1 E2]. apply N.eqb_eq in E1. apply bytes_eqb_eq in E2.
        rewrite <- E1, <- E2, Ey. exact Hg.
      * rewrite Ey. exact Hg.
  - cbn [find]. destruct ((hi_hash y =? h) && bytes_eqb (hi_key y) key); [exact Hg|]. now apply IH.
Qed.

Section Finish.
Variable cf : cfg.

Lemma finish_dat cond b m : dat (gc_record_finish_gen cond cf b m) = dat b.
Proof.
  unfold gc_record_finish_gen. rewrite hints_set_dat.
  destruct (mv_found m); [|reflexivity]. destruct (tree_get_slot b (mv_h m)); [|reflexivity].
  destruct (_ && _); reflexivity.
Qed.

Lemma hints_set_tree b h key ver vh p rs g x : tree_get_slot (hints_set cf b h key ver vh p rs g) x = tree_get_slot b x.
Proof.
  unfold hints_set. destruct (ct_has_hash _ _).
  - rewrite <- (core_tree _ _ x (eq_sym (hints_set_item_core cf _ _ _ _))). reflexivity.
  - apply (core_tree _ _ x (hints_set_item_core cf _ _ _ _)).
Qed.

Lemma hints_set_ctab b h key ver vh p rs g :
  b_ctab (hints_set cf b h key ver vh p rs g) =
  if ct_has_hash (b_ctab b) h then ct_cas (b_ctab b) (mkHI h (N.of_nat (p_chunk p)) (p_off p) ver vh key) g else b_ctab b.
Proof.
  unfold hints_set. destruct (ct_has_hash _ _).
  - rewrite (core_ctab _ _ (hints_set_item_core cf _ _ _ _)). reflexivity.
  - apply (core_ctab _ _ (hints_set_item_core cf _ _ _ _)).
Qed.

(* THE repoint lemma: if the index entry of the key -- wherever get looks it up: collision table first, tree
   slot otherwise -- no longer points at the record GC copied and carries a newer version, GC's finishing
   step leaves the lookup of that key exactly as the client's write left it, and touches no data.
   [Hcov]: when the hash is in the collision table the key has an entry there (every write of such a key
   creates one: lemma bkt_set_covers below). *)
Lemma finish_keeps_lookup b m key ver vh p :
  bkt_get_mem b (mv_h m) key = Some (ver, vh, p) ->
  (ct_has_hash (b_ctab b) (mv_h m) = true -> ct_get (b_ctab b) (mv_h m) key <> None) ->
  p <> mv_old m -> (Z.abs (d_ver (mv_rec m)) < Z.abs ver)%Z ->
  bkt_get_mem (gc_record_finish_gen true cf b m) (mv_h m) key = Some (ver, vh, p) /\
  dat (gc_record_finish_gen true cf b m) = dat b.
Proof.
  intros Hg Hcov Hp Hv. split; [|apply finish_dat].
  unfold gc_record_finish_gen. cbn [andb].
  set (b3 := if mv_found m then _ else b).
  assert (Hct3 : b_ctab b3 = b_ctab b).
  { unfold b3. destruct (mv_found m); [|reflexivity]. destruct (tree_get_slot b (mv_h m)); [|reflexivity]. destruct (negb _); reflexivity. }
  unfold bkt_get_mem in *. rewrite hints_set_ctab, hints_set_tree, Hct3.
  destruct (ct_get (b_ctab b) (mv_h m) key) as [x|] eqn:Ect.
  - (* served from the collision table *)
    injection Hg as Hx1 Hx2 Hx3.
    assert (Hhas : ct_has_hash (b_ctab b) (mv_h m) = true).
    { unfold ct_has_hash, ct_get in *. apply find_some in Ect as [Hin Hx]. apply existsb_exists. exists x. split; [exact Hin|].
      now apply andb_prop in Hx as [Hx _]. }
    rewrite Hhas. unfold ct_cas. change gc_collision_update_versioned with true.
    rewrite (ct_get_cas_keeps (b_ctab b) _ (mv_h m) key x Ect) by (cbn [hi_ver]; lia).
    now rewrite Hx1, Hx2, Hx3.
  - (* served from the tree slot: the hash is not in the table, GC leaves the table alone *)
    destruct (ct_has_hash (b_ctab b) (mv_h m)) eqn:Ehas; [exfalso; now apply Hcov|].
    rewrite Ect.
    destruct (tree_get_slot b (mv_h m)) as [s|] eqn:Es; [|discriminate]. injection Hg as H1 H2 H3.
    assert (Ht3 : tree_get_slot b3 (mv_h m) = Some s).
    { unfold b3. destruct (mv_found m); [|exact Es].
      replace (pos_eqb (s_pos s) (mv_old m)) with false; [exact Es|].
      symmetry. apply not_true_is_false. intros E. apply pos_eqb_eq in E. congruence. }
    rewrite Ht3. now rewrite H1, H2, H3.
Qed.

(* every write of a key whose hash is in the collision table leaves an entry for the key there *)
Lemma ct_cas_covers vers ct it g : ct_get (ct_cas_gen vers ct it g) (hi_hash it) (hi_key it) <> None.
Proof.
  unfold ct_get. induction ct as [|y ct IH]; cbn [ct_cas_gen find].
  - now rewrite N.eqb_refl, bytes_eqb_refl.
  - destruct (same_hk y it) eqn:Es.
    + unfold same_hk in Es. apply andb_prop in Es as [E1 E2]. apply N.eqb_eq in E1. apply bytes_eqb_eq in E2.
      destruct (if g then _ else _); cbn [find].
      * now rewrite N.eqb_refl, bytes_eqb_refl.
      * rewrite E1, E2. now rewrite N.eqb_refl, bytes_eqb_refl.
    + cbn [find]. destruct (_ && _); [discriminate|exact IH].
Qed.

Lemma bkt_set_covers b h r vh :
  let b' := bkt_set cf b h r vh in
  ct_has_hash (b_ctab b') h = true -> ct_get (b_ctab b') h (d_key r) <> None.
Proof.
  cbv zeta. unfold bkt_set. destruct (append_record cf b r) as [b1 p].
  rewrite hints_set_ctab. cbn [tree_put set_tree b_ctab].
  destruct (ct_has_hash (b_ctab b1) h) eqn:Ehas; [|congruence].
  intros _. apply (ct_cas_covers _ (b_ctab b1) (mkHI h (N.of_nat (p_chunk p)) (p_off p) (d_ver r) vh (d_key r)) false).
Qed.
End Finish.

(* ---- the code before the repairs ---- *)
(* F20: an unconditional repoint moves the slot of a newer write back to the relocated record *)
Lemma unconditional_repoint_loses :
  let b := tree_put bucket0 7 (mkSlot (mkPos 2 0) 2 0) in
  let m := mkMove 7 (mkD [107] [118] 0 1 0 1) (mkPos 0 256) (mkPos 0 0) 0 true in
  let cf := mkCfg 512 4096 16 false 3 false 1 in
  bkt_get_mem b 7 [107] = Some (2%Z, 0, mkPos 2 0) /\
  bkt_get_mem (gc_record_finish_gen false cf b m) 7 [107] = Some (2%Z, 0, mkPos 0 0) /\
  bkt_get_mem (gc_record_finish_gen true cf b m) 7 [107] = Some (2%Z, 0, mkPos 2 0).
Proof. vm_compute. repeat split. Qed.

(* F22: a forced collision-table update replaces the entry of a newer write *)
Lemma forced_table_update_loses :
  let newer := mkHI 7 2 0 2 0 [107] in
  let moved := mkHI 7 0 0 1 0 [107] in
  ct_get (ct_cas_gen false [newer] moved true) 7 [107] = Some moved /\
  ct_get (ct_cas_gen true [newer] moved true) 7 [107] = Some newer.
Proof. vm_compute. split; reflexivity. Qed.

(* ---- a whole client write between GC's copy and GC's index update (key not involved in a collision) ---- *)
Lemma append_record_pos cf b r : (b_head b <= p_chunk (snd (append_record cf b r)))%nat.
Proof.
  unfold append_record. destruct (c_filemax cf <? _).
  - cbn [snd p_chunk]. rewrite (proj1 (flush_chunk_misc _ _)). cbn [set_head b_head]. lia.
  - cbn [snd p_chunk]. lia.
Qed.

Lemma ct_has_hash_get_none ct h key : ct_has_hash ct h = false -> ct_get ct h key = None.
Proof.
  unfold ct_has_hash, ct_get. induction ct as [|x ct IH]; cbn [existsb find]; [reflexivity|].
  intros H. apply orb_false_elim in H as [H1 H2]. rewrite H1. cbn [andb]. now apply IH.
Qed.

Theorem write_during_gc_survives cf b m r' vh' :
  layout_ok b -> ct_has_hash (b_ctab b) (mv_h m) = false ->
  (p_chunk (mv_old m) < b_head b)%nat ->
  (Z.abs (d_ver (mv_rec m)) < Z.abs (d_ver r'))%Z ->
  let b' := bkt_set cf b (mv_h m) r' vh' in
  let b'' := gc_record_finish_gen true cf b' m in
  (exists p, bkt_get_mem b' (mv_h m) (d_key r') = Some (d_ver r', vh', p) /\ log_find b' p = Some r' /\
             bkt_get_mem b'' (mv_h m) (d_key r') = Some (d_ver r', vh', p) /\ log_find b'' p = Some r') /\
  dat b'' = dat b'.
Proof.
  intros Hlay Hnoh Hold Hver. cbv zeta.
  set (b' := bkt_set cf b (mv_h m) r' vh').
  assert (Hb' : exists p, bkt_get_mem b' (mv_h m) (d_key r') = Some (d_ver r', vh', p) /\ log_find b' p = Some r' /\
                          (b_head b <= p_chunk p)%nat /\ ct_has_hash (b_ctab b') (mv_h m) = false).
  { unfold b', bkt_set. pose proof (append_record_spec cf b r' Hlay) as Happ. pose proof (append_record_pos cf b r') as Hpos.
    destruct (append_record cf b r') as [b1 p]. cbn [snd] in Hpos. destruct Happ as (Hlay1 & Hp & _ & _ & Hc1).
    exists p. set (b2 := tree_put b1 (mv_h m) _).
    assert (Hct : b_ctab (hints_set cf b2 (mv_h m) (d_key r') (d_ver r') vh' p (dsize r') false) = b_ctab b).
    { rewrite hints_set_ctab. unfold b2. cbn [tree_put set_tree b_ctab]. rewrite Hc1, Hnoh. reflexivity. }
    split; [|split; [|split]].
    - unfold bkt_get_mem. rewrite Hct, (ct_has_hash_get_none _ _ _ Hnoh), hints_set_tree. unfold b2. now rewrite tree_put_same.
    - rewrite <- (log_find_dat b1); [exact Hp|]. rewrite hints_set_dat. reflexivity.
    - exact Hpos.
    - now rewrite Hct. }
  destruct Hb' as (p & Hg & Hl & Hpc & Hnoh').
  destruct (finish_keeps_lookup cf b' m (d_key r') (d_ver r') vh' p Hg) as [H1 H2].
  - rewrite Hnoh'. discriminate.
  - intros E. rewrite <- E in Hold. lia.
  - exact Hver.
  - split; [|exact H2]. exists p. split; [exact Hg|]. split; [exact Hl|]. split; [exact H1|].
    rewrite (log_find_dat _ b' p H2). exact Hl.
Qed.
