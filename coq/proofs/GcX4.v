(* Restart after GC, part 4: data files and hint buffers during a pass -- every finished file satisfies the
   per-file invariant of C02 (cst) and is covered by its hint splits (hcov_at); the current destination is
   covered up to its writing head. *)
From Coq Require Import NArith ZArith List Bool Lia ZifyN ZifyNat ZifyBool Sorting.Sorted FMapPositive.
From GB Require Import Consts Words Hash HintFile HTree Compress Bucket BucketOpen Gc CheckL2 RefMap
     BucketBasics Refine GcTouch LogMono CollideProofs Upd Restart1 Restart2 Restart3 GcSplit GcSplitProofs GcView GcX1 GcX2.
Import ListNotations.
Open Scope N_scope.

Section H.
Variable cf : cfg.
Variable hf : bytes -> N.
Variable K : list bytes.
Hypothesis hf_inj : forall k1 k2, In k1 K -> In k2 K -> hf k1 = hf k2 -> k1 = k2.
Hypothesis cap_pos : 0 < c_splitcap cf.

(* the destination chunk while it is being written *)
Definition dk (k : chunk) : Prop := k_fsize k = k_size k /\ k_whead k mod 256 = 0 /\ k_exists k = true.

(* its hint splits cover exactly what lies below the writing head *)
Definition hcovD (sps : list hsplit) (k : chunk) (c : nat) : Prop :=
  sps <> [] /\ cov hf K c 0 sps (below k) /\ bound_from 0 sps <= k_whead k /\ Forall (fun e => fst e < bound_from 0 sps) (below k).

(* L1: appending a record and its hint item *)
Lemma append_keeps k sps c r it S' :
  gchunk k -> nostraddle k -> dk k -> hcovD sps k c ->
  describes hf it (k_whead k, r) -> item_ok hf K it ->
  (S' = set_sps (c_splitcap cf) sps it (dsize r) \/ exists md stop, S' = trydump_sps (set_sps (c_splitcap cf) sps it (dsize r)) md c stop) ->
  dk (append_gc_chunk k r) /\ hcovD S' (append_gc_chunk k r) c.
Proof.
  intros Hg Hns (D1 & D2 & D3) (C1 & C2 & C3 & C4) Hdesc Hok HS'. pose proof (dsize_pos r) as Hp.
  split.
  - unfold dk, append_gc_chunk. cbn [k_fsize k_size k_whead k_exists]. split; [|split; [|reflexivity]].
    + rewrite D1. destruct (k_size k <=? k_whead k + dsize r) eqn:E; lia.
    + pose proof (dsize_mod r) as Hm. rewrite N.add_mod by discriminate. rewrite D2, Hm. reflexivity.
  - set (e := (k_whead k, r)).
    destruct (cov_set_sps hf K hf_inj c (c_splitcap cf) it e (below k) sps 0 C1 C4 C3 cap_pos Hok Hdesc C2) as [Hc Hb]. cbn [fst snd e] in Hb, Hc.
    assert (Hne1 : set_sps (c_splitcap cf) sps it (dsize r) <> []) by (unfold set_sps; destruct (split_set _ _ _ _); destruct (removelast _); discriminate).
    assert (Hfin : forall S0, S0 <> [] -> cov hf K c 0 S0 (below k ++ [e]) -> bound_from 0 S0 = k_whead k + dsize r -> hcovD S0 (append_gc_chunk k r) c).
    { intros S0 HneS HcS HbS. unfold hcovD. rewrite (below_append k r Hns). fold e. split; [exact HneS|]. split; [exact HcS|].
      rewrite HbS. unfold append_gc_chunk. cbn [k_whead]. split; [lia|]. apply Forall_app. split.
      - eapply Forall_impl; [|exact C4]. cbv beta. intros x Hx. lia.
      - constructor; [cbn [fst e]; lia|constructor]. }
    destruct HS' as [->|(md & stop & ->)]; [now apply Hfin|].
    destruct (trydump_sps_cov hf K c _ md c stop _ 0 Hne1 Hc) as (Ha & Hb' & Hc'). apply Hfin; [exact Ha|exact Hb'|now rewrite Hc'].
Qed.

(* L2: a destination that is left (or the last one at the end of the pass) satisfies the per-file invariant *)
Lemma finish_keeps k sps c md stop :
  gchunk k -> nostraddle k -> k_whead k <= k_size k -> (k_rewriting k = true \/ k_whead k = k_size k) -> spaced (below k) ->
  dk k -> hcovD sps k c ->
  cst (end_gc_chunk k) /\ hcov_at hf K (trydump_sps sps md c stop) (end_gc_chunk k) c.
Proof.
  intros Hg Hns Hle Hrw Hsp (D1 & D2 & D3) (C1 & C2 & C3 & C4).
  destruct (end_gc_chunk_facts k Hg Hns Hle) as (E1 & E2 & E3 & E4 & E5 & E6). cbv zeta in E1, E2, E3, E4, E5, E6.
  destruct (E5 Hrw) as [E5a E5b]. pose proof (end_gc_disk k Hg Hns Hrw) as Ed.
  assert (Hall : all_recs (end_gc_chunk k) = below k) by (unfold all_recs; rewrite (proj1 E1), app_nil_r; exact Ed).
  split.
  - unfold cst. rewrite Hall. split; [now apply chunk_ok_of_g'|]. split; [exact Hsp|]. split; [rewrite <- Ed; exact E5a|].
    split; [|split; [exact E5b|split; [exact E2|split; [|now rewrite E6]]]].
    + intros _. unfold end_gc_chunk. destruct (k_rewriting k && (k_whead k <? k_size k)) eqn:E; cbn [k_fsize k_whead]; [reflexivity|].
      rewrite D1. destruct Hrw as [Hr|Hq]; [rewrite Hr in E; cbn [andb] in E; apply N.ltb_ge in E; lia|lia].
    + unfold end_gc_chunk. destruct (k_rewriting k && (k_whead k <? k_size k)) eqn:E; cbn [k_exists k_fsize]; [|congruence].
      intros Hz. apply negb_false_iff, N.eqb_eq in Hz. exact Hz.
  - destruct (trydump_sps_cov hf K c sps md c stop (below k) 0 C1 C2) as (Ha & Hb & Hc).
    unfold hcov_at. rewrite Hall, Hc, E6. auto.
Qed.

(* L3: a file that becomes the destination *)
Lemma begin_inplace_keeps k c : cst k -> k_wbuf k = [] -> dk (begin_gc_chunk k true) /\ hcovD [split0] (begin_gc_chunk k true) c.
Proof.
  intros (Hok & Hsp & Hall & Hf & Hsz & Hrw & Hex & Hmod) Hw.
  unfold dk, hcovD, below, begin_gc_chunk. cbn [k_fsize k_size k_whead k_exists k_disk].
  split; [split; [rewrite (Hf Hw); lia|split; reflexivity]|].
  assert (E : filter (fun e => rend e <=? 0) (k_disk k) = []) by (apply filter_nil_all; intros x _; pose proof (dsize_pos (snd x)); unfold rend; lia).
  rewrite E. split; [discriminate|]. split; [apply cov_split0|]. split; [cbn; lia|constructor].
Qed.

Lemma begin_append_keeps k sps c : cst k -> k_wbuf k = [] -> hcov_at hf K sps k c -> dk (begin_gc_chunk k false) /\ hcovD sps (begin_gc_chunk k false) c.
Proof.
  intros (Hok & Hsp & Hall & Hf & Hsz & Hrw & Hex & Hmod) Hw (C1 & C2 & C3 & C4).
  unfold dk, hcovD, below, begin_gc_chunk. cbn [k_fsize k_size k_whead k_exists k_disk].
  split; [split; [rewrite (Hf Hw); lia|split; [now rewrite Hsz|reflexivity]]|].
  unfold all_recs in C2, C4, Hall. rewrite Hw, app_nil_r in C2, C4, Hall.
  assert (E : filter (fun e => rend e <=? k_size k) (k_disk k) = k_disk k).
  { apply filter_id_all. intros x Hx. rewrite Forall_forall in Hall. specialize (Hall x Hx). cbv beta in Hall. unfold rend. lia. }
  rewrite E. split; [exact C1|]. split; [exact C2|]. split; [lia|exact C4].
Qed.
End H.

(* hint-side frames *)
Lemma sps_at_clear_hint b src c : sps_at (clear_hint_chunk b src) c = if Nat.eqb src c then [split0] else sps_at b c.
Proof. unfold clear_hint_chunk, sps_at. rewrite (hchunk_at_updd b _ src c _ _ _ eq_refl). destruct (Nat.eqb src c); reflexivity. Qed.

Section C.
Variable cf : cfg.
Variable hf : bytes -> N.
Variable K : list bytes.
Hypothesis hf_inj : forall k1 k2, In k1 K -> In k2 K -> hf k1 = hf k2 -> k1 = k2.
Hypothesis cap_pos : 0 < c_splitcap cf.
Variable b0 : bucket.
Variable begin_ end_ : nat.
Variable dst0 : nat.
Variable W0 : N.

Notation GA := (GA cf hf K b0 begin_ dst0 W0).
(* what the bucket satisfied before the pass *)
Hypothesis Hcst0 : forall c, cst (chunk_at b0 c).
Hypothesis Hcov0 : forall c, hcov_at hf K (sps_at b0 c) (chunk_at b0 c) c.
Hypothesis Hvh0 : forall h s0 r, tree_get_slot b0 h = Some s0 -> log_find b0 (s_pos s0) = Some r -> (0 < d_ver r)%Z -> s_vh s0 = vhash (d_val r).
Hypothesis Hrng : (dst0 <= begin_)%nat.

Definition okc (b : bucket) (c : nat) : Prop := cst (chunk_at b c) /\ hcov_at hf K (sps_at b c) (chunk_at b c) c.

Definition CC (st : gcst) (src : nat) : Prop :=
  let b := gc_b st in let D := gc_dst st in
  (forall c, (c < dst0)%nat -> chunk_at b c = chunk_at b0 c /\ sps_at b c = sps_at b0 c) /\
  (forall c, (src < c)%nat -> sps_at b c = sps_at b0 c) /\
  (forall c, (dst0 <= c < D)%nat -> okc b c) /\
  dk (chunk_at b D) /\
  (forall c, (D < c < src)%nat -> okc b c) /\
  b_treeid b = (O, 0%Z) /\ hid_le (O, 0%Z) (b_maxdumped b).

Definition QS (st : gcst) (src : nat) : Prop :=
  let b := gc_b st in let D := gc_dst st in
  CC st src /\ sps_at b src = sps_at b0 src /\
  (D <> src -> hcovD hf K (sps_at b D) (chunk_at b D) D /\ chunk_at b src = chunk_at b0 src) /\
  (D = src -> k_whead (chunk_at b D) = 0 /\ k_disk (chunk_at b src) = all_recs (chunk_at b0 src) /\ k_size (chunk_at b src) = k_size (chunk_at b0 src)).

Definition QI (st : gcst) (src : nat) (R : list (N * drec)) : Prop :=
  let b := gc_b st in let D := gc_dst st in
  CC st src /\ hcovD hf K (sps_at b D) (chunk_at b D) D /\ (D <> src -> sps_at b src = [split0] /\ chunk_at b src = chunk_at b0 src).

Definition QE (st : gcst) (src : nat) : Prop :=
  let b := gc_b st in let D := gc_dst st in
  CC st src /\ hcovD hf K (sps_at b D) (chunk_at b D) D /\ (D <> src -> okc b src).

(* states that differ only in fields no clause looks at *)
Lemma cc_same st st' src : (forall c, chunk_at (gc_b st') c = chunk_at (gc_b st) c) -> (forall c, sps_at (gc_b st') c = sps_at (gc_b st) c) ->
  b_treeid (gc_b st') = b_treeid (gc_b st) -> b_maxdumped (gc_b st') = b_maxdumped (gc_b st) -> gc_dst st' = gc_dst st -> CC st src -> CC st' src.
Proof.
  intros Hc Hs Ht Hm Hd (A & B & C & Dk & E & F1 & F2). unfold CC, okc. cbv zeta. rewrite Hd, Ht, Hm.
  split; [intros c Hlt; rewrite Hc, Hs; now apply A|]. split; [intros c Hlt; rewrite Hs; now apply B|].
  split; [intros c Hlt; rewrite Hc, Hs; now apply C|]. split; [rewrite Hc; exact Dk|]. split; [intros c Hlt; rewrite Hc, Hs; now apply E|]. auto.
Qed.

Lemma qc_hint st src R : GA st src R -> (begin_ <= src <= end_)%nat -> R = k_disk (chunk_at (gc_b st) src) ->
  QS st src -> QI (mkGC (clear_hint_chunk (gc_b st) src) (gc_dst st) (gc_stat st)) src R.
Proof.
  intros ((_ & _ & _ & _ & G5 & _) & _) Hsrc _ ((A & B & C & Dk & E & F1 & F2) & Hs & Hne & Heq). cbv zeta in *. unfold QI, CC, okc. cbn [gc_b gc_dst].
  set (b := gc_b st) in *. set (D := gc_dst st) in *.
  assert (Hc : forall c, chunk_at (clear_hint_chunk b src) c = chunk_at b c) by reflexivity.
  split; [|split].
  - split; [intros c Hlt; rewrite Hc, sps_at_clear_hint; replace (Nat.eqb src c) with false by (symmetry; apply Nat.eqb_neq; lia); now apply A|].
    split; [intros c Hlt; rewrite sps_at_clear_hint; replace (Nat.eqb src c) with false by (symmetry; apply Nat.eqb_neq; lia); now apply B|].
    split; [intros c Hlt; rewrite Hc, sps_at_clear_hint; replace (Nat.eqb src c) with false by (symmetry; apply Nat.eqb_neq; lia); now apply C|].
    split; [exact Dk|]. split; [intros c Hlt; rewrite Hc, sps_at_clear_hint; replace (Nat.eqb src c) with false by (symmetry; apply Nat.eqb_neq; lia); now apply E|]. auto.
  - rewrite Hc, sps_at_clear_hint. destruct (Nat.eqb_spec src D) as [Ed|Hnd]; [|apply Hne; congruence].
    destruct (Heq (eq_sym Ed)) as [Hw _]. unfold hcovD, below. rewrite Hw.
    assert (E0 : filter (fun e => rend e <=? 0) (k_disk (chunk_at b D)) = []) by (apply filter_nil_all; intros x _; pose proof (dsize_pos (snd x)); unfold rend; lia).
    rewrite E0. split; [discriminate|]. split; [apply cov_split0|]. split; [cbn; lia|constructor].
  - intros Hnd. rewrite sps_at_clear_hint, Nat.eqb_refl. split; [reflexivity|]. now apply Hne.
Qed.

(* the hint item GC writes for a record it keeps describes that record *)
Lemma gc_item_describes st src off r R' vh W' :
  GI cf hf K b0 st src ((off, r) :: R') ->
  ((exists s, tree_get_slot (gc_b st) (hf (d_key r)) = Some s /\ s_pos s = mkPos src off /\ vh = s_vh s) \/
   (tree_get_slot (gc_b st) (hf (d_key r)) = None /\ (d_ver r < 0)%Z) \/ snd (get_collision_gc (gc_b st) (hf (d_key r)) (d_key r)) = true) ->
  let it := mkHI (hf (d_key r)) 0 W' (d_ver r) vh (d_key r) in
  describes hf it (W', r) /\ item_ok hf K it.
Proof.
  intros (G1 & G2 & G3 & G4 & G5 & G6 & G7 & G8 & G9 & G10 & G11 & G12 & G13 & G14 & G15 & G16) Hvh. cbv zeta in *.
  set (b := gc_b st) in *.
  assert (Hin : In (off, r) (k_disk (chunk_at b src))) by (apply G10; now left).
  destruct (G13 src (off, r) G6 Hin) as [_ Hk]. cbn [snd] in Hk.
  split; [|split; [exact Hk|reflexivity]].
  unfold describes. cbn [hi_key hi_hash hi_off hi_ver hi_vh fst snd]. repeat (split; [reflexivity|]). intros Hpos.
  destruct Hvh as [(s & Hs & Hp & ->)|[(_ & Hneg)|Hcol]]; [|lia|rewrite (no_collision hf K hf_inj b _ (d_key r) G14 G2 Hk eq_refl) in Hcol; discriminate].
  assert (L : log_find b (s_pos s) = Some r).
  { rewrite Hp. rewrite log_find_gchunk by (cbn [p_chunk]; apply (G4 src G6)). cbn [p_chunk p_off].
    destruct (G4 src G6) as (_ & _ & Hnd & _). now apply find_off_in_nodup. }
  pose proof (G16 (d_key r) Hk) as Ha. unfold absr in Ha. rewrite Hs, L in Ha.
  destruct (tree_get_slot b0 (hf (d_key r))) as [s0|] eqn:Es0; [|discriminate]. destruct (log_find b0 (s_pos s0)) as [r0|] eqn:L0; [|discriminate].
  injection Ha as <- _ Evh. rewrite Evh. apply (Hvh0 _ s0 r Es0 L0 Hpos).
Qed.

Lemma qc_record st src e R' : GA st src (e :: R') -> (begin_ <= src <= end_)%nat -> QI st src (e :: R') -> QI (gc_record cf hf begin_ src st e) src R'.
Proof.
  intros (HG & [X1 X2] & H2 & HP & [S1 S2]) Hsrc (HCC & Hcov & Hsrcc). destruct e as [off r].
  pose proof HG as (G1 & G2 & G3 & G4 & G5 & G6 & G7 & G8 & G9 & G10 & G11 & G12 & G13 & G14 & G15 & G16).
  cbv zeta in G1, G2, G3, G4, G5, G6, G7, G8, G9, G10, G11, G12, G13, G14, G15, G16, X1, X2, HCC, Hcov, Hsrcc.
  destruct HCC as (A & B & C & Dk & E & F1 & F2). destruct HP as (P1 & _).
  pose proof (gc_record_form cf hf begin_ src st off r) as Hform. cbv zeta in Hform.
  set (st' := gc_record cf hf begin_ src st (off, r)) in *. set (b := gc_b st) in *. set (D := gc_dst st) in *. set (h := hf (d_key r)) in *.
  assert (HDlt : (D < b_head b0)%nat) by lia.
  destruct Hform as [[E1 E2]|(b1 & dst & vh & b3 & Hb1 & Hb3 & Hgc & Hdst & Hvh)].
  { unfold QI, CC, okc. cbv zeta. rewrite E1, E2. split; [split; [exact A|split; [exact B|split; [exact C|split; [exact Dk|split; [exact E|split; assumption]]]]]|split; assumption]. }
  set (W' := k_whead (chunk_at b1 dst)) in *.
  destruct (gc_item_describes st src off r R' vh W' HG Hvh) as [Hdesc Hiok]. cbv zeta in Hdesc, Hiok.
  set (it := mkHI h 0 W' (d_ver r) vh (d_key r)) in *.
  set (b2 := set_chunk b1 dst (append_gc_chunk (chunk_at b1 dst) r)) in *.
  (* the new bucket: chunks of b2, hints of b1 with the item set in chunk dst *)
  assert (Hct1 : b_ctab b1 = []).
  { destruct Hb1 as [(-> & _)|(-> & _)]; [exact G2|]. rewrite begin_gc_eq, end_gc_eq. change (b_ctab (set_chunk ?x ?c ?k)) with (b_ctab x).
    rewrite (core_ctab _ _ (trydump_core _ D true)). exact G2. }
  assert (Hct3 : b_ctab b3 = []) by (cbv zeta in Hb3; destruct Hb3 as [->|[s ->]]; exact Hct1).
  assert (Hgc' : gc_b st' = hints_set_item cf b3 it dst (dsize r)).
  { rewrite Hgc. unfold hints_set. rewrite Hct3. reflexivity. }
  assert (Hch' : forall c, chunk_at (gc_b st') c = chunk_at b2 c).
  { intros c. rewrite Hgc'. rewrite (core_chunk_at _ _ c (hints_set_item_core cf b3 it dst (dsize r))). cbv zeta in Hb3. destruct Hb3 as [->|[s ->]]; reflexivity. }
  assert (Hsp3 : forall c, sps_at b3 c = sps_at b1 c) by (intros c; cbv zeta in Hb3; destruct Hb3 as [->|[s ->]]; reflexivity).
  destruct (hints_set_item_md cf b3 it dst (dsize r)) as [Hmd Htid]. rewrite <- Hgc' in Hmd, Htid.
  assert (Hmd3 : b_maxdumped b3 = b_maxdumped b1 /\ b_treeid b3 = b_treeid b1) by (cbv zeta in Hb3; destruct Hb3 as [->|[s ->]]; split; reflexivity).
  assert (Hhint' : exists S', (forall c, sps_at (gc_b st') c = if Nat.eqb dst c then S' else sps_at b1 c) /\
            (S' = set_sps (c_splitcap cf) (sps_at b1 dst) it (dsize r) \/ exists md stop, S' = trydump_sps (set_sps (c_splitcap cf) (sps_at b1 dst) it (dsize r)) md dst stop)).
  { destruct (hints_set_item_sps_at cf b3 it dst (dsize r) dst) as (S' & HS & HS'). rewrite Nat.eqb_refl in HS. exists S'. split.
    - intros c. rewrite Hgc'. destruct (Nat.eqb_spec dst c) as [<-|Hne]; [exact HS|].
      destruct (hints_set_item_sps_at cf b3 it dst (dsize r) c) as (S2' & HS2 & _). rewrite HS2.
      replace (Nat.eqb dst c) with false by (symmetry; apply Nat.eqb_neq; exact Hne). apply Hsp3.
    - rewrite Hsp3 in HS'. exact HS'. }
  destruct Hhint' as (S' & Hsps' & HS').
  unfold QI, CC, okc. cbv zeta. rewrite Hdst.
  destruct Hb1 as [(Eb1 & Edst & Hfit)|(Eb1 & Edst & Hfull)].
  - (* no switch *)
    subst b1 dst.
    assert (Hc2 : forall c, chunk_at (gc_b st') c = if Nat.eqb c D then append_gc_chunk (chunk_at b D) r else chunk_at b c).
    { intros c. rewrite Hch'. unfold b2. destruct (Nat.eqb_spec c D) as [->|Hne]; [apply chunk_at_set_same|apply chunk_at_set_other; congruence]. }
    destruct (append_keeps cf hf K hf_inj cap_pos (chunk_at b D) (sps_at b D) D r it S' (G4 D HDlt) G7 Dk Hcov Hdesc Hiok HS') as [Dk' Hcov'].
    assert (Hoth : forall c, c <> D -> chunk_at (gc_b st') c = chunk_at b c /\ sps_at (gc_b st') c = sps_at b c).
    { intros c Hne. rewrite Hc2, Hsps'. replace (Nat.eqb c D) with false by (symmetry; apply Nat.eqb_neq; exact Hne).
      replace (Nat.eqb D c) with false by (symmetry; apply Nat.eqb_neq; congruence). auto. }
    split; [|split].
    + split; [intros c Hc; destruct (Hoth c ltac:(lia)) as [-> ->]; now apply A|]. split; [intros c Hc; destruct (Hoth c ltac:(lia)) as [_ ->]; now apply B|].
      split; [intros c Hc; destruct (Hoth c ltac:(lia)) as [-> ->]; now apply C|]. split; [rewrite Hc2, Nat.eqb_refl; exact Dk'|].
      split; [intros c Hc; destruct (Hoth c ltac:(lia)) as [-> ->]; now apply E|]. split; [rewrite Htid; destruct Hmd3 as [_ ->]; exact F1|].
      destruct Hmd3 as [Em _]. rewrite Em in Hmd. eapply hid_le_trans; eassumption.
    + rewrite Hc2, Hsps', !Nat.eqb_refl. exact Hcov'.
    + intros Hne. destruct (Hoth src ltac:(congruence)) as [-> ->]. now apply Hsrcc.
  - (* switch to the next file *)
    subst b1 dst.
    destruct (gi_switch cf hf K cap_pos b0 st src off r R' HG ltac:(fold b D; lia)) as (HGS & HWS & _). cbv zeta in HGS, HWS. fold b D in HGS, HWS.
    destruct HGS as (_ & _ & _ & _ & HS5 & _). cbv zeta in HS5. cbn [gc_b gc_dst] in HS5.
    set (b1 := begin_gc_writing (trydump (end_gc_writing b D) D true) (S D) src) in *.
    assert (HSlt : (S D < b_head b0)%nat) by lia.
    assert (Hc1 : forall c, chunk_at b1 c = if Nat.eqb c (S D) then begin_gc_chunk (chunk_at b (S D)) (Nat.eqb (S D) src)
                                             else if Nat.eqb c D then end_gc_chunk (chunk_at b D) else chunk_at b c).
    { intros c. unfold b1. rewrite begin_gc_eq, end_gc_eq.
      destruct (Nat.eqb_spec c (S D)) as [->|Hne]; [rewrite chunk_at_set_same; rewrite (core_chunk_at _ _ (S D) (trydump_core _ D true)); rewrite chunk_at_set_other by lia; reflexivity|].
      rewrite chunk_at_set_other by congruence. rewrite (core_chunk_at _ _ c (trydump_core _ D true)).
      destruct (Nat.eqb_spec c D) as [->|Hne2]; [apply chunk_at_set_same|apply chunk_at_set_other; congruence]. }
    assert (Hs1 : forall c, sps_at b1 c = if Nat.eqb D c then trydump_sps (sps_at b D) (b_maxdumped b) D ((negb true && Nat.eqb D (b_hmax b)) || negb (hc_active (hchunk_at b D))) else sps_at b c).
    { intros c. unfold b1. rewrite begin_gc_eq, end_gc_eq. change (sps_at (set_chunk ?x ?y ?z) c) with (sps_at x c). rewrite trydump_sps_at.
      change (sps_at (set_chunk b D ?z) ?y) with (sps_at b y). reflexivity. }
    assert (Hc2 : forall c, chunk_at (gc_b st') c = if Nat.eqb c (S D) then append_gc_chunk (chunk_at b1 (S D)) r else chunk_at b1 c).
    { intros c. rewrite Hch'. unfold b2. destruct (Nat.eqb_spec c (S D)) as [->|Hne]; [apply chunk_at_set_same|apply chunk_at_set_other; congruence]. }
    (* the old destination is finished *)
    destruct (finish_keeps cf hf K cap_pos (chunk_at b D) (sps_at b D) D (b_maxdumped b) ((negb true && Nat.eqb D (b_hmax b)) || negb (hc_active (hchunk_at b D)))
                (G4 D HDlt) G7 G8 X1 S2 Dk Hcov) as [Fc Fh].
    (* the new one *)
    set (k1 := begin_gc_chunk (chunk_at b (S D)) (Nat.eqb (S D) src)) in *.
    assert (Hk1 : chunk_at b1 (S D) = k1) by (rewrite Hc1, Nat.eqb_refl; reflexivity).
    assert (Hs1S : sps_at b1 (S D) = sps_at b (S D)) by (rewrite Hs1; replace (Nat.eqb D (S D)) with false by (symmetry; apply Nat.eqb_neq; lia); reflexivity).
    destruct (begin_gc_chunk_facts (chunk_at b (S D)) (Nat.eqb (S D) src) (G4 (S D) HSlt)) as (B1 & B2 & _).
    assert (Hnew : dk k1 /\ hcovD hf K (sps_at b (S D)) k1 (S D)).
    { unfold k1. destruct (Nat.eqb_spec (S D) src) as [Es|Hns].
      - destruct (Hsrcc ltac:(lia)) as [Hsp0 Hch0]. rewrite Es, Hsp0, Hch0. apply (begin_inplace_keeps cf hf K cap_pos); [apply Hcst0|].
        rewrite <- Hch0. apply (G4 src G6).
      - destruct (E (S D) ltac:(lia)) as [Ec Eh]. apply (begin_append_keeps cf hf K cap_pos); [exact Ec|apply (G4 (S D) HSlt)|exact Eh]. }
    destruct Hnew as [Dk1 Hcov1].
    rewrite Hs1S in HS'. assert (EW : W' = k_whead k1) by (unfold W'; now rewrite Hk1).
    assert (Hdesc1 : describes hf it (k_whead k1, r)) by (rewrite <- EW; exact Hdesc).
    destruct (append_keeps cf hf K hf_inj cap_pos k1 (sps_at b (S D)) (S D) r it S' B1 B2 Dk1 Hcov1 Hdesc1 Hiok HS') as [Dk' Hcov'].
    assert (Hoth : forall c, c <> D -> c <> S D -> chunk_at (gc_b st') c = chunk_at b c /\ sps_at (gc_b st') c = sps_at b c).
    { intros c H1 H2'. rewrite Hc2, Hsps'. replace (Nat.eqb c (S D)) with false by (symmetry; apply Nat.eqb_neq; exact H2').
      replace (Nat.eqb (S D) c) with false by (symmetry; apply Nat.eqb_neq; congruence). rewrite Hc1, Hs1.
      replace (Nat.eqb c (S D)) with false by (symmetry; apply Nat.eqb_neq; exact H2'). replace (Nat.eqb c D) with false by (symmetry; apply Nat.eqb_neq; exact H1).
      replace (Nat.eqb D c) with false by (symmetry; apply Nat.eqb_neq; congruence). auto. }
    split; [|split].
    + split; [intros c Hc; destruct (Hoth c ltac:(lia) ltac:(lia)) as [-> ->]; now apply A|]. split; [intros c Hc; destruct (Hoth c ltac:(lia) ltac:(lia)) as [_ ->]; now apply B|].
      split.
      { intros c Hc. destruct (Nat.eq_dec c D) as [->|Hne]; [|destruct (Hoth c Hne ltac:(lia)) as [-> ->]; apply C; lia].
        rewrite Hc2, Hsps'. replace (Nat.eqb D (S D)) with false by (symmetry; apply Nat.eqb_neq; lia).
        replace (Nat.eqb (S D) D) with false by (symmetry; apply Nat.eqb_neq; lia). rewrite Hc1, Hs1.
        replace (Nat.eqb D (S D)) with false by (symmetry; apply Nat.eqb_neq; lia). rewrite !Nat.eqb_refl. split; assumption. }
      split; [rewrite Hc2, Nat.eqb_refl, Hk1; exact Dk'|].
      split; [intros c Hc; destruct (Hoth c ltac:(lia) ltac:(lia)) as [-> ->]; apply E; lia|]. split; [rewrite Htid; destruct Hmd3 as [_ ->]; unfold b1; rewrite begin_gc_eq, end_gc_eq; change (b_treeid (set_chunk ?x ?y ?z)) with (b_treeid x); rewrite (proj2 (trydump_md _ D true)); exact F1|].
      destruct Hmd3 as [Em _]. rewrite Em in Hmd. eapply hid_le_trans; [|exact Hmd]. unfold b1. rewrite begin_gc_eq, end_gc_eq. change (b_maxdumped (set_chunk ?x ?y ?z)) with (b_maxdumped x).
      eapply hid_le_trans; [exact F2|]. apply (proj1 (trydump_md (set_chunk b D (end_gc_chunk (chunk_at b D))) D true)).
    + rewrite Hc2, Hsps', !Nat.eqb_refl, Hk1. exact Hcov'.
    + intros Hne. destruct (Hoth src ltac:(lia) ltac:(congruence)) as [-> ->]. apply Hsrcc. lia.
Qed.

Lemma qc_inplace st src : GA st src [] -> gc_dst st = src -> QI st src [] ->
  forall b4, (b4 = gc_b st \/ b4 = set_nextgc (gc_b st) (S src)) -> QE (mkGC b4 (gc_dst st) (gc_stat st)) src.
Proof.
  intros _ Hd (HCC & Hcov & _) b4 Hb4. unfold QE. cbv zeta. cbn [gc_b gc_dst].
  assert (Hc : forall c, chunk_at b4 c = chunk_at (gc_b st) c) by (intros c; destruct Hb4 as [->| ->]; reflexivity).
  assert (Hs : forall c, sps_at b4 c = sps_at (gc_b st) c) by (intros c; destruct Hb4 as [->| ->]; reflexivity).
  split; [apply (cc_same st); try assumption; try reflexivity; destruct Hb4 as [->| ->]; reflexivity|]. rewrite Hc, Hs. split; [exact Hcov|]. intros Hne. congruence.
Qed.

Lemma okc_empty b c : chunk_at b c = chunk0 -> sps_at b c = [split0] -> okc b c.
Proof.
  intros Hc Hs. unfold okc, hcov_at. rewrite Hc, Hs. split; [apply cst0|]. split; [discriminate|]. split; [apply cov_split0|]. split; [cbn; lia|constructor].
Qed.

Lemma qc_clear st src : GA st src [] -> (gc_dst st < src)%nat -> (begin_ <= src <= end_)%nat -> QI st src [] ->
  forall b4, (b4 = clear_chunk (gc_b st) src \/ b4 = set_nextgc (clear_chunk (gc_b st) src) (S src)) -> QE (mkGC b4 (gc_dst st) (gc_stat st)) src.
Proof.
  intros _ HD Hsrc ((A & B & C & Dk & E & F1 & F2) & Hcov & Hsrcc) b4 Hb4. cbv zeta in *. unfold QE, CC, okc. cbv zeta. cbn [gc_b gc_dst].
  set (b := gc_b st) in *. set (D := gc_dst st) in *.
  assert (Hc : forall c, chunk_at b4 c = if Nat.eqb c src then chunk0 else chunk_at b c).
  { intros c. assert (E0 : chunk_at b4 c = chunk_at (clear_chunk b src) c) by (destruct Hb4 as [->| ->]; reflexivity). rewrite E0. unfold clear_chunk.
    destruct (Nat.eqb_spec c src) as [->|Hne]; [apply chunk_at_set_same|apply chunk_at_set_other; congruence]. }
  assert (Hs : forall c, sps_at b4 c = sps_at b c) by (intros c; destruct Hb4 as [->| ->]; reflexivity).
  assert (Ht : b_treeid b4 = b_treeid b /\ b_maxdumped b4 = b_maxdumped b) by (destruct Hb4 as [->| ->]; split; reflexivity).
  destruct Ht as [Ht Hm]. rewrite Ht, Hm.
  assert (Hoth : forall c, c <> src -> chunk_at b4 c = chunk_at b c) by (intros c Hne; rewrite Hc; now replace (Nat.eqb c src) with false by (symmetry; apply Nat.eqb_neq; exact Hne)).
  split; [|split].
  - split; [intros c Hlt; rewrite Hoth, Hs by lia; now apply A|]. split; [intros c Hlt; rewrite Hs; now apply B|].
    split; [intros c Hlt; rewrite Hoth, Hs by lia; now apply C|]. split; [rewrite Hoth by lia; exact Dk|].
    split; [intros c Hlt; rewrite Hoth, Hs by lia; now apply E|]. auto.
  - rewrite Hoth, Hs by lia. exact Hcov.
  - intros _. apply okc_empty; [rewrite Hc, Nat.eqb_refl; reflexivity|rewrite Hs; apply Hsrcc; lia].
Qed.

Lemma qc_skip st src : GA st src (k_disk (chunk_at (gc_b st) src)) -> (begin_ <= src <= end_)%nat -> k_size (chunk_at (gc_b st) src) = 0 -> QS st src -> QE st src.
Proof.
  intros ((_ & _ & _ & G4 & G5 & G6 & _) & _) Hsrc Hz (HCC & Hs & Hne & Heq). cbv zeta in *. unfold QE. cbv zeta.
  set (b := gc_b st) in *. set (D := gc_dst st) in *.
  split; [exact HCC|]. split.
  - destruct (Nat.eq_dec D src) as [Ed|Hnd]; [|now apply Hne].
    destruct (Heq Ed) as (Hw & Hd & Hsz). pose proof (gchunk_size0' _ (G4 src G6) Hz) as Hd0. rewrite Hd0 in Hd.
    destruct (Hcov0 src) as (C1 & C2 & C3 & C4). rewrite <- Hd in C2, C4. rewrite Ed, Hs.
    unfold hcovD, below. rewrite Hd0. cbn [filter]. split; [exact C1|]. split; [exact C2|]. split; [|constructor].
    destruct (Hcst0 src) as (_ & _ & _ & _ & Hsz0 & _). rewrite <- Ed, Hw. rewrite Hz in Hsz. rewrite Ed. lia.
  - intros Hnd. destruct (Hne Hnd) as [_ Hch]. unfold okc. rewrite Hch, Hs. split; [apply Hcst0|apply Hcov0].
Qed.

Lemma qc_next st src : GA st src [] -> QE st src ->
  (gc_dst st <> src -> k_disk (chunk_at (gc_b st) src) = [] /\ k_size (chunk_at (gc_b st) src) = 0) -> (begin_ <= src)%nat -> (S src <= end_)%nat ->
  QS st (S src).
Proof.
  intros ((_ & _ & G3 & _ & G5 & _) & _) ((A & B & C & Dk & E & F1 & F2) & Hcov & Hsrcc) _ Hb He. cbv zeta in *. unfold QS, CC. cbv zeta.
  set (b := gc_b st) in *. set (D := gc_dst st) in *.
  split; [|split; [apply B; lia|split]].
  - split; [exact A|]. split; [intros c Hc; apply B; lia|]. split; [exact C|]. split; [exact Dk|]. split; [|auto].
    intros c Hc. destruct (Nat.eq_dec c src) as [->|Hne]; [apply Hsrcc; lia|apply E; lia].
  - intros _. split; [exact Hcov|]. apply G3. right. lia.
  - intros Ed. lia.
Qed.

Lemma qc_files n src st :
  GA st src (k_disk (chunk_at (gc_b st) src)) -> QS st src ->
  (src + n < b_head b0)%nat -> (begin_ <= src)%nat -> (src + n <= end_)%nat ->
  (forall c, (c < b_head b0)%nat -> spaced (k_disk (chunk_at b0 c))) -> ((dst0 < src)%nat \/ W0 = 0) ->
  QE (fold_left (gc_file cf hf begin_) (seq src (S n)) st) (src + n)%nat.
Proof.
  apply (gq_files cf hf K hf_inj cap_pos b0 begin_ end_ dst0 W0 QS QI QE qc_hint qc_record qc_inplace qc_clear qc_skip qc_next).
Qed.

(* the end of the pass: every file satisfies the per-file invariant and is covered by its hints *)
Lemma qc_final st : GA st end_ [] -> QE st end_ ->
  let D := gc_dst st in let bf := trydump (end_gc_writing (gc_b st) D) D true in
  (forall c, okc bf c) /\ b_treeid bf = (O, 0%Z) /\ hid_le (O, 0%Z) (b_maxdumped bf).
Proof.
  intros ((G1 & G2 & G3 & G4 & G5 & G6 & G7 & G8 & _) & [X1 _] & _ & _ & [_ S2]) ((A & B & C & Dk & E & F1 & F2) & Hcov & Hsrcc). cbv zeta in *.
  set (b := gc_b st) in *. set (D := gc_dst st) in *. assert (HDlt : (D < b_head b0)%nat) by lia.
  rewrite end_gc_eq. set (b3 := set_chunk b D (end_gc_chunk (chunk_at b D))).
  pose proof (trydump_core b3 D true) as Hcore.
  assert (Hch : forall c, chunk_at (trydump b3 D true) c = if Nat.eqb c D then end_gc_chunk (chunk_at b D) else chunk_at b c).
  { intros c. rewrite (core_chunk_at _ _ c Hcore). unfold b3. destruct (Nat.eqb_spec c D) as [->|Hne]; [apply chunk_at_set_same|apply chunk_at_set_other; congruence]. }
  assert (Hsp : forall c, sps_at (trydump b3 D true) c = if Nat.eqb D c then trydump_sps (sps_at b D) (b_maxdumped b) D ((negb true && Nat.eqb D (b_hmax b)) || negb (hc_active (hchunk_at b D))) else sps_at b c).
  { intros c. rewrite trydump_sps_at. reflexivity. }
  destruct (finish_keeps cf hf K cap_pos (chunk_at b D) (sps_at b D) D (b_maxdumped b) ((negb true && Nat.eqb D (b_hmax b)) || negb (hc_active (hchunk_at b D)))
              (G4 D HDlt) G7 G8 X1 S2 Dk Hcov) as [Fc Fh].
  split; [|split].
  - intros c. unfold okc. rewrite Hch, Hsp. destruct (Nat.eq_dec c D) as [->|Hne]; [rewrite !Nat.eqb_refl; split; assumption|].
    replace (Nat.eqb c D) with false by (symmetry; apply Nat.eqb_neq; exact Hne). replace (Nat.eqb D c) with false by (symmetry; apply Nat.eqb_neq; congruence).
    destruct (Nat.lt_ge_cases c dst0) as [Hlo|Hge]; [destruct (A c Hlo) as [-> ->]; split; [apply Hcst0|apply Hcov0]|].
    destruct (Nat.lt_ge_cases c D) as [HcD|HcD]; [apply C; lia|].
    destruct (Nat.lt_ge_cases c end_) as [Hce|Hce]; [apply E; lia|].
    destruct (Nat.eq_dec c end_) as [->|Hne2]; [apply Hsrcc; congruence|].
    rewrite G3 by (right; lia). rewrite B by lia. split; [apply Hcst0|apply Hcov0].
  - rewrite (proj2 (trydump_md b3 D true)). exact F1.
  - eapply hid_le_trans; [exact F2|]. apply (proj1 (trydump_md b3 D true)).
Qed.
End C.
