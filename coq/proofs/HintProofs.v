(* Hint file round-trip proofs. *)
From Coq Require Import NArith ZArith List Bool Lia ZifyN ZifyNat ZifyBool.
From GB Require Import Consts Words HintFile Bits RecordProofs.
Import ListNotations.
Open Scope N_scope.

Definition valid_item (it : hitem) : Prop :=
  hi_hash it < 18446744073709551616 /\ hi_chunk it < 4294967296 /\ hi_off it < 4294967296 /\
  (-2147483648 <= hi_ver it < 2147483648)%Z /\ hi_vh it < 65536 /\ lenN (hi_key it) < 256.

Lemma rd16_le16 x : x < 65536 -> w8 x + 256 * w8 (N.shiftr x 8) = x.
Proof. intros H. rewrite !w8_mod, N.shiftr_div_pow2. change (2 ^ 8) with 256. modlia. Qed.

Lemma get32_le32 x rest : x < 4294967296 -> get32 (le32 x ++ rest) = Some x.
Proof. intros H. unfold le32. cbn [app get32]. now rewrite rd32_le32. Qed.

Lemma get64_le64 x rest : x < 18446744073709551616 -> get64 (le64 x ++ rest) = Some x.
Proof.
  intros H. unfold get64, le64. rewrite <- app_assoc.
  rewrite get32_le32 by apply w32_lt.
  replace (skipn 4 (le32 (w32 x) ++ le32 (N.shiftr x 32) ++ rest)) with (le32 (N.shiftr x 32) ++ rest) by reflexivity.
  rewrite get32_le32.
  - f_equal. rewrite w32_mod, N.shiftr_div_pow2. change (2 ^ 32) with 4294967296. modlia.
  - rewrite N.shiftr_div_pow2. change (2 ^ 32) with 4294967296. modlia.
Qed.

Lemma lenN_le64 x : lenN (le64 x) = 8. Proof. reflexivity. Qed.
Lemma lenN_le16 x : lenN (le16 x) = 2. Proof. reflexivity. Qed.

Lemma lenN_enc_item it : lenN (enc_item it) = item_size it.
Proof.
  unfold enc_item, item_size. rewrite !lenN_app, lenN_le64, !lenN_le32, lenN_le16.
  change hintitem_head_size with 23. cbn [lenN]. lia.
Qed.

Lemma dropN_le_prefix {A} (p : list A) n rest : n = lenN p -> dropN n (p ++ rest) = rest.
Proof. apply dropN_app_exact. Qed.

Lemma parse_item_enc it rest : valid_item it -> parse_item (enc_item it ++ rest) = Some (it, rest).
Proof.
  intros (Hh & Hc & Ho & Hv & Hvh & Hk). unfold parse_item, enc_item.
  repeat rewrite <- app_assoc.
  rewrite get64_le64 by exact Hh.
  rewrite (dropN_le_prefix (le64 (hi_hash it))) by reflexivity.
  rewrite get32_le32 by exact Hc.
  replace (dropN 12 (le64 (hi_hash it) ++ le32 (hi_chunk it) ++ le32 (hi_off it) ++ le32 (of_i32 (hi_ver it)) ++ le16 (hi_vh it) ++ [w8 (lenN (hi_key it))] ++ hi_key it ++ rest))
    with (le32 (hi_off it) ++ le32 (of_i32 (hi_ver it)) ++ le16 (hi_vh it) ++ [w8 (lenN (hi_key it))] ++ hi_key it ++ rest) by reflexivity.
  rewrite get32_le32 by exact Ho.
  replace (dropN 16 (le64 (hi_hash it) ++ le32 (hi_chunk it) ++ le32 (hi_off it) ++ le32 (of_i32 (hi_ver it)) ++ le16 (hi_vh it) ++ [w8 (lenN (hi_key it))] ++ hi_key it ++ rest))
    with (le32 (of_i32 (hi_ver it)) ++ le16 (hi_vh it) ++ [w8 (lenN (hi_key it))] ++ hi_key it ++ rest) by reflexivity.
  rewrite get32_le32 by apply of_i32_lt.
  replace (dropN 20 (le64 (hi_hash it) ++ le32 (hi_chunk it) ++ le32 (hi_off it) ++ le32 (of_i32 (hi_ver it)) ++ le16 (hi_vh it) ++ [w8 (lenN (hi_key it))] ++ hi_key it ++ rest))
    with (le16 (hi_vh it) ++ [w8 (lenN (hi_key it))] ++ hi_key it ++ rest) by reflexivity.
  unfold le16 at 1. cbn [app get16]. rewrite rd16_le16 by exact Hvh.
  rewrite w8_mod, (N.mod_small _ 256) by exact Hk. 
  match goal with |- context [dropN 22 ?l] =>
    replace (dropN 22 l) with (lenN (hi_key it) :: hi_key it ++ rest) by reflexivity end.
  cbv beta iota zeta.
  rewrite takeN_app_len, N.ltb_irrefl, dropN_app_len, i32_roundtrip by exact Hv.
  destruct it; reflexivity.
Qed.

(* total size of the item region *)
Fixpoint items_size (l : list hitem) : N :=
  match l with [] => 0 | it :: t => item_size it + items_size t end.

Lemma write_items_shape items : forall interval off last idx,
  let '(bs, off', ix) := write_items items interval off last idx in
  bs = concat (map enc_item items) /\ off' = off + items_size items.
Proof.
  induction items as [|it t IH]; intros interval off last idx; cbn [write_items map concat items_size].
  - split; [reflexivity|lia].
  - set (due := index_due off last interval).
    specialize (IH interval (off + item_size it) (if due then off else last) (if due then (hi_hash it, off) :: idx else idx)).
    destruct (write_items t interval (off + item_size it) _ _) as [[bs off'] ix].
    destruct IH as [-> ->]. split; [reflexivity|lia].
Qed.

Lemma read_items_enc items : forall fuel loff ioff tail,
  Forall valid_item items -> (length items < fuel)%nat -> ioff = loff + items_size items ->
  read_items fuel ioff (concat (map enc_item items) ++ tail) loff = Some items.
Proof.
  induction items as [|it t IH]; intros fuel loff ioff tail HF Hfuel Hio.
  - destruct fuel; [cbn [length] in Hfuel; lia|]. cbn [read_items map concat app items_size] in *.
    unfold hnext. replace (ioff <=? loff) with true by (symmetry; apply N.leb_le; lia). reflexivity.
  - destruct fuel; [cbn [length] in Hfuel; lia|].
    inversion HF as [|? ? Hit Ht]; subst.
    cbn [read_items map concat items_size]. unfold hnext.
    assert (Hpos : 0 < item_size it) by (unfold item_size; change hintitem_head_size with 23; lia).
    replace (loff + (item_size it + items_size t) <=? loff) with false by (symmetry; apply N.leb_gt; lia).
    rewrite <- app_assoc, parse_item_enc by exact Hit.
    rewrite IH; [reflexivity|exact Ht|cbn [length] in Hfuel; lia|lia].
Qed.

Lemma items_size_bound items : Forall valid_item items -> items_size items <= 278 * lenN items.
Proof.
  induction 1 as [|it t (_ & _ & _ & _ & _ & Hk) _ IH]; cbn [items_size lenN]; [lia|].
  unfold item_size. change hintitem_head_size with 23. lia.
Qed.

Lemma length_ge_items items tail : Forall valid_item items ->
  (length items <= length (concat (map enc_item items) ++ tail))%nat.
Proof.
  induction 1 as [|it t _ _ IH]; cbn [map concat length]; [lia|].
  rewrite <- app_assoc, app_length.
  pose proof (lenN_enc_item it) as E. rewrite lenN_length in E.
  unfold item_size in E. change hintitem_head_size with 23 in E. lia.
Qed.

Theorem hint_roundtrip items interval ds :
  Forall valid_item items -> lenN items < 4294967296 -> ds < 4294967296 ->
  hint_read_all (hint_write items interval ds) = Some (items, ds).
Proof.
  intros HF Hn Hds. unfold hint_write.
  pose proof (write_items_shape items interval hintfile_head_size 0 []) as Hs.
  destruct (write_items items interval hintfile_head_size 0 []) as [[bs ioff] ix].
  destruct Hs as [-> ->]. change hintfile_head_size with 16.
  pose proof (items_size_bound items HF) as Hb.
  unfold hint_read_all, parse_meta.
  set (M := 16 + items_size items) in *.
  set (body := concat (map enc_item items) ++ enc_index ix).
  assert (E8 : dropN 8 (le64 M ++ le32 (w32 (lenN items)) ++ le32 ds ++ body) = le32 (w32 (lenN items)) ++ le32 ds ++ body) by reflexivity.
  assert (E12 : dropN 12 (le64 M ++ le32 (w32 (lenN items)) ++ le32 ds ++ body) = le32 ds ++ body) by reflexivity.
  assert (E16 : dropN 16 (le64 M ++ le32 (w32 (lenN items)) ++ le32 ds ++ body) = body)
    by (change (dropN 0 body = body); destruct body; reflexivity).
  rewrite get64_le64 by (unfold M; lia). rewrite E8, E12.
  rewrite get32_le32 by apply w32_lt. rewrite get32_le32 by exact Hds.
  unfold eff_index_off. cbn [hm_index_off hm_datasize].
  replace (M =? 0) with false by (symmetry; apply N.eqb_neq; unfold M; lia).
  change hintfile_head_size with 16. rewrite E16. unfold body.
  rewrite read_items_enc; [reflexivity|exact HF| |unfold M; reflexivity].
  pose proof (length_ge_items items (enc_index ix) HF) as Hl.
  rewrite !app_length in *. lia.
Qed.
