(* C17: at most one GC pass per bucket, over every schedule of the request protocol. *)
From Coq Require Import List Bool Arith Lia.
From GB Require Import Consts GcReq.
Import ListNotations.

Lemma in_stat_add bk b st : in_stat bk (stat_add b st) = Nat.eqb bk b || in_stat bk st.
Proof.
  unfold stat_add. destruct (in_stat b st) eqn:E; cbn [in_stat existsb]; [|reflexivity].
  destruct (Nat.eqb bk b) eqn:Eb; [|reflexivity]. apply Nat.eqb_eq in Eb. subst. now rewrite E.
Qed.
Lemma in_stat_del bk b st : in_stat bk (stat_del b st) = negb (Nat.eqb b bk) && in_stat bk st.
Proof.
  unfold stat_del, in_stat. induction st as [|x st IH]; cbn [filter existsb]; [now rewrite andb_false_r|].
  destruct (Nat.eqb b x) eqn:E1; cbn [negb existsb].
  - apply Nat.eqb_eq in E1. subst x. rewrite IH. rewrite (Nat.eqb_sym bk b). destruct (Nat.eqb b bk); reflexivity.
  - rewrite IH. destruct (Nat.eqb bk x) eqn:E2; cbn [orb].
    + apply Nat.eqb_eq in E2. subst x. rewrite E1. reflexivity.
    + reflexivity.
Qed.

Lemma count_upd {A} (f : A -> bool) l i x y : nth_error l i = Some y ->
  count f (upd l i x) + (if f y then 1 else 0) = count f l + (if f x then 1 else 0).
Proof.
  unfold count. revert i. induction l as [|z l IH]; intros i H; [destruct i; discriminate|].
  destruct i as [|i]; cbn [nth_error] in H.
  - injection H as ->. cbn [upd filter]. destruct (f y), (f x); cbn [length]; lia.
  - cbn [upd filter]. specialize (IH i H). destruct (f z); cbn [length]; lia.
Qed.

(* invariant of the repaired protocol: a bucket is reserved/running by at most one request, and exactly
   when GCMgr.stat has its key *)
Definition GInv (g : gsys) : Prop :=
  forall bk, count (holds bk) (g_rq g) = if in_stat bk (g_stat g) then 1 else 0.

Lemma ginit_inv bks : GInv (ginit bks).
Proof.
  intros bk. unfold ginit. cbn [g_stat g_rq in_stat existsb]. unfold count.
  induction bks as [|b bks IH]; [reflexivity|]. cbn [map filter holds]. exact IH.
Qed.

Lemma gstep_inv g i : GInv g -> GInv (gstep true g i).
Proof.
  intros HI. unfold gstep. destruct (nth_error (g_rq g) i) as [r|] eqn:En; [|exact HI].
  destruct r as [bk|bk|bk|bk| |]; try exact HI.
  - destruct (in_stat bk (g_stat g)); intros b; cbn [g_stat g_rq].
    + pose proof (count_upd (holds b) _ i RRefused _ En) as H. specialize (HI b). cbn [holds] in H. lia.
    + pose proof (count_upd (holds b) _ i (RChecked bk) _ En) as H. specialize (HI b). cbn [holds] in H. lia.
  - destruct (in_stat bk (g_stat g)) eqn:Es; intros b; cbn [g_stat g_rq].
    + pose proof (count_upd (holds b) _ i RRefused _ En) as H. specialize (HI b). cbn [holds] in H. lia.
    + pose proof (count_upd (holds b) _ i (RReserved bk) _ En) as H. specialize (HI b). cbn [holds] in H.
      rewrite in_stat_add. rewrite (Nat.eqb_sym b bk). destruct (Nat.eqb bk b) eqn:Eb; cbn [orb].
      * apply Nat.eqb_eq in Eb. subst b. rewrite Es in HI. lia.
      * lia.
  - intros b; cbn [g_stat g_rq]. pose proof (count_upd (holds b) _ i (RRunning bk) _ En) as H.
    pose proof (HI b) as Hb. cbn [holds] in H. rewrite in_stat_add. rewrite (Nat.eqb_sym b bk).
    destruct (Nat.eqb bk b) eqn:Eb; cbn [orb]; [|lia].
    apply Nat.eqb_eq in Eb. subst b. destruct (in_stat bk (g_stat g)); [lia|].
    (* the reserved request itself is counted: contradiction with count = 0 *)
    exfalso. assert (1 <= count (holds bk) (g_rq g)).
    { clear -En. unfold count. revert i En. induction (g_rq g) as [|z l IH]; intros i En; [destruct i; discriminate|].
      destruct i; cbn [nth_error] in En.
      - injection En as ->. cbn [filter holds]. rewrite Nat.eqb_refl. cbn [length]. lia.
      - cbn [filter]. specialize (IH i En). destruct (holds bk z); cbn [length]; lia. }
    lia.
  - intros b; cbn [g_stat g_rq]. pose proof (count_upd (holds b) _ i RDone _ En) as H.
    pose proof (HI b) as Hb. cbn [holds] in H. rewrite in_stat_del.
    destruct (Nat.eqb bk b) eqn:Eb; cbn [negb andb]; [|lia].
    apply Nat.eqb_eq in Eb. subst b. destruct (in_stat bk (g_stat g)); lia.
Qed.

Lemma grun_inv sched : forall g, GInv g -> GInv (grun true g sched).
Proof.
  induction sched as [|i t IH]; intros g HI; [exact HI|]. cbn [grun fold_left]. apply IH, gstep_inv, HI.
Qed.

Lemma running_le_holds bk l : count (running_on bk) l <= count (holds bk) l.
Proof.
  unfold count. induction l as [|r l IH]; [reflexivity|]. cbn [filter].
  destruct r; cbn [running_on holds]; try exact IH.
  - destruct (Nat.eqb bk0 bk); cbn [length]; lia.
  - destruct (Nat.eqb bk0 bk); cbn [length]; lia.
Qed.

Theorem one_pass_per_bucket bks sched bk :
  count (running_on bk) (g_rq (grun true (ginit bks) sched)) <= 1.
Proof.
  pose proof (grun_inv sched _ (ginit_inv bks) bk) as H.
  pose proof (running_le_holds bk (g_rq (grun true (ginit bks) sched))) as H2.
  destruct (in_stat _ _); lia.
Qed.

(* without the reservation two requests issued close together both run *)
Lemma two_passes_without_reservation :
  count (running_on 0) (g_rq (grun false (ginit [0; 0]) [0; 1; 0; 1; 0; 1])) = 2.
Proof. vm_compute. reflexivity. Qed.
