(* Restart after GC, part 6: histories mixing client operations, clean restarts (any index files removed) and GC
   passes (any legal range, with or without hint merge) at ANY positions answer exactly as the reference map. *)
From Coq Require Import NArith ZArith List Bool Lia ZifyN ZifyNat ZifyBool String Sorting.Sorted FMapPositive.
From GB Require Import Consts Words Hash HintFile HTree Compress Bucket BucketOpen Gc CheckL2 RefMap
     BucketBasics Refine GcTouch LogMono CollideProofs Upd Restart1 Restart2 Restart3 Restart4 Restart5
     GcSplit GcSplitProofs GcView GcMerge GcX1 GcX2 GcX3 GcX4 GcX5.
Import ListNotations.
Open Scope N_scope.

(* ---- the collision file is not written by a pass without merge ---- *)
Lemma hints_set_ctfile cf b h key ver vh p rs gc : b_ctfile (hints_set cf b h key ver vh p rs gc) = b_ctfile b.
Proof.
  unfold hints_set. match goal with |- b_ctfile (hints_set_item cf ?x ?it ?c ?r) = _ => pose proof (hints_set_item_aux cf x it c r) as Ha end.
  unfold aux in Ha. injection Ha as Ha _ _ _. rewrite Ha. destruct (ct_has_hash (b_ctab b) h); reflexivity.
Qed.

Lemma trydump_ctfile b c d : b_ctfile (trydump b c d) = b_ctfile b.
Proof. pose proof (trydump_aux b c d) as Ha. unfold aux in Ha. now injection Ha. Qed.

Lemma gc_record_ctfile cf hf begin_ src st e : b_ctfile (gc_b (gc_record cf hf begin_ src st e)) = b_ctfile (gc_b st).
Proof.
  destruct e as [off r]. pose proof (gc_record_form cf hf begin_ src st off r) as Hf. cbv zeta in Hf.
  destruct Hf as [[E _]|(b1 & dst & vh & b3 & Hb1 & Hb3 & Hgc & _)]; [now rewrite E|].
  rewrite Hgc, hints_set_ctfile. cbv zeta in Hb3.
  assert (E3 : b_ctfile b3 = b_ctfile b1) by (destruct Hb3 as [->|[s ->]]; reflexivity). rewrite E3.
  destruct Hb1 as [(-> & _)|(-> & _)]; [reflexivity|]. rewrite begin_gc_eq, end_gc_eq. change (b_ctfile (set_chunk ?x ?c ?k)) with (b_ctfile x).
  rewrite trydump_ctfile. reflexivity.
Qed.

Lemma gc_file_ctfile cf hf begin_ st src : b_ctfile (gc_b (gc_file cf hf begin_ st src)) = b_ctfile (gc_b st).
Proof.
  unfold gc_file. destruct (k_size _ =? 0); [reflexivity|].
  set (st1 := mkGC (clear_hint_chunk (gc_b st) src) (gc_dst st) (gc_stat st)).
  assert (H : forall recs s, b_ctfile (gc_b (fold_left (gc_record cf hf begin_ src) recs s)) = b_ctfile (gc_b s)).
  { induction recs as [|e recs IH]; intros s; cbn [fold_left]; [reflexivity|]. rewrite IH. apply gc_record_ctfile. }
  change gc_truncates_after_inplace with false. cbn [andb gc_b].
  set (st2 := fold_left (gc_record cf hf begin_ src) (k_disk (chunk_at (gc_b st) src)) st1).
  assert (E2 : b_ctfile (gc_b st2) = b_ctfile (gc_b st)) by (unfold st2; rewrite H; reflexivity).
  destruct (Nat.eqb src (gc_dst st2)); destruct (Nat.leb _ _); cbn [set_nextgc clear_chunk b_ctfile]; exact E2.
Qed.

Lemma gc_pass_ctfile cf hf b x y : b_ctfile (fst (gc_pass cf hf b x y false)) = b_ctfile b.
Proof.
  unfold gc_pass. cbn [fst]. rewrite end_gc_eq, trydump_ctfile. change (b_ctfile (set_chunk ?x ?c ?k)) with (b_ctfile x).
  assert (H : forall l s, b_ctfile (gc_b (fold_left (gc_file cf hf x) l s)) = b_ctfile (gc_b s)).
  { induction l as [|c l IH]; intros s; cbn [fold_left]; [reflexivity|]. rewrite IH. apply gc_file_ctfile. }
  rewrite H. cbn [gc_b]. rewrite begin_gc_eq. reflexivity.
Qed.

(* ---- close keeps records, head file and tree ---- *)
Definition same_data (b b' : bucket) : Prop :=
  (forall c, recs_at b' c = recs_at b c) /\ b_head b' = b_head b /\ (forall h, tree_get_slot b' h = tree_get_slot b h).

Lemma flush_head_same b : same_data b (flush_head b).
Proof.
  split; [|split].
  - intros c. unfold recs_at, flush_head. destruct (wbuf_total b =? 0); [reflexivity|]. destruct (k_wbuf (chunk_at b (b_head b))) eqn:Ew.
    + destruct (Nat.eq_dec (b_head b) c) as [<-|Hne]; [rewrite chunk_at_set_same; unfold all_recs; cbn [k_disk k_wbuf]; now rewrite Ew|now rewrite chunk_at_set_other].
    + rewrite flush_chunk_eq, Ew. destruct (Nat.eq_dec (b_head b) c) as [<-|Hne]; [rewrite chunk_at_set_same; apply chunk_flush_recs|now rewrite chunk_at_set_other].
  - unfold flush_head. destruct (wbuf_total b =? 0); [reflexivity|]. destruct (k_wbuf _); [reflexivity|]. rewrite flush_chunk_eq. destruct (k_wbuf _); reflexivity.
  - intros h. unfold flush_head. destruct (wbuf_total b =? 0); [reflexivity|]. destruct (k_wbuf _); [reflexivity|]. rewrite flush_chunk_eq. destruct (k_wbuf _); reflexivity.
Qed.

Lemma close_hints_core n : forall b i, core (close_hints b n i) = core b.
Proof. induction n as [|n IH]; intros b i; cbn [close_hints]; [reflexivity|]. rewrite IH. apply trydump_core. Qed.

Lemma core_same_data b b' : core b' = core b -> same_data b b'.
Proof.
  intros H. split; [intros c; unfold recs_at; now rewrite (core_chunk_at _ _ c H)|]. split; [apply (core_head _ _ H)|intros h; apply (core_tree _ _ h H)].
Qed.

Lemma same_data_trans a b c : same_data a b -> same_data b c -> same_data a c.
Proof. intros (A1 & A2 & A3) (B1 & B2 & B3). split; [intros x; now rewrite B1|]. split; [congruence|intros h; now rewrite B3]. Qed.

Lemma close_same b : same_data b (bkt_close b).
Proof.
  unfold bkt_close. destruct (negb (any_data (flush_head b))); [apply flush_head_same|].
  apply (same_data_trans _ (flush_head b)); [apply flush_head_same|]. apply core_same_data.
  unfold dump_htree. match goal with |- core (if ?c then _ else _) = _ => destruct c end; [change (core (set_treefiles ?x ?y ?z)) with (core x)|]; rewrite close_hints_core; reflexivity.
Qed.

Section Hist.
Variable lc : l2cfg.
Variable K : list bytes.
Let cf := l_cfg lc.
Let hf := forced_hash (l_forced lc).
Hypothesis hf_inj : forall k1 k2, In k1 K -> In k2 K -> hf k1 = hf k2 -> k1 = k2.
Hypothesis cap_pos : 0 < c_splitcap cf.
Hypothesis no_checkvhash : c_checkvhash cf = false.

(* ---- client operations keep NL and NZ ---- *)
Lemma cstep_nlz b m o so b' :
  RInv2 hf K b m -> NLZ hf b -> sop_of o = Some so -> op_ok K m so -> fst (l2_step lc b o) = Some b' -> NLZ hf b'.
Proof.
  intros (HR & HX & HC) HN Hso Hok Hb'. pose proof HR as [(Hlay & Hct & _) _].
  destruct o; cbn [sop_of] in Hso; try discriminate; injection Hso as <-; cbn [op_ok] in Hok; unfold l2_step in Hb'; fold cf hf in Hb'.
  - pose proof (check_and_set_nlz cf hf K hf_inj cap_pos no_checkvhash vhash_shortcut_sets_only b (unhex k) (unhex v) flag rev ts z Hlay Hct HX HN) as H1.
    unfold check_and_set in Hb'. destruct (check_and_set_gen _ _ _ _ _ _ _ _ _ _) as [bb r]. cbn [fst] in *. now injection Hb' as <-.
  - pose proof (check_and_set_nlz cf hf K hf_inj cap_pos no_checkvhash vhash_shortcut_sets_only b (unhex k) [] 0 (-1)%Z ts_now (mkZ false 0 0) Hlay Hct HX HN) as H1.
    unfold check_and_set in Hb'. destruct (check_and_set_gen _ _ _ _ _ _ _ _ _ _) as [bb r]. cbn [fst] in *. now injection Hb' as <-.
  - pose proof (bkt_incr_nlz cf hf K hf_inj cap_pos no_checkvhash b m (unhex k) d ts_now HR HX HN Hok) as H1.
    destruct (bkt_incr _ _ _ _ _ _) as [bb n]. cbn [fst] in *. now injection Hb' as <-.
  - destruct (bkt_get_spec hf K hf_inj b m (unhex k) HR Hok) as [Hb _].
    destruct (bkt_get _ _ _) as [bb g]. cbn [fst] in *. injection Hb' as <-. now subst bb.
  - destruct (bkt_get_spec hf K hf_inj b m (unhex k) HR Hok) as [Hb _].
    destruct (bkt_get _ _ _) as [bb g]. cbn [fst] in *. injection Hb' as <-. now subst bb.
  - cbn [fst] in Hb'. injection Hb' as <-. apply (nlz_same hf b); [| | |exact HN].
    + intros c. unfold recs_at, flush_head. destruct (wbuf_total b =? 0); [reflexivity|]. destruct (k_wbuf (chunk_at b (b_head b))) eqn:Ew.
      * destruct (Nat.eq_dec (b_head b) c) as [<-|Hne]; [rewrite chunk_at_set_same; unfold all_recs; cbn [k_disk k_wbuf]; now rewrite Ew|now rewrite chunk_at_set_other].
      * rewrite flush_chunk_eq, Ew. destruct (Nat.eq_dec (b_head b) c) as [<-|Hne]; [rewrite chunk_at_set_same; apply chunk_flush_recs|now rewrite chunk_at_set_other].
    + unfold flush_head. destruct (wbuf_total b =? 0); [reflexivity|]. destruct (k_wbuf _); [reflexivity|]. rewrite flush_chunk_eq. destruct (k_wbuf _); reflexivity.
    + intros h. unfold flush_head. destruct (wbuf_total b =? 0); [reflexivity|]. destruct (k_wbuf _); [reflexivity|]. rewrite flush_chunk_eq. destruct (k_wbuf _); reflexivity.
  - cbn [fst] in Hb'. apply some_inj in Hb'. rewrite <- Hb'. pose proof (trydump_all_core b (seq 0 NCH)) as Hcore.
    apply (nlz_same hf b); [intros c; unfold recs_at; now rewrite (core_chunk_at _ _ c Hcore)|apply (core_head _ _ Hcore)|intros h; apply (core_tree _ _ h Hcore)|exact HN].
  - cbn [fst] in Hb'. now injection Hb' as <-.
Qed.

(* ---- a restart keeps NL and NZ: it neither moves records nor creates slots of negative version ---- *)
Lemma restart_nlz b m rm b' : RInv2 hf K b m -> NLZ hf b -> restart cf hf b rm = Opened b' -> NLZ hf b'.
Proof.
  intros (HR & HX & HC) HN Hr. unfold restart in Hr.
  destruct (close_x cf hf K cap_pos b m HR HX HC) as (HRc & HXc & HCc & Hcl & Htf). cbv zeta in HRc, HXc, HCc, Hcl, Htf.
  destruct (close_same b) as (C1 & C2 & C3). set (bc := bkt_close b) in *.
  assert (HNc : NLZ hf bc) by (apply (nlz_same hf b); assumption).
  destruct (open_main cf hf K hf_inj cap_pos bc m rm HRc HXc HCc Hcl (or_intror Htf)) as (_ & _ & _ & _ & O5 & _ & O7). cbv zeta in O5, O7.
  rewrite bkt_open_eq in Hr. destruct (existsb _ _); [discriminate|]. injection Hr as <-.
  destruct HNc as [HNL HNZ]. pose proof HRc as [((_ & Habove) & _) _]. split.
  - intros h s Hs Hneg c e (Hc & Hin & Hh). rewrite O5 in Hin.
    destruct (O7 h s Hs) as [Hold|(c1 & e1 & _ & _ & Hv & ->)]; [|cbn [s_ver] in Hneg; lia].
    apply (HNL h s Hold Hneg c e). split; [|split; assumption].
    destruct (Nat.lt_ge_cases (b_head bc) c) as [Hgt|]; [|lia]. unfold recs_at in Hin. rewrite Habove in Hin by exact Hgt. destruct Hin.
  - intros c e Hin. rewrite O5 in Hin. now apply (HNZ c e).
Qed.

(* ---- hint merge before a pass keeps the restart invariant ---- *)
Lemma force_rotate_x b : XInv hf K b -> XInv hf K (force_rotate b).
Proof.
  intros (H1 & H2 & H3 & H4 & H5 & H6).
  assert (Hs : forall c, sps_at (force_rotate b) c = if Nat.eqb (b_hmax b) c then sps_at b (b_hmax b) ++ [split0] else sps_at b c).
  { intros c. unfold force_rotate, sps_at. rewrite (hchunk_at_updd b _ (b_hmax b) c _ _ _ eq_refl). destruct (Nat.eqb (b_hmax b) c); reflexivity. }
  split; [exact H1|]. split; [exact H2|]. split; [exact H3|]. split; [|split; [exact H5|exact H6]].
  intros c. change (chunk_at (force_rotate b) c) with (chunk_at b c). rewrite Hs. destruct (Nat.eqb_spec (b_hmax b) c) as [<-|Hne]; [|apply H4].
  destruct (H4 (b_hmax b)) as (Hne0 & Hc0 & Hb0 & Hall0). unfold hcov_at.
  assert (Eb : bound_from 0 (sps_at b (b_hmax b) ++ [split0]) = bound_from 0 (sps_at b (b_hmax b))) by (rewrite bound_from_app; cbn; lia).
  rewrite Eb. split; [destruct (sps_at b (b_hmax b)); discriminate|]. split; [apply cov_app; split; [exact Hc0|apply cov_split0]|]. split; assumption.
Qed.

Lemma trydump_all_md l : forall b, hid_le (b_maxdumped b) (b_maxdumped (fold_left (fun bb i => trydump bb i false) l b)).
Proof.
  induction l as [|i l IH]; intros b; cbn [fold_left]; [apply hid_le_refl|]. eapply hid_le_trans; [apply (proj1 (trydump_md b i false))|apply IH].
Qed.

Lemma merge_finish bb id : XInv hf K bb -> MDok bb ->
  let bf := set_treefiles (set_merge_state bb [] id) [] (O, 0%Z) in XInv hf K bf /\ CtOK bf /\ MDok bf.
Proof.
  intros (Y1 & Y2 & Y3 & Y4 & Y5 & Y6) HM. cbv zeta. split; [|split; [reflexivity|exact HM]].
  split; [exact Y1|]. split; [exact Y2|]. split; [exact Y3|]. split; [exact Y4|]. split; [exact Y5|exact HM].
Qed.

Lemma before_merge_x b m : RInv2 hf K b m -> MDok b -> IOK hf K b ->
  let bm := before_bucket cf b true in XInv hf K bm /\ CtOK bm /\ MDok bm.
Proof.
  intros (HR & HX & HC) HM Hi. cbv zeta. pose proof HR as [(_ & Hct & _) _]. unfold before_bucket.
  set (b' := fold_left (fun bb i => trydump bb i false) (seq 0 NCH) (force_rotate b)).
  assert (HX' : XInv hf K b') by (unfold b'; apply trydump_all_x; now apply force_rotate_x).
  assert (Hcore' : core b' = core b) by (unfold b'; rewrite trydump_all_core; reflexivity).
  assert (Hi' : IOK hf K b') by (unfold b'; apply iok_trydump_all; now apply iok_force_rotate).
  assert (Hct' : b_ctab b' = []) by (rewrite (core_ctab _ _ Hcore'); exact Hct).
  assert (HM' : MDok b') by (unfold MDok, b'; eapply hid_le_trans; [exact HM|]; apply (trydump_all_md (seq 0 NCH) (force_rotate b))).
  pose proof (hint_merge_no_collision hf K hf_inj (all_hint_files b') (b_ctab b') (all_hint_files_ok hf K b' Hi')) as Hm.
  destruct (hint_merge (all_hint_files b') (b_ctab b')) as [[items ds] ct]. cbn [snd] in Hm. subst ct. rewrite Hct'.
  apply (merge_finish b' (max_hint_id b') HX' HM').
Qed.

(* ---- one GC pass inside a history ---- *)
Definition gc_ready (b : bucket) (x y : nat) : Prop := (x <= y < b_head b)%nat /\ FMok cf b /\ MDok b.

Lemma gc_step_ri b m x y mg : RInv2 hf K b m -> NLZ hf b -> gc_ready b x y ->
  let b' := fst (gc_pass cf hf b x y mg) in RInv2 hf K b' m /\ NLZ hf b'.
Proof.
  intros HI HN (Hr & HF & HM). cbv zeta.
  assert (Hno : forall bb, RInv2 hf K bb m -> NLZ hf bb -> (x <= y < b_head bb)%nat -> FMok cf bb -> MDok bb ->
            RInv2 hf K (fst (gc_pass cf hf bb x y false)) m /\ NLZ hf (fst (gc_pass cf hf bb x y false))).
  { intros bb (HR & HX & HC) HNb Hrb HFb HMb.
    destruct (gc_pass_xinv cf hf K hf_inj cap_pos bb m x y HR HX HFb HNb HMb Hrb) as (R1 & R2 & _ & R4 & _ & _). cbv zeta in R1, R2, R4.
    split; [|exact R4]. split; [exact R1|]. split; [exact R2|]. unfold CtOK. rewrite gc_pass_ctfile. exact HC. }
  destruct mg; [|now apply Hno].
  rewrite (gc_pass_merge_eq cf hf b x y). destruct HI as (HR & HX & HC).
  pose proof (xinv_gpre cf hf K b HX HF) as HP.
  destruct (merge_start cf hf K hf_inj b m HR HP) as (HRm & HPm & Hh & Hch & Htr). cbv zeta in HRm, HPm, Hh, Hch, Htr.
  destruct (before_merge_x b m (conj HR (conj HX HC)) HM (proj2 (proj2 HP))) as (HXm & HCm & HMm). cbv zeta in HXm, HCm, HMm.
  apply Hno.
  - split; [exact HRm|split; assumption].
  - apply (nlz_same hf b); [intros c; unfold recs_at; now rewrite Hch|exact Hh|exact Htr|exact HN].
  - lia.
  - intros c e Hc He. rewrite Hh in Hc. rewrite Hch in He. now apply (HF c e).
  - exact HMm.
Qed.

(* ---- whole histories ---- *)
Fixpoint spec_ok3 (m : smap) (ops : list l2op) (outs : list pout) : Prop :=
  match ops, outs with
  | [], [] => True
  | ORestart _ :: t, o :: outs' => o = POk /\ exists m', view K m m' /\ spec_ok3 m' t outs'
  | OGc _ _ _ :: t, o :: outs' => o = POk /\ spec_ok3 m t outs'
  | op :: t, o :: outs' =>
      exists so, sop_of op = Some so /\ o = snd (spec_step (c_checkvhash cf) m so) /\
                 spec_ok3 (fst (spec_step (c_checkvhash cf) m so)) t outs'
  | _, _ => False
  end.

Definition op_valid3 (o : l2op) : Prop :=
  match o with
  | ORestart _ | OGc _ _ _ => True
  | _ => exists so, sop_of o = Some so /\ op_ok K [] so
  end.

(* every GC request meets a state in which its range lies below the head file, no record extends past DataFileMax and
   some hint file has been written since the store was created *)
Fixpoint ready (b : bucket) (ops : list l2op) : Prop :=
  match ops with
  | [] => True
  | o :: t => match o with OGc x y _ => gc_ready b x y | _ => True end /\
              match fst (l2_step lc b o) with Some b' => ready b' t | None => True end
  end.

Theorem full_history ops : forall b m,
  RInv2 hf K b m -> NLZ hf b -> Forall op_valid3 ops -> ready b ops -> spec_ok3 m ops (model_run lc b ops).
Proof.
  induction ops as [|o t IH]; intros b m HI HN Hv Hrd; [exact I|].
  inversion Hv as [|? ? Ho Ht]; subst. cbn [ready] in Hrd. destruct Hrd as [Hrd0 Hrd]. cbn [model_run].
  destruct o as [k v flag rev ts z|k|k d|k|k|k| | |rmx|gs ge days|gx gy mg|]; try (
    destruct Ho as (so & Hso & Hok);
    destruct (cstep_rinv2 lc K hf_inj cap_pos no_checkvhash b m _ so HI Hso (op_ok_any K [] m so Hok)) as (b' & Hb' & Hout & HI');
    pose proof (cstep_nlz b m _ so b' HI HN Hso (op_ok_any K [] m so Hok) Hb') as HN';
    rewrite Hb' in Hrd;
    destruct (l2_step lc b _) as [ob x]; cbn [fst snd] in Hb', Hout; subst ob;
    cbn [spec_ok3]; exists so; split; [exact Hso|]; split; [exact Hout|]; now apply IH);
    try (destruct Ho as (so & Hso & _); discriminate).
  - (* restart *)
    destruct (restart_x cf hf K hf_inj cap_pos b m rmx HI) as (b' & m' & Hr & HI' & Hview).
    pose proof (restart_nlz b m rmx b' HI HN Hr) as HN'.
    unfold l2_step in Hrd |- *. fold cf hf in Hrd |- *. rewrite Hr in Hrd |- *. cbn [fst] in Hrd. cbn [spec_ok3 proj proj_out]. split; [reflexivity|].
    exists m'. split; [exact Hview|]. now apply IH.
  - (* GC *)
    destruct (gc_step_ri b m gx gy mg HI HN Hrd0) as [HI' HN']. cbv zeta in HI', HN'.
    unfold l2_step in Hrd |- *. fold cf hf in Hrd |- *. destruct (gc_pass cf hf b gx gy mg) as [b' gst]. cbn [fst] in *.
    cbn [spec_ok3 proj proj_out]. split; [reflexivity|]. now apply IH.
Qed.

Lemma nlz_init : NLZ hf bucket0.
Proof.
  assert (Hc0 : forall c, chunk_at bucket0 c = chunk0) by (intros c; unfold chunk_at, bucket0; cbn [b_chunks]; apply nth_repeat).
  split.
  - intros h s Hs. unfold tree_get_slot, bucket0 in Hs. cbn [b_tree] in Hs. rewrite PM.gempty in Hs. discriminate.
  - intros c e Hin. unfold recs_at in Hin. rewrite Hc0 in Hin. destruct Hin.
Qed.

(* a computable version of [ready], for concrete histories *)
Definition fmok_b (b : bucket) : bool :=
  forallb (fun c => forallb (fun e => fst e + dsize (snd e) <=? c_filemax cf) (k_disk (chunk_at b c))) (seq 0 (b_head b)).
Definition mdok_b (b : bucket) : bool := Nat.ltb 0 (fst (b_maxdumped b)) || (Nat.eqb 0 (fst (b_maxdumped b)) && (0 <=? snd (b_maxdumped b))%Z).
Fixpoint ready_b (b : bucket) (ops : list l2op) : bool :=
  match ops with
  | [] => true
  | o :: t => match o with OGc x y _ => Nat.leb x y && Nat.ltb y (b_head b) && fmok_b b && mdok_b b | _ => true end &&
              match fst (l2_step lc b o) with Some b' => ready_b b' t | None => true end
  end.

Lemma ready_b_ok ops : forall b, ready_b b ops = true -> ready b ops.
Proof.
  induction ops as [|o t IH]; intros b H; [exact I|]. cbn [ready_b ready] in *. apply andb_prop in H as [H1 H2]. split.
  - destruct o; try exact I. apply andb_prop in H1 as [H1 Hm]. apply andb_prop in H1 as [H1 Hf]. apply andb_prop in H1 as [Hxy Hyh].
    apply Nat.leb_le in Hxy. apply Nat.ltb_lt in Hyh. split; [lia|]. split.
    + intros c x Hc Hin. unfold fmok_b in Hf. rewrite forallb_forall in Hf. specialize (Hf c ltac:(apply in_seq; lia)). rewrite forallb_forall in Hf.
      specialize (Hf x Hin). unfold rend. lia.
    + unfold MDok, hid_le, mdok_b in *. cbn [fst snd]. apply orb_prop in Hm as [Hm|Hm]; [left; now apply Nat.ltb_lt|].
      apply andb_prop in Hm as [Hm1 Hm2]. apply Nat.eqb_eq in Hm1. right. split; [exact Hm1|lia].
  - destruct (fst (l2_step lc b o)); [now apply IH|exact I].
Qed.
End Hist.
