(* Restart after GC, part 3: what a finished pass leaves, in the terms the restart invariant needs -- the index
   entries with their records, where slots point, kept tombstones, provenance of records; then the update log of
   the result read positionally: the tree view (tv), NL and NZ hold again. *)
From Coq Require Import NArith ZArith List Bool Lia ZifyN ZifyNat ZifyBool Sorting.Sorted FMapPositive.
From GB Require Import Consts Words Hash HintFile HTree Compress Bucket BucketOpen Gc CheckL2 RefMap
     BucketBasics Refine GcTouch LogMono CollideProofs Upd Restart1 Restart2 Restart3 GcSplit GcSplitProofs GcView GcX1 GcX2.
Import ListNotations.
Open Scope N_scope.

Section F.
Variable cf : cfg.
Variable hf : bytes -> N.
Variable K : list bytes.
Hypothesis hf_inj : forall k1 k2, In k1 K -> In k2 K -> hf k1 = hf k2 -> k1 = k2.
Hypothesis cap_pos : 0 < c_splitcap cf.

Definition gc_end_state (b : bucket) (begin_ end_ : nat) : gcst :=
  let dst0 := pick_dst cf (before_bucket cf b false) begin_ begin_ in
  fold_left (gc_file cf hf begin_) (seq begin_ (S end_ - begin_)) (mkGC (begin_gc_writing (before_bucket cf b false) dst0 begin_) dst0 gc0).

Theorem gc_pass_xfacts b m begin_ end_ :
  Rel hf K b m -> GPre cf hf K b -> (begin_ <= end_ < b_head b)%nat ->
  let b' := fst (gc_pass cf hf b begin_ end_ false) in
  let dst0 := pick_dst cf (before_bucket cf b false) begin_ begin_ in
  let W0 := if Nat.eqb dst0 begin_ then 0 else k_size (chunk_at b dst0) in
  let D := gc_dst (gc_end_state b begin_ end_) in
  (forall k, In k K -> absr hf b' k = absr hf b k) /\
  (forall h, tree_get_slot b' h = None <-> tree_get_slot b h = None) /\
  (forall h s, tree_get_slot b' h = Some s -> exists s0, tree_get_slot b h = Some s0 /\
     (s_pos s = s_pos s0 \/ (inreg dst0 W0 D (s_pos s) /\ (begin_ <= p_chunk (s_pos s0) <= end_)%nat))) /\
  ((0 < begin_)%nat -> forall c e, (begin_ <= c <= end_)%nat -> In e (k_disk (chunk_at b c)) ->
     tree_get_slot b (hf (d_key (snd e))) = None -> (d_ver (snd e) < 0)%Z ->
     exists c' e', In e' (k_disk (chunk_at b' c')) /\ (dst0 <= c' <= D)%nat /\ (c' = dst0 -> W0 <= fst e') /\ hf (d_key (snd e')) = hf (d_key (snd e))) /\
  (forall c e, (c < b_head b)%nat -> In e (k_disk (chunk_at b' c)) ->
     exists c0 e0, (c0 < b_head b)%nat /\ In e0 (k_disk (chunk_at b c0)) /\ snd e0 = snd e).
Proof.
  intros HR HP Hrange. cbv zeta.
  destruct (gc_pass_start_ga cf hf K cap_pos b m begin_ end_ HR HP Hrange) as (HA0 & Hs0 & Hd1 & Hdisk0 & Htree0 & HW0 & Hoth0). cbv zeta in HA0, Hs0, Hd1, Hdisk0, Htree0, HW0, Hoth0.
  set (dst0 := pick_dst cf (before_bucket cf b false) begin_ begin_) in *.
  set (W0 := if Nat.eqb dst0 begin_ then 0 else k_size (chunk_at b dst0)) in *.
  set (st0 := mkGC (begin_gc_writing (before_bucket cf b false) dst0 begin_) dst0 gc0) in *.
  assert (Hb0 : forall c, (c < b_head b)%nat -> gchunk (chunk_at b c)) by (intros c Hc; apply (proj1 HP c Hc)).
  assert (Hsp : forall c, (c < b_head b)%nat -> spaced (k_disk (chunk_at b c))) by (intros c Hc; apply (proj1 HP c Hc)).
  assert (HQ0 : QB hf b begin_ end_ dst0 W0 st0 begin_ (k_disk (chunk_at (gc_b st0) begin_))).
  { split; [|split; [|split]].
    - split; [intros h; now rewrite Htree0|]. intros h s Hs. rewrite Htree0 in Hs. exists s. split; [exact Hs|now left].
    - intros _ c e Hc Hin Hnot. exfalso. assert (c = begin_) by lia. subst c. apply Hnot; [reflexivity|]. now rewrite Hdisk0.
    - intros c e Hc Hin. rewrite Hdisk0 in Hin. exists c, e. auto.
    - intros e He. now rewrite Hdisk0 in He. }
  destruct (ga_files cf hf K hf_inj cap_pos b begin_ dst0 W0 (end_ - begin_) begin_ st0 HA0 ltac:(lia) Hsp Hs0) as [HAe Hlast]. cbv zeta in HAe, Hlast.
  pose proof (qb_files cf hf K hf_inj cap_pos b begin_ end_ dst0 W0 Hb0 (end_ - begin_) begin_ st0 HA0 HQ0 ltac:(lia) ltac:(lia) ltac:(lia) Hsp Hs0) as HQe.
  replace (S (end_ - begin_)) with (S end_ - begin_)%nat in HAe, Hlast, HQe by lia. replace (begin_ + (end_ - begin_))%nat with end_ in HAe, Hlast, HQe by lia.
  unfold gc_end_state. fold dst0 st0. set (st := fold_left (gc_file cf hf begin_) (seq begin_ (S end_ - begin_)) st0) in *.
  unfold gc_pass. cbn [fst]. fold dst0 st0 st.
  destruct HAe as (HGe & HXe & _). destruct HGe as (G1 & G2 & G3 & G4 & G5 & G6 & G7 & G8 & G9 & G10 & G11 & G12 & G13 & G14 & G15 & G16). cbv zeta in *.
  destruct HXe as [X1 X2]. cbv zeta in X1, X2.
  set (be := gc_b st) in *. set (D := gc_dst st) in *.
  assert (HDlt : (D < b_head b)%nat) by lia.
  destruct (end_gc_chunk_facts (chunk_at be D) (G4 D HDlt) G7 G8) as (E1 & _ & E3 & E4 & E5 & E6). cbv zeta in E1, E3, E4, E5, E6.
  rewrite end_gc_eq. set (b3 := set_chunk be D (end_gc_chunk (chunk_at be D))).
  pose proof (trydump_core b3 D true) as Hcore.
  assert (Hch : forall c, chunk_at (trydump b3 D true) c = if Nat.eqb c D then end_gc_chunk (chunk_at be D) else chunk_at be c).
  { intros c. rewrite (core_chunk_at _ _ c Hcore). unfold b3. destruct (Nat.eqb_spec c D) as [->|Hne]; [apply chunk_at_set_same|apply chunk_at_set_other; congruence]. }
  assert (Htr : forall h, tree_get_slot (trydump b3 D true) h = tree_get_slot be h) by (intros h; rewrite (core_tree _ _ h Hcore); reflexivity).
  assert (Hlog3 : forall p r0, log_find be p = Some r0 -> (p_chunk p = D -> p_off p + dsize r0 <= k_whead (chunk_at be D)) -> log_find (trydump b3 D true) p = Some r0).
  { intros p r0 Hl Hp. rewrite (log_find_core _ _ p Hcore). unfold log_find in *. unfold b3. destruct (Nat.eq_dec D (p_chunk p)) as [E|Hne]; [|now rewrite chunk_at_set_other].
    rewrite <- E, chunk_at_set_same. unfold all_recs in *. rewrite (proj1 E1), app_nil_r. rewrite <- E in Hl. rewrite (proj1 (G4 D HDlt)), app_nil_r in Hl.
    destruct E1 as (_ & _ & End & _). apply find_off_in_nodup; [exact End|]. apply E3; [now apply find_off_some_in|apply Hp; now symmetry]. }
  destruct HQe as ([M1 M2] & HT & HSub & _).
  split; [|split; [|split; [|split]]].
  - intros k Hk. rewrite <- (G16 k Hk). unfold absr. rewrite Htr. destruct (tree_get_slot be (hf k)) as [s|] eqn:Es; [|reflexivity].
    destruct (G15 _ s Es) as (r0 & L & _ & _ & _ & _ & _ & P). rewrite L. rewrite (Hlog3 _ r0 L); [reflexivity|].
    intros E. destruct P as [[P _]|[[_ P]|[_ []]]]; [congruence|exact P].
  - intros h. rewrite Htr. apply M1.
  - intros h s Hs. rewrite Htr in Hs. apply (M2 h s Hs).
  - intros Hb c e Hc Hin Hnone Hver. destruct (HT Hb c e Hc Hin ltac:(intros _ []) Hnone Hver) as (c' & e' & [Hin' (Hr1 & Hr2 & Hr3)] & Hh).
    exists c', e'. split; [|split; [exact Hr1|split; [exact Hr2|exact Hh]]]. rewrite Hch. fold be D in Hin', Hr3.
    destruct (Nat.eqb_spec c' D) as [Ec|Hne]; [|exact Hin']. destruct e' as [o r0]. apply E3; [now rewrite <- Ec|]. specialize (Hr3 Ec). exact Hr3.
  - intros c e Hc Hin. rewrite Hch in Hin. apply (HSub c e Hc). destruct (Nat.eqb_spec c D) as [Ec|Hne]; [rewrite Ec; now apply E4|exact Hin].
Qed.
End F.

(* ---- before the pass: the record a slot points at is the last of its hash ---- *)
Section T0.
Variable hf : bytes -> N.
Variable K : list bytes.
Variable b : bucket.
Variable m : smap.
Let H0 := b_head b.
Hypothesis HR : Rel hf K b m.
Hypothesis Hsp : forall c, spaced (recs_at b c).
Hypothesis Htv : forall h, tv b (upds_upto hf b (S H0)) h.
Hypothesis HNL : NL hf b.

Lemma recs_above_head c : (H0 < c)%nat -> recs_at b c = [].
Proof. intros Hc. destruct HR as [((_ & Hab) & _) _]. unfold recs_at. now rewrite Hab. Qed.

Lemma log_find_in bb p r : log_find bb p = Some r -> In (p_off p, r) (recs_at bb (p_chunk p)).
Proof. unfold log_find, recs_at. apply find_off_some_in. Qed.

Lemma in_log_find bb c e : spaced (recs_at bb c) -> In e (recs_at bb c) -> log_find bb (mkPos c (fst e)) = Some (snd e).
Proof.
  intros Hs Hin. unfold log_find. cbn [p_chunk p_off]. apply find_off_in_nodup; [apply sorted_nodup_fst, spaced_lt, Hs|]. now destruct e.
Qed.

(* the record a slot of b points at is the position-maximal record of its hash in b *)
Lemma slot_max_before h s0 r : tree_get_slot b h = Some s0 -> log_find b (s_pos s0) = Some r -> hf (d_key r) = h ->
  is_max hf b (S H0) h (p_chunk (s_pos s0)) (p_off (s_pos s0), r) /\
  ((0 < s_ver s0)%Z -> s_ver s0 = d_ver r /\ s_vh s0 = vhash (d_val r) /\ (0 < d_ver r)%Z) /\
  ((s_ver s0 < 0)%Z -> ~ (0 < d_ver r)%Z).
Proof.
  intros Hs L Hh. pose proof (log_find_in b _ r L) as Hin.
  assert (Hc : (p_chunk (s_pos s0) < S H0)%nat).
  { destruct (Nat.lt_ge_cases H0 (p_chunk (s_pos s0))) as [Hgt|]; [|lia]. rewrite (recs_above_head _ Hgt) in Hin. destruct Hin. }
  assert (Hrec : hrec hf b (S H0) h (p_chunk (s_pos s0)) (p_off (s_pos s0), r)) by (split; [exact Hc|split; [exact Hin|exact Hh]]).
  pose proof (Htv h) as Ht. unfold tv in Ht. rewrite Hs in Ht.
  pose proof (last_upd_upto hf b (S H0) h Hsp) as Hb.
  destruct HR as [(_ & _ & Hslots) _]. destruct (Hslots h s0 Hs) as (r1 & L1 & _ & _ & _ & _ & Hv0). rewrite L in L1. injection L1 as <-.
  destruct (0 <? s_ver s0)%Z eqn:Ev.
  - rewrite Ht in Hb. destruct Hb as (c1 & e1 & Hm1 & Hx). unfold rec_upd in Hx. cbn [snd] in Hx.
    destruct (0 <? d_ver (snd e1))%Z eqn:Ev1; [|discriminate]. injection Hx as Hx. subst s0. cbn [s_pos p_chunk p_off s_ver s_vh] in *.
    assert (E : snd e1 = r).
    { destruct Hm1 as [(_ & Hin1 & _) _]. rewrite (in_log_find b c1 e1 (Hsp c1) Hin1) in L. now injection L. }
    subst r. split; [|split; [intros _; split; [reflexivity|split; [reflexivity|lia]]|intros Hn; lia]].
    destruct e1 as [o1 r1]. exact Hm1.
  - assert (Hneg : (s_ver s0 < 0)%Z) by lia. split; [|split; [intros Hp; lia|]].
    + split; [exact Hrec|]. intros c' e' Hr'. apply (HNL h s0 Hs Hneg c' e' Hr').
    + intros _. rewrite Ht in Hb. destruct Hb as (c1 & e1 & Hm1 & Hx).
      assert (Hmax : is_max hf b (S H0) h (p_chunk (s_pos s0)) (p_off (s_pos s0), r)).
      { split; [exact Hrec|]. intros c' e' Hr'. apply (HNL h s0 Hs Hneg c' e' Hr'). }
      destruct (is_max_unique hf b (S H0) h _ _ _ _ Hsp Hmax Hm1) as [Ec Ee]. subst e1. unfold rec_upd in Hx. cbn [snd] in Hx.
      destruct (0 <? d_ver r)%Z eqn:Ev1; [discriminate|lia].
Qed.

End T0.

(* ---- the update log after the pass, read positionally ---- *)
Section T.
Variable hf : bytes -> N.
Variable K : list bytes.
Variable b b' : bucket.
Variable m : smap.
Variable begin_ end_ dst0 D : nat.
Variable W0 : N.

Let H0 := b_head b.
Hypothesis Hhead : b_head b' = H0.
Hypothesis HR : Rel hf K b m.
Hypothesis HR' : Rel hf K b' m.
Hypothesis Hsp : forall c, spaced (recs_at b c).
Hypothesis Hsp' : forall c, spaced (recs_at b' c).
Hypothesis Htv : forall h, tv b (upds_upto hf b (S H0)) h.
Hypothesis HNL : NL hf b.
Hypothesis HNZ : NZ b.
Hypothesis Hrange : (dst0 <= begin_ /\ begin_ <= end_ < H0 /\ dst0 <= D <= end_)%nat.
Hypothesis HW0 : dst0 = begin_ -> W0 = 0.
(* records: untouched files, the old part of the first destination, the written region, emptied files *)
Hypothesis Hout : forall c, (c < dst0 \/ end_ < c)%nat -> recs_at b' c = recs_at b c.
Hypothesis Hgap : forall c, (dst0 < c < begin_)%nat -> recs_at b c = [].
Hypothesis Hpre : forall e, rend e <= W0 -> (In e (recs_at b' dst0) <-> In e (recs_at b dst0)).
Hypothesis Hsplit : forall e, In e (recs_at b' dst0) -> rend e <= W0 \/ W0 <= fst e.
Hypothesis Hold0 : (dst0 < begin_)%nat -> forall e, In e (recs_at b dst0) -> rend e <= W0.
Hypothesis Hreg : forall c e, (dst0 <= c <= D)%nat -> In e (recs_at b' c) -> (c = dst0 -> W0 <= fst e) -> cur_or_tomb hf begin_ b' c e.
Hypothesis Hemp : forall c, (D < c <= end_)%nat -> recs_at b' c = [].
(* index *)
Hypothesis Fabsr : forall k, In k K -> absr hf b' k = absr hf b k.
Hypothesis Fnone : forall h, tree_get_slot b' h = None <-> tree_get_slot b h = None.
Hypothesis Fpos : forall h s, tree_get_slot b' h = Some s -> exists s0, tree_get_slot b h = Some s0 /\
     (s_pos s = s_pos s0 \/ (inreg dst0 W0 D (s_pos s) /\ (begin_ <= p_chunk (s_pos s0) <= end_)%nat)).
Hypothesis Ftomb : (0 < begin_)%nat -> forall c e, (begin_ <= c <= end_)%nat -> In e (recs_at b c) ->
     tree_get_slot b (hf (d_key (snd e))) = None -> (d_ver (snd e) < 0)%Z ->
     exists c' e', In e' (recs_at b' c') /\ (dst0 <= c' <= D)%nat /\ (c' = dst0 -> W0 <= fst e') /\ hf (d_key (snd e')) = hf (d_key (snd e)).
Hypothesis Fsub : forall c e, In e (recs_at b' c) -> exists c0 e0, In e0 (recs_at b c0) /\ snd e0 = snd e.

Definition untouched_pos (c : nat) (e : N * drec) : Prop := (c < dst0)%nat \/ (end_ < c)%nat \/ (c = dst0 /\ rend e <= W0).

Lemma rec_fate c e : In e (recs_at b' c) ->
  (untouched_pos c e /\ In e (recs_at b c)) \/ ((dst0 <= c <= D)%nat /\ (c = dst0 -> W0 <= fst e) /\ cur_or_tomb hf begin_ b' c e).
Proof.
  intros Hin. destruct (Nat.lt_ge_cases c dst0) as [Hlo|Hge]; [left; split; [now left|rewrite <- Hout by (now left); exact Hin]|].
  destruct (Nat.lt_ge_cases end_ c) as [Hhi|Hle]; [left; split; [right; now left|rewrite <- Hout by (now right); exact Hin]|].
  destruct (Nat.lt_ge_cases D c) as [HD|HD]; [rewrite Hemp in Hin by lia; destruct Hin|].
  destruct (Nat.eq_dec c dst0) as [->|Hne].
  - destruct (Hsplit e Hin) as [Hp|Hr].
    + left. split; [right; right; split; [reflexivity|exact Hp]|]. now apply Hpre.
    + right. split; [lia|]. split; [intros _; exact Hr|]. apply Hreg; [lia|exact Hin|intros _; exact Hr].
  - right. split; [lia|]. split; [intros E; contradiction|]. apply Hreg; [lia|exact Hin|intros E; contradiction].
Qed.

Lemma rec_kept c e : untouched_pos c e -> In e (recs_at b c) -> In e (recs_at b' c).
Proof. intros [H|[H|[-> H]]] Hin; [rewrite Hout by (now left); exact Hin|rewrite Hout by (now right); exact Hin|now apply Hpre]. Qed.

Lemma below_region c e c' o' : ((c < dst0)%nat \/ (c = dst0 /\ rend e <= W0)) -> (dst0 <= c')%nat -> (c' = dst0 -> W0 <= o') -> ple c (fst e) c' o' /\ (c, fst e) <> (c', o').
Proof.
  intros Hc Hc' Ho. pose proof (dsize_pos (snd e)). unfold rend in *. unfold ple. destruct Hc as [Hc|[-> Hr]].
  - split; [left; lia|intros E; injection E as E1 E2; lia].
  - destruct (Nat.eq_dec c' dst0) as [->|Hne]; [specialize (Ho eq_refl); split; [right; split; [reflexivity|lia]|intros E; injection E as E; lia]|].
    split; [left; lia|intros E; injection E as E1 E2; lia].
Qed.

(* ... and, moved or not, it is the position-maximal record of its hash after the pass *)
Lemma slot_max_after h s' : tree_get_slot b' h = Some s' ->
  exists r, log_find b' (s_pos s') = Some r /\ hf (d_key r) = h /\ is_max hf b' (S H0) h (p_chunk (s_pos s')) (p_off (s_pos s'), r) /\
            ((0 < s_ver s')%Z -> s_ver s' = d_ver r /\ s_vh s' = vhash (d_val r) /\ (0 < d_ver r)%Z) /\
            ((s_ver s' < 0)%Z -> ~ (0 < d_ver r)%Z).
Proof.
  intros Hs'. destruct HR' as [(_ & _ & Hslots') _]. destruct (Hslots' h s' Hs') as (r & L' & Hh & Hk & _).
  pose proof (Fabsr (d_key r) Hk) as Fa. unfold absr in Fa. rewrite Hh, Hs', L' in Fa.
  destruct (tree_get_slot b h) as [s0|] eqn:Es0; [|discriminate]. destruct (log_find b (s_pos s0)) as [r0|] eqn:L0; [|discriminate].
  injection Fa as <- Ever Evh.
  destruct (slot_max_before hf K b m HR Hsp Htv HNL h s0 r Es0 L0 Hh) as (M0 & Pos0 & Neg0).
  exists r. split; [exact L'|]. split; [exact Hh|]. split; [|split; [rewrite Ever, Evh; exact Pos0|rewrite Ever; exact Neg0]].
  pose proof (log_find_in b' _ r L') as Hin'.
  assert (Hc' : (p_chunk (s_pos s') < S H0)%nat).
  { destruct (Nat.lt_ge_cases H0 (p_chunk (s_pos s'))) as [Hgt|]; [|lia]. exfalso. rewrite Hout in Hin' by (right; lia). rewrite (recs_above_head hf K b m HR _ Hgt) in Hin'. destruct Hin'. }
  split; [split; [exact Hc'|split; [exact Hin'|exact Hh]]|].
  intros c e (Hc & Hin & Hhe). destruct (rec_fate c e Hin) as [[Hu Hinb]|(Hc1 & Hc2 & Hcur)].
  - (* untouched: it was below the slot's record before the pass *)
    destruct M0 as [_ M0]. specialize (M0 c e (conj Hc (conj Hinb Hhe))). cbn [fst] in M0.
    destruct (Fpos h s' Hs') as (s0' & Es0' & Hpos). rewrite Es0 in Es0'. injection Es0' as <-.
    destruct Hpos as [Ep|[[Hr1 Hr2] Hr3]]; [rewrite Ep; exact M0|].
    destruct Hu as [Hu|[Hu|Hu]].
    + apply (below_region c e _ _ (or_introl Hu) (proj1 Hr1) Hr2).
    + exfalso. unfold ple in M0. lia.
    + apply (below_region c e _ _ (or_intror Hu) (proj1 Hr1) Hr2).
  - (* written region: it is the slot's record *)
    destruct Hcur as [(s1 & Hs1 & Hp1)|(Hn & _)]; [|rewrite Hhe in Hn; congruence]. rewrite Hhe, Hs' in Hs1. injection Hs1 as <-.
    rewrite Hp1. cbn [p_chunk p_off]. unfold ple. right. split; [reflexivity|apply N.le_refl].
Qed.

Theorem tv_after h : tv b' (upds_upto hf b' (S H0)) h.
Proof.
  unfold tv. destruct (tree_get_slot b' h) as [s'|] eqn:Es'.
  - destruct (slot_max_after h s' Es') as (r & L' & Hh & Hmax & Pos & Neg).
    rewrite (last_upd_of_max hf b' (S H0) h _ _ Hsp' Hmax). unfold rec_upd. cbn [fst snd].
    destruct (0 <? s_ver s')%Z eqn:Ev.
    + destruct (Pos ltac:(lia)) as (E1 & E2 & E3). replace (0 <? d_ver r)%Z with true by lia. rewrite <- E1, <- E2. destruct s' as [[pc po] sv svh]. reflexivity.
    + destruct HR' as [(_ & _ & Hslots') _]. destruct (Hslots' h s' Es') as (_ & _ & _ & _ & _ & _ & Hv0).
      replace (0 <? d_ver r)%Z with false; [reflexivity|]. symmetry. apply Z.ltb_ge. assert (~ (0 < d_ver r)%Z) by (apply Neg; lia). lia.
  - pose proof (last_upd_upto hf b' (S H0) h Hsp') as Hb'. destruct (last_upd h (upds_upto hf b' (S H0))) as [x|]; [|now left].
    right. destruct Hb' as (c & e & [(Hc & Hin & Hhe) Hmax] & ->). unfold rec_upd. cbn [snd]. destruct (0 <? d_ver (snd e))%Z eqn:Ev; [|reflexivity]. exfalso.
    apply Z.ltb_lt in Ev. assert (Hnb : tree_get_slot b h = None) by (apply Fnone; exact Es').
    destruct (rec_fate c e Hin) as [[Hu Hinb]|(Hc1 & Hc2 & Hcur)].
    2:{ destruct Hcur as [(s1 & Hs1 & _)|(_ & Hv & _)]; [rewrite Hhe in Hs1; congruence|lia]. }
    (* e is an old record of positive version; before the pass a tombstone L lay above it *)
    pose proof (Htv h) as Ht. unfold tv in Ht. rewrite Hnb in Ht.
    pose proof (last_upd_upto hf b (S H0) h Hsp) as Hb. destruct Ht as [Ht|Ht]; rewrite Ht in Hb.
    { apply (Hb c e). split; [exact Hc|split; [exact Hinb|exact Hhe]]. }
    destruct Hb as (cL & eL & [(HcL & HinL & HhL) HmaxL] & Hx). unfold rec_upd in Hx. cbn [snd] in Hx.
    destruct (0 <? d_ver (snd eL))%Z eqn:EvL; [discriminate|]. apply Z.ltb_ge in EvL.
    assert (HvL : (d_ver (snd eL) < 0)%Z) by (pose proof (HNZ cL eL HinL); lia).
    pose proof (HmaxL c e (conj Hc (conj Hinb Hhe))) as Hle.
    assert (Hne : (c, fst e) <> (cL, fst eL)).
    { intros E. injection E as E1 E2. subst cL. assert (e = eL) by (apply (spaced_same_off (recs_at b c)); [apply Hsp|exact Hinb|exact HinL|exact E2]). subst eL. lia. }
    (* where is L after the pass? *)
    assert (HLcase : untouched_pos cL eL \/ (begin_ <= cL <= end_)%nat).
    { destruct (Nat.lt_ge_cases cL dst0) as [H1|H1]; [left; now left|]. destruct (Nat.lt_ge_cases end_ cL) as [H2|H2]; [left; right; now left|].
      destruct (Nat.lt_ge_cases cL begin_) as [H3|H3]; [|right; lia]. left. right. right.
      destruct (Nat.eq_dec cL dst0) as [->|Hn]; [split; [reflexivity|apply Hold0; [lia|exact HinL]]|]. exfalso. rewrite Hgap in HinL by lia. destruct HinL. }
    destruct HLcase as [HLu|HLr].
    + pose proof (rec_kept cL eL HLu HinL) as HinL'. pose proof (Hmax cL eL (conj HcL (conj HinL' HhL))) as Hge.
      unfold ple in Hle, Hge. apply Hne. f_equal; lia.
    + destruct (Nat.eq_dec begin_ 0) as [Eb|Hb0].
      * (* the pass started at file 0: nothing old lies below the range, and above it L would not have been the last *)
        assert (dst0 = 0)%nat by lia. destruct Hu as [Hu|[Hu|[Ec Hr]]]; [lia| |].
        -- unfold ple in Hle. lia.
        -- rewrite (HW0 ltac:(lia)) in Hr. pose proof (dsize_pos (snd e)). unfold rend in Hr. lia.
      * destruct (Ftomb ltac:(lia) cL eL HLr HinL ltac:(rewrite HhL; exact Hnb) HvL) as (c' & e' & Hin' & Hc' & Ho' & Hh').
        assert (Hrec' : hrec hf b' (S H0) h c' e') by (split; [lia|split; [exact Hin'|rewrite Hh', HhL; reflexivity]]).
        pose proof (Hmax c' e' Hrec') as Hge.
        destruct Hu as [Hu|[Hu|Hu]].
        -- destruct (below_region c e c' (fst e') (or_introl Hu) (proj1 Hc') Ho') as [Hlt Hnq]. unfold ple in Hlt, Hge. apply Hnq. f_equal; lia.
        -- unfold ple in Hle. lia.
        -- destruct (below_region c e c' (fst e') (or_intror Hu) (proj1 Hc') Ho') as [Hlt Hnq]. unfold ple in Hlt, Hge. apply Hnq. f_equal; lia.
Qed.

Theorem nl_after : NL hf b'.
Proof.
  intros h s' Hs' Hneg c e Hr. rewrite Hhead in Hr. destruct (slot_max_after h s' Hs') as (r & _ & _ & [_ Hmax] & _). apply (Hmax c e Hr).
Qed.

Theorem nz_after : NZ b'.
Proof. intros c e Hin. destruct (Fsub c e Hin) as (c0 & e0 & Hin0 & <-). now apply (HNZ c0 e0). Qed.
End T.
