(* C02, part 5: histories of client operations with clean restarts at any position, any subset of the
   index files removed at each of them. *)
From Coq Require Import NArith ZArith List Bool Lia ZifyN ZifyNat ZifyBool String.
From GB Require Import Consts Words Hash HintFile HTree Compress Bucket BucketOpen Gc CheckL2 RefMap
     BucketBasics Refine GcTouch LogMono CollideProofs Upd Restart1 Restart2 Restart3 Restart4.
Import ListNotations.
Open Scope N_scope.

Section Hist.
Variable lc : l2cfg.
Variable K : list bytes.
Let cf := l_cfg lc.
Let hf := forced_hash (l_forced lc).
Hypothesis hf_inj : forall k1 k2, In k1 K -> In k2 K -> hf k1 = hf k2 -> k1 = k2.
Hypothesis cap_pos : 0 < c_splitcap cf.
Hypothesis no_checkvhash : c_checkvhash cf = false.

(* one client operation keeps the whole restart invariant *)
Lemma cstep_rinv2 b m o so :
  RInv2 hf K b m -> sop_of o = Some so -> op_ok K m so ->
  exists b', fst (l2_step lc b o) = Some b' /\
             proj (snd (l2_step lc b o)) = snd (spec_step (c_checkvhash cf) m so) /\
             RInv2 hf K b' (fst (spec_step (c_checkvhash cf) m so)).
Proof.
  intros (HR & HX & HC) Hso Hok.
  destruct (step_refines lc K hf_inj b m o so HR Hso Hok) as (b' & Hb' & Hout & HR').
  exists b'. split; [exact Hb'|]. split; [exact Hout|]. split; [exact HR'|].
  pose proof HR as [(Hlay & Hct & _) _].
  destruct o; cbn [sop_of] in Hso; try discriminate; injection Hso as <-; cbn [op_ok] in Hok; unfold l2_step in Hb'; fold cf hf in Hb'.
  - destruct Hok as (Hk & _).
    pose proof (check_and_set_x cf hf K hf_inj cap_pos no_checkvhash vhash_shortcut_sets_only b (unhex k) (unhex v) flag rev ts z Hlay Hct HX Hk) as H1.
    pose proof (check_and_set_aux cf hf vhash_shortcut_sets_only b (unhex k) (unhex v) flag rev ts z) as H2.
    unfold check_and_set in Hb'. destruct (check_and_set_gen _ _ _ _ _ _ _ _ _ _) as [bb r]. cbn [fst] in *. injection Hb' as <-.
    split; [exact H1|now apply (ctok_aux b bb)].
  - pose proof (check_and_set_x cf hf K hf_inj cap_pos no_checkvhash vhash_shortcut_sets_only b (unhex k) [] 0 (-1)%Z ts_now (mkZ false 0 0) Hlay Hct HX Hok) as H1.
    pose proof (check_and_set_aux cf hf vhash_shortcut_sets_only b (unhex k) [] 0 (-1)%Z ts_now (mkZ false 0 0)) as H2.
    unfold check_and_set in Hb'. destruct (check_and_set_gen _ _ _ _ _ _ _ _ _ _) as [bb r]. cbn [fst] in *. injection Hb' as <-.
    split; [exact H1|now apply (ctok_aux b bb)].
  - pose proof (bkt_incr_x cf hf K hf_inj cap_pos b m (unhex k) d ts_now (conj HR HX) Hok) as H1.
    pose proof (bkt_incr_aux cf hf b (unhex k) d ts_now) as H2.
    destruct (bkt_incr _ _ _ _ _ _) as [bb n]. cbn [fst] in *. injection Hb' as <-.
    split; [exact H1|now apply (ctok_aux b bb)].
  - destruct (bkt_get_spec hf K hf_inj b m (unhex k) HR Hok) as [Hb _].
    destruct (bkt_get _ _ _) as [bb g]. cbn [fst] in *. injection Hb' as <-. subst bb. split; assumption.
  - destruct (bkt_get_spec hf K hf_inj b m (unhex k) HR Hok) as [Hb _].
    destruct (bkt_get _ _ _) as [bb g]. cbn [fst] in *. injection Hb' as <-. subst bb. split; assumption.
  - cbn [fst] in Hb'. injection Hb' as <-. split; [now apply flush_head_x|apply (ctok_aux b); [apply flush_head_aux|exact HC]].
  - cbn [fst] in Hb'. apply some_inj in Hb'. rewrite <- Hb'. split; [now apply trydump_all_x|apply (ctok_aux b); [apply trydump_all_aux|exact HC]].
  - cbn [fst] in Hb'. injection Hb' as <-. split; assumption.
Qed.

(* what a history with restarts may answer: at a restart the reference map is replaced by any map with the
   same live entries (tombstones may be forgotten) *)
Fixpoint spec_ok (m : smap) (ops : list l2op) (outs : list pout) : Prop :=
  match ops, outs with
  | [], [] => True
  | ORestart _ :: t, o :: outs' => o = POk /\ exists m', view K m m' /\ spec_ok m' t outs'
  | op :: t, o :: outs' =>
      exists so, sop_of op = Some so /\ o = snd (spec_step (c_checkvhash cf) m so) /\
                 spec_ok (fst (spec_step (c_checkvhash cf) m so)) t outs'
  | _, _ => False
  end.

Definition op_valid (o : l2op) : Prop :=
  match o with
  | ORestart _ => True
  | _ => exists so, sop_of o = Some so /\ op_ok K [] so
  end.

Lemma op_ok_any m m' so : op_ok K m so -> op_ok K m' so.
Proof. destruct so; auto. Qed.

Theorem restart_history ops : forall b m,
  RInv2 hf K b m -> Forall op_valid ops -> spec_ok m ops (model_run lc b ops).
Proof.
  induction ops as [|o t IH]; intros b m HI Hv; [exact I|].
  inversion Hv as [|? ? Ho Ht]; subst. cbn [model_run].
  destruct o; try (
    destruct Ho as (so & Hso & Hok);
    destruct (cstep_rinv2 b m _ so HI Hso (op_ok_any [] m so Hok)) as (b' & Hb' & Hout & HI');
    destruct (l2_step lc b _) as [ob x]; cbn [fst snd] in Hb', Hout; subst ob;
    cbn [spec_ok]; exists so; split; [exact Hso|]; split; [exact Hout|]; now apply IH).
  (* restart *)
  destruct (restart_x cf hf K hf_inj cap_pos b m rm HI) as (b' & m' & Hr & HI' & Hview).
  unfold l2_step. fold cf hf. rewrite Hr. cbn [spec_ok proj proj_out]. split; [reflexivity|].
  exists m'. split; [exact Hview|]. now apply IH.
Qed.

Lemma rinv2_init : RInv2 hf K bucket0 [].
Proof.
  split; [apply rel_init|]. split; [|exact I].
  assert (Hc0 : forall c, chunk_at bucket0 c = chunk0) by (intros c; unfold chunk_at, bucket0; cbn [b_chunks]; apply nth_repeat).
  assert (Hs0 : forall c, sps_at bucket0 c = [split0]) by (intros c; unfold sps_at, hchunk_at, bucket0; cbn [b_hints]; now rewrite nth_repeat).
  split; [intros c; rewrite Hc0; apply cst0|]. split; [intros c _; now rewrite Hc0|].
  split; [intros c e; unfold recs_at; rewrite Hc0; intros []|]. split; [|split].
  - intros c. rewrite Hc0, Hs0. unfold hcov_at. split; [discriminate|]. split; [apply cov_split0|]. split; [cbn; lia|constructor].
  - intros h. unfold tv, tree_get_slot, bucket0. cbn [b_tree b_head]. rewrite PM.gempty. left.
    unfold upds_upto. cbn [seq map List.concat]. unfold recs_at. rewrite Hc0. reflexivity.
  - apply hid_le_refl.
Qed.
End Hist.
