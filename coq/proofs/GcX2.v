(* Restart after GC, part 2: a generic way to carry a further invariant through a pass, and three such invariants:
   where slots point (GM), forgotten tombstones that are kept (GT), every record of the files is a record that was
   there before (GSub). *)
From Coq Require Import NArith ZArith List Bool Lia ZifyN ZifyNat ZifyBool Sorting.Sorted FMapPositive.
From GB Require Import Consts Words Hash HintFile HTree Compress Bucket BucketOpen Gc CheckL2 RefMap
     BucketBasics Refine GcTouch LogMono CollideProofs Upd Restart1 Restart2 Restart3 GcSplit GcSplitProofs GcView.
Import ListNotations.
Open Scope N_scope.

Section Gen.
Variable cf : cfg.
Variable hf : bytes -> N.
Variable K : list bytes.
Hypothesis hf_inj : forall k1 k2, In k1 K -> In k2 K -> hf k1 = hf k2 -> k1 = k2.
Hypothesis cap_pos : 0 < c_splitcap cf.
Variable b0 : bucket.
Variable begin_ end_ : nat.
Variable dst0 : nat.
Variable W0 : N.

Notation GA := (GA cf hf K b0 begin_ dst0 W0).

Lemma ga_clear_hint st src R : GA st src R -> GA (mkGC (clear_hint_chunk (gc_b st) src) (gc_dst st) (gc_stat st)) src R.
Proof.
  intros (HG & HX & H2 & HP & HS). set (b := gc_b st).
  split; [|split; [|split; [|split]]].
  - apply (gi_frame cf hf K b0 (clear_hint_chunk b src) (gc_dst st) (gc_stat st) st src R eq_refl); [reflexivity| |exact HG]. apply iok_clear. apply HG.
  - apply (gx_frame b0 (clear_hint_chunk b src) (gc_dst st) (gc_stat st) st eq_refl); [reflexivity|exact HX].
  - apply (gc2_frame hf begin_ dst0 W0 (clear_hint_chunk b src) (gc_dst st) (gc_stat st) st eq_refl); [reflexivity|exact H2].
  - apply (gp_frame b0 dst0 W0 (clear_hint_chunk b src) (gc_dst st) (gc_stat st) st eq_refl); [reflexivity|exact HP].
  - apply (gs_frame dst0 (clear_hint_chunk b src) (gc_dst st) (gc_stat st) st eq_refl); [reflexivity|exact HS].
Qed.

Variable QS : gcst -> nat -> Prop.                          (* at the start of a source file *)
Variable QI : gcst -> nat -> list (N * drec) -> Prop.      (* inside it, after its hints were cleared *)
Variable QE : gcst -> nat -> Prop.                          (* when it is finished *)
Hypothesis HQ_hint : forall st src R, GA st src R -> (begin_ <= src <= end_)%nat -> R = k_disk (chunk_at (gc_b st) src) ->
  QS st src -> QI (mkGC (clear_hint_chunk (gc_b st) src) (gc_dst st) (gc_stat st)) src R.
Hypothesis HQ_rec : forall st src e R', GA st src (e :: R') -> (begin_ <= src <= end_)%nat -> QI st src (e :: R') -> QI (gc_record cf hf begin_ src st e) src R'.
Hypothesis HQ_inplace : forall st src, GA st src [] -> gc_dst st = src -> QI st src [] ->
  forall b4, (b4 = gc_b st \/ b4 = set_nextgc (gc_b st) (S src)) -> QE (mkGC b4 (gc_dst st) (gc_stat st)) src.
Hypothesis HQ_clear : forall st src, GA st src [] -> (gc_dst st < src)%nat -> (begin_ <= src <= end_)%nat -> QI st src [] ->
  forall b4, (b4 = clear_chunk (gc_b st) src \/ b4 = set_nextgc (clear_chunk (gc_b st) src) (S src)) -> QE (mkGC b4 (gc_dst st) (gc_stat st)) src.
Hypothesis HQ_skip : forall st src, GA st src (k_disk (chunk_at (gc_b st) src)) -> (begin_ <= src <= end_)%nat -> k_size (chunk_at (gc_b st) src) = 0 -> QS st src -> QE st src.
Hypothesis HQ_next : forall st src, GA st src [] -> QE st src ->
  (gc_dst st <> src -> k_disk (chunk_at (gc_b st) src) = [] /\ k_size (chunk_at (gc_b st) src) = 0) -> (begin_ <= src)%nat -> (S src <= end_)%nat ->
  QS st (S src).

Lemma gq_records src : (begin_ <= src <= end_)%nat -> forall recs st, GA st src recs -> QI st src recs ->
  GA (fold_left (gc_record cf hf begin_ src) recs st) src [] /\ QI (fold_left (gc_record cf hf begin_ src) recs st) src [].
Proof.
  intros Hsrc. induction recs as [|e recs IH]; intros st HA HQ; cbn [fold_left]; [split; assumption|].
  apply IH; [|now apply HQ_rec]. destruct HA as (HG & HX & H2 & HP & HS).
  split; [now apply (gc_record_inv cf hf K hf_inj cap_pos b0 begin_ st src e recs)|].
  split; [apply gx_record with (K := K) (R' := recs); assumption|]. split; [apply gc2_record with (cf := cf) (K := K) (b0 := b0) (R' := recs); assumption|].
  split; [apply gp_record with (K := K) (R' := recs); assumption|apply gs_record with (K := K) (b0 := b0) (R' := recs); assumption].
Qed.

Lemma gq_file_step st src : GA st src (k_disk (chunk_at (gc_b st) src)) -> QS st src ->
  (begin_ <= src <= end_)%nat -> QE (gc_file cf hf begin_ st src) src.
Proof.
  intros HA HQ Hsrc. pose proof HA as (HG & _). unfold gc_file.
  destruct (k_size (chunk_at (gc_b st) src) =? 0) eqn:Ez.
  { apply N.eqb_eq in Ez. now apply HQ_skip. }
  set (recs := k_disk (chunk_at (gc_b st) src)) in *.
  pose proof (ga_clear_hint st src recs HA) as HA1. pose proof (HQ_hint st src recs HA Hsrc eq_refl HQ) as HQ1.
  set (st1 := mkGC (clear_hint_chunk (gc_b st) src) (gc_dst st) (gc_stat st)) in *.
  destruct (gq_records src Hsrc recs st1 HA1 HQ1) as [HA2 HQ2].
  set (st2 := fold_left (gc_record cf hf begin_ src) recs st1) in *.
  change gc_truncates_after_inplace with false. cbn [andb].
  destruct (Nat.eqb_spec src (gc_dst st2)) as [E|Hne].
  - apply (HQ_inplace st2 src HA2 (eq_sym E) HQ2). destruct (Nat.leb _ _); [now right|now left].
  - assert (HDs : (gc_dst st2 < src)%nat) by (destruct HA2 as ((_ & _ & _ & _ & G5 & _) & _); cbv zeta in G5; lia).
    apply (HQ_clear st2 src HA2 HDs Hsrc HQ2). destruct (Nat.leb _ _); [now right|now left].
Qed.

Lemma gq_files : forall n src st,
  GA st src (k_disk (chunk_at (gc_b st) src)) -> QS st src ->
  (src + n < b_head b0)%nat -> (begin_ <= src)%nat -> (src + n <= end_)%nat ->
  (forall c, (c < b_head b0)%nat -> spaced (k_disk (chunk_at b0 c))) -> ((dst0 < src)%nat \/ W0 = 0) ->
  QE (fold_left (gc_file cf hf begin_) (seq src (S n)) st) (src + n)%nat.
Proof.
  induction n as [|n IH]; intros src st HA HQ Hlt Hb He Hsp Hs; cbn [seq fold_left].
  - rewrite Nat.add_0_r. apply gq_file_step; [exact HA|exact HQ|lia].
  - assert (Hs' : src <> dst0 \/ W0 = 0) by (destruct Hs; [left; lia|now right]).
    pose proof (ga_file_step cf hf K hf_inj cap_pos b0 begin_ dst0 W0 st src HA Hs') as [HA1 H5]. cbv zeta in HA1, H5.
    pose proof (gq_file_step st src HA HQ ltac:(lia)) as HQ1.
    set (st1 := gc_file cf hf begin_ st src) in *. pose proof HA1 as (H1 & H2 & H3 & H4 & H4s).
    pose proof (gi_next cf hf K cap_pos b0 st1 src H1 H5 ltac:(lia) (Hsp (S src) ltac:(lia))) as HGn.
    replace (src + S n)%nat with (S src + n)%nat by lia.
    apply (IH (S src) st1); [split; [exact HGn|split; [exact H2|split; [exact H3|split; [exact H4|exact H4s]]]]| |lia|lia|lia|exact Hsp|destruct Hs; [left; lia|now right]].
    apply (HQ_next st1 src HA1 HQ1 H5); lia.
Qed.
End Gen.

(* ---- a record that GC must keep is copied ---- *)
Lemma gc_record_copied cf hf begin_ src st off r :
  (tree_get_slot (gc_b st) (hf (d_key r)) = None /\ (0 < begin_)%nat /\ (d_ver r < 0)%Z) \/
  (exists s, tree_get_slot (gc_b st) (hf (d_key r)) = Some s /\ s_pos s = mkPos src off) ->
  let st' := gc_record cf hf begin_ src st (off, r) in
  rec_appended st st' r \/ rec_switched cf src st st' r.
Proof.
  intros Hc. pose proof (gc_record_shape cf hf begin_ src st (off, r)) as Hsh. cbv zeta in Hsh |- *. cbn [snd] in Hsh.
  (* the shape lemma's first alternative is excluded by looking at which branch gc_record takes *)
  set (b := gc_b st) in *. set (D := gc_dst st). set (h := hf (d_key r)) in *. set (oldp := mkPos src off).
  assert (Hcopy : forall gs' vh (found : option slot),
     let st' := (let '(b1, dst) := if c_filemax cf <? dsize r + k_whead (chunk_at b D)
                           then (begin_gc_writing (trydump (end_gc_writing b D) D true) (S D) src, S D) else (b, D) in
         let '(b2, noff) := append_gc b1 dst r in
         let b3 := match found with
                   | Some _ => match tree_get_slot b2 h with
                               | Some s => if gc_repoint_conditional && negb (pos_eqb (s_pos s) oldp) then b2
                                           else tree_put b2 h (mkSlot (mkPos dst noff) (s_ver s) (s_vh s))
                               | None => b2 end
                   | None => b2 end in
         mkGC (hints_set cf b3 h (d_key r) (d_ver r) vh (mkPos dst noff) (dsize r) true) dst gs') in
     rec_appended st st' r \/ rec_switched cf src st st' r).
  { intros gs' vh found. cbv zeta. destruct (c_filemax cf <? dsize r + k_whead (chunk_at b D)) eqn:Efull.
    - right. rewrite append_gc_eq. split; [fold b D; lia|]. split; [reflexivity|]. intros c. cbn [gc_b]. rewrite hints_set_chunks.
      set (b1 := begin_gc_writing (trydump (end_gc_writing b D) D true) (S D) src).
      set (b2 := set_chunk b1 (S D) (append_gc_chunk (chunk_at b1 (S D)) r)).
      assert (E : forall b3, (b3 = b2 \/ exists s, b3 = tree_put b2 h s) -> chunk_at b3 c = chunk_at b2 c) by (intros b3 [->|[s ->]]; reflexivity).
      rewrite E by (destruct found; [destruct (tree_get_slot b2 h); [destruct (_ && _); [now left|right; eauto]|now left]|now left]).
      unfold b2, b1. rewrite begin_gc_eq, end_gc_eq. fold b D.
      destruct (Nat.eqb_spec c (S D)) as [->|Hne]; [rewrite !chunk_at_set_same; rewrite (core_chunk_at _ _ (S D) (trydump_core _ D true)); rewrite chunk_at_set_other by lia; reflexivity|].
      rewrite !chunk_at_set_other by congruence. rewrite (core_chunk_at _ _ c (trydump_core _ D true)).
      destruct (Nat.eqb_spec c D) as [->|Hne2]; [apply chunk_at_set_same|apply chunk_at_set_other; congruence].
    - left. rewrite append_gc_eq. split; [reflexivity|]. intros c. cbn [gc_b]. rewrite hints_set_chunks.
      set (b2 := set_chunk b D (append_gc_chunk (chunk_at b D) r)).
      assert (E : forall b3, (b3 = b2 \/ exists s, b3 = tree_put b2 h s) -> chunk_at b3 c = chunk_at b2 c) by (intros b3 [->|[s ->]]; reflexivity).
      rewrite E by (destruct found; [destruct (tree_get_slot b2 h); [destruct (_ && _); [now left|right; eauto]|now left]|now left]).
      unfold b2. fold b D. destruct (Nat.eqb_spec c D) as [->|Hne]; [apply chunk_at_set_same|apply chunk_at_set_other; congruence]. }
  unfold gc_record. fold b D h oldp.
  destruct Hc as [(Hn & Hb & Hv)|(s & Hs & Hp)].
  - destruct (tree_get_slot b h) as [s1|] eqn:Es; [discriminate|]. replace (Nat.ltb 0 begin_) with true by (symmetry; now apply Nat.ltb_lt). replace (d_ver r <? 0)%Z with true by (symmetry; apply Z.ltb_lt; exact Hv).
    cbn [andb negb]. apply (Hcopy _ _ None).
  - destruct (tree_get_slot b h) as [s1|] eqn:Es; [|discriminate]. injection Hs as ->. rewrite Hp.
    assert (Epe : pos_eqb oldp (mkPos src off) = true) by (unfold oldp, pos_eqb; cbn [p_chunk p_off]; now rewrite Nat.eqb_refl, N.eqb_refl).
    rewrite Epe. cbn [negb]. apply (Hcopy _ _ (Some s)).
Qed.

Section B.
Variable cf : cfg.
Variable hf : bytes -> N.
Variable K : list bytes.
Hypothesis hf_inj : forall k1 k2, In k1 K -> In k2 K -> hf k1 = hf k2 -> k1 = k2.
Hypothesis cap_pos : 0 < c_splitcap cf.
Variable b0 : bucket.
Variable begin_ end_ : nat.
Variable dst0 : nat.
Variable W0 : N.

Notation GA := (GA cf hf K b0 begin_ dst0 W0).
Notation GI := (GI cf hf K b0).
Hypothesis Hb0 : forall c, (c < b_head b0)%nat -> gchunk (chunk_at b0 c).

(* a position inside what the pass has written *)
Definition inreg (D : nat) (p : pos) : Prop := (dst0 <= p_chunk p <= D)%nat /\ (p_chunk p = dst0 -> W0 <= p_off p).

(* slots: never created or deleted; each points where it pointed before the pass or into the written region,
   and in the second case it pointed into the range before *)
Definition GM (st : gcst) : Prop :=
  (forall h, tree_get_slot (gc_b st) h = None <-> tree_get_slot b0 h = None) /\
  (forall h s, tree_get_slot (gc_b st) h = Some s -> exists s0, tree_get_slot b0 h = Some s0 /\
     (s_pos s = s_pos s0 \/ (inreg (gc_dst st) (s_pos s) /\ (begin_ <= p_chunk (s_pos s0) <= end_)%nat))).

(* a record in the written region *)
Definition regrec (st : gcst) (c : nat) (e : N * drec) : Prop :=
  In e (k_disk (chunk_at (gc_b st) c)) /\ in_region dst0 W0 (gc_dst st) (k_whead (chunk_at (gc_b st) (gc_dst st))) c e.

(* forgotten tombstones of the processed part of the range have a representative in the written region *)
Definition GT (st : gcst) (src : nat) (R : list (N * drec)) : Prop :=
  (0 < begin_)%nat -> forall c e, (begin_ <= c <= src)%nat -> In e (k_disk (chunk_at b0 c)) -> (c = src -> ~ In e R) ->
  tree_get_slot b0 (hf (d_key (snd e))) = None -> (d_ver (snd e) < 0)%Z ->
  exists c' e', regrec st c' e' /\ hf (d_key (snd e')) = hf (d_key (snd e)).

(* every record in the files was a record of some file before the pass *)
Definition GSub (st : gcst) : Prop :=
  forall c e, (c < b_head b0)%nat -> In e (k_disk (chunk_at (gc_b st) c)) ->
  exists c0 e0, (c0 < b_head b0)%nat /\ In e0 (k_disk (chunk_at b0 c0)) /\ snd e0 = snd e.

Definition QB (st : gcst) (src : nat) (R : list (N * drec)) : Prop :=
  GM st /\ GT st src R /\ GSub st /\ (forall e, In e R -> In e (k_disk (chunk_at b0 src))).

Lemma regrec_step st src e0 R' c e : GI st src (e0 :: R') -> regrec st c e -> regrec (gc_record cf hf begin_ src st e0) c e.
Proof.
  intros HG [Hin (Hr1 & Hr2 & Hr3)]. pose proof HG as (G1 & G2 & G3 & G4 & G5 & G6 & G7 & G8 & _). cbv zeta in G1, G2, G3, G4, G5, G6, G7, G8.
  set (b := gc_b st) in *. set (D := gc_dst st) in *. assert (HDlt : (D < b_head b0)%nat) by lia.
  pose proof (gc_record_shape cf hf begin_ src st e0) as Hsh. cbv zeta in Hsh. set (st' := gc_record cf hf begin_ src st e0) in *.
  unfold regrec, in_region. destruct Hsh as [[E1 E2]|[[E1 E2]|(E0 & E1 & E2)]]; rewrite E1, !E2; fold b D.
  - auto.
  - rewrite Nat.eqb_refl.
    destruct (append_gc_chunk_facts (chunk_at b D) (snd e0) (G4 D HDlt) G7) as (F1 & F2 & F3 & F4 & F5 & F6 & F7 & F8). cbv zeta in F1, F2, F3, F4, F5, F6, F7, F8.
    destruct (Nat.eqb_spec c D) as [Ec|Hne].
    + specialize (Hr3 Ec). split; [destruct e as [o r0]; apply F5; [now rewrite <- Ec|left; unfold rend in Hr3; exact Hr3]|].
      split; [exact Hr1|split; [exact Hr2|intros _; rewrite F3; lia]].
    + split; [exact Hin|]. split; [exact Hr1|split; [exact Hr2|intros E; congruence]].
  - cbv zeta in E0, E2. fold b D in E0, E2. rewrite Nat.eqb_refl.
    replace (Nat.eqb c (S D)) with false by (symmetry; apply Nat.eqb_neq; lia).
    destruct (end_gc_chunk_facts (chunk_at b D) (G4 D HDlt) G7 G8) as (_ & _ & E3 & _). cbv zeta in E3.
    split; [|split; [lia|split; [exact Hr2|intros E; lia]]].
    destruct (Nat.eqb_spec c D) as [Ec|Hne]; [|exact Hin]. destruct e as [o r0]. apply E3; [now rewrite <- Ec|]. specialize (Hr3 Ec). exact Hr3.
Qed.

Lemma regrec_same st st' c e : (forall x, chunk_at (gc_b st') x = chunk_at (gc_b st) x) -> gc_dst st' = gc_dst st -> regrec st c e -> regrec st' c e.
Proof. intros Hc Hd. unfold regrec. now rewrite Hd, !Hc. Qed.

Lemma gm_same st st' : (forall h, tree_get_slot (gc_b st') h = tree_get_slot (gc_b st) h) -> gc_dst st' = gc_dst st -> GM st -> GM st'.
Proof. intros Ht Hd [M1 M2]. split; [intros h; rewrite Ht; apply M1|]. intros h s Hs. rewrite Ht in Hs. rewrite Hd. now apply M2. Qed.

(* ---- one record ---- *)
(* where a copied record lands *)
Lemma copied_lands st src off r R' :
  GI st src ((off, r) :: R') -> GP b0 dst0 W0 st ->
  let st' := gc_record cf hf begin_ src st (off, r) in
  rec_appended st st' r \/ rec_switched cf src st st' r ->
  let W' := k_whead (chunk_at (gc_b st') (gc_dst st')) - dsize r in
  inreg (gc_dst st') (mkPos (gc_dst st') W') /\ regrec st' (gc_dst st') (W', r).
Proof.
  intros HG (P1 & P2 & _). cbv zeta. pose proof HG as (G1 & G2 & G3 & G4 & G5 & G6 & G7 & G8 & _). cbv zeta in G1, G2, G3, G4, G5, G6, G7, G8.
  set (st' := gc_record cf hf begin_ src st (off, r)). set (b := gc_b st) in *. set (D := gc_dst st) in *. pose proof (dsize_pos r) as Hsz.
  intros [[E1 E2]|(E0 & E1 & E2)]; unfold inreg, regrec, in_region; cbn [p_chunk p_off fst snd]; rewrite E1, !E2; fold b D; rewrite ?Nat.eqb_refl.
  - assert (Ew : k_whead (append_gc_chunk (chunk_at b D) r) - dsize r = k_whead (chunk_at b D)) by (unfold append_gc_chunk; cbn [k_whead]; lia).
    rewrite Ew. assert (HW : D = dst0 -> W0 <= k_whead (chunk_at b D)) by (intros Ed; rewrite Ed in *; now apply P2).
    split; [split; [lia|exact HW]|]. split; [unfold append_gc_chunk; cbn [k_disk]; apply in_or_app; right; now left|].
    split; [lia|]. split; [exact HW|]. intros _. unfold rend, append_gc_chunk. cbn [fst snd k_whead]. lia.
  - cbv zeta in E0, E2. fold b D in E0, E2.
    set (k1 := begin_gc_chunk (chunk_at b (S D)) (Nat.eqb (S D) src)) in *.
    assert (Ew : k_whead (append_gc_chunk k1 r) - dsize r = k_whead k1) by (unfold append_gc_chunk; cbn [k_whead]; lia).
    rewrite Ew. split; [split; [lia|intros Ed; lia]|]. split; [unfold append_gc_chunk; cbn [k_disk]; apply in_or_app; right; now left|].
    split; [lia|]. split; [intros Ed; lia|]. intros _. unfold rend, append_gc_chunk. cbn [fst snd k_whead]. lia.
Qed.

Lemma qb_record st src e R' : GA st src (e :: R') -> (begin_ <= src <= end_)%nat -> QB st src (e :: R') -> QB (gc_record cf hf begin_ src st e) src R'.
Proof.
  intros (HG & HX & H2 & HP & HS) Hsrc ([M1 M2] & HT & HSub & HRB). destruct e as [off r].
  pose proof HG as (G1 & G2 & G3 & G4 & G5 & G6 & G7 & G8 & G9 & G10 & G11 & G12 & G13 & _). cbv zeta in G1, G2, G3, G4, G5, G6, G7, G8, G9, G10, G11, G12, G13.
  pose proof (gc_record_tree cf hf begin_ src st (off, r)) as [T1 T2]. cbv zeta in T1, T2. cbn [snd] in T1, T2.
  pose proof (gc_record_slot cf hf begin_ src st off r) as T3. cbv zeta in T3.
  pose proof (gc_record_shape cf hf begin_ src st (off, r)) as Hsh. cbv zeta in Hsh. cbn [snd] in Hsh.
  pose proof (copied_lands st src off r R' HG HP) as Hland. cbv zeta in Hland.
  pose proof (gc_record_copied cf hf begin_ src st off r) as Hcop. cbv zeta in Hcop.
  set (st' := gc_record cf hf begin_ src st (off, r)) in *. set (b := gc_b st) in *. set (D := gc_dst st) in *. set (h := hf (d_key r)) in *.
  assert (HDlt : (D < b_head b0)%nat) by lia.
  assert (HD' : (D <= gc_dst st')%nat) by (destruct Hsh as [[E _]|[[E _]|(_ & E & _)]]; rewrite E; fold D; lia).
  split; [|split; [|split]].
  - (* GM *)
    split.
    + intros h'. rewrite <- M1. destruct (N.eq_dec h' h) as [->|Hne]; [|now rewrite T1].
      split; [|exact T2]. intros Hn. destruct (tree_get_slot b h) as [s|] eqn:Es; [|reflexivity]. destruct (T3 s eq_refl) as [E|[_ E]]; congruence.
    + intros h' s' Hs'. destruct (N.eq_dec h' h) as [->|Hne].
      * destruct (tree_get_slot b h) as [s|] eqn:Es; [|rewrite (T2 eq_refl) in Hs'; discriminate].
        destruct (M2 h s Es) as (s0 & Hs0 & Hpos). exists s0. split; [exact Hs0|].
        destruct (T3 s eq_refl) as [E|[Hp E]]; rewrite E in Hs'; injection Hs' as <-.
        -- destruct Hpos as [Hp|[[Hr1 Hr2] Hr3]]; [now left|right]. split; [split; [lia|exact Hr2]|exact Hr3].
        -- right. cbn [s_pos]. destruct (Hland (Hcop (or_intror (ex_intro _ s (conj eq_refl Hp))))) as [Hreg _].
           split; [exact Hreg|]. destruct Hpos as [Hp0|[_ Hr3]]; [rewrite <- Hp0, Hp; cbn [p_chunk]; exact Hsrc|exact Hr3].
      * rewrite T1 in Hs' by exact Hne. destruct (M2 h' s' Hs') as (s0 & Hs0 & Hpos). exists s0. split; [exact Hs0|].
        destruct Hpos as [Hp|[[Hr1 Hr2] Hr3]]; [now left|right]. split; [split; [lia|exact Hr2]|exact Hr3].
  - (* GT *)
    intros Hb c e Hc Hin Hnot Hnone Hver.
    assert (Hcase : (c = src /\ e = (off, r)) \/ (c = src -> ~ In e ((off, r) :: R'))).
    { destruct (Nat.eq_dec c src) as [Ec|Hne]; [|right; intros E; contradiction].
      destruct (N.eq_dec (fst e) off) as [Eo|Hno].
      - left. split; [exact Ec|]. destruct (Hb0 src G6) as (_ & _ & Hnd & _). rewrite Ec in Hin. destruct e as [o r1]. cbn [fst] in Eo. subst o.
        pose proof (find_off_in_nodup _ off r1 Hnd Hin) as F1. pose proof (find_off_in_nodup _ off r Hnd (HRB (off, r) (or_introl eq_refl))) as F2. congruence.
      - right. intros _ [E|Hr]; [apply Hno; now rewrite <- E|now apply (Hnot Ec)]. }
    destruct Hcase as [[Ec Ee]|Hold].
    + subst c e. cbn [snd] in Hnone, Hver. fold h in Hnone.
      assert (Hn : tree_get_slot b h = None) by (apply M1; exact Hnone).
      destruct (Hland (Hcop (or_introl (conj Hn (conj Hb Hver))))) as [_ Hreg]. eexists _, _. split; [exact Hreg|reflexivity].
    + destruct (HT Hb c e Hc Hin Hold Hnone Hver) as (c' & e' & Hreg & Hh). exists c', e'. split; [|exact Hh]. now apply (regrec_step st src (off, r) R' c' e' HG).
  - (* GSub *)
    intros c e Hc Hin.
    assert (Hsrc_rec : exists c0 e0, (c0 < b_head b0)%nat /\ In e0 (k_disk (chunk_at b0 c0)) /\ snd e0 = r).
    { exists src, (off, r). split; [exact G6|]. split; [apply HRB; now left|reflexivity]. }
    destruct Hsh as [[E1 E2]|[[E1 E2]|(E0 & E1 & E2)]]; rewrite E2 in Hin; fold b D in Hin.
    + now apply (HSub c e).
    + destruct (Nat.eqb_spec c D) as [Ec|Hne]; [|now apply (HSub c e)].
      unfold append_gc_chunk in Hin. cbn [k_disk] in Hin. apply in_app_or in Hin as [Hin|[<-|[]]]; [|exact Hsrc_rec].
      apply filter_In in Hin as [Hin _]. apply (HSub c e Hc). now rewrite Ec.
    + cbv zeta in Hin. destruct (Nat.eqb_spec c (S D)) as [Ec|Hne].
      * unfold append_gc_chunk in Hin. cbn [k_disk] in Hin. apply in_app_or in Hin as [Hin|[<-|[]]]; [|exact Hsrc_rec].
        apply filter_In in Hin as [Hin _]. unfold begin_gc_chunk in Hin. apply (HSub c e Hc). rewrite Ec. destruct (Nat.eqb (S D) src); exact Hin.
      * destruct (Nat.eqb_spec c D) as [Ec|Hne2]; [|now apply (HSub c e)].
        destruct (end_gc_chunk_facts (chunk_at b D) (G4 D HDlt) G7 G8) as (_ & _ & _ & E4 & _). cbv zeta in E4. apply (HSub c e Hc). rewrite Ec. now apply E4.
  - intros e He. apply HRB. now right.
Qed.

(* ---- the other steps of a pass ---- *)
Lemma qb_same st st' src R : (forall x, chunk_at (gc_b st') x = chunk_at (gc_b st) x) -> (forall h, tree_get_slot (gc_b st') h = tree_get_slot (gc_b st) h) ->
  gc_dst st' = gc_dst st -> QB st src R -> QB st' src R.
Proof.
  intros Hc Ht Hd (HM & HT & HS & HR). split; [now apply (gm_same st st')|]. split; [|split; [|exact HR]].
  - intros Hb c e H1 H2 H3 H4 H5. destruct (HT Hb c e H1 H2 H3 H4 H5) as (c' & e' & Hreg & Hh). exists c', e'. split; [now apply (regrec_same st st')|exact Hh].
  - intros c e H1 H2. rewrite Hc in H2. now apply (HS c e).
Qed.

Lemma qb_hint st src R : GA st src R -> (begin_ <= src <= end_)%nat -> R = k_disk (chunk_at (gc_b st) src) ->
  QB st src R -> QB (mkGC (clear_hint_chunk (gc_b st) src) (gc_dst st) (gc_stat st)) src R.
Proof. intros _ _ _. apply qb_same; reflexivity. Qed.

Lemma qb_inplace st src : GA st src [] -> gc_dst st = src -> QB st src [] ->
  forall b4, (b4 = gc_b st \/ b4 = set_nextgc (gc_b st) (S src)) -> QB (mkGC b4 (gc_dst st) (gc_stat st)) src [].
Proof. intros _ _ HQ b4 [->| ->]; apply (qb_same st); try reflexivity; exact HQ. Qed.

Lemma qb_clear st src : GA st src [] -> (gc_dst st < src)%nat -> (begin_ <= src <= end_)%nat -> QB st src [] ->
  forall b4, (b4 = clear_chunk (gc_b st) src \/ b4 = set_nextgc (clear_chunk (gc_b st) src) (S src)) -> QB (mkGC b4 (gc_dst st) (gc_stat st)) src [].
Proof.
  intros _ HD _ (HM & HT & HS & HR) b4 Hb4.
  assert (Hc : forall x, chunk_at b4 x = if Nat.eqb x src then chunk0 else chunk_at (gc_b st) x).
  { intros x. assert (E : chunk_at b4 x = chunk_at (clear_chunk (gc_b st) src) x) by (destruct Hb4 as [->| ->]; reflexivity). rewrite E. unfold clear_chunk.
    destruct (Nat.eqb_spec x src) as [->|Hne]; [apply chunk_at_set_same|apply chunk_at_set_other; congruence]. }
  assert (Ht : forall h, tree_get_slot b4 h = tree_get_slot (gc_b st) h) by (intros h; destruct Hb4 as [->| ->]; reflexivity).
  split; [apply (gm_same st); [exact Ht|reflexivity|exact HM]|]. split; [|split; [|exact HR]].
  - intros Hb c e H1 H2 H3 H4 H5. destruct (HT Hb c e H1 H2 H3 H4 H5) as (c' & e' & [Hin (Hr1 & Hr2 & Hr3)] & Hh). exists c', e'. split; [|exact Hh].
    unfold regrec, in_region. cbn [gc_b gc_dst]. rewrite !Hc. replace (Nat.eqb c' src) with false by (symmetry; apply Nat.eqb_neq; lia).
    replace (Nat.eqb (gc_dst st) src) with false by (symmetry; apply Nat.eqb_neq; lia). auto.
  - intros c e H1 H2. cbn [gc_b] in H2. rewrite Hc in H2. destruct (Nat.eqb c src); [destruct H2|now apply (HS c e)].
Qed.

Lemma qb_next st src : GA st src [] -> QB st src [] ->
  (gc_dst st <> src -> k_disk (chunk_at (gc_b st) src) = [] /\ k_size (chunk_at (gc_b st) src) = 0) -> (begin_ <= src)%nat -> (S src <= end_)%nat ->
  QB st (S src) (k_disk (chunk_at (gc_b st) (S src))).
Proof.
  intros ((_ & _ & G3 & _) & _) (HM & HT & HS & _) _ Hb He. cbv zeta in G3.
  assert (E : chunk_at (gc_b st) (S src) = chunk_at b0 (S src)) by (apply G3; right; lia).
  split; [exact HM|]. split; [|split; [exact HS|intros e He'; now rewrite <- E]].
  intros Hbg c e Hc Hin Hnot Hnone Hver. destruct (Nat.eq_dec c (S src)) as [Ec|Hne].
  - exfalso. apply (Hnot Ec). rewrite E, <- Ec. exact Hin.
  - apply (HT Hbg c e); try assumption; [lia|intros _ []].
Qed.

(* all the files of the range *)
Lemma qb_files n src st :
  GA st src (k_disk (chunk_at (gc_b st) src)) -> QB st src (k_disk (chunk_at (gc_b st) src)) ->
  (src + n < b_head b0)%nat -> (begin_ <= src)%nat -> (src + n <= end_)%nat ->
  (forall c, (c < b_head b0)%nat -> spaced (k_disk (chunk_at b0 c))) -> ((dst0 < src)%nat \/ W0 = 0) ->
  QB (fold_left (gc_file cf hf begin_) (seq src (S n)) st) (src + n)%nat [].
Proof.
  apply (gq_files cf hf K hf_inj cap_pos b0 begin_ end_ dst0 W0
           (fun st src => QB st src (k_disk (chunk_at (gc_b st) src))) QB (fun st src => QB st src [])).
  - intros st0 src0 R HA Hr -> HQ. now apply qb_hint.
  - exact qb_record.
  - exact qb_inplace.
  - exact qb_clear.
  - intros st0 src0 ((_ & _ & _ & G4 & _ & G6 & _) & _) _ Hz HQ. cbv zeta in G4, G6. now rewrite (gchunk_size0' _ (G4 src0 G6) Hz) in HQ.
  - intros st0 src0 HA HQ H5 Hb He. now apply qb_next.
Qed.
End B.

(* ---- the state after one GC step, in closed form ---- *)
Lemma gc_record_form cf hf begin_ src st off r :
  let st' := gc_record cf hf begin_ src st (off, r) in
  let b := gc_b st in let D := gc_dst st in let h := hf (d_key r) in
  (gc_b st' = b /\ gc_dst st' = D) \/
  exists b1 dst vh b3,
    ((b1 = b /\ dst = D /\ dsize r + k_whead (chunk_at b D) <= c_filemax cf) \/
     (b1 = begin_gc_writing (trydump (end_gc_writing b D) D true) (S D) src /\ dst = S D /\ c_filemax cf < dsize r + k_whead (chunk_at b D))) /\
    (let b2 := set_chunk b1 dst (append_gc_chunk (chunk_at b1 dst) r) in b3 = b2 \/ exists s, b3 = tree_put b2 h s) /\
    gc_b st' = hints_set cf b3 h (d_key r) (d_ver r) vh (mkPos dst (k_whead (chunk_at b1 dst))) (dsize r) true /\ gc_dst st' = dst /\
    ((exists s, tree_get_slot b h = Some s /\ s_pos s = mkPos src off /\ vh = s_vh s) \/
     (tree_get_slot b h = None /\ (d_ver r < 0)%Z) \/ snd (get_collision_gc b h (d_key r)) = true).
Proof.
  cbv zeta. set (b := gc_b st). set (D := gc_dst st). set (h := hf (d_key r)). set (oldp := mkPos src off).
  assert (Hcopy : forall gs' vh (found : option slot),
     ((exists s, tree_get_slot b h = Some s /\ s_pos s = oldp /\ vh = s_vh s) \/ (tree_get_slot b h = None /\ (d_ver r < 0)%Z) \/ snd (get_collision_gc b h (d_key r)) = true) ->
     let st' := (let '(b1, dst) := if c_filemax cf <? dsize r + k_whead (chunk_at b D)
                           then (begin_gc_writing (trydump (end_gc_writing b D) D true) (S D) src, S D) else (b, D) in
         let '(b2, noff) := append_gc b1 dst r in
         let b3 := match found with
                   | Some _ => match tree_get_slot b2 h with
                               | Some s => if gc_repoint_conditional && negb (pos_eqb (s_pos s) oldp) then b2
                                           else tree_put b2 h (mkSlot (mkPos dst noff) (s_ver s) (s_vh s))
                               | None => b2 end
                   | None => b2 end in
         mkGC (hints_set cf b3 h (d_key r) (d_ver r) vh (mkPos dst noff) (dsize r) true) dst gs') in
     exists b1 dst vh' b3,
       ((b1 = b /\ dst = D /\ dsize r + k_whead (chunk_at b D) <= c_filemax cf) \/
        (b1 = begin_gc_writing (trydump (end_gc_writing b D) D true) (S D) src /\ dst = S D /\ c_filemax cf < dsize r + k_whead (chunk_at b D))) /\
       (let b2 := set_chunk b1 dst (append_gc_chunk (chunk_at b1 dst) r) in b3 = b2 \/ exists s, b3 = tree_put b2 h s) /\
       gc_b st' = hints_set cf b3 h (d_key r) (d_ver r) vh' (mkPos dst (k_whead (chunk_at b1 dst))) (dsize r) true /\ gc_dst st' = dst /\
       ((exists s, tree_get_slot b h = Some s /\ s_pos s = oldp /\ vh' = s_vh s) \/ (tree_get_slot b h = None /\ (d_ver r < 0)%Z) \/ snd (get_collision_gc b h (d_key r)) = true)).
  { intros gs' vh found Hvh. cbv zeta. destruct (c_filemax cf <? dsize r + k_whead (chunk_at b D)) eqn:Efull; rewrite append_gc_eq.
    - eexists _, (S D), vh, _. split; [right; split; [reflexivity|split; [reflexivity|lia]]|]. split; [|split; [reflexivity|split; [reflexivity|exact Hvh]]].
      cbv zeta. destruct found as [f|]; [|now left]. match goal with |- (match ?t with Some _ => _ | None => _ end = _ \/ _) => destruct t end; [|now left]. destruct (_ && _); [now left|right; eauto].
    - eexists b, D, vh, _. split; [left; split; [reflexivity|split; [reflexivity|lia]]|]. split; [|split; [reflexivity|split; [reflexivity|exact Hvh]]].
      cbv zeta. destruct found as [f|]; [|now left]. match goal with |- (match ?t with Some _ => _ | None => _ end = _ \/ _) => destruct t end; [|now left]. destruct (_ && _); [now left|right; eauto]. }
  unfold gc_record. fold b D h oldp.
  destruct (tree_get_slot b h) as [s|] eqn:Es.
  - destruct (pos_eqb oldp (s_pos s)) eqn:Ep.
    + cbn [negb]. right. apply (Hcopy _ _ (Some s)). left. exists s. apply pos_eqb_eq in Ep. auto.
    + destruct (get_collision_gc b h (d_key r)) as [[[it ck]|] []] eqn:Ec; try (cbn [negb]; left; split; reflexivity).
      * destruct (pos_eqb (mkPos ck (hi_off it)) oldp); cbn [negb]; [right; apply (Hcopy _ _ (Some s)); right; right; reflexivity|left; split; reflexivity].
      * cbn [negb]. right. apply (Hcopy _ _ (Some s)). right. right. reflexivity.
  - destruct (Nat.ltb 0 begin_ && (d_ver r <? 0)%Z) eqn:En; cbn [negb]; [|left; split; reflexivity].
    right. apply (Hcopy _ _ None). right. left. split; [reflexivity|]. apply andb_prop in En as [_ En]. lia.
Qed.
