(* C14: the k-way merge of hint files (hintmerge.go) yields, for each (hash, key), the entry with the greatest
   position, in (hash, key) order, and reports every group of different keys sharing a hash. *)
From Coq Require Import NArith ZArith List Bool Lia ZifyN ZifyNat ZifyBool Sorting.Sorted Sorting.Permutation.
From GB Require Import Consts Words HintFile Bits BucketBasics.
Import ListNotations.
Open Scope N_scope.

(* ---- the byte-string order ---- *)
Lemma bytes_ltb_irrefl a : bytes_ltb a a = false.
Proof. induction a as [|x a IH]; cbn [bytes_ltb]; [reflexivity|]. now rewrite N.ltb_irrefl. Qed.

Lemma bytes_ltb_trans a : forall b c, bytes_ltb a b = true -> bytes_ltb b c = true -> bytes_ltb a c = true.
Proof.
  induction a as [|x a IH]; intros b c H1 H2; destruct b as [|y b]; destruct c as [|z c]; cbn [bytes_ltb] in *; try discriminate; try reflexivity.
  destruct (x <? y) eqn:E1; destruct (y <? z) eqn:E2.
  - replace (x <? z) with true by (symmetry; apply N.ltb_lt; lia). reflexivity.
  - destruct (z <? y) eqn:E3; [discriminate|]. replace (x <? z) with true by (symmetry; apply N.ltb_lt; lia). reflexivity.
  - destruct (y <? x) eqn:E3; [discriminate|]. replace (x <? z) with true by (symmetry; apply N.ltb_lt; lia). reflexivity.
  - destruct (y <? x) eqn:E3; [discriminate|]. destruct (z <? y) eqn:E4; [discriminate|].
    replace (x <? z) with false by (symmetry; apply N.ltb_ge; lia). replace (z <? x) with false by (symmetry; apply N.ltb_ge; lia).
    now apply (IH b c).
Qed.

Lemma bytes_ltb_total a : forall b, bytes_ltb a b = false -> bytes_ltb b a = false -> a = b.
Proof.
  induction a as [|x a IH]; intros b H1 H2; destruct b as [|y b]; cbn [bytes_ltb] in *; try discriminate; [reflexivity|].
  destruct (x <? y) eqn:E1; [discriminate|]. destruct (y <? x) eqn:E2; [discriminate|].
  assert (x = y) by lia. subst y. f_equal. now apply IH.
Qed.

(* ---- the merge order: (hash, key, position) ---- *)
Definition lt := merge_ltb.
Definition le (a b : hitem) : Prop := lt b a = false.
Definition shk (a b : hitem) : Prop := hi_hash a = hi_hash b /\ hi_key a = hi_key b.

Lemma same_hk_iff a b : same_hk a b = true <-> shk a b.
Proof.
  unfold same_hk, shk. rewrite andb_true_iff, N.eqb_eq, bytes_eqb_eq. tauto.
Qed.

Lemma lt_cases a b : lt a b = true <->
  hi_hash a < hi_hash b \/ (hi_hash a = hi_hash b /\ bytes_ltb (hi_key a) (hi_key b) = true) \/ (shk a b /\ pos_key a < pos_key b).
Proof.
  unfold lt, merge_ltb, shk. destruct (N.eqb_spec (hi_hash a) (hi_hash b)) as [Eh|Nh]; cbn [negb].
  - destruct (bytes_eqb (hi_key a) (hi_key b)) eqn:Ek; cbn [negb].
    + apply bytes_eqb_eq in Ek. rewrite N.ltb_lt. rewrite Ek, bytes_ltb_irrefl. split; [intros H; right; right; auto|]. intros [H|[[_ H]|[_ H]]]; [lia|discriminate|exact H].
    + split; [intros H; right; left; auto|]. intros [H|[[_ H]|[[_ H] _]]]; [lia|exact H|]. rewrite H, bytes_eqb_refl in Ek. discriminate.
  - rewrite N.ltb_lt. split; [auto|]. intros [H|[[H _]|[[H _] _]]]; [exact H|contradiction|contradiction].
Qed.

Lemma lt_irrefl a : lt a a = false.
Proof. destruct (lt a a) eqn:E; [|reflexivity]. apply lt_cases in E. rewrite bytes_ltb_irrefl in E. destruct E as [H|[[_ H]|[_ H]]]; [lia|discriminate|lia]. Qed.

Lemma lt_trans a b c : lt a b = true -> lt b c = true -> lt a c = true.
Proof.
  intros H1 H2. apply lt_cases in H1, H2. apply lt_cases. unfold shk in *.
  destruct H1 as [H1|[[E1 K1]|[[E1 K1] P1]]]; destruct H2 as [H2|[[E2 K2]|[[E2 K2] P2]]]; try (left; lia).
  - right. left. split; [lia|]. now apply (bytes_ltb_trans _ (hi_key b)).
  - right. left. split; [lia|]. now rewrite <- K2.
  - right. left. split; [lia|]. now rewrite K1.
  - right. right. split; [split; congruence|lia].
Qed.

Lemma lt_total a b : lt a b = false -> lt b a = false -> shk a b /\ pos_key a = pos_key b.
Proof.
  intros H1 H2.
  assert (Hh : hi_hash a = hi_hash b).
  { destruct (N.lt_trichotomy (hi_hash a) (hi_hash b)) as [H|[H|H]]; [|exact H|].
    - assert (lt a b = true) by (apply lt_cases; now left). congruence.
    - assert (lt b a = true) by (apply lt_cases; now left). congruence. }
  assert (Hk : hi_key a = hi_key b).
  { apply bytes_ltb_total.
    - destruct (bytes_ltb (hi_key a) (hi_key b)) eqn:E; [|reflexivity]. assert (lt a b = true) by (apply lt_cases; right; left; auto). congruence.
    - destruct (bytes_ltb (hi_key b) (hi_key a)) eqn:E; [|reflexivity]. assert (lt b a = true) by (apply lt_cases; right; left; auto). congruence. }
  split; [split; assumption|].
  destruct (N.lt_trichotomy (pos_key a) (pos_key b)) as [H|[H|H]]; [|exact H|].
  - assert (lt a b = true) by (apply lt_cases; right; right; unfold shk; auto). congruence.
  - assert (lt b a = true) by (apply lt_cases; right; right; unfold shk; auto). congruence.
Qed.

Lemma le_refl a : le a a. Proof. apply lt_irrefl. Qed.
Lemma le_trans a b c : le a b -> le b c -> le a c.
Proof.
  unfold le. intros H1 H2. destruct (lt c a) eqn:E; [|reflexivity]. exfalso.
  (* c < a: compare b with a *)
  destruct (lt b c) eqn:E2.
  - rewrite (lt_trans b c a E2 E) in H1. discriminate.
  - destruct (lt_total b c E2 H2) as [[Hh Hk] Hp].
    assert (lt b a = true); [|congruence]. apply lt_cases in E. apply lt_cases. unfold shk in *.
    destruct E as [H|[[H K]|[[H K] P]]]; [left; lia|right; left; split; [lia|now rewrite Hk]|right; right; split; [split; congruence|lia]].
Qed.
Lemma lt_le a b : lt a b = true -> le a b.
Proof. intros H. unfold le. destruct (lt b a) eqn:E; [|reflexivity]. pose proof (lt_trans a b a H E) as Hc. rewrite lt_irrefl in Hc. discriminate. Qed.
Lemma nlt_le a b : lt a b = false -> le b a. Proof. auto. Qed.

(* ---- the k-way merge ---- *)
Definition sortedL (l : list hitem) : Prop := StronglySorted le l.

Definition head_ok (x : hitem) (s : list hitem) : Prop := match s with [] => True | y :: _ => le x y end.
Definition head_gt (x : hitem) (s : list hitem) : Prop := match s with [] => True | y :: _ => lt x y = true end.

Lemma min_head_spec srcs : forall x, min_head srcs = Some x ->
  Forall (head_ok x) srcs /\ exists pre l post, srcs = pre ++ (x :: l) :: post /\ Forall (head_gt x) pre.
Proof.
  induction srcs as [|s t IH]; intros x H; cbn [min_head] in H; [discriminate|].
  destruct s as [|y r].
  - destruct (IH x H) as (A & pre & l & post & E & G). split; [constructor; [exact I|exact A]|].
    exists ([] :: pre), l, post. split; [now rewrite E|constructor; [exact I|exact G]].
  - destruct (min_head t) as [z|] eqn:Ez.
    + destruct (IH z eq_refl) as (A & pre & l & post & E & G). destruct (merge_ltb z y) eqn:Ezy; injection H as <-.
      * split.
        -- constructor; [cbn [head_ok]; now apply lt_le|exact A].
        -- exists ((y :: r) :: pre), l, post. split; [now rewrite E|constructor; [exact Ezy|exact G]].
      * split.
        -- constructor; [apply le_refl|]. eapply Forall_impl; [|exact A]. intros s Hs. destruct s as [|u v]; [exact I|]. cbn [head_ok] in *.
           apply (le_trans y z u); [exact Ezy|exact Hs].
        -- exists [], r, t. split; [reflexivity|constructor].
    + injection H as <-. split.
      * constructor; [apply le_refl|]. clear IH. induction t as [|s t IHt]; [constructor|]. cbn [min_head] in Ez.
        destruct s as [|u v]; [constructor; [exact I|now apply IHt]|]. destruct (min_head t); [destruct (merge_ltb _ u)|]; discriminate.
      * exists [], r, t. split; [reflexivity|constructor].
Qed.

Lemma min_head_none srcs : min_head srcs = None -> concat srcs = [].
Proof.
  induction srcs as [|s t IH]; intros H; [reflexivity|]. cbn [min_head] in H. destruct s as [|y r]; [cbn [concat app]; now apply IH|].
  destruct (min_head t); [destruct (merge_ltb _ y)|]; discriminate.
Qed.

Lemma pop_item_spec x pre l post : Forall (head_gt x) pre -> pop_item x (pre ++ (x :: l) :: post) = pre ++ l :: post.
Proof.
  induction 1 as [|s pre Hs _ IH]; cbn [app pop_item].
  - fold lt. rewrite lt_irrefl. reflexivity.
  - destruct s as [|y r]; [now rewrite IH|]. cbn [head_gt] in Hs. fold lt. rewrite Hs. cbn [negb andb]. now rewrite IH.
Qed.

Lemma sortedL_tail x l : sortedL (x :: l) -> sortedL l /\ Forall (le x) l.
Proof. intros H. inversion H; subst. auto. Qed.

Theorem kway_spec : forall fuel srcs, Forall sortedL srcs -> (length (concat srcs) <= fuel)%nat ->
  Permutation (kway fuel srcs) (concat srcs) /\ sortedL (kway fuel srcs).
Proof.
  induction fuel as [|f IH]; intros srcs Hs Hlen.
  - cbn [kway]. destruct (concat srcs); [split; [constructor|constructor]|cbn [length] in Hlen; lia].
  - cbn [kway]. destruct (min_head srcs) as [x|] eqn:Em.
    + destruct (min_head_spec srcs x Em) as (Hmin & pre & l & post & E & G). rewrite E, (pop_item_spec x pre l post G).
      assert (Hs' : Forall sortedL (pre ++ l :: post)).
      { rewrite E in Hs. apply Forall_app in Hs as [H1 H2]. inversion H2 as [|? ? Hx H3]; subst. apply Forall_app. split; [exact H1|]. constructor; [apply (sortedL_tail x l Hx)|exact H3]. }
      assert (Hperm : Permutation (x :: concat (pre ++ l :: post)) (concat (pre ++ (x :: l) :: post))).
      { rewrite !concat_app. cbn [concat app]. apply Permutation_middle. }
      assert (Hlen' : (length (concat (pre ++ l :: post)) <= f)%nat).
      { rewrite E in Hlen. rewrite <- (Permutation_length Hperm) in Hlen. cbn [length] in Hlen. lia. }
      destruct (IH _ Hs' Hlen') as [P1 P2]. split; [rewrite <- Hperm; now constructor|].
      constructor; [exact P2|]. apply Forall_forall. intros y Hy. apply (Permutation_in _ P1) in Hy.
      (* x is below every head, every list is sorted *)
      assert (Hall : forall s, In s srcs -> Forall (le x) s).
      { intros s Hin. rewrite Forall_forall in Hmin, Hs. specialize (Hmin s Hin). specialize (Hs s Hin). destruct s as [|u v]; [constructor|].
        cbn [head_ok] in Hmin. destruct (sortedL_tail u v Hs) as [_ Hv]. constructor; [exact Hmin|]. eapply Forall_impl; [|exact Hv]. intros w Hw. now apply (le_trans x u w). }
      apply in_concat in Hy as (s & Hin & Hys).
      apply in_app_or in Hin as [Hin|[<-|Hin]].
      * specialize (Hall s ltac:(rewrite E; apply in_or_app; now left)). rewrite Forall_forall in Hall. now apply Hall.
      * specialize (Hall (x :: l) ltac:(rewrite E; apply in_or_app; right; now left)). rewrite Forall_forall in Hall. apply Hall. now right.
      * specialize (Hall s ltac:(rewrite E; apply in_or_app; right; now right)). rewrite Forall_forall in Hall. now apply Hall.
    + rewrite (min_head_none srcs Em). split; constructor.
Qed.

(* ---- the merge writer: of consecutive entries with the same (hash, key) only the last survives ---- *)
Fixpoint keep_last (l : list hitem) : list hitem :=
  match l with
  | [] => []
  | a :: t => match t with
              | [] => [a]
              | b :: _ => if same_hk a b then keep_last t else a :: keep_last t
              end
  end.

Lemma rev'_rev {A} (l : list A) : rev' l = rev l.
Proof. unfold rev'. rewrite rev_append_rev. apply app_nil_r. Qed.

Lemma mw_groups_concat l : forall last cur', concat (mw_groups l (last :: cur')) = rev cur' ++ keep_last (last :: l).
Proof.
  induction l as [|it t IH]; intros last cur'.
  - cbn [mw_groups concat keep_last]. rewrite rev'_rev. cbn [rev]. now rewrite app_nil_r.
  - cbn [mw_groups]. cbn [keep_last]. unfold same_hk.
    destruct (hi_hash last =? hi_hash it) eqn:Eh; cbn [negb andb].
    + destruct (bytes_eqb (hi_key last) (hi_key it)) eqn:Ek; cbn [negb].
      * apply IH.
      * rewrite IH. cbn [rev]. now rewrite <- app_assoc.
    + cbn [concat]. rewrite rev'_rev. cbn [rev]. rewrite IH. cbn [rev app]. now rewrite <- app_assoc.
Qed.

Lemma mw_groups_keep_last l : concat (mw_groups l []) = keep_last l.
Proof. destruct l as [|a t]; [reflexivity|]. cbn [mw_groups]. now rewrite mw_groups_concat. Qed.

Definition hklt (a b : hitem) : Prop :=
  hi_hash a < hi_hash b \/ (hi_hash a = hi_hash b /\ bytes_ltb (hi_key a) (hi_key b) = true).

Lemma le_cases a b : le a b -> shk a b \/ hklt a b.
Proof.
  intros H. destruct (lt a b) eqn:E.
  - apply lt_cases in E. destruct E as [E|[E|[E _]]]; [right; now left|right; now right|now left].
  - left. apply (lt_total a b E H).
Qed.
Lemma hklt_not_le a b : hklt a b -> le b a -> False.
Proof. intros H Hle. unfold le in Hle. assert (lt a b = true) by (apply lt_cases; destruct H; auto). congruence. Qed.
Lemma le_shk_pos a b : le a b -> shk a b -> pos_key a <= pos_key b.
Proof.
  intros H [Hh Hk]. destruct (N.le_gt_cases (pos_key a) (pos_key b)) as [|Hgt]; [assumption|]. exfalso.
  assert (lt b a = true) by (apply lt_cases; right; right; unfold shk; auto). unfold le in H. congruence.
Qed.
Lemma shk_sym a b : shk a b -> shk b a. Proof. intros [H1 H2]. split; auto. Qed.
Lemma shk_trans a b c : shk a b -> shk b c -> shk a c. Proof. intros [H1 H2] [H3 H4]. split; congruence. Qed.
Lemma hklt_shk_l a a' b : shk a a' -> hklt a b -> hklt a' b.
Proof. intros [H1 H2] H. unfold hklt in *. now rewrite <- H1, <- H2. Qed.

Lemma keep_last_in l : forall it, In it (keep_last l) -> In it l.
Proof.
  induction l as [|a t IH]; intros it H; [destruct H|]. cbn [keep_last] in H. destruct t as [|b t'].
  - exact H.
  - destruct (same_hk a b); [right; now apply IH|]. destruct H as [<-|H]; [now left|right; now apply IH].
Qed.

Lemma keep_last_covers l : forall y, In y l -> exists it, In it (keep_last l) /\ shk y it.
Proof.
  induction l as [|a t IH]; intros y Hy; [destruct Hy|]. cbn [keep_last]. destruct t as [|b t'].
  - destruct Hy as [<-|[]]. exists a. split; [now left|split; reflexivity].
  - destruct (same_hk a b) eqn:E.
    + destruct Hy as [<-|Hy]; [|now apply IH]. apply same_hk_iff in E.
      destruct (IH b (or_introl eq_refl)) as (it & Hin & Hs). exists it. split; [exact Hin|now apply (shk_trans a b it)].
    + destruct Hy as [<-|Hy]; [exists a; split; [now left|split; reflexivity]|].
      destruct (IH y Hy) as (it & Hin & Hs). exists it. split; [now right|exact Hs].
Qed.

Lemma keep_last_max l : sortedL l -> forall it, In it (keep_last l) -> forall y, In y l -> shk y it -> pos_key y <= pos_key it.
Proof.
  induction l as [|a t IH]; intros Hs it Hit y Hy Hsh; [destruct Hy|].
  destruct (sortedL_tail a t Hs) as [Hst Hall]. rewrite Forall_forall in Hall.
  cbn [keep_last] in Hit. destruct t as [|b t'].
  - destruct Hit as [<-|[]]. destruct Hy as [<-|[]]. lia.
  - destruct (same_hk a b) eqn:E.
    + pose proof (keep_last_in _ it Hit) as Hin. destruct Hy as [<-|Hy]; [|now apply (IH Hst it Hit y Hy)].
      apply le_shk_pos; [now apply Hall|exact Hsh].
    + assert (Hnab : ~ shk a b) by (intros H; apply same_hk_iff in H; congruence).
      assert (Hab : hklt a b) by (destruct (le_cases a b (Hall b (or_introl eq_refl))); [contradiction|assumption]).
      assert (Hb_le : forall z, In z (b :: t') -> le b z).
      { intros z [<-|Hz]; [apply le_refl|]. destruct (sortedL_tail b t' Hst) as [_ Hb]. rewrite Forall_forall in Hb. now apply Hb. }
      destruct Hit as [<-|Hit].
      * destruct Hy as [<-|Hy]; [lia|]. exfalso. apply (hklt_not_le y b); [|now apply Hb_le]. apply (hklt_shk_l a y b); [now apply shk_sym|exact Hab].
      * pose proof (keep_last_in _ it Hit) as Hin. destruct Hy as [<-|Hy]; [|now apply (IH Hst it Hit y Hy)].
        exfalso. apply (hklt_not_le it b); [|now apply Hb_le]. apply (hklt_shk_l a it b); [exact Hsh|exact Hab].
Qed.

Lemma keep_last_forall (P : hitem -> Prop) l : Forall P l -> Forall P (keep_last l).
Proof. intros H. apply Forall_forall. intros x Hx. rewrite Forall_forall in H. apply H. now apply keep_last_in. Qed.

Lemma keep_last_sorted l : sortedL l -> sortedL (keep_last l).
Proof.
  induction l as [|a t IH]; intros Hs; [constructor|]. destruct (sortedL_tail a t Hs) as [Hst Hall].
  cbn [keep_last]. destruct t as [|b t']; [exact Hs|]. destruct (same_hk a b); [now apply IH|].
  constructor; [now apply IH|now apply keep_last_forall].
Qed.

(* ---- hint_merge: the merged list ---- *)
Definition tagged (srcs : list (N * list hitem * N)) : list (list hitem) := map (fun s => tag_chunk (fst (fst s)) (snd (fst s))) srcs.

Lemma total_len (lists : list (list hitem)) : fold_right (fun l n => (length l + n)%nat) O lists = length (concat lists).
Proof. induction lists as [|l t IH]; cbn [fold_right concat]; [reflexivity|]. now rewrite app_length, IH. Qed.

Lemma merged_eq srcs ct : fst (fst (hint_merge srcs ct)) = keep_last (kway (length (concat (tagged srcs))) (tagged srcs)).
Proof. unfold hint_merge. cbn [fst]. fold (tagged srcs). rewrite total_len. apply mw_groups_keep_last. Qed.

Theorem merge_spec srcs ct :
  Forall sortedL (tagged srcs) ->
  let merged := fst (fst (hint_merge srcs ct)) in let all := concat (tagged srcs) in
  (forall it, In it merged -> In it all /\ forall y, In y all -> shk y it -> pos_key y <= pos_key it) /\
  (forall y, In y all -> exists it, In it merged /\ shk y it) /\
  sortedL merged.
Proof.
  intros Hs. cbv zeta. rewrite merged_eq. destruct (kway_spec _ (tagged srcs) Hs (le_n _)) as [Hp Hsorted].
  set (k := kway _ _) in *. split; [|split].
  - intros it Hit. split; [apply (Permutation_in _ Hp); now apply keep_last_in|].
    intros y Hy Hsh. apply (keep_last_max k Hsorted it Hit y); [apply (Permutation_in _ (Permutation_sym Hp)); exact Hy|exact Hsh].
  - intros y Hy. apply keep_last_covers. apply (Permutation_in _ (Permutation_sym Hp)). exact Hy.
  - now apply keep_last_sorted.
Qed.

(* a source file: sorted by (hash, key), each pair at most once; tagging with the file's chunk id keeps that *)
Lemma tag_sorted ck l : StronglySorted hklt l -> sortedL (tag_chunk ck l).
Proof.
  unfold tag_chunk. induction 1 as [|a l Hs IH Hall]; cbn [map]; [constructor|]. constructor; [exact IH|].
  apply Forall_forall. intros y Hy. apply in_map_iff in Hy as (x & <- & Hx). rewrite Forall_forall in Hall. specialize (Hall x Hx).
  apply lt_le. apply lt_cases. unfold hklt in Hall. cbn [hi_hash hi_key]. destruct Hall; auto.
Qed.

(* ---- hint_merge: the collision table ---- *)
Definition covers (t : ctab) (a : hitem) : Prop := exists e, In e t /\ shk e a.

Lemma ct_set_new t it : covers (ct_set t it) it.
Proof.
  induction t as [|x r IH]; cbn [ct_set]; [exists it; split; [now left|split; reflexivity]|].
  destruct (same_hk x it) eqn:E.
  - apply same_hk_iff in E. destruct (pos_key x <=? pos_key it); [exists it; split; [now left|split; reflexivity]|exists x; split; [now left|exact E]].
  - destruct IH as (e & He & Hs). exists e. split; [now right|exact Hs].
Qed.
Lemma ct_set_old t it a : covers t a -> covers (ct_set t it) a.
Proof.
  induction t as [|x r IH]; intros (e & He & Hs); [destruct He|]. cbn [ct_set]. destruct (same_hk x it) eqn:E.
  - destruct He as [<-|He]; [|exists e; split; [now right|exact Hs]]. apply same_hk_iff in E.
    destruct (pos_key x <=? pos_key it); [exists it; split; [now left|apply (shk_trans it x a); [now apply shk_sym|exact Hs]]|exists x; split; [now left|exact Hs]].
  - destruct He as [<-|He]; [exists x; split; [now left|exact Hs]|]. destruct (IH (ex_intro _ e (conj He Hs))) as (e' & He' & Hs'). exists e'. split; [now right|exact Hs'].
Qed.
Lemma fold_ct_set_old g : forall t a, covers t a -> covers (fold_left ct_set g t) a.
Proof. induction g as [|x g IH]; intros t a H; cbn [fold_left]; [exact H|]. apply IH. now apply ct_set_old. Qed.
Lemma fold_ct_set_new g : forall t a, In a g -> covers (fold_left ct_set g t) a.
Proof. induction g as [|x g IH]; intros t a H; [destruct H|]. destruct H as [<-|H]; cbn [fold_left]; [apply fold_ct_set_old, ct_set_new|now apply IH]. Qed.

Definition report (t : ctab) (g : list hitem) : ctab := match g with _ :: _ :: _ => fold_left ct_set g t | _ => t end.
Lemma report_old g t a : covers t a -> covers (report t g) a.
Proof. intros H. destruct g as [|x [|y r]]; cbn [report]; [exact H|exact H|now apply fold_ct_set_old]. Qed.
Lemma reports_old G : forall t a, covers t a -> covers (fold_left report G t) a.
Proof. induction G as [|g G IH]; intros t a H; cbn [fold_left]; [exact H|]. apply IH. now apply report_old. Qed.
Lemma reports_new G : forall t g a b, In g G -> In a g -> In b g -> a <> b -> covers (fold_left report G t) a.
Proof.
  induction G as [|g0 G IH]; intros t g a b Hg Ha Hb Hne; [destruct Hg|]. destruct Hg as [<-|Hg]; cbn [fold_left]; [|now apply (IH _ g a b)].
  apply reports_old. destruct g0 as [|x [|y r]]; [destruct Ha| |cbn [report]; now apply fold_ct_set_new].
  destruct Ha as [<-|[]]. destruct Hb as [<-|[]]. contradiction.
Qed.

Lemma sorted_remove_mid {A} (R : A -> A -> Prop) (a : list A) x b : StronglySorted R (a ++ x :: b) -> StronglySorted R (a ++ b).
Proof.
  induction a as [|y a IH]; cbn [app]; intros H; inversion H as [|? ? Hs Hall]; subst; [exact Hs|].
  constructor; [now apply IH|]. rewrite Forall_app in *. destruct Hall as [H1 H2]. inversion H2; subst. split; assumption.
Qed.

Lemma le_hash a b : le a b -> hi_hash a <= hi_hash b.
Proof. intros H. destruct (le_cases a b H) as [[E _]|[E|[E _]]]; lia. Qed.

(* items with equal hashes end up in the same group *)
Lemma mw_groups_same_hash l : forall cur, sortedL (rev cur ++ l) -> (forall u v, In u cur -> In v cur -> hi_hash u = hi_hash v) ->
  forall x y, In x (concat (mw_groups l cur)) -> In y (concat (mw_groups l cur)) -> hi_hash x = hi_hash y ->
  exists g, In g (mw_groups l cur) /\ In x g /\ In y g.
Proof.
  induction l as [|it t IH]; intros cur Hs Hcur x y Hx Hy Hxy.
  - cbn [mw_groups] in *. destruct cur as [|c cur']; [destruct Hx|]. cbn [concat] in Hx, Hy. rewrite app_nil_r in Hx, Hy.
    exists (rev' (c :: cur')). split; [now left|split; assumption].
  - cbn [mw_groups] in *. destruct cur as [|last cur'].
    + apply (IH [it]); try assumption. intros u v [<-|[]] [<-|[]]. reflexivity.
    + destruct (hi_hash last =? hi_hash it) eqn:Eh; cbn [negb] in *.
      * apply N.eqb_eq in Eh. destruct (bytes_eqb (hi_key last) (hi_key it)); cbn [negb] in *.
        -- apply (IH (it :: cur')); try assumption.
           ++ replace (rev (it :: cur') ++ t) with (rev cur' ++ it :: t) by (cbn [rev]; now rewrite <- app_assoc).
              replace (rev (last :: cur') ++ it :: t) with (rev cur' ++ last :: it :: t) in Hs by (cbn [rev]; now rewrite <- app_assoc).
              now apply (sorted_remove_mid le (rev cur') last (it :: t)).
           ++ intros u v Hu Hv. assert (Hc : forall w, In w (it :: cur') -> hi_hash w = hi_hash last).
              { intros w [<-|Hw]; [now symmetry|]. apply Hcur; [now right|now left]. }
              now rewrite (Hc u Hu), (Hc v Hv).
        -- apply (IH (it :: last :: cur')); try assumption.
           ++ replace (rev (it :: last :: cur') ++ t) with (rev (last :: cur') ++ it :: t) by (cbn [rev]; now rewrite <- !app_assoc). exact Hs.
           ++ intros u v Hu Hv. assert (Hc : forall w, In w (it :: last :: cur') -> hi_hash w = hi_hash last).
              { intros w [<-|Hw]; [now symmetry|]. apply Hcur; [exact Hw|now left]. }
              now rewrite (Hc u Hu), (Hc v Hv).
      * apply N.eqb_neq in Eh. cbn [concat] in Hx, Hy. rewrite rev'_rev in *.
        assert (Hrest : forall z, In z (concat (mw_groups t [it])) -> hi_hash last < hi_hash z).
        { intros z Hz. rewrite mw_groups_concat in Hz. cbn [rev app] in Hz. apply keep_last_in in Hz.
          cbn [rev] in Hs. rewrite <- app_assoc in Hs. cbn [app] in Hs.
          assert (Hs2 : sortedL (last :: it :: t)).
          { clear -Hs. induction (rev cur') as [|w r IHr]; [exact Hs|]. cbn [app] in Hs. inversion Hs; subst. now apply IHr. }
          destruct (sortedL_tail _ _ Hs2) as [Hs3 Hl]. rewrite Forall_forall in Hl.
          pose proof (le_hash last it (Hl it (or_introl eq_refl))) as H1.
          destruct Hz as [<-|Hz]; [lia|]. destruct (sortedL_tail _ _ Hs3) as [_ Hi]. rewrite Forall_forall in Hi. pose proof (le_hash it z (Hi z Hz)). lia. }
        assert (Hcurh : forall z, In z (rev (last :: cur')) -> hi_hash z = hi_hash last) by (intros z Hz; apply in_rev in Hz; apply Hcur; [exact Hz|now left]).
        apply in_app_or in Hx, Hy. destruct Hx as [Hx|Hx]; destruct Hy as [Hy|Hy].
        -- exists (rev (last :: cur')). split; [now left|split; assumption].
        -- exfalso. pose proof (Hcurh x Hx). pose proof (Hrest y Hy). lia.
        -- exfalso. pose proof (Hcurh y Hy). pose proof (Hrest x Hx). lia.
        -- destruct (IH [it]) with (x := x) (y := y) as (g & Hg & Hgx & Hgy); try assumption.
           ++ cbn [rev app]. cbn [rev] in Hs. rewrite <- app_assoc in Hs. cbn [app] in Hs.
              clear -Hs. induction (rev cur') as [|w r IHr]; [cbn [app] in Hs; now inversion Hs|]. cbn [app] in Hs. inversion Hs; subst. now apply IHr.
           ++ intros u v [<-|[]] [<-|[]]. reflexivity.
           ++ exists g. split; [now right|split; assumption].
Qed.

Theorem merge_reports_collisions srcs ct :
  Forall sortedL (tagged srcs) ->
  let ct' := snd (hint_merge srcs ct) in let all := concat (tagged srcs) in
  (forall a, covers ct a -> covers ct' a) /\
  (forall a b, In a all -> In b all -> hi_hash a = hi_hash b -> hi_key a <> hi_key b -> covers ct' a /\ covers ct' b).
Proof.
  intros Hs. cbv zeta. unfold hint_merge. cbn [snd]. fold (tagged srcs). rewrite total_len.
  destruct (kway_spec _ (tagged srcs) Hs (le_n _)) as [Hp Hsorted]. set (k := kway _ _) in *.
  change (fold_left (fun t g => match g with _ :: _ :: _ => fold_left ct_set g t | _ => t end) (mw_groups k []) ct) with (fold_left report (mw_groups k []) ct).
  split; [intros a; apply reports_old|]. intros a b Ha Hb Hh Hk.
  apply (Permutation_in _ (Permutation_sym Hp)) in Ha, Hb.
  destruct (keep_last_covers k a Ha) as (a' & Ha' & Sa). destruct (keep_last_covers k b Hb) as (b' & Hb' & Sb).
  rewrite <- mw_groups_keep_last in Ha', Hb'.
  destruct (mw_groups_same_hash k [] Hsorted ltac:(intros u v []) a' b' Ha' Hb') as (g & Hg & Hga & Hgb).
  { destruct Sa as [E1 _]. destruct Sb as [E2 _]. congruence. }
  assert (Hne : a' <> b') by (intros E; subst b'; destruct Sa as [_ K1]; destruct Sb as [_ K2]; congruence).
  pose proof (reports_new (mw_groups k []) ct g a' b' Hg Hga Hgb Hne) as (e1 & He1 & Hs1).
  pose proof (reports_new (mw_groups k []) ct g b' a' Hg Hgb Hga (fun E => Hne (eq_sym E))) as (e2 & He2 & Hs2).
  split; [exists e1; split; [exact He1|apply (shk_trans e1 a' a Hs1); now apply shk_sym]|exists e2; split; [exact He2|apply (shk_trans e2 b' b Hs2); now apply shk_sym]].
Qed.
