(* C04: every interleaving of atomic writer steps and two-step reads is linearizable against the
   reference map, each read taking effect at its position lookup. *)
From Coq Require Import NArith ZArith List Bool Lia ZifyN ZifyNat ZifyBool String.
From GB Require Import Consts Words Hash HintFile HTree Compress Bucket BucketOpen Gc CheckL2 RefMap Sched
     BucketBasics Refine GcTouch LogMono.
Import ListNotations.
Open Scope N_scope.

(* ------------------------------------------------------------------ the concurrent specification *)
Inductive sev :=
| SAtomic (so : sop)
| SBegin (c : nat) (k : bytes) (meta : bool)
| SEnd (c : nat).

Definition spending := list (nat * pout).

(* a read takes effect -- is linearized -- when it begins; its reply is delivered when it ends *)
Definition s_cstep (chk : bool) (st : smap * spending) (e : sev) : (smap * spending) * option pout :=
  let '(m, ps) := st in
  match e with
  | SAtomic so => let '(m', x) := spec_step chk m so in ((m', ps), Some x)
  | SBegin c k meta => ((m, (c, snd (spec_step chk m (if meta then SMeta k else SGet k))) :: ps), None)
  | SEnd c => match take_pending c ps with
              | Some (x, ps') => ((m, ps'), Some x)
              | None => ((m, ps), None)
              end
  end.

Fixpoint s_crun (chk : bool) (st : smap * spending) (evs : list sev) : list pout :=
  match evs with
  | [] => []
  | e :: t => let '(st', x) := s_cstep chk st e in
              match x with Some y => y :: s_crun chk st' t | None => s_crun chk st' t end
  end.

Definition sev_of (e : cev) : option sev :=
  match e with
  | CAtomic o => match sop_of o with Some so => Some (SAtomic so) | None => None end
  | CBegin c k meta => Some (SBegin c (unhex k) meta)
  | CEnd c => Some (SEnd c)
  end.

Fixpoint sevs_of (evs : list cev) : option (list sev) :=
  match evs with
  | [] => Some []
  | e :: t => match sev_of e, sevs_of t with Some s, Some l => Some (s :: l) | _, _ => None end
  end.

Fixpoint c_run (lc : l2cfg) (st : bucket * pending) (evs : list cev) : list pout :=
  match evs with
  | [] => []
  | e :: t => match c_step lc st e with
              | (Some st', Some x) => proj x :: c_run lc st' t
              | (Some st', None) => c_run lc st' t
              | (None, Some x) => [proj x]
              | (None, None) => []
              end
  end.

Lemma some_inj {A} (x y : A) : Some x = Some y -> x = y.
Proof. intros H. now injection H. Qed.

Lemma get_split hf b key : bkt_get hf b key = get_end hf b key (get_begin hf b key).
Proof. reflexivity. Qed.

Section Conc.
Variable lc : l2cfg.
Variable K : list bytes.
Let cf := l_cfg lc.
Let hf := forced_hash (l_forced lc).
Hypothesis hf_inj : forall k1 k2, In k1 K -> In k2 K -> hf k1 = hf k2 -> k1 = k2.

Definition sev_ok (m : smap) (e : sev) : Prop :=
  match e with
  | SAtomic so => op_ok K m so
  | SBegin _ k _ => In k K
  | SEnd _ => True
  end.

Fixpoint sevs_ok (st : smap * spending) (evs : list sev) : Prop :=
  match evs with
  | [] => True
  | e :: t => sev_ok (fst st) e /\ sevs_ok (fst (s_cstep (c_checkvhash cf) st e)) t
  end.

(* a pending read's eventual reply is already determined: its record is in the log *)
Definition pend_ok (b : bucket) (k : bytes) (meta : bool) (look : option (Z * N * pos)) (out : pout) : Prop :=
  match look with
  | None => out = PMiss
  | Some (ver, _, p) => exists r, log_find b p = Some r /\ d_key r = k /\
                        out = proj (get_reply meta (GHit (d_val r) (client_flag (d_flag r)) ver (d_ts r) p))
  end.

Definition pends_ok (b : bucket) (pd : pending) (ps : spending) : Prop :=
  Forall2 (fun x y => fst x = fst y /\ let '(k, meta, look) := snd x in pend_ok b (unhex k) meta look (snd y)) pd ps.

Definition CRel (st : bucket * pending) (ss : smap * spending) : Prop :=
  Rel hf K (fst st) (fst ss) /\ pends_ok (fst st) (snd st) (snd ss).

Lemma pend_ok_mono b b' k meta look out : log_le b b' -> pend_ok b k meta look out -> pend_ok b' k meta look out.
Proof.
  intros Hle. destruct look as [[[ver vh] p]|]; [|auto]. intros (r & Hl & Hk & Ho). exists r. split; [apply Hle, Hl|auto].
Qed.
Lemma pends_ok_mono b b' pd ps : log_le b b' -> pends_ok b pd ps -> pends_ok b' pd ps.
Proof.
  intros Hle H. induction H as [|x y pd ps [H1 H2] _ IH]; constructor; [|exact IH].
  split; [exact H1|]. destruct (snd x) as [[k meta] look]. eapply pend_ok_mono; eassumption.
Qed.

Lemma take_pending_both c pd ps b : pends_ok b pd ps ->
  match take_pending c pd, take_pending c ps with
  | Some ((k, meta, look), pd'), Some (out, ps') => pend_ok b (unhex k) meta look out /\ pends_ok b pd' ps'
  | None, None => True
  | _, _ => False
  end.
Proof.
  intros H. induction H as [|[c1 [[k meta] look]] [c2 out] pd ps [H1 H2] Hrest IH]; cbn [take_pending]; [exact I|].
  cbn [fst snd] in H1, H2. subst c2. destruct (Nat.eqb c c1).
  - split; assumption.
  - destruct (take_pending c pd) as [[[[k' meta'] look'] pd']|], (take_pending c ps) as [[out' ps']|]; try contradiction; [|exact I].
    destruct IH as [IH1 IH2]. split; [exact IH1|]. constructor; [split; [reflexivity|exact H2]|exact IH2].
Qed.

(* every atomic in-domain operation only extends the log *)
Lemma atomic_log_le b m o so b' :
  Rel hf K b m -> sop_of o = Some so -> fst (l2_step lc b o) = Some b' -> log_le b b'.
Proof.
  intros [(Hlay & _) _] Hso. destruct o; cbn [sop_of] in Hso; try discriminate; unfold l2_step; fold cf hf.
  - pose proof (check_and_set_log cf hf vhash_shortcut_sets_only b (unhex k) (unhex v) flag rev ts z Hlay) as [H _].
    unfold check_and_set. destruct (check_and_set_gen _ _ _ _ _ _ _ _ _ _) as [bb r]. cbn [fst] in *. intros E; injection E as <-. exact H.
  - pose proof (check_and_set_log cf hf vhash_shortcut_sets_only b (unhex k) [] 0 (-1)%Z ts_now (mkZ false 0 0) Hlay) as [H _].
    unfold check_and_set. destruct (check_and_set_gen _ _ _ _ _ _ _ _ _ _) as [bb r]. cbn [fst] in *. intros E; injection E as <-. exact H.
  - pose proof (bkt_incr_log cf hf b (unhex k) d ts_now Hlay) as [H _].
    destruct (bkt_incr _ _ _ _ _ _) as [bb n]. cbn [fst] in *. intros E; injection E as <-. exact H.
  - pose proof (bkt_get_dat hf b (unhex k)) as H. destruct (bkt_get _ _ _) as [bb g]. cbn [fst] in *.
    intros E; injection E as <-. apply log_le_dat. now symmetry.
  - pose proof (bkt_get_dat hf b (unhex k)) as H. destruct (bkt_get _ _ _) as [bb g]. cbn [fst] in *.
    intros E; injection E as <-. apply log_le_dat. now symmetry.
  - cbn [fst]. intros E; injection E as <-. intros q r Hq. now rewrite flush_head_log.
  - cbn [fst]. intros E. apply some_inj in E. rewrite <- E. apply log_le_dat. symmetry. apply core_dat, trydump_all_core.
  - cbn [fst]. intros E; injection E as <-. apply log_le_refl.
Qed.

Lemma cstep_refines st ss e se :
  CRel st ss -> sev_of e = Some se -> sev_ok (fst ss) se ->
  exists st', fst (c_step lc st e) = Some st' /\
              option_map proj (snd (c_step lc st e)) = snd (s_cstep (c_checkvhash cf) ss se) /\
              CRel st' (fst (s_cstep (c_checkvhash cf) ss se)).
Proof.
  destruct st as [b pd], ss as [m ps]. intros [HR HP] Hse Hok. cbn [fst snd] in HR, HP, Hok.
  destruct e as [o|c k meta|c]; cbn [sev_of] in Hse.
  - destruct (sop_of o) as [so|] eqn:Eso; [|discriminate]. injection Hse as <-. cbn [sev_ok] in Hok.
    destruct (step_refines lc K hf_inj b m o so HR Eso Hok) as (b' & Hb' & Hout & HR').
    pose proof (atomic_log_le b m o so b' HR Eso Hb') as Hle.
    cbn [c_step s_cstep]. destruct (l2_step lc b o) as [ob x]. cbn [fst snd] in Hb', Hout. subst ob.
    fold cf in Hout, HR' |- *. destruct (spec_step (c_checkvhash cf) m so) as [m' y]. cbn [fst snd] in *.
    exists (b', pd). cbn [fst snd option_map]. split; [reflexivity|]. split; [now rewrite Hout|]. split; [exact HR'|]. cbn [fst snd].
    eapply pends_ok_mono; eassumption.
  - injection Hse as <-. cbn [sev_ok] in Hok. cbn [c_step s_cstep fst snd].
    eexists. split; [reflexivity|]. split; [reflexivity|]. split; [exact HR|]. cbn [fst snd].
    constructor; [|exact HP]. split; [reflexivity|]. cbn [snd].
    (* the lookup determines the reply *)
    pose proof HR as [(Hlay & Hct & Hslots) Habs]. specialize (Habs (unhex k) Hok). unfold abs in Habs.
    unfold get_begin. fold hf. rewrite (bkt_get_mem_tree b (hf (unhex k)) (unhex k) Hct).
    destruct (tree_get_slot b (hf (unhex k))) as [s|] eqn:Es.
    + destruct (Hslots _ _ Es) as (r & Hlog & Hh & HinK & _ & _ & Hv0). rewrite Hlog in Habs.
      assert (Hkey : d_key r = unhex k) by (apply hf_inj; assumption).
      exists r. split; [exact Hlog|]. split; [exact Hkey|].
      destruct meta; cbn [spec_step]; rewrite <- Habs; cbn [snd get_reply proj proj_out]; unfold live; cbn [e_ver e_val e_flag].
      * reflexivity.
      * destruct (0 <? s_ver s)%Z eqn:El.
        -- replace (s_ver s <? 0)%Z with false by lia. reflexivity.
        -- replace (s_ver s <? 0)%Z with true by lia. reflexivity.
    + cbn [pend_ok]. destruct meta; cbn [spec_step]; rewrite <- Habs; reflexivity.
  - injection Hse as <-. cbn [c_step s_cstep].
    pose proof (take_pending_both c pd ps b HP) as Ht.
    destruct (take_pending c pd) as [[[[k meta] look] pd']|], (take_pending c ps) as [[out ps']|]; try contradiction.
    + destruct Ht as [Hp Hps]. pose proof HR as [(Hlay & Hct & Hslots) Habs].
      assert (Hend : get_end hf b (unhex k) look = (b, match look with None => GMiss | Some (ver, _, p) =>
                       match log_find b p with Some r => GHit (d_val r) (client_flag (d_flag r)) ver (d_ts r) p | None => GFail end end)).
      { destruct look as [[[ver vh] p]|]; [|reflexivity]. destruct Hp as (r & Hlog & Hkey & _).
        unfold get_end. destruct (read_pos_log b p Hlay) as [Hrd _]. rewrite Hlog in Hrd |- *.
        destruct (read_pos b p) as [r' inb| |]; cbn [rd_rec] in Hrd; try discriminate. injection Hrd as ->.
        rewrite Hkey, bytes_eqb_refl. reflexivity. }
      fold hf. rewrite Hend. exists (b, pd'). cbn [fst snd]. split; [reflexivity|]. split.
      * destruct look as [[[ver vh] p]|].
        -- destruct Hp as (r & Hlog & _ & ->). rewrite Hlog. reflexivity.
        -- cbn [pend_ok] in Hp. subst out. destruct meta; reflexivity.
      * split; assumption.
    + exists (b, pd). cbn [fst snd]. split; [reflexivity|]. split; [reflexivity|]. split; assumption.
Qed.

Theorem crun_refines evs : forall st ss sevs,
  CRel st ss -> sevs_of evs = Some sevs -> sevs_ok ss sevs ->
  c_run lc st evs = s_crun (c_checkvhash cf) ss sevs.
Proof.
  induction evs as [|e t IH]; intros st ss sevs HR Hs Hok.
  - cbn [sevs_of] in Hs. injection Hs as <-. reflexivity.
  - cbn [sevs_of] in Hs. destruct (sev_of e) as [se|] eqn:Ese; [|discriminate].
    destruct (sevs_of t) as [l|] eqn:El; [|discriminate]. injection Hs as <-.
    cbn [sevs_ok] in Hok. destruct Hok as [Ho Ht].
    destruct (cstep_refines st ss e se HR Ese Ho) as (st' & Hst' & Hout & HR').
    cbn [c_run s_crun]. destruct (c_step lc st e) as [ost x]. cbn [fst snd] in Hst', Hout. subst ost.
    destruct (s_cstep (c_checkvhash cf) ss se) as [ss' y]. cbn [fst snd] in *. subst y.
    destruct x as [x|]; cbn [option_map]; [f_equal|]; now apply IH.
Qed.

Lemma crel_init : CRel (bucket0, []) ([], []).
Proof. split; [apply rel_init|constructor]. Qed.
End Conc.
