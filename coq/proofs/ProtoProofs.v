(* C11 / C12: progress of the serve loop and token conservation, for every byte stream and
   every storage behaviour. *)
From Coq Require Import NArith ZArith List Bool Lia.
From GB Require Import Consts Words Bucket Proto Bits RecordProofs.
Import ListNotations.
Open Scope N_scope.

Lemma read_line_shorter s l r : read_line s = Some (l, r) -> (length r < length s)%nat /\ l <> [].
Proof.
  revert l r. induction s as [|c t IH]; intros l r H; cbn [read_line] in H; [discriminate|].
  destruct (c =? lf).
  - injection H as <- <-. cbn [length]. split; [lia|discriminate].
  - destruct (read_line t) as [[l' r']|] eqn:E; [|discriminate]. injection H as <- <-.
    destruct (IH l' r' eq_refl) as [Hl _]. cbn [length]. split; [lia|discriminate].
Qed.

Lemma dropN_length_le {A} (l : list A) n : (length (dropN n l) <= length l)%nat.
Proof.
  revert n. induction l as [|x t IH]; intros n; cbn [dropN length]; [lia|].
  destruct (n =? 0); cbn [length]; [lia|]. specialize (IH (N.pred n)). lia.
Qed.

(* the rest returned by Request.Read is a strict suffix of the input unless the stream ended *)
Lemma read_request_rest pc s a r q rest a' :
  read_request pc s a = (r, q, rest, a') -> r <> inr ENetwork -> (length rest < length s)%nat.
Proof.
  unfold read_request. destruct (read_line s) as [[line rest0]|] eqn:El.
  2:{ intros H. injection H as <- _ _ _. congruence. }
  destruct (read_line_shorter s line rest0 El) as [Hlt _].
  destruct (ends_crlf line); cbn [negb].
  2:{ intros H _. injection H as _ _ <- _. exact Hlt. }
  destruct (split_keys line) as [|w args].
  { intros H _. injection H as _ _ <- _. exact Hlt. }
  destruct (verb_of w).
  - destruct args; intros H _; injection H as _ _ <- _; exact Hlt.
  - destruct (_ || _). { intros H _; injection H as _ _ <- _; exact Hlt. }
    destruct (atoi (nth 1 args [])) as [flag|]; [|intros H _; injection H as _ _ <- _; exact Hlt].
    destruct (atoi (nth 2 args [])) as [expt|]; [|intros H _; injection H as _ _ <- _; exact Hlt].
    destruct (atoi (nth 3 args [])) as [len|]; [|intros H _; injection H as _ _ <- _; exact Hlt].
    destruct (p_bodymax pc <? _). { intros H _; injection H as _ _ <- _; exact Hlt. }
    destruct (_ && Nat.ltb _ 6). { intros H _; injection H as _ _ <- _; exact Hlt. }
    destruct (_ && negb _). { intros H _; injection H as _ _ <- _; exact Hlt. }
    destruct (lenN _ <? _). { intros H Hn. injection H as <- _ _ _. congruence. }
    pose proof (dropN_length_le rest0 (Z.to_N len)) as Hd.
    destruct (dropN (Z.to_N len) rest0) as [|c1 [|c2 rest2]] eqn:Ed.
    + intros H Hn. injection H as <- _ _ _. congruence.
    + intros H Hn. injection H as <- _ _ _. congruence.
    + cbn [length] in Hd. destruct ((c1 =? cr) && (c2 =? lf)); intros H _; injection H as _ _ <- _; lia.
  - destruct (_ || _); intros H _; injection H as _ _ <- _; exact Hlt.
  - destruct (_ || _); intros H _; injection H as _ _ <- _; exact Hlt.
  - destruct (_ || _); intros H _; injection H as _ _ <- _; exact Hlt.
  - intros H _; injection H as _ _ <- _; exact Hlt.
  - intros H _; injection H as _ _ <- _; exact Hlt.
  - intros H _; injection H as _ _ <- _; exact Hlt.
  - intros H _; injection H as _ _ <- _; exact Hlt.
  - intros H _; injection H as _ _ <- _; exact Hlt.
  - intros H _; injection H as _ _ <- _; exact Hlt.
Qed.

(* tokens taken by Request.Read are exactly those marked on the request *)
Lemma read_request_token pc s a r q rest a' :
  read_request pc s a = (r, q, rest, a') ->
  a_tokens_out a' = (a_tokens_out a + (if q_token q then 1 else 0))%Z.
Proof.
  unfold read_request. destruct (read_line s) as [[line rest0]|].
  2:{ intros H. injection H as _ <- _ <-. cbn. lia. }
  destruct (ends_crlf line); cbn [negb].
  2:{ intros H. injection H as _ <- _ <-. cbn. lia. }
  destruct (split_keys line) as [|w args].
  { intros H. injection H as _ <- _ <-. cbn. lia. }
  destruct (verb_of w).
  - destruct args; intros H; injection H as _ <- _ <-; cbn; lia.
  - destruct (_ || _). { intros H; injection H as _ <- _ <-; cbn; lia. }
    destruct (atoi (nth 1 args [])) as [flag|]; [|intros H; injection H as _ <- _ <-; cbn; lia].
    destruct (atoi (nth 2 args [])) as [expt|]; [|intros H; injection H as _ <- _ <-; cbn; lia].
    destruct (atoi (nth 3 args [])) as [len|]; [|intros H; injection H as _ <- _ <-; cbn; lia].
    destruct (p_bodymax pc <? _). { intros H; injection H as _ <- _ <-; cbn; lia. }
    destruct (_ && Nat.ltb _ 6). { intros H; injection H as _ <- _ <-; cbn; lia. }
    destruct (_ && negb _). { intros H; injection H as _ <- _ <-; cbn; lia. }
    destruct (lenN _ <? _). { intros H; injection H as _ <- _ <-; cbn; lia. }
    destruct (dropN (Z.to_N len) rest0) as [|c1 [|c2 rest2]].
    + intros H; injection H as _ <- _ <-; cbn; lia.
    + intros H; injection H as _ <- _ <-; cbn; lia.
    + destruct ((c1 =? cr) && (c2 =? lf)); intros H; injection H as _ <- _ <-; cbn; lia.
  - destruct (_ || _); intros H; injection H as _ <- _ <-; cbn; lia.
  - destruct (_ || _); intros H; injection H as _ <- _ <-; cbn; lia.
  - destruct (_ || _); intros H; injection H as _ <- _ <-; cbn; lia.
  - intros H; injection H as _ <- _ <-; cbn; lia.
  - intros H; injection H as _ <- _ <-; cbn; lia.
  - intros H; injection H as _ <- _ <-; cbn; lia.
  - intros H; injection H as _ <- _ <-; cbn; lia.
  - intros H; injection H as _ <- _ <-; cbn; lia.
  - intros H; injection H as _ <- _ <-; cbn; lia.
Qed.

Section AnyStorage.
Variable St : Type.
Variable st_get : St -> bytes -> St * sget.
Variable st_set : St -> bytes -> Z -> Z -> bytes -> St * sset * bool.
Variable st_incr : St -> bytes -> Z -> St * option Z * Z * bool.
Variable st_delete : St -> bytes -> St * sset.
Variable st_process : bytes -> list bytes -> bytes * bytes.
Variable version_str : bytes.

Notation process_ := (process St st_get st_set st_incr st_delete version_str).
Notation serve_once_ := (serve_once St st_get st_set st_incr st_delete st_process version_str).
Notation serve_loop_ := (serve_loop St st_get st_set st_incr st_delete st_process version_str).

Lemma add_get_tok a c s : a_tokens_out (add_get a c s) = a_tokens_out a. Proof. reflexivity. Qed.
Lemma add_set_tok a c s : a_tokens_out (add_set a c s) = a_tokens_out a. Proof. reflexivity. Qed.

Lemma get_many_gen_tok dd keys : forall st a single seen,
  a_tokens_out (snd (get_many_gen St st_get dd st keys a single seen)) = a_tokens_out a.
Proof.
  induction keys as [|k t IH]; intros st a single seen; cbn [get_many_gen]; [reflexivity|].
  destruct (dd && existsb (beq k) seen); [apply IH|].
  destruct (st_get st k) as [st1 g]. destruct g as [|body flag charged|msg|].
  - apply IH.
  - specialize (IH st1 (if charged then add_get a 1 (Z.of_N (lenN body)) else a) single (k :: seen)).
    destruct (get_many_gen St st_get dd st1 t _ single (k :: seen)) as [[[st2 o] items] a2]. cbn [snd] in *.
    rewrite IH. destruct charged; reflexivity.
  - destruct single; [reflexivity|apply IH].
  - reflexivity.
Qed.
Lemma get_many_tok keys st a single :
  a_tokens_out (snd (get_many St st_get st keys a single)) = a_tokens_out a.
Proof. apply get_many_gen_tok. Qed.

Lemma fold_release_tok items : forall a,
  a_tokens_out (fold_left (fun acc (it : bytes * bytes * Z) =>
                             let '(k, body, _) := it in
                             match k with
                             | 64 :: _ => acc | 63 :: _ => acc
                             | _ => add_get acc (-1) (- Z.of_N (lenN body))
                             end) items a) = a_tokens_out a.
Proof.
  induction items as [|[[k body] f] t IH]; intros a; cbn [fold_left]; [reflexivity|].
  rewrite IH. destruct k as [|c k']; [reflexivity|].
  destruct (N.eq_dec c 64) as [->|]; [reflexivity|]. destruct (N.eq_dec c 63) as [->|]; [reflexivity|].
  destruct c as [|p]; [reflexivity|]. do 7 (destruct p as [p|p|]; try reflexivity).
Qed.

Lemma process_tok pc st q a : a_tokens_out (snd (process_ pc st q a)) = a_tokens_out a.
Proof.
  unfold process. destruct (q_verb q).
  - destruct (negb _); [reflexivity|].
    pose proof (get_many_tok (q_keys q) st a (match q_keys q with [_] => true | _ => false end)) as H.
    destruct (get_many St st_get st (q_keys q) a _) as [[[st1 o] items] a1]. cbn [snd] in H.
    destruct o as [r| |]; try exact H. destruct r; try exact H. cbn [snd]. now rewrite fold_release_tok.
  - destruct (beq name s_append); [reflexivity|]. destruct (beq name s_prepend); [reflexivity|].
    destruct (st_set st _ _ _ _) as [[st1 r] released]. destruct r; destruct released; reflexivity.
  - destruct (st_delete st _) as [st1 r]. destruct r; reflexivity.
  - destruct (atoi (q_body q)); [|reflexivity].
    destruct (st_incr st _ _) as [[[st1 r] dget] rel]. destruct r; destruct rel; reflexivity.
  - reflexivity.
  - reflexivity.
  - reflexivity.
  - reflexivity.
  - reflexivity.
  - reflexivity.
  - reflexivity.
Qed.

(* every token taken while a command is read is back when ServeOnce returns *)
Lemma serve_once_tokens pc st s a fresh :
  a_tokens_out (snd (fst (serve_once_ pc st s a fresh))) = a_tokens_out a.
Proof.
  unfold serve_once. pose proof (read_request_token pc s a) as Ht.
  destruct (read_request pc s a) as [[[r q] rest] a1]. specialize (Ht r q rest a1 eq_refl).
  destruct r as [q'|e].
  - pose proof (process_tok pc st q' a1) as Hp. destruct (process_ pc st q' a1) as [[st1 o] a2]. cbn [snd] in Hp.
    destruct o; cbn [fst snd]; destruct (q_token q); cbn; lia.
  - destruct e; try (destruct (st_process _ _)); cbn [fst snd]; destruct (q_token q); cbn; lia.
Qed.

(* ... hence after serving ANY byte stream on a connection, whatever the storage answers *)
Theorem serve_tokens fuel : forall pc st s a fresh,
  a_tokens_out (snd (serve_loop_ fuel pc st s a fresh)) = a_tokens_out a.
Proof.
  induction fuel as [|f IH]; intros pc st s a fresh; cbn [serve_loop]; [reflexivity|].
  pose proof (serve_once_tokens pc st s a fresh) as H1.
  destruct (serve_once_ pc st s a fresh) as [[[[[st1 rest] out] close] a1] fresh']. cbn [fst snd] in H1.
  destruct close; [exact H1|].
  specialize (IH pc st1 rest a1 fresh'). destruct (serve_loop_ f pc st1 rest a1 fresh') as [[st2 out2] a2].
  cbn [snd] in *. lia.
Qed.

(* progress: a ServeOnce that does not close the connection consumes at least one byte *)
Lemma serve_once_progress pc st s a fresh st1 rest out a1 fresh' :
  serve_once_ pc st s a fresh = (st1, rest, out, false, a1, fresh') -> (length rest < length s)%nat.
Proof.
  unfold serve_once. pose proof (read_request_rest pc s a) as Hr.
  destruct (read_request pc s a) as [[[r q] rest0] a0]. specialize (Hr r q rest0 a0 eq_refl).
  destruct r as [q'|e].
  - destruct (process_ pc st q' a0) as [[st2 o] a2].
    destruct o; intros H; inversion H; subst; apply Hr; discriminate.
  - destruct e; try (destruct (st_process _ _)); intros H; inversion H; subst; apply Hr; discriminate.
Qed.

(* the loop never needs more fuel than the stream has bytes: extra fuel changes nothing ("never wedged") *)
Theorem serve_fuel_enough : forall fuel pc st s a fresh k,
  (length s < fuel)%nat -> serve_loop_ fuel pc st s a fresh = serve_loop_ (fuel + k) pc st s a fresh.
Proof.
  induction fuel as [|f IH]; intros pc st s a fresh k Hlt; [lia|].
  cbn [serve_loop Nat.add].
  destruct (serve_once_ pc st s a fresh) as [[[[[st1 rest] out] close] a1] fresh'] eqn:E.
  destruct close; [reflexivity|].
  pose proof (serve_once_progress pc st s a fresh st1 rest out a1 fresh' E) as Hp.
  rewrite (IH pc st1 rest a1 fresh' k) by lia. reflexivity.
Qed.

End AnyStorage.

(* ============================================================ C11: binary safety of the value transfer *)
Lemma read_line_app line more :
  (forall c, In c (removelast line) -> c <> lf) -> last line 0 = lf -> line <> [] ->
  read_line (line ++ more) = Some (line, more).
Proof.
  induction line as [|c t IH]; intros Hno Hlast Hne; [congruence|].
  destruct t as [|c2 t2].
  - cbn in Hlast. subst c. cbn. reflexivity.
  - assert (Hc : c <> lf) by (apply Hno; left; reflexivity).
    apply N.eqb_neq in Hc.
    change ((c :: c2 :: t2) ++ more) with (c :: ((c2 :: t2) ++ more)).
    cbn [read_line]. rewrite Hc.
    rewrite IH; [reflexivity| |exact Hlast|discriminate].
    intros x Hx. apply Hno. right. exact Hx.
Qed.

(* whatever bytes the value consists of (CR, LF, NUL, protocol keywords ...), a set header announcing
   its length makes Request.Read return exactly those bytes as the body and leave exactly the rest *)
Theorem read_set_binary_safe pc a line w key ftok etok ltok flag expt (body rest : bytes) :
  (forall c, In c (removelast line) -> c <> lf) -> last line 0 = lf -> ends_crlf line = true ->
  split_keys line = [w; key; ftok; etok; ltok] ->
  verb_of w = VSetLike w -> beq w s_cas = false ->
  atoi ftok = Some flag -> atoi etok = Some expt -> atoi ltok = Some (Z.of_N (lenN body)) ->
  lenN body <= p_bodymax pc -> lenN body < 4294967296 ->
  exists q, read_request pc (line ++ body ++ crlf ++ rest) a = (inl q, q, rest, add_set (add_tok a 1) 1 (Z.of_N (lenN body))) /\
            q_body q = body /\ q_keys q = [key] /\ q_flag q = flag /\ q_exptime q = expt /\ q_noreply q = false.
Proof.
  intros Hno Hlast Hcrlf Hsplit Hverb Hcas Hf He Hl Hmax H32.
  assert (Hne : line <> []) by (intros ->; cbn in Hcrlf; discriminate).
  unfold read_request. rewrite (read_line_app line _ Hno Hlast Hne), Hcrlf. cbn [negb].
  rewrite Hsplit, Hverb. cbn [length Nat.ltb Nat.leb orb nth]. rewrite Hf, He, Hl.
  rewrite Z.mod_small by lia. rewrite N2Z.id.
  replace (p_bodymax pc <? lenN body) with false by (symmetry; apply N.ltb_ge; exact Hmax).
  rewrite Hcas. cbn [andb negb Nat.ltb Nat.leb].
  rewrite (RecordProofs.takeN_app_len body), N.ltb_irrefl, (RecordProofs.dropN_app_len body). cbn [app crlf].
  rewrite !N.eqb_refl. cbn [andb].
  eexists. split; [reflexivity|]. cbn. repeat split.
Qed.

(* ============================================================ C12: per-command balance of the buffer counters *)
Definition special (k : bytes) : bool := match k with 64 :: _ => true | 63 :: _ => true | _ => false end.
Definition gcnt (items : list (bytes * bytes * Z)) : Z :=
  fold_right (fun it n => if special (fst (fst it)) then n else (n + 1)%Z) 0%Z items.
Definition gsz (items : list (bytes * bytes * Z)) : Z :=
  fold_right (fun it n => if special (fst (fst it)) then n else (n + Z.of_N (lenN (snd (fst it))))%Z) 0%Z items.

Definition same_buf (a b : acct) : Prop :=
  a_set_c a = a_set_c b /\ a_set_s a = a_set_s b /\ a_get_c a = a_get_c b /\ a_get_s a = a_get_s b.

Lemma special_match (k : bytes) (x y : acct) :
  match k with 64 :: _ => x | 63 :: _ => x | _ => y end = if special k then x else y.
Proof.
  destruct k as [|c k']; [reflexivity|]. unfold special.
  destruct c as [|p]; [reflexivity|]. do 7 (destruct p as [p|p|]; try reflexivity).
Qed.

Definition release_step (acc : acct) (it : bytes * bytes * Z) : acct :=
  let '(k, body, _) := it in
  match k with 64 :: _ => acc | 63 :: _ => acc | _ => add_get acc (-1) (- Z.of_N (lenN body)) end.

Lemma release_step_eq acc k body f :
  release_step acc (k, body, f) = if special k then acc else add_get acc (-1) (- Z.of_N (lenN body)).
Proof. unfold release_step. apply special_match. Qed.

Lemma gcnt_cons k body f t : gcnt ((k, body, f) :: t) = if special k then gcnt t else (gcnt t + 1)%Z.
Proof. reflexivity. Qed.
Lemma gsz_cons k body f t : gsz ((k, body, f) :: t) = if special k then gsz t else (gsz t + Z.of_N (lenN body))%Z.
Proof. reflexivity. Qed.

Lemma fold_release items : forall a,
  a_set_c (fold_left release_step items a) = a_set_c a /\ a_set_s (fold_left release_step items a) = a_set_s a /\
  a_get_c (fold_left release_step items a) = (a_get_c a - gcnt items)%Z /\
  a_get_s (fold_left release_step items a) = (a_get_s a - gsz items)%Z.
Proof.
  induction items as [|[[k body] f] t IH]; intros a; cbn [fold_left].
  - cbn. repeat split; lia.
  - rewrite release_step_eq, gcnt_cons, gsz_cons. destruct (special k); cbv beta iota.
    + destruct (IH a) as (H1 & H2 & H3 & H4). repeat split; lia.
    + destruct (IH (add_get a (-1) (- Z.of_N (lenN body)))) as (H1 & H2 & H3 & H4).
      cbn [add_get a_set_c a_set_s a_get_c a_get_s] in *. repeat split; lia.
Qed.

Lemma ins_item_sums x l : gcnt (ins_item x l) = gcnt (x :: l) /\ gsz (ins_item x l) = gsz (x :: l).
Proof.
  destruct x as [[kx bx] fx].
  induction l as [|[[ky by_] fy] t [IH1 IH2]]; cbn [ins_item]; [split; reflexivity|].
  cbn [fst]. destruct (bytes_lt ky kx); [|split; reflexivity].
  rewrite (gcnt_cons ky), (gsz_cons ky), IH1, IH2, !gcnt_cons, !gsz_cons.
  destruct (special ky), (special kx); split; lia.
Qed.

Lemma sort_items_sums l : gcnt (sort_items l) = gcnt l /\ gsz (sort_items l) = gsz l.
Proof.
  induction l as [|x t [IH1 IH2]]; [split; reflexivity|].
  unfold sort_items in *. cbn [fold_right].
  destruct (ins_item_sums x (fold_right ins_item [] t)) as [H1 H2]. rewrite H1, H2.
  destruct x as [[kx bx] fx]. rewrite !gcnt_cons, !gsz_cons. rewrite IH1, IH2. split; reflexivity.
Qed.

Section Balance.
Variable St : Type.
Variable st_get : St -> bytes -> St * sget.
Variable st_set : St -> bytes -> Z -> Z -> bytes -> St * sset * bool.
Variable st_incr : St -> bytes -> Z -> St * option Z * Z * bool.
Variable st_delete : St -> bytes -> St * sset.
Variable version_str : bytes.
(* the storage client's side of the contract: a returned value is charged to GetData iff it is an
   ordinary key (directory and meta answers are built in place) *)
Hypothesis get_contract : forall st k st' body flag charged,
  st_get st k = (st', SGItem body flag charged) -> charged = negb (special k).

Lemma get_many_charges keys : forall st a single st1 cas items a1,
  get_many St st_get st keys a single = (st1, OReply (RValues cas []), items, a1) \/
  (exists r, get_many St st_get st keys a single = (st1, OReply r, items, a1)) ->
  True.
Proof. trivial. Qed.

Lemma beq_true a b : beq a b = true <-> a = b.
Proof. unfold beq. destruct (list_eq_dec N.eq_dec a b); split; intros; congruence. Qed.

(* with the repeated-key repair every fetched item stays in the map: none is replaced *)
Lemma get_many_gen_sums keys : forall st a single seen,
  let '(st1, o, items, a1) := get_many_gen St st_get true st keys a single seen in
  match o with
  | OReply (RValues _ _) =>
      a_set_c a1 = a_set_c a /\ a_set_s a1 = a_set_s a /\
      a_get_c a1 = (a_get_c a + gcnt items)%Z /\ a_get_s a1 = (a_get_s a + gsz items)%Z /\
      (forall it, In it items -> existsb (beq (fst (fst it))) seen = false)
  | _ => True
  end.
Proof.
  induction keys as [|k t IH]; intros st a single seen; cbn [get_many_gen].
  - cbn. repeat split; try lia; try (intros it []).
  - cbn [andb]. destruct (existsb (beq k) seen) eqn:Esk; [apply IH|].
    destruct (st_get st k) as [st1 g] eqn:Eg. destruct g as [|body flag charged|msg|].
    + apply IH.
    + pose proof (get_contract _ _ _ _ _ _ Eg) as Hc.
      specialize (IH st1 (if charged then add_get a 1 (Z.of_N (lenN body)) else a) single (k :: seen)).
      destruct (get_many_gen St st_get true st1 t _ single (k :: seen)) as [[[st2 o] items] a2].
      destruct o as [r| |]; try exact I. destruct r; try exact I.
      destruct IH as (H1 & H2 & H3 & H4 & H5).
      assert (Hnk : has_key k items = false).
      { unfold has_key. destruct (existsb (fun it => beq (fst (fst it)) k) items) eqn:E; [|reflexivity]. exfalso.
        apply existsb_exists in E as (it & Hin & Hb). apply beq_true in Hb. specialize (H5 it Hin). cbn [existsb] in H5.
        rewrite Hb in H5. assert (beq k k = true) by now apply beq_true. rewrite H in H5. discriminate. }
      rewrite Hnk. rewrite gcnt_cons, gsz_cons.
      subst charged. destruct (special k); cbn [negb] in *; cbn [add_get a_set_c a_set_s a_get_c a_get_s] in *; repeat split; try lia.
      * intros it [<-|Hin]; [exact Esk|]. specialize (H5 it Hin). cbn [existsb] in H5. apply orb_false_iff in H5. apply H5.
      * intros it [<-|Hin]; [exact Esk|]. specialize (H5 it Hin). cbn [existsb] in H5. apply orb_false_iff in H5. apply H5.
    + destruct single; [exact I|apply IH].
    + exact I.
Qed.

Lemma get_many_sums keys : forall st a single,
  let '(st1, o, items, a1) := get_many St st_get st keys a single in
  match o with
  | OReply (RValues _ _) =>
      a_set_c a1 = a_set_c a /\ a_set_s a1 = a_set_s a /\
      a_get_c a1 = (a_get_c a + gcnt items)%Z /\ a_get_s a1 = (a_get_s a + gsz items)%Z
  | _ => True
  end.
Proof.
  intros st a single. unfold get_many. change getmulti_skips_duplicates with true.
  pose proof (get_many_gen_sums keys st a single []) as H.
  destruct (get_many_gen St st_get true st keys a single []) as [[[st1 o] items] a1].
  destruct o as [r| |]; try exact I. destruct r; try exact I. destruct H as (H1 & H2 & H3 & H4 & _). auto.
Qed.

(* a request is "clean" when the storage client hands every buffer back on its path *)
Definition clean (pc : pcfg) (st : St) (q : request) : bool :=
  match q_verb q with
  | VGet _ =>
      negb (forallb (valid_keysize pc) (q_keys q)) ||
      match get_many St st_get st (q_keys q) acct0 (match q_keys q with [_] => true | _ => false end) with
      | (_, OReply (RValues _ _), _, _) => true
      | _ => false
      end
  | VSetLike name =>
      negb (beq name s_append) && negb (beq name s_prepend) &&
      snd (st_set st (nth 0 (q_keys q) []) (q_flag q) (q_exptime q) (q_body q))
  | VIncr => match atoi (q_body q) with
             | None => false
             | Some d => let '(_, _, dget, rel) := st_incr st (nth 0 (q_keys q) []) d in rel && (dget =? 0)%Z
             end
  | VDecr => false
  | _ => true
  end.

(* what Request.Read has charged for the request when Process starts *)
Definition charged_by_read (q : request) (a : acct) : acct :=
  match q_verb q with
  | VSetLike _ => add_set a 1 (Z.of_N (lenN (q_body q)))
  | VIncr | VDecr => add_set a 1 0
  | _ => a
  end.

Lemma get_many_gen_acct_indep dd keys : forall st a b single seen,
  fst (get_many_gen St st_get dd st keys a single seen) = fst (get_many_gen St st_get dd st keys b single seen).
Proof.
  induction keys as [|k t IH]; intros st a b single seen; cbn [get_many_gen]; [reflexivity|].
  destruct (dd && existsb (beq k) seen); [apply IH|].
  destruct (st_get st k) as [st1 g]. destruct g as [|body flag charged|msg|].
  - apply IH.
  - specialize (IH st1 (if charged then add_get a 1 (Z.of_N (lenN body)) else a)
                   (if charged then add_get b 1 (Z.of_N (lenN body)) else b) single (k :: seen)).
    destruct (get_many_gen St st_get dd st1 t (if charged then add_get a 1 _ else a) single (k :: seen)) as [[[sa oa] ia] aa].
    destruct (get_many_gen St st_get dd st1 t (if charged then add_get b 1 _ else b) single (k :: seen)) as [[[sb ob] ib] ab].
    cbn [fst] in *. injection IH as -> -> ->. reflexivity.
  - destruct single; [reflexivity|apply IH].
  - reflexivity.
Qed.
Lemma get_many_acct_indep keys st a b single :
  fst (get_many St st_get st keys a single) = fst (get_many St st_get st keys b single).
Proof. apply get_many_gen_acct_indep. Qed.

Theorem process_balance pc st q a :
  clean pc st q = true ->
  same_buf (snd (process St st_get st_set st_incr st_delete version_str pc st q (charged_by_read q a))) a.
Proof.
  unfold clean, process, charged_by_read, same_buf. destruct (q_verb q) eqn:Ev.
  - destruct (negb (forallb (valid_keysize pc) (q_keys q))) eqn:Ek; [intros _; cbn; repeat split; reflexivity|].
    cbn [orb]. intros Hc.
    set (single := match q_keys q with [_] => true | _ => false end) in *.
    pose proof (get_many_acct_indep (q_keys q) st acct0 a single) as Hind.
    pose proof (get_many_sums (q_keys q) st a single) as Hs.
    destruct (get_many St st_get st (q_keys q) acct0 single) as [[[s0 o0] i0] a0].
    destruct (get_many St st_get st (q_keys q) a single) as [[[s1 o1] i1] a1].
    cbn [fst] in Hind. injection Hind as <- <- <-.
    destruct o0 as [r| |]; try discriminate. destruct r; try discriminate.
    cbn [snd]. destruct Hs as (H1 & H2 & H3 & H4).
    match goal with |- context [fold_left ?f i0 a1] => change (fold_left f i0 a1) with (fold_left release_step i0 a1) end.
    destruct (fold_release i0 a1) as (F1 & F2 & F3 & F4).
    repeat split; lia.
  - intros Hc. apply andb_prop in Hc as [Hc Hrel]. apply andb_prop in Hc as [Ha Hp].
    apply negb_true_iff in Ha. apply negb_true_iff in Hp. rewrite Ha, Hp.
    destruct (st_set st _ _ _ _) as [[st1 r] released]. cbn [snd] in Hrel. subst released.
    destruct r; cbn [snd add_set a_set_c a_set_s a_get_c a_get_s]; repeat split; lia.
  - intros _. destruct (st_delete st _) as [st1 r]. destruct r; cbn; repeat split; reflexivity.
  - destruct (atoi (q_body q)); [|discriminate].
    destruct (st_incr st _ _) as [[[st1 r] dget] rel]. intros Hc. apply andb_prop in Hc as [-> Hd].
    apply Z.eqb_eq in Hd. subst dget.
    destruct r; cbn [snd add_set add_get a_set_c a_set_s a_get_c a_get_s]; repeat split; lia.
  - discriminate.
  - intros _. cbn. repeat split; reflexivity.
  - intros _. cbn. repeat split; reflexivity.
  - intros _. cbn. repeat split; reflexivity.
  - intros _. cbn. repeat split; reflexivity.
  - intros _. cbn. repeat split; reflexivity.
  - intros _. cbn. repeat split; reflexivity.
Qed.

End Balance.
