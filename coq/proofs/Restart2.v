(* C02, part 2: bucket-level invariant tying hint splits, data chunks and the tree together, and its
   preservation by every client operation. *)
From Coq Require Import NArith ZArith List Bool Lia ZifyN ZifyNat ZifyBool Sorting.Sorted Sorting.Permutation.
From GB Require Import Consts Words Hash HintFile HTree Compress Bucket BucketOpen Gc CheckL2 RefMap
     BucketBasics Refine GcTouch LogMono CollideProofs Upd Restart1.
Import ListNotations.
Open Scope N_scope.

Definition sps_at (b : bucket) (c : nat) : list hsplit := hc_splits (hchunk_at b c).

(* ---- frames: what trydump / setItem do to the split lists ---- *)
Lemma trydump_sps_at b c d c' :
  sps_at (trydump b c d) c' =
  if Nat.eqb c c' then trydump_sps (sps_at b c) (b_maxdumped b) c ((negb d && Nat.eqb c (b_hmax b)) || negb (hc_active (hchunk_at b c)))
  else sps_at b c'.
Proof.
  unfold trydump, trydump_sps, sps_at.
  destruct (dump_old (hc_splits (hchunk_at b c)) 0 (b_maxdumped b) c) as [sps md]. cbn [fst].
  destruct (_ || negb (need_dump (last_split sps)));
    rewrite (hchunk_at_updd b _ c c' _ _ _ eq_refl); destruct (Nat.eqb c c'); reflexivity.
Qed.

Lemma trydump_hmax b c d : b_hmax (trydump b c d) = b_hmax b.
Proof. unfold trydump. destruct (dump_old _ _ _ _). destruct (_ || _); reflexivity. Qed.

Lemma hints_set_item_sps_at cf b it c rs c' :
  exists S', sps_at (hints_set_item cf b it c rs) c' = (if Nat.eqb c c' then S' else sps_at b c') /\
             (S' = set_sps (c_splitcap cf) (sps_at b c) it rs \/
              exists md stop, S' = trydump_sps (set_sps (c_splitcap cf) (sps_at b c) it rs) md c stop).
Proof.
  unfold hints_set_item. fold (sps_at b c).
  assert (Hfin : forall b2 S0, sps_at b2 c' = S0 ->
            sps_at (if Nat.ltb (b_hmax b2) c then set_hints b2 (b_hints b2) c (b_maxdumped b2) else b2) c' = S0).
  { intros b2 S0 H. destruct (Nat.ltb _ _); exact H. }
  destruct (split_set (c_splitcap cf) (last_split (sps_at b c)) it rs) as [sp|] eqn:Ess; cbv zeta iota beta.
  - exists (set_sps (c_splitcap cf) (sps_at b c) it rs). split; [|now left].
    apply Hfin. unfold sps_at at 1. rewrite (hchunk_at_updd b _ c c' _ _ _ eq_refl). unfold set_sps. rewrite Ess.
    destruct (Nat.eqb c c'); reflexivity.
  - set (b1 := set_hints b _ (b_hmax b) (b_maxdumped b)).
    exists (trydump_sps (set_sps (c_splitcap cf) (sps_at b c) it rs) (b_maxdumped b1) c
                        ((negb false && Nat.eqb c (b_hmax b1)) || negb (hc_active (hchunk_at b1 c)))).
    split; [|right; eauto]. apply Hfin. rewrite trydump_sps_at.
    assert (Hb1 : forall x, sps_at b1 x = if Nat.eqb c x then set_sps (c_splitcap cf) (sps_at b c) it rs else sps_at b x).
    { intros x. unfold sps_at at 1, b1. rewrite (hchunk_at_updd b _ c x _ _ _ eq_refl). unfold set_sps. rewrite Ess.
      destruct (Nat.eqb c x); reflexivity. }
    rewrite (Hb1 c), Nat.eqb_refl. destruct (Nat.eqb c c') eqn:E; [reflexivity|]. rewrite Hb1, E. reflexivity.
Qed.

(* ---- per-chunk layout ---- *)
Definition spaced (recs : list (N * drec)) : Prop :=
  StronglySorted (fun a b => fst a + dsize (snd a) <= fst b) recs.

Definition cst (k : chunk) : Prop :=
  chunk_ok k /\ spaced (all_recs k) /\ Forall (fun e => fst e + dsize (snd e) <= k_whead k) (all_recs k) /\
  (k_wbuf k = [] -> k_fsize k = k_whead k) /\ k_size k = k_whead k /\ k_rewriting k = false /\
  (k_exists k = false -> k_fsize k = 0) /\ k_whead k mod 256 = 0.

Lemma dsize_mod r : dsize r mod 256 = 0.
Proof. unfold dsize, padded. apply N.mod_mul. discriminate. Qed.

Lemma spaced_snoc recs e : spaced recs -> Forall (fun x => fst x + dsize (snd x) <= fst e) recs -> spaced (recs ++ [e]).
Proof.
  unfold spaced. induction recs as [|x recs IH]; cbn [app]; intros Hs Hall.
  - constructor; constructor.
  - inversion Hs as [|? ? Hs' Hx]; subst. inversion Hall as [|? ? Hxe Hall']; subst.
    constructor; [now apply IH|]. apply Forall_app. split; [exact Hx|constructor; [exact Hxe|constructor]].
Qed.

Lemma cst0 : cst chunk0.
Proof.
  split; [apply chunk0_ok|]. unfold all_recs, chunk0. cbn.
  repeat split; try constructor; try reflexivity.
Qed.

Lemma cst_append k r : cst k -> cst (chunk_append k r).
Proof.
  intros (Hok & Hsp & Hall & Hf & Hsz & Hrw & Hex & Hmod). pose proof (dsize_pos r) as Hp.
  split; [now apply chunk_append_ok|].
  assert (Hrecs : all_recs (chunk_append k r) = all_recs k ++ [(k_whead k, r)]).
  { unfold all_recs, chunk_append. cbn [k_disk k_wbuf]. now rewrite app_assoc. }
  rewrite Hrecs. unfold chunk_append. cbn [k_whead k_wbuf k_fsize k_size k_rewriting k_exists].
  split; [apply spaced_snoc; [exact Hsp|exact Hall]|].
  split.
  - apply Forall_app. split.
    + eapply Forall_impl; [|exact Hall]. cbv beta. intros x Hx. lia.
    + constructor; [cbn [fst snd]; lia|constructor].
  - split; [intros H; destruct (k_wbuf k); discriminate|]. split; [reflexivity|]. split; [exact Hrw|]. split; [exact Hex|].
    pose proof (dsize_mod r) as Hd. rewrite N.add_mod by discriminate. rewrite Hmod, Hd. reflexivity.
Qed.

Lemma cst_flush k : cst k -> cst (chunk_flush k).
Proof.
  intros (Hok & Hsp & Hall & Hf & Hsz & Hrw & Hex & Hmod).
  split; [now apply chunk_flush_ok|]. rewrite chunk_flush_recs. unfold chunk_flush. cbn [k_whead k_wbuf k_fsize k_size k_rewriting k_exists].
  split; [exact Hsp|]. split; [exact Hall|]. split; [reflexivity|]. split; [exact Hsz|]. split; [exact Hrw|]. split; [discriminate|exact Hmod].
Qed.

Definition recs_at (b : bucket) (c : nat) : list (N * drec) := all_recs (chunk_at b c).
Definition misc (b : bucket) := (b_hints b, b_hmax b, b_merged b, b_maxdumped b, b_treeid b, b_tree b, b_ctab b).

Lemma flush_chunk_misc2 b c : misc (flush_chunk b c) = misc b.
Proof. unfold flush_chunk. destruct (k_wbuf _); reflexivity. Qed.

Section X.
Variable cf : cfg.
Variable hf : bytes -> N.
Variable K : list bytes.
Hypothesis hf_inj : forall k1 k2, In k1 K -> In k2 K -> hf k1 = hf k2 -> k1 = k2.

Lemma append_record_x b r :
  layout_ok b -> (forall c, cst (chunk_at b c)) -> (forall c, c <> b_head b -> k_wbuf (chunk_at b c) = []) ->
  let b' := fst (append_record cf b r) in let p := snd (append_record cf b r) in
  b_head b' = p_chunk p /\ (p_chunk p = b_head b \/ p_chunk p = S (b_head b)) /\
  p_off p = k_whead (chunk_at b (p_chunk p)) /\
  (forall c, recs_at b' c = if Nat.eqb c (p_chunk p) then recs_at b c ++ [(p_off p, r)] else recs_at b c) /\
  (forall c, k_whead (chunk_at b' c) = if Nat.eqb c (p_chunk p) then p_off p + dsize r else k_whead (chunk_at b c)) /\
  (forall c, cst (chunk_at b' c)) /\ (forall c, c <> p_chunk p -> k_wbuf (chunk_at b' c) = []) /\
  misc b' = misc b.
Proof.
  intros [Hok Habove] Hcst Hnh. cbv zeta. unfold append_record.
  destruct (c_filemax cf <? k_whead (chunk_at b (b_head b)) + dsize r) eqn:Erot; cbn [fst snd p_chunk p_off].
  - (* rotation *)
    set (b0 := set_head b (S (b_head b))). set (b1 := flush_chunk b0 (b_head b)).
    assert (Hh1 : b_head b1 = S (b_head b)) by (unfold b1; rewrite (proj1 (flush_chunk_misc b0 (b_head b))); reflexivity).
    assert (Hc1 : forall c, chunk_at b1 c = if Nat.eqb c (b_head b) then
                     (match k_wbuf (chunk_at b (b_head b)) with [] => chunk_at b c | _ => chunk_flush (chunk_at b (b_head b)) end)
                   else chunk_at b c).
    { intros c. unfold b1. rewrite flush_chunk_eq. change (chunk_at b0 (b_head b)) with (chunk_at b (b_head b)).
      destruct (k_wbuf (chunk_at b (b_head b))) eqn:Ew.
      - destruct (Nat.eqb c (b_head b)); reflexivity.
      - destruct (Nat.eqb_spec c (b_head b)) as [->|Hne]; [apply chunk_at_set_same|]. rewrite chunk_at_set_other by congruence. reflexivity. }
    assert (Hnew : chunk_at b1 (S (b_head b)) = chunk0).
    { rewrite Hc1. replace (Nat.eqb (S (b_head b)) (b_head b)) with false by (symmetry; apply Nat.eqb_neq; lia). apply Habove. lia. }
    rewrite Hh1, Hnew. change (k_whead chunk0) with 0.
    change (mkChunk (k_exists chunk0) (k_disk chunk0) (k_fsize chunk0) (k_wbuf chunk0 ++ [(0, r)]) (0 + dsize r) (0 + dsize r) (k_rewriting chunk0))
      with (chunk_append chunk0 r).
    assert (Hhead0 : chunk_at b (S (b_head b)) = chunk0) by (apply Habove; lia).
    assert (Hrecs1 : forall c, all_recs (chunk_at b1 c) = recs_at b c).
    { intros c. rewrite Hc1. destruct (Nat.eqb_spec c (b_head b)) as [->|]; [|reflexivity].
      destruct (k_wbuf (chunk_at b (b_head b))); [reflexivity|apply chunk_flush_recs]. }
    assert (Hwh1 : forall c, k_whead (chunk_at b1 c) = k_whead (chunk_at b c)).
    { intros c. rewrite Hc1. destruct (Nat.eqb_spec c (b_head b)) as [->|]; [|reflexivity].
      destruct (k_wbuf (chunk_at b (b_head b))); reflexivity. }
    split; [exact Hh1|]. split; [now right|]. split; [now rewrite Hhead0|].
    split; [|split; [|split; [|split]]].
    + intros c. unfold recs_at at 1. destruct (Nat.eqb_spec c (S (b_head b))) as [->|Hne].
      * rewrite chunk_at_set_same. unfold recs_at. rewrite Hhead0. reflexivity.
      * rewrite chunk_at_set_other by congruence. apply Hrecs1.
    + intros c. destruct (Nat.eqb_spec c (S (b_head b))) as [->|Hne].
      * rewrite chunk_at_set_same. reflexivity.
      * rewrite chunk_at_set_other by congruence. apply Hwh1.
    + intros c. destruct (Nat.eq_dec (S (b_head b)) c) as [<-|Hne].
      * rewrite chunk_at_set_same. apply cst_append, cst0.
      * rewrite chunk_at_set_other by exact Hne. rewrite Hc1. destruct (Nat.eqb_spec c (b_head b)) as [->|]; [|apply Hcst].
        destruct (k_wbuf (chunk_at b (b_head b))); [apply Hcst|apply cst_flush, Hcst].
    + intros c Hne. rewrite chunk_at_set_other by congruence. rewrite Hc1.
      destruct (Nat.eqb_spec c (b_head b)) as [->|Hne2]; [|now apply Hnh].
      destruct (k_wbuf (chunk_at b (b_head b))) eqn:Ew; [exact Ew|reflexivity].
    + change (misc (set_chunk b1 (S (b_head b)) (chunk_append chunk0 r))) with (misc b1). unfold b1. rewrite flush_chunk_misc2. reflexivity.
  - set (k := chunk_at b (b_head b)).
    change (mkChunk (k_exists k) (k_disk k) (k_fsize k) (k_wbuf k ++ [(k_whead k, r)])
                    (k_whead k + dsize r) (k_whead k + dsize r) (k_rewriting k)) with (chunk_append k r).
    split; [reflexivity|]. split; [now left|]. split; [reflexivity|].
    split; [|split; [|split; [|split]]].
    + intros c. unfold recs_at at 1. destruct (Nat.eqb_spec c (b_head b)) as [->|Hne].
      * rewrite chunk_at_set_same. unfold recs_at, all_recs, chunk_append. cbn [k_disk k_wbuf]. fold k. now rewrite app_assoc.
      * rewrite chunk_at_set_other by congruence. reflexivity.
    + intros c. destruct (Nat.eqb_spec c (b_head b)) as [->|Hne].
      * rewrite chunk_at_set_same. reflexivity.
      * rewrite chunk_at_set_other by congruence. reflexivity.
    + intros c. destruct (Nat.eq_dec (b_head b) c) as [<-|Hne].
      * rewrite chunk_at_set_same. apply cst_append, Hcst.
      * rewrite chunk_at_set_other by exact Hne. apply Hcst.
    + intros c Hne. rewrite chunk_at_set_other by congruence. now apply Hnh.
    + reflexivity.
Qed.

(* ---- the invariant ---- *)
Definition hcov_at (sps : list hsplit) (k : chunk) (c : nat) : Prop :=
  sps <> [] /\ cov hf K c 0 sps (all_recs k) /\ bound_from 0 sps <= k_whead k /\
  Forall (fun e => fst e < bound_from 0 sps) (all_recs k).

Definition upds_upto (b : bucket) (n : nat) : list upd := List.concat (map (fun c => rupds hf c (recs_at b c)) (seq 0 n)).

Definition tv (b : bucket) (U : list upd) (h : N) : Prop :=
  match tree_get_slot b h with
  | Some s => if (0 <? s_ver s)%Z then last_upd h U = Some (Some s) else last_upd h U = Some None
  | None => last_upd h U = None \/ last_upd h U = Some None
  end.

Definition hid_le (a b : hid) : Prop := (fst a < fst b)%nat \/ (fst a = fst b /\ (snd a <= snd b)%Z).

Definition XInv (b : bucket) : Prop :=
  (forall c, cst (chunk_at b c)) /\
  (forall c, c <> b_head b -> k_wbuf (chunk_at b c) = []) /\
  (forall c e, In e (recs_at b c) -> In (d_key (snd e)) K) /\
  (forall c, hcov_at (sps_at b c) (chunk_at b c) c) /\
  (forall h, tv b (upds_upto b (S (b_head b))) h) /\
  hid_le (b_treeid b) (b_maxdumped b).

Lemma hid_le_refl a : hid_le a a. Proof. right. split; [reflexivity|lia]. Qed.
Lemma hid_le_trans a b c : hid_le a b -> hid_le b c -> hid_le a c.
Proof. unfold hid_le. intros [H1|[H1 H2]] [H3|[H3 H4]]; [left; lia|left; lia|left; lia|right; split; lia]. Qed.
Lemma hid_larger_le id c j : hid_larger id c j = true <-> hid_le id (c, j).
Proof.
  unfold hid_larger, hid_le. cbn [fst snd]. split.
  - intros H. apply orb_prop in H as [H|H]; [left; apply Nat.ltb_lt in H; exact H|].
    apply andb_prop in H as [H1 H2]. apply Nat.eqb_eq in H1. right. split; [now symmetry|lia].
  - intros [H|[H1 H2]]; apply orb_true_iff; [left; now apply Nat.ltb_lt|right].
    apply andb_true_iff. split; [apply Nat.eqb_eq; now symmetry|lia].
Qed.

Lemma dump_old_md sps : forall j md c, hid_le md (snd (dump_old sps j md c)).
Proof.
  induction sps as [|sp sps IH]; intros j md c; cbn [dump_old snd]; [apply hid_le_refl|].
  destruct sps as [|sp2 t]; [apply hid_le_refl|].
  specialize (IH (j + 1)%Z (if need_dump sp && hid_larger md c j then (c, j) else md) c).
  destruct (dump_old (sp2 :: t) (j + 1) _ c) as [t' md']. cbn [snd] in *.
  eapply hid_le_trans; [|exact IH]. destruct (need_dump sp); cbn [andb]; [|apply hid_le_refl].
  destruct (hid_larger md c j) eqn:E; [now apply hid_larger_le|apply hid_le_refl].
Qed.

Lemma trydump_md b c d : hid_le (b_maxdumped b) (b_maxdumped (trydump b c d)) /\ b_treeid (trydump b c d) = b_treeid b.
Proof.
  unfold trydump. pose proof (dump_old_md (hc_splits (hchunk_at b c)) 0%Z (b_maxdumped b) c) as H.
  destruct (dump_old _ _ _ _) as [sps md]. cbn [snd] in H.
  destruct (_ || _); cbn [set_hints b_maxdumped b_treeid]; [split; [exact H|reflexivity]|].
  split; [|reflexivity]. destruct (hid_larger md c _) eqn:E; [|exact H].
  eapply hid_le_trans; [exact H|]. now apply hid_larger_le.
Qed.

Lemma hints_set_item_md b it c rs :
  hid_le (b_maxdumped b) (b_maxdumped (hints_set_item cf b it c rs)) /\ b_treeid (hints_set_item cf b it c rs) = b_treeid b.
Proof.
  unfold hints_set_item. destruct (split_set _ _ _ _); cbv zeta iota beta.
  - destruct (Nat.ltb _ _); cbn [set_hints b_maxdumped b_treeid]; split; try reflexivity; apply hid_le_refl.
  - match goal with |- context [trydump ?x c false] => pose proof (trydump_md x c false) as [H1 H2] end.
    destruct (Nat.ltb _ _); cbn [set_hints b_maxdumped b_treeid] in *; split; assumption.
Qed.

Lemma upds_upto_S b n : upds_upto b (S n) = upds_upto b n ++ rupds hf n (recs_at b n).
Proof. unfold upds_upto. rewrite seq_S, map_app, concat_app. cbn [map List.concat Nat.add]. now rewrite app_nil_r. Qed.

Lemma upds_upto_ext b b' n : (forall c, (c < n)%nat -> recs_at b' c = recs_at b c) -> upds_upto b' n = upds_upto b n.
Proof.
  intros H. unfold upds_upto. f_equal. apply map_ext_in. intros c Hc. apply in_seq in Hc. rewrite H by lia. reflexivity.
Qed.

Lemma tv_ext b b' U U' : (forall h, tree_get_slot b' h = tree_get_slot b h) -> U' = U -> (forall h, tv b U h) -> forall h, tv b' U' h.
Proof. intros Ht -> H h. unfold tv. rewrite Ht. apply H. Qed.

Lemma hcov_frame sps k k' c : all_recs k' = all_recs k -> k_whead k' = k_whead k -> hcov_at sps k c -> hcov_at sps k' c.
Proof. unfold hcov_at. intros -> ->. auto. Qed.

(* bucket.set keeps the invariant *)
Lemma bkt_set_x b key r vh :
  layout_ok b -> b_ctab b = [] -> XInv b -> 0 < c_splitcap cf ->
  In key K -> d_key r = key -> ((0 < d_ver r)%Z -> vh = vhash (d_val r)) ->
  XInv (bkt_set cf b (hf key) r vh).
Proof.
  intros Hlay Hct (Hcst & Hnh & Hkeys & Hcov & Htv & Hle) Hcap Hk Hkey Hvh.
  unfold bkt_set. pose proof (append_record_x b r Hlay Hcst Hnh) as Hx. cbv zeta in Hx.
  destruct (append_record cf b r) as [b1 p]. cbn [fst snd] in Hx.
  destruct Hx as (Hh1 & Hpc & Hoff & Hrecs & Hwh & Hcst1 & Hnh1 & Hmisc).
  assert (Hm : b_hints b1 = b_hints b /\ b_hmax b1 = b_hmax b /\ b_maxdumped b1 = b_maxdumped b /\ b_treeid b1 = b_treeid b /\
               b_tree b1 = b_tree b /\ b_ctab b1 = b_ctab b).
  { unfold misc in Hmisc. injection Hmisc as -> -> _ -> -> -> ->. repeat split. }
  destruct Hm as (Hh & Hhm & Hmd & Hti & Htr & Hc1).
  set (sl := mkSlot p (d_ver r) vh). set (b2 := tree_put b1 (hf key) sl).
  set (it := mkHI (hf key) 0 (p_off p) (d_ver r) vh (d_key r)).
  unfold hints_set. replace (ct_has_hash (b_ctab b2) (hf key)) with false by (unfold b2; cbn [tree_put set_tree b_ctab]; now rewrite Hc1, Hct).
  cbv iota. set (b3 := hints_set_item cf b2 it (p_chunk p) (dsize r)). change (XInv b3).
  pose proof (hints_set_item_core cf b2 it (p_chunk p) (dsize r)) as Hcore. fold b3 in Hcore.
  assert (Hch3 : forall c, chunk_at b3 c = chunk_at b1 c) by (intros c; apply (core_chunk_at b3 b2 c Hcore)).
  assert (Hhd3 : b_head b3 = p_chunk p) by (rewrite (core_head b3 b2 Hcore); exact Hh1).
  assert (Hrecs3 : forall c, recs_at b3 c = if Nat.eqb c (p_chunk p) then recs_at b c ++ [(p_off p, r)] else recs_at b c).
  { intros c. unfold recs_at at 1. rewrite Hch3. apply Hrecs. }
  set (e := (p_off p, r)).
  assert (Hdesc : describes hf it e).
  { unfold describes, it, e. cbn [hi_key hi_hash hi_off hi_ver hi_vh fst snd]. rewrite Hkey. repeat split; auto. }
  assert (Hiok : item_ok hf K it) by (unfold item_ok, it; cbn [hi_key hi_hash]; rewrite Hkey; auto).
  split; [|split; [|split; [|split; [|split]]]].
  - intros c. rewrite Hch3. apply Hcst1.
  - intros c Hne. rewrite Hch3. apply Hnh1. intros E. apply Hne. rewrite E. symmetry. exact Hhd3.
  - intros c x Hin. rewrite Hrecs3 in Hin. destruct (Nat.eqb c (p_chunk p)); [|now apply (Hkeys c)].
    apply in_app_or in Hin as [Hin|[<-|[]]]; [now apply (Hkeys c)|]. cbn [snd]. now rewrite Hkey.
  - intros c. destruct (hints_set_item_sps_at cf b2 it (p_chunk p) (dsize r) c) as (S' & HS & HS'). fold b3 in HS.
    assert (Hsps2 : forall x, sps_at b2 x = sps_at b x) by (intros x; unfold sps_at, hchunk_at, b2; cbn [tree_put set_tree b_hints]; now rewrite Hh).
    rewrite HS. destruct (Nat.eqb_spec (p_chunk p) c) as [<-|Hne].
    + (* the chunk that received the record *)
      destruct (Hcov (p_chunk p)) as (Hne0 & Hc0 & Hb0 & Hall0). rewrite Hsps2 in HS'.
      assert (Hset : cov hf K (p_chunk p) 0 (set_sps (c_splitcap cf) (sps_at b (p_chunk p)) it (dsize r)) (recs_at b (p_chunk p) ++ [e]) /\
                     bound_from 0 (set_sps (c_splitcap cf) (sps_at b (p_chunk p)) it (dsize r)) = fst e + dsize (snd e)).
      { apply (cov_set_sps hf K hf_inj (p_chunk p) (c_splitcap cf) it e (recs_at b (p_chunk p)) (sps_at b (p_chunk p)) 0); try assumption.
        unfold e. cbn [fst]. rewrite Hoff. exact Hb0. }
      destruct Hset as [Hset1 Hset2].
      assert (Hne1 : set_sps (c_splitcap cf) (sps_at b (p_chunk p)) it (dsize r) <> []).
      { unfold set_sps. destruct (split_set _ _ _ _); destruct (removelast _); discriminate. }
      assert (Hfin : forall S0, S0 <> [] -> cov hf K (p_chunk p) 0 S0 (recs_at b (p_chunk p) ++ [e]) -> bound_from 0 S0 = fst e + dsize (snd e) ->
                     hcov_at S0 (chunk_at b3 (p_chunk p)) (p_chunk p)).
      { intros S0 HneS HcS HbS. unfold hcov_at. fold (recs_at b3 (p_chunk p)). rewrite Hrecs3, Nat.eqb_refl, Hch3, Hwh, Nat.eqb_refl, HbS.
        unfold e. cbn [fst snd]. split; [exact HneS|]. split; [exact HcS|]. split; [lia|].
        pose proof (dsize_pos r). apply Forall_app. split.
        - eapply Forall_impl; [|exact Hall0]. cbv beta. intros x Hx. rewrite Hoff. lia.
        - constructor; [cbn [fst]; lia|constructor]. }
      destruct HS' as [->|(md & stop & ->)]; [now apply Hfin|].
      destruct (trydump_sps_cov hf K (p_chunk p) _ md (p_chunk p) stop _ 0 Hne1 Hset1) as (Ha & Hb & Hc).
      apply Hfin; [exact Ha|exact Hb|now rewrite Hc].
    + rewrite Hsps2. apply (hcov_frame _ (chunk_at b c)); [| |apply Hcov].
      * fold (recs_at b3 c) (recs_at b c). rewrite Hrecs3. now replace (Nat.eqb c (p_chunk p)) with false by (symmetry; apply Nat.eqb_neq; congruence).
      * rewrite Hch3, Hwh. now replace (Nat.eqb c (p_chunk p)) with false by (symmetry; apply Nat.eqb_neq; congruence).
  - (* tree view *)
    rewrite Hhd3.
    assert (HU : upds_upto b3 (S (p_chunk p)) = upds_upto b (S (b_head b)) ++ [rec_upd hf (p_chunk p) e]).
    { destruct Hpc as [Hpc|Hpc].
      - rewrite Hpc, !upds_upto_S. rewrite (upds_upto_ext b b3).
        + rewrite Hrecs3, <- Hpc, Nat.eqb_refl. unfold rupds. rewrite map_app, app_assoc. reflexivity.
        + intros c Hc. rewrite Hrecs3. now replace (Nat.eqb c (p_chunk p)) with false by (symmetry; apply Nat.eqb_neq; lia).
      - rewrite Hpc, (upds_upto_S b3 (S (b_head b))). rewrite (upds_upto_ext b b3).
        + rewrite Hrecs3, <- Hpc, Nat.eqb_refl. unfold recs_at. rewrite (proj2 Hlay (p_chunk p)) by lia. reflexivity.
        + intros c Hc. rewrite Hrecs3. now replace (Nat.eqb c (p_chunk p)) with false by (symmetry; apply Nat.eqb_neq; lia). }
    rewrite HU. intros h. unfold tv. rewrite (core_tree b3 b2 h Hcore). rewrite last_upd_app. cbn [last_upd].
    unfold rec_upd, e. cbn [fst snd]. rewrite Hkey.
    destruct (N.eqb_spec (hf key) h) as [<-|Hne].
    + unfold b2. rewrite tree_put_same. unfold sl. cbn [s_ver].
      destruct (0 <? d_ver r)%Z eqn:El; [|reflexivity].
      rewrite Hvh by lia. destruct p; reflexivity.
    + unfold b2. rewrite tree_put_other by exact Hne.
      assert (Ht1 : tree_get_slot b1 h = tree_get_slot b h) by (unfold tree_get_slot; now rewrite Htr).
      rewrite Ht1. specialize (Htv h). unfold tv in Htv. destruct (last_upd h (upds_upto b (S (b_head b)))); exact Htv.
  - destruct (hints_set_item_md b2 it (p_chunk p) (dsize r)) as [H1 H2]. fold b3 in H1, H2.
    rewrite H2. change (b_treeid b2) with (b_treeid b1). change (b_maxdumped b2) with (b_maxdumped b1) in H1.
    rewrite Hti. rewrite Hmd in H1. eapply hid_le_trans; eassumption.
Qed.

(* ---- changes that leave data and hints alone ---- *)
Lemma xinv_same b b' :
  b_chunks b' = b_chunks b -> b_head b' = b_head b -> b_hints b' = b_hints b ->
  (forall h, tree_get_slot b' h = tree_get_slot b h) ->
  b_treeid b' = b_treeid b -> b_maxdumped b' = b_maxdumped b -> XInv b -> XInv b'.
Proof.
  intros Hc Hh Hhi Ht Hti Hmd (H1 & H2 & H3 & H4 & H5 & H6).
  assert (Hca : forall c, chunk_at b' c = chunk_at b c) by (intros c; unfold chunk_at; now rewrite Hc).
  assert (Hsa : forall c, sps_at b' c = sps_at b c) by (intros c; unfold sps_at, hchunk_at; now rewrite Hhi).
  split; [|split; [|split; [|split; [|split]]]].
  - intros c. rewrite Hca. apply H1.
  - intros c Hne. rewrite Hca. apply H2. congruence.
  - intros c e. unfold recs_at. rewrite Hca. apply H3.
  - intros c. rewrite Hca, Hsa. apply H4.
  - rewrite Hh. apply (tv_ext b b' (upds_upto b (S (b_head b))) (upds_upto b' (S (b_head b))) Ht); [|exact H5]. apply upds_upto_ext. intros c _. unfold recs_at. now rewrite Hca.
  - now rewrite Hti, Hmd.
Qed.

(* ---- flush ---- *)
Lemma xinv_chunk_change b b' :
  b_head b' = b_head b -> b_hints b' = b_hints b -> b_tree b' = b_tree b -> b_treeid b' = b_treeid b -> b_maxdumped b' = b_maxdumped b ->
  (forall c, cst (chunk_at b' c)) -> (forall c, c <> b_head b -> k_wbuf (chunk_at b' c) = []) ->
  (forall c, all_recs (chunk_at b' c) = all_recs (chunk_at b c)) -> (forall c, k_whead (chunk_at b' c) = k_whead (chunk_at b c)) ->
  XInv b -> XInv b'.
Proof.
  intros Hh Hhi Htr Hti Hmd Hcst' Hnh' Hrecs Hwh (H1 & H2 & H3 & H4 & H5 & H6).
  assert (Hsa : forall c, sps_at b' c = sps_at b c) by (intros c; unfold sps_at, hchunk_at; now rewrite Hhi).
  split; [exact Hcst'|]. split; [intros c Hne; apply Hnh'; congruence|]. split; [|split; [|split]].
  - intros c e. unfold recs_at. rewrite Hrecs. apply H3.
  - intros c. rewrite Hsa. apply (hcov_frame _ (chunk_at b c)); [apply Hrecs|apply Hwh|apply H4].
  - rewrite Hh. apply (tv_ext b b' (upds_upto b (S (b_head b))) (upds_upto b' (S (b_head b)))); [intros h; unfold tree_get_slot; now rewrite Htr| |exact H5].
    apply upds_upto_ext. intros c _. unfold recs_at. apply Hrecs.
  - now rewrite Hti, Hmd.
Qed.

Lemma flush_head_x b : layout_ok b -> XInv b -> XInv (flush_head b).
Proof.
  intros Hlay HX. pose proof HX as (H1 & H2 & _). unfold flush_head. destruct (wbuf_total b =? 0); [exact HX|].
  destruct (k_wbuf (chunk_at b (b_head b))) eqn:Ew.
  - set (k := chunk_at b (b_head b)).
    set (k' := mkChunk true (k_disk k) (k_fsize k) [] (k_whead k) (k_size k) (k_rewriting k)).
    apply (xinv_chunk_change b); try reflexivity.
    + intros c. destruct (Nat.eq_dec (b_head b) c) as [<-|Hne]; [|rewrite chunk_at_set_other by exact Hne; apply H1].
      rewrite chunk_at_set_same. destruct (H1 (b_head b)) as (Hok & Hsp & Hall & Hf & Hsz & Hrw & Hex & Hmod). fold k in Hok, Hsp, Hall, Hf, Hsz, Hrw, Hex, Hmod.
      assert (Hrecs : all_recs k' = all_recs k) by (unfold all_recs, k'; cbn [k_disk k_wbuf]; unfold k; now rewrite Ew).
      unfold cst. rewrite Hrecs. unfold k'. cbn [k_whead k_wbuf k_fsize k_size k_rewriting k_exists].
      split; [|split; [exact Hsp|split; [exact Hall|split; [intros _; apply Hf; exact Ew|split; [exact Hsz|split; [exact Hrw|split; [discriminate|exact Hmod]]]]]]].
      destruct Hok as (Hd & Hw & He & Hle). unfold chunk_ok, wstart in *. cbn [k_disk k_wbuf k_whead k_exists]. unfold k in *. rewrite Ew in *.
      split; [exact Hd|]. split; [intros o r []|]. split; [discriminate|lia].
    + intros c Hne. rewrite chunk_at_set_other by congruence. now apply H2.
    + intros c. destruct (Nat.eq_dec (b_head b) c) as [<-|Hne]; [|now rewrite chunk_at_set_other].
      rewrite chunk_at_set_same. unfold all_recs. cbn [k_disk k_wbuf]. now rewrite Ew.
    + intros c. destruct (Nat.eq_dec (b_head b) c) as [<-|Hne]; [|now rewrite chunk_at_set_other]. now rewrite chunk_at_set_same.
    + exact HX.
  - clear Ew. rewrite flush_chunk_eq. destruct (k_wbuf (chunk_at b (b_head b))) eqn:Ew; [exact HX|].
    apply (xinv_chunk_change b); try reflexivity.
    + intros c. destruct (Nat.eq_dec (b_head b) c) as [<-|Hne]; [|rewrite chunk_at_set_other by exact Hne; apply H1].
      rewrite chunk_at_set_same. apply cst_flush, H1.
    + intros c Hne. rewrite chunk_at_set_other by congruence. now apply H2.
    + intros c. destruct (Nat.eq_dec (b_head b) c) as [<-|Hne]; [|now rewrite chunk_at_set_other].
      rewrite chunk_at_set_same. apply chunk_flush_recs.
    + intros c. destruct (Nat.eq_dec (b_head b) c) as [<-|Hne]; [|now rewrite chunk_at_set_other]. now rewrite chunk_at_set_same.
    + exact HX.
Qed.

(* ---- hint dump ---- *)
Lemma trydump_x b c d : XInv b -> XInv (trydump b c d).
Proof.
  intros (H1 & H2 & H3 & H4 & H5 & H6).
  pose proof (trydump_core b c d) as Hcore.
  assert (Hca : forall x, chunk_at (trydump b c d) x = chunk_at b x) by (intros x; apply (core_chunk_at _ _ x Hcore)).
  assert (Hh : b_head (trydump b c d) = b_head b) by apply (core_head _ _ Hcore).
  split; [|split; [|split; [|split; [|split]]]].
  - intros x. rewrite Hca. apply H1.
  - intros x Hne. rewrite Hca. apply H2. congruence.
  - intros x e. unfold recs_at. rewrite Hca. apply H3.
  - intros x. rewrite Hca, trydump_sps_at. destruct (Nat.eqb_spec c x) as [<-|Hne]; [|apply H4].
    destruct (H4 c) as (Hne0 & Hc0 & Hb0 & Hall0).
    destruct (trydump_sps_cov hf K c (sps_at b c) (b_maxdumped b) c ((negb d && Nat.eqb c (b_hmax b)) || negb (hc_active (hchunk_at b c))) _ 0 Hne0 Hc0) as (Ha & Hb & Hc).
    unfold hcov_at. rewrite Hc. auto.
  - rewrite Hh. apply (tv_ext b (trydump b c d) (upds_upto b (S (b_head b))) (upds_upto (trydump b c d) (S (b_head b)))); [intros h; apply (core_tree _ _ h Hcore)| |exact H5].
    apply upds_upto_ext. intros x _. unfold recs_at. now rewrite Hca.
  - destruct (trydump_md b c d) as [Ha Hb]. rewrite Hb. eapply hid_le_trans; eassumption.
Qed.

Lemma trydump_all_x l : forall b, XInv b -> XInv (fold_left (fun bb i => trydump bb i false) l b).
Proof. induction l as [|i l IH]; intros b H; cbn [fold_left]; [exact H|]. apply IH, trydump_x, H. Qed.

(* ---- client operations ---- *)
Hypothesis cap_pos : 0 < c_splitcap cf.
Hypothesis no_checkvhash : c_checkvhash cf = false.

Lemma next_version_live oldv rev ver : next_version oldv rev = Some ver -> (0 < ver)%Z -> (0 <= rev)%Z.
Proof.
  unfold next_version, zabs. destruct (rev =? 0)%Z eqn:E0; [lia|]. destruct (rev <? 0)%Z eqn:E1; [|lia].
  intros H; injection H as <-. lia.
Qed.

Lemma check_and_set_x so b key val flag rev ts z :
  layout_ok b -> b_ctab b = [] -> XInv b -> In key K ->
  XInv (fst (check_and_set_gen so cf hf b key val flag rev ts z)).
Proof.
  intros Hlay Hct HX Hk. unfold check_and_set_gen. rewrite no_checkvhash, !andb_false_r.
  assert (Hset : forall oldv ver, next_version oldv rev = Some ver ->
            XInv (bkt_set cf b (hf key) (mkD key val (stored_flag flag (match compress_decide (lenN key) (lenN val) flag rev z with Some _ => true | None => false end)) ver ts
                                             (match compress_decide (lenN key) (lenN val) flag rev z with Some n => n | None => lenN val end))
                          (if (0 <=? rev)%Z then vhash val else 0))).
  { intros oldv ver Hnv. apply bkt_set_x; try assumption; [reflexivity|]. cbn [d_ver d_val]. intros Hl.
    pose proof (next_version_live _ _ _ Hnv Hl). now replace (0 <=? rev)%Z with true by lia. }
  destruct (bkt_get_mem b (hf key) key) as [[[ov ovh] op]|].
  - destruct (next_version ov rev) as [ver|] eqn:Env; [|exact HX]. destruct (_ && _); [exact HX|]. cbn [fst]. now apply (Hset ov).
  - destruct (next_version 0 rev) as [ver|] eqn:Env; [|exact HX]. destruct (_ && _); [exact HX|]. cbn [fst]. now apply (Hset 0%Z).
Qed.

Definition RInv (b : bucket) (m : smap) : Prop := Rel hf K b m /\ XInv b.

Lemma bkt_incr_x b m key d ts : RInv b m -> In key K -> XInv (fst (bkt_incr cf hf b key d ts)).
Proof.
  intros [HR HX] Hk. pose proof HR as [(Hlay & Hct & _) _].
  destruct (bkt_get_spec hf K hf_inj b m key HR Hk) as [Hb _].
  unfold bkt_incr. destruct (bkt_get hf b key) as [b1 g]. cbn [fst] in Hb. subst b1.
  destruct (match g with GHit v fl ver _ _ => if (0 <? ver)%Z then Some (v, fl, ver) else None | _ => None end) as [[[v fl] ver]|].
  - destruct (22 <? lenN v); [exact HX|]. destruct (_ || _); [exact HX|]. cbn [fst].
    apply bkt_set_x; try assumption; reflexivity.
  - destruct (match g with GFail => true | _ => false end); [exact HX|]. cbn [fst]. apply bkt_set_x; try assumption; reflexivity.
Qed.
End X.
