(* C13: a get never returns another key's value -- hint accuracy invariant over client operations,
   colliding keys and a non-empty collision table included. *)
From Coq Require Import NArith ZArith List Bool Lia ZifyN ZifyNat ZifyBool.
From GB Require Import Consts Words Hash HintFile HTree Compress Bucket BucketOpen Gc CheckL2 BucketBasics Refine GcTouch LogMono.
Import ListNotations.
Open Scope N_scope.

(* ---- membership through the hint-buffer operations ---- *)
Lemma in_insert_by lt x y l : In y (insert_by lt x l) -> y = x \/ In y l.
Proof.
  induction l as [|z l IH]; cbn [insert_by]; [intros [<-|[]]; now left|].
  destruct (lt z x); cbn [In].
  - intros [<-|H]; [right; now left|]. destruct (IH H); [now left|right; now right].
  - intros [<-|H]; [now left|now right].
Qed.
Lemma in_sort_by lt y l : In y (sort_by lt l) -> In y l.
Proof.
  unfold sort_by. induction l as [|x l IH]; cbn [fold_right]; [auto|].
  intros H. apply in_insert_by in H as [->|H]; [now left|right; auto].
Qed.
Lemma in_buf_set cap l it l' y : buf_set cap l it = Some l' -> In y l' -> y = it \/ In y l.
Proof.
  unfold buf_set. destruct (buf_has l it).
  - intros E; injection E as <-. intros H. apply in_app_or in H as [H|[<-|[]]]; [|now left].
    apply filter_In in H as [H _]. now right.
  - destruct (cap <=? lenN l); [discriminate|]. intros E; injection E as <-.
    intros H. apply in_app_or in H as [H|[<-|[]]]; [now right|now left].
Qed.

Definition items_of (sps : list hsplit) : list hitem := List.concat (map sp_items sps).
Definition hint_items (b : bucket) (c : nat) : list hitem := items_of (hc_splits (hchunk_at b c)).

Lemma items_of_app a b : items_of (a ++ b) = items_of a ++ items_of b.
Proof. unfold items_of. now rewrite map_app, concat_app. Qed.

Lemma items_of_removelast sps y : In y (items_of (removelast sps)) -> In y (items_of sps).
Proof.
  induction sps as [|sp sps IH]; [auto|]. destruct sps as [|sp2 sps]; [intros []|].
  change (removelast (sp :: sp2 :: sps)) with (sp :: removelast (sp2 :: sps)).
  unfold items_of in *. cbn [map concat]. intros H. apply in_app_or in H as [H|H]; apply in_or_app; [now left|right; auto].
Qed.
Lemma items_of_last sps y : In y (sp_items (last_split sps)) -> In y (items_of sps).
Proof.
  unfold last_split. induction sps as [|sp sps IH]; cbn [last]; [intros []|].
  destruct sps as [|sp2 sps].
  - unfold items_of. cbn [map concat]. rewrite app_nil_r. auto.
  - intros H. unfold items_of in *. cbn [map concat]. apply in_or_app. right. apply IH, H.
Qed.

Lemma in_dump_old sps : forall j md c y, In y (items_of (fst (dump_old sps j md c))) -> In y (items_of sps).
Proof.
  induction sps as [|sp sps IH]; intros j md c y; cbn [dump_old fst]; [auto|].
  destruct sps as [|sp2 sps]; [auto|].
  destruct (dump_old (sp2 :: sps) (j + 1) _ c) as [t' md'] eqn:E. cbn [fst].
  unfold items_of in *. cbn [map concat]. intros H. apply in_app_or in H as [H|H]; apply in_or_app.
  - left. destruct (need_dump sp); [|exact H]. cbn [dump_split sp_items] in H. now apply in_sort_by in H.
  - right. specialize (IH (j + 1)%Z (if need_dump sp && hid_larger md c j then (c, j) else md) c y). rewrite E in IH. now apply IH.
Qed.

Lemma hchunk_at_updd b hs' c c' hc hm md :
  hs' = updd hchunk0 (b_hints b) c hc ->
  hchunk_at (set_hints b hs' hm md) c' = if Nat.eqb c c' then hc else hchunk_at b c'.
Proof.
  intros ->. unfold hchunk_at. cbn [set_hints b_hints]. destruct (Nat.eqb c c') eqn:E.
  - apply Nat.eqb_eq in E. subst. apply nth_updd_same.
  - apply Nat.eqb_neq in E. now apply nth_updd_other.
Qed.

Lemma trydump_items b c d c' y : In y (hint_items (trydump b c d) c') -> In y (hint_items b c').
Proof.
  unfold trydump, hint_items.
  pose proof (in_dump_old (hc_splits (hchunk_at b c)) 0 (b_maxdumped b) c) as Hd.
  destruct (dump_old (hc_splits (hchunk_at b c)) 0 (b_maxdumped b) c) as [sps md]. cbn [fst] in Hd.
  destruct (_ || negb (need_dump (last_split sps))).
  - rewrite (hchunk_at_updd b _ c c' _ _ _ eq_refl). destruct (Nat.eqb c c') eqn:E; [|auto].
    apply Nat.eqb_eq in E. subst c'. cbn [hc_splits]. apply Hd.
  - rewrite (hchunk_at_updd b _ c c' _ _ _ eq_refl). destruct (Nat.eqb c c') eqn:E; [|auto].
    apply Nat.eqb_eq in E. subst c'. cbn [hc_splits]. rewrite items_of_app. intros H. apply Hd.
    apply in_app_or in H as [H|H]; [now apply items_of_removelast|].
    unfold items_of in H. cbn [map concat dump_split sp_items split0 app] in H. repeat rewrite app_nil_r in H.
    apply in_sort_by in H. now apply items_of_last.
Qed.

Lemma hints_set_item_items cf b it c rs c' y :
  In y (hint_items (hints_set_item cf b it c rs) c') -> (c' = c /\ y = it) \/ In y (hint_items b c').
Proof.
  unfold hints_set_item.
  set (sps := hc_splits (hchunk_at b c)).
  assert (Hstep : forall sps' b1, b1 = set_hints b (updd hchunk0 (b_hints b) c (mkHC sps' true)) (b_hmax b) (b_maxdumped b) ->
             (forall z, In z (items_of sps') -> z = it \/ In z (items_of sps)) ->
             In y (hint_items b1 c') -> (c' = c /\ y = it) \/ In y (hint_items b c')).
  { intros sps' b1 -> Hsub. unfold hint_items. rewrite (hchunk_at_updd b _ c c' _ _ _ eq_refl).
    destruct (Nat.eqb c c') eqn:E; [|now right]. apply Nat.eqb_eq in E. subst c'. cbn [hc_splits].
    intros H. destruct (Hsub _ H) as [->|H2]; [now left|now right]. }
  assert (Hfin : forall b2, (In y (hint_items b2 c') -> (c' = c /\ y = it) \/ In y (hint_items b c')) ->
             In y (hint_items (if Nat.ltb (b_hmax b2) c then set_hints b2 (b_hints b2) c (b_maxdumped b2) else b2) c') ->
             (c' = c /\ y = it) \/ In y (hint_items b c')).
  { intros b2 H. destruct (Nat.ltb _ _); exact H. }
  destruct (split_set (c_splitcap cf) (last_split sps) it rs) as [sp|] eqn:Ess; cbv zeta iota beta.
  - apply Hfin. apply (Hstep _ _ eq_refl). intros z Hz. rewrite items_of_app in Hz.
    apply in_app_or in Hz as [Hz|Hz]; [right; now apply items_of_removelast|].
    unfold items_of in Hz. cbn [map concat] in Hz. rewrite app_nil_r in Hz.
    unfold split_set in Ess. destruct (buf_set _ _ it) as [l|] eqn:Eb; [|discriminate]. injection Ess as <-. cbn [sp_items] in Hz.
    destruct (in_buf_set _ _ _ _ _ Eb Hz) as [->|H]; [now left|right; now apply items_of_last].
  - apply Hfin. intros H. apply trydump_items in H. revert H. apply (Hstep _ _ eq_refl).
    intros z Hz. rewrite items_of_app in Hz.
    apply in_app_or in Hz as [Hz|Hz]; [right; now apply items_of_removelast|].
    unfold items_of in Hz. cbn [map concat sp_items] in Hz. rewrite app_nil_r in Hz.
    apply in_app_or in Hz as [Hz|Hz]; [right; now apply items_of_last|].
    destruct (split_set (c_splitcap cf) split0 it rs) as [sp|] eqn:E0; [|destruct Hz].
    unfold split_set in E0. destruct (buf_set _ _ it) as [l|] eqn:Eb; [|discriminate]. injection E0 as <-. cbn [sp_items split0] in Hz.
    destruct (in_buf_set _ _ _ _ _ Eb Hz) as [->|[]]. now left.
Qed.

(* ---- the invariant ---- *)
Definition HintAcc (b : bucket) : Prop :=
  b_merged b = None /\
  forall c it, In it (hint_items b c) -> exists r, log_find b (mkPos c (hi_off it)) = Some r /\ d_key r = hi_key it.

Definition hside (b : bucket) := (b_hints b, b_hmax b, b_merged b).

Lemma hint_acc_transfer b b' : hside b' = hside b -> log_le b b' -> HintAcc b -> HintAcc b'.
Proof.
  unfold hside. intros E Hle [Hm Hacc]. injection E as E1 E2 E3. split; [congruence|].
  intros c it Hin. unfold hint_items, hchunk_at in Hin. rewrite E1 in Hin.
  destruct (Hacc c it Hin) as (r & Hl & Hk). exists r. split; [apply Hle, Hl|exact Hk].
Qed.

Lemma trydump_merged b c d : b_merged (trydump b c d) = b_merged b.
Proof. unfold trydump. destruct (dump_old _ _ _ _). destruct (_ || _); reflexivity. Qed.
Lemma hints_set_item_merged cf b it c rs : b_merged (hints_set_item cf b it c rs) = b_merged b.
Proof.
  unfold hints_set_item. destruct (split_set _ _ _ _); cbv zeta iota beta.
  - destruct (Nat.ltb _ _); reflexivity.
  - destruct (Nat.ltb _ _); cbn [set_hints b_merged]; now rewrite trydump_merged.
Qed.

Lemma trydump_acc b c d : HintAcc b -> HintAcc (trydump b c d).
Proof.
  intros [Hm Hacc]. split; [now rewrite trydump_merged|].
  intros c' it Hin. apply trydump_items in Hin. destruct (Hacc c' it Hin) as (r & Hl & Hk).
  exists r. split; [|exact Hk]. rewrite <- (log_find_dat b); [exact Hl|]. symmetry. apply trydump_dat.
Qed.

Section Acc.
Variable cf : cfg.
Variable hf : bytes -> N.

Lemma flush_chunk_hside b c : hside (flush_chunk b c) = hside b.
Proof. unfold flush_chunk. destruct (k_wbuf _); reflexivity. Qed.
Lemma append_record_hside b r : hside (fst (append_record cf b r)) = hside b.
Proof.
  unfold append_record. destruct (c_filemax cf <? _); cbn [fst].
  - change (hside (set_chunk ?x _ _)) with (hside x). now rewrite flush_chunk_hside.
  - reflexivity.
Qed.

Lemma bkt_set_acc b h r vh : layout_ok b -> HintAcc b -> HintAcc (bkt_set cf b h r vh).
Proof.
  intros Hlay [Hm Hacc]. unfold bkt_set. pose proof (append_record_spec cf b r Hlay) as Happ.
  destruct (append_record cf b r) as [b1 p] eqn:Eap. destruct Happ as (Hlay1 & Hp & Hpres & _ & _).
  assert (Hs1 : hside b1 = hside b).
  { pose proof (append_record_hside b r) as H. rewrite Eap in H. exact H. }
  unfold hints_set.
  set (b2 := tree_put b1 h _).
  set (b3 := if ct_has_hash (b_ctab b2) h then set_ctab b2 _ else b2).
  assert (Hs3 : hside b3 = hside b) by (unfold b3; destruct (ct_has_hash _ _); exact Hs1).
  assert (Hd3 : dat b3 = dat b1) by (unfold b3; destruct (ct_has_hash _ _); reflexivity).
  split.
  - rewrite hints_set_item_merged. unfold hside in Hs3. now injection Hs3 as _ _ ->.
  - intros c it Hin.
    assert (Hlog : forall q, log_find (hints_set_item cf b3 (mkHI h 0 (p_off p) (d_ver r) vh (d_key r)) (p_chunk p) (dsize r)) q = log_find b1 q).
    { intros q. rewrite <- (log_find_dat _ _ q Hd3). apply log_find_dat. apply core_dat, hints_set_item_core. }
    apply hints_set_item_items in Hin as [[-> ->]|Hin].
    + exists r. cbn [hi_off hi_key]. rewrite Hlog. split; [|reflexivity]. destruct p; exact Hp.
    + unfold hint_items, hchunk_at in Hin. unfold hside in Hs3. injection Hs3 as E1 _ _. rewrite E1 in Hin.
      destruct (Hacc c it Hin) as (r0 & Hl & Hk). exists r0. split; [|exact Hk]. rewrite Hlog. apply Hpres, Hl.
Qed.

Lemma bkt_get_hside b key : hside (fst (bkt_get hf b key)) = hside b.
Proof.
  unfold bkt_get. destruct (bkt_get_mem b (hf key) key) as [[[ver vh] p]|]; [|reflexivity].
  destruct (read_pos b p) as [r inb| |]; try reflexivity.
  destruct (bytes_eqb (d_key r) key); [reflexivity|].
  destruct (negb _). { destruct (_ && _); reflexivity. }
  destruct (hints_get b (hf key) key) as [[it ck]|]; [|reflexivity].
  destruct (read_pos _ _); reflexivity.
Qed.

Lemma check_and_set_acc so b key val flag rev ts z : layout_ok b -> HintAcc b ->
  HintAcc (fst (check_and_set_gen so cf hf b key val flag rev ts z)).
Proof.
  intros Hlay Ha. unfold check_and_set_gen.
  destruct (bkt_get_mem b (hf key) key) as [[[ov ovh] op]|].
  - destruct (_ && c_checkvhash cf).
    + destruct (negb (rev =? 0)%Z); cbn [fst]; [|exact Ha].
      apply (hint_acc_transfer b); [reflexivity|apply log_le_dat; reflexivity|exact Ha].
    + destruct (next_version ov rev) as [ver|]; [|exact Ha]. destruct (_ && _); [exact Ha|]. cbn [fst]. now apply bkt_set_acc.
  - destruct (_ && c_checkvhash cf); [exact Ha|].
    destruct (next_version 0 rev) as [ver|]; [|exact Ha]. destruct (_ && _); [exact Ha|]. cbn [fst]. now apply bkt_set_acc.
Qed.

Lemma bkt_incr_acc b key d ts : layout_ok b -> HintAcc b -> HintAcc (fst (bkt_incr cf hf b key d ts)).
Proof.
  intros Hlay Ha. unfold bkt_incr. pose proof (bkt_get_dat hf b key) as Hd. pose proof (bkt_get_hside b key) as Hs.
  destruct (bkt_get hf b key) as [b1 g]. cbn [fst] in Hd, Hs.
  assert (Hl1 : layout_ok b1) by (apply (layout_dat b); [now symmetry|exact Hlay]).
  assert (Ha1 : HintAcc b1) by (apply (hint_acc_transfer b); [exact Hs|apply log_le_dat; now symmetry|exact Ha]).
  destruct (match g with GHit v fl ver _ _ => if (0 <? ver)%Z then Some (v, fl, ver) else None | _ => None end) as [[[v fl] ver]|].
  - destruct (22 <? lenN v); [exact Ha1|]. destruct (_ || _); [exact Ha1|]. cbn [fst]. now apply bkt_set_acc.
  - destruct (match g with GFail => true | _ => false end); [exact Ha1|]. cbn [fst]. now apply bkt_set_acc.
Qed.

(* ---- what a hit can return ---- *)
Lemma buf_get_in l h key it : buf_get l h key = Some it -> In it l /\ hi_key it = key.
Proof.
  unfold buf_get. intros H. apply find_some in H as [Hin Hp]. split; [exact Hin|].
  apply andb_prop in Hp as [_ Hk]. now apply bytes_eqb_eq in Hk.
Qed.
Lemma splits_get_in sps h key it : splits_get sps h key = Some it -> In it (items_of sps) /\ hi_key it = key.
Proof.
  induction sps as [|sp sps IH]; cbn [splits_get]; [discriminate|].
  destruct (buf_get (sp_items sp) h key) as [x|] eqn:E.
  - intros H; injection H as <-. apply buf_get_in in E as [E1 E2]. split; [|exact E2].
    unfold items_of. cbn [map concat]. apply in_or_app. now left.
  - intros H. destruct (IH H) as [H1 H2]. split; [|exact H2]. unfold items_of in *. cbn [map concat]. apply in_or_app. now right.
Qed.
Lemma items_of_rev sps y : In y (items_of (rev sps)) -> In y (items_of sps).
Proof.
  unfold items_of. rewrite map_rev. intros H. apply in_concat in H as (l & Hl & Hy). apply in_concat. exists l. split; [|exact Hy].
  now apply in_rev in Hl.
Qed.
Lemma hints_get_in b h key it ck : b_merged b = None -> hints_get b h key = Some (it, ck) ->
  In it (hint_items b ck) /\ hi_key it = key.
Proof.
  intros Hm. unfold hints_get. generalize (b_hmax b). intros n. induction n as [|n IH]; cbn [hints_get_from]; rewrite Hm.
  - unfold hchunk_get. destruct (splits_get _ h key) as [x|] eqn:E; [|discriminate].
    intros H; injection H as <- <-. apply splits_get_in in E as [E1 E2]. split; [now apply items_of_rev|exact E2].
  - unfold hchunk_get. destruct (splits_get _ h key) as [x|] eqn:E.
    + intros H; injection H as <- <-. apply splits_get_in in E as [E1 E2]. split; [now apply items_of_rev|exact E2].
    + exact IH.
Qed.

(* a hit carries the value of a record OF THE REQUESTED KEY, whatever shares its hash *)
Theorem get_never_aliases b key v fl ver ts p :
  layout_ok b -> HintAcc b ->
  snd (bkt_get hf b key) = GHit v fl ver ts p ->
  exists r, log_find b p = Some r /\ d_key r = key /\ v = d_val r /\ fl = client_flag (d_flag r).
Proof.
  intros Hlay [Hm Hacc]. unfold bkt_get.
  destruct (bkt_get_mem b (hf key) key) as [[[ver0 vh0] p0]|]; [|discriminate].
  destruct (read_pos_log b p0 Hlay) as [Hrd _].
  destruct (read_pos b p0) as [r inb| |] eqn:Er; try discriminate. cbn [rd_rec] in Hrd.
  destruct (bytes_eqb (d_key r) key) eqn:Ek.
  - cbn [snd]. intros H. injection H as <- <- _ _ <-. apply bytes_eqb_eq in Ek. exists r. auto.
  - destruct (negb _). { destruct (_ && _); discriminate. }
    destruct (hints_get b (hf key) key) as [[it ck]|] eqn:Eh; [|discriminate].
    destruct (hints_get_in b _ _ _ _ Hm Eh) as [Hin Hkey].
    destruct (Hacc ck it Hin) as (r2 & Hl2 & Hk2).
    set (b' := set_ctab b _).
    assert (Hlay' : layout_ok b') by (apply (layout_dat b); [reflexivity|exact Hlay]).
    destruct (read_pos_log b' (mkPos ck (hi_off it)) Hlay') as [Hrd2 _].
    change (log_find b' (mkPos ck (hi_off it))) with (log_find b (mkPos ck (hi_off it))) in Hrd2. rewrite Hl2 in Hrd2.
    destruct (read_pos b' _) as [r3 inb3| |]; cbn [rd_rec] in Hrd2; try discriminate. injection Hrd2 as ->.
    cbn [snd]. intros H. injection H as <- <- _ _ <-. exists r2. rewrite Hk2, Hkey. auto.
Qed.
End Acc.

Lemma hint_acc_init : HintAcc bucket0.
Proof.
  split; [reflexivity|]. intros c it Hin. exfalso. unfold hint_items, hchunk_at, bucket0 in Hin. cbn [b_hints] in Hin.
  rewrite nth_repeat in Hin. exact Hin.
Qed.

(* ================================================================ whole histories *)
Lemma some_inj {A} (x y : A) : Some x = Some y -> x = y.
Proof. intros H. now injection H. Qed.

Definition may_write (o : l2op) (k v : bytes) : Prop :=
  match o with
  | OSet k' v' _ _ _ _ => k = unhex k' /\ v = unhex v'
  | ODel k' => k = unhex k' /\ v = []
  | OIncr k' _ => k = unhex k'
  | _ => False
  end.

Definition client_op (o : l2op) : bool := match o with ORestart _ | OGc _ _ _ => false | _ => true end.

Definition Prov (ops : list l2op) (b : bucket) : Prop :=
  forall q r, log_find b q = Some r -> exists o, In o ops /\ may_write o (d_key r) (d_val r).

Definition CInv (ops : list l2op) (b : bucket) : Prop := layout_ok b /\ HintAcc b /\ Prov ops b.

Lemma prov_weaken ops o b : Prov ops b -> Prov (o :: ops) b.
Proof. intros H q r Hq. destruct (H q r Hq) as (o' & Hin & Hw). exists o'. split; [now right|exact Hw]. Qed.

Lemma prov_adds ops o b b' r : Prov ops b -> log_adds b b' r -> may_write o (d_key r) (d_val r) -> Prov (o :: ops) b'.
Proof.
  intros HP Ha Hw q r0 Hq. destruct (Ha q r0 Hq) as [->|H].
  - exists o. split; [now left|exact Hw].
  - destruct (HP q r0 H) as (o' & Hin & Hw'). exists o'. split; [now right|exact Hw'].
Qed.

Lemma log_adds_dat b b' r : dat b' = dat b -> log_adds b b' r.
Proof. intros H q r0 Hq. right. now rewrite <- (log_find_dat b' b q H). Qed.

Section Hist.
Variable lc : l2cfg.
Let cf := l_cfg lc.
Let hf := forced_hash (l_forced lc).

Lemma check_and_set_adds so b key val flag rev ts z : layout_ok b ->
  exists r, d_key r = key /\ d_val r = val /\ log_adds b (fst (check_and_set_gen so cf hf b key val flag rev ts z)) r.
Proof.
  intros Hlay. unfold check_and_set_gen.
  set (r0 := mkD key val 0 0 0 0).
  assert (Hsame : forall b', dat b' = dat b -> exists r, d_key r = key /\ d_val r = val /\ log_adds b b' r).
  { intros b' H. exists r0. split; [reflexivity|]. split; [reflexivity|]. now apply log_adds_dat. }
  destruct (bkt_get_mem b (hf key) key) as [[[ov ovh] op]|].
  - destruct (_ && c_checkvhash cf).
    + destruct (negb (rev =? 0)%Z); cbn [fst]; apply Hsame; reflexivity.
    + destruct (next_version ov rev) as [ver|]; [|apply Hsame; reflexivity].
      destruct (_ && _); [apply Hsame; reflexivity|]. cbn [fst].
      eexists. split; [|split; [|apply bkt_set_only, Hlay]]; reflexivity.
  - destruct (_ && c_checkvhash cf); [apply Hsame; reflexivity|].
    destruct (next_version 0 rev) as [ver|]; [|apply Hsame; reflexivity].
    destruct (_ && _); [apply Hsame; reflexivity|]. cbn [fst].
    eexists. split; [|split; [|apply bkt_set_only, Hlay]]; reflexivity.
Qed.

Lemma bkt_incr_adds b key d ts : layout_ok b ->
  exists r, d_key r = key /\ log_adds b (fst (bkt_incr cf hf b key d ts)) r.
Proof.
  intros Hlay. unfold bkt_incr. pose proof (bkt_get_dat hf b key) as Hd.
  destruct (bkt_get hf b key) as [b1 g]. cbn [fst] in Hd.
  assert (Hl1 : layout_ok b1) by (apply (layout_dat b); [now symmetry|exact Hlay]).
  set (r0 := mkD key [] 0 0 0 0).
  assert (Hsame : exists r, d_key r = key /\ log_adds b b1 r) by (exists r0; split; [reflexivity|now apply log_adds_dat]).
  assert (Hset : forall r vh, d_key r = key -> exists r', d_key r' = key /\ log_adds b (bkt_set cf b1 (hf key) r vh) r').
  { intros r vh Hk. exists r. split; [exact Hk|]. intros q r1 Hq. destruct (bkt_set_only cf b1 (hf key) r vh Hl1 q r1 Hq) as [->|H]; [now left|].
    right. now rewrite (log_find_dat b b1 q (eq_sym Hd)). }
  destruct (match g with GHit v fl ver _ _ => if (0 <? ver)%Z then Some (v, fl, ver) else None | _ => None end) as [[[v fl] ver]|].
  - destruct (22 <? lenN v); [exact Hsame|]. destruct (_ || _); [exact Hsame|]. cbn [fst]. now apply Hset.
  - destruct (match g with GFail => true | _ => false end); [exact Hsame|]. cbn [fst]. now apply Hset.
Qed.

Lemma flush_head_layout b : layout_ok b -> layout_ok (flush_head b).
Proof.
  intros Hlay. unfold flush_head. destruct (wbuf_total b =? 0); [exact Hlay|].
  destruct (k_wbuf (chunk_at b (b_head b))) eqn:Ew; [|apply flush_chunk_layout; [exact Hlay|lia]].
  destruct Hlay as [Hok Hab]. split.
  - intros c. destruct (Nat.eq_dec (b_head b) c) as [<-|Hne].
    + rewrite chunk_at_set_same. destruct (Hok (b_head b)) as (Hd & Hw & He & Hle).
      unfold chunk_ok, wstart in *. cbn [k_disk k_wbuf k_whead k_exists]. rewrite Ew in *.
      split; [exact Hd|]. split; [intros o r []|]. split; [discriminate|lia].
    + rewrite chunk_at_set_other by exact Hne. apply Hok.
  - intros c Hc. cbn [b_head set_chunk set_chunks] in Hc. rewrite chunk_at_set_other by lia. now apply Hab.
Qed.

Lemma flush_head_hside b : hside (flush_head b) = hside b.
Proof.
  unfold flush_head. destruct (wbuf_total b =? 0); [reflexivity|].
  destruct (k_wbuf (chunk_at b (b_head b))); [reflexivity|apply flush_chunk_hside].
Qed.

Lemma trydump_all_acc l : forall b, HintAcc b -> HintAcc (fold_left (fun bb i => trydump bb i false) l b).
Proof. induction l as [|i l IH]; intros b H; cbn [fold_left]; [exact H|]. apply IH, trydump_acc, H. Qed.

Lemma cstep_inv ops b o b' : client_op o = true -> CInv ops b -> fst (l2_step lc b o) = Some b' -> CInv (o :: ops) b'.
Proof.
  intros Hc (Hlay & Hacc & Hprov). destruct o; cbn [client_op] in Hc; try discriminate; unfold l2_step; fold cf hf.
  - (* set *)
    pose proof (check_and_set_log cf hf vhash_shortcut_sets_only b (unhex k) (unhex v) flag rev ts z Hlay) as [_ Hl'].
    pose proof (check_and_set_acc cf hf vhash_shortcut_sets_only b (unhex k) (unhex v) flag rev ts z Hlay Hacc) as Ha'.
    destruct (check_and_set_adds vhash_shortcut_sets_only b (unhex k) (unhex v) flag rev ts z Hlay) as (r & Hk & Hv & Hadd).
    unfold check_and_set. destruct (check_and_set_gen _ _ _ _ _ _ _ _ _ _) as [bb x]. cbn [fst] in *. intros E; injection E as <-.
    split; [exact Hl'|]. split; [exact Ha'|]. apply (prov_adds ops _ b bb r Hprov Hadd). cbn [may_write]. auto.
  - (* delete *)
    pose proof (check_and_set_log cf hf vhash_shortcut_sets_only b (unhex k) [] 0 (-1)%Z ts_now (mkZ false 0 0) Hlay) as [_ Hl'].
    pose proof (check_and_set_acc cf hf vhash_shortcut_sets_only b (unhex k) [] 0 (-1)%Z ts_now (mkZ false 0 0) Hlay Hacc) as Ha'.
    destruct (check_and_set_adds vhash_shortcut_sets_only b (unhex k) [] 0 (-1)%Z ts_now (mkZ false 0 0) Hlay) as (r & Hk & Hv & Hadd).
    unfold check_and_set. destruct (check_and_set_gen _ _ _ _ _ _ _ _ _ _) as [bb x]. cbn [fst] in *. intros E; injection E as <-.
    split; [exact Hl'|]. split; [exact Ha'|]. apply (prov_adds ops _ b bb r Hprov Hadd). cbn [may_write]. auto.
  - (* incr *)
    pose proof (bkt_incr_log cf hf b (unhex k) d ts_now Hlay) as [_ Hl'].
    pose proof (bkt_incr_acc cf hf b (unhex k) d ts_now Hlay Hacc) as Ha'.
    destruct (bkt_incr_adds b (unhex k) d ts_now Hlay) as (r & Hk & Hadd).
    destruct (bkt_incr _ _ _ _ _ _) as [bb n]. cbn [fst] in *. intros E; injection E as <-.
    split; [exact Hl'|]. split; [exact Ha'|]. apply (prov_adds ops _ b bb r Hprov Hadd). cbn [may_write]. auto.
  - (* get *)
    pose proof (bkt_get_dat hf b (unhex k)) as Hd. pose proof (bkt_get_hside hf b (unhex k)) as Hs.
    destruct (bkt_get _ _ _) as [bb g]. cbn [fst] in *. intros E; injection E as <-.
    split; [apply (layout_dat b); [now symmetry|exact Hlay]|]. split.
    + apply (hint_acc_transfer b); [exact Hs|apply log_le_dat; now symmetry|exact Hacc].
    + apply prov_weaken. intros q r Hq. apply (Hprov q r). now rewrite (log_find_dat b bb q (eq_sym Hd)).
  - (* meta *)
    pose proof (bkt_get_dat hf b (unhex k)) as Hd. pose proof (bkt_get_hside hf b (unhex k)) as Hs.
    destruct (bkt_get _ _ _) as [bb g]. cbn [fst] in *. intros E; injection E as <-.
    split; [apply (layout_dat b); [now symmetry|exact Hlay]|]. split.
    + apply (hint_acc_transfer b); [exact Hs|apply log_le_dat; now symmetry|exact Hacc].
    + apply prov_weaken. intros q r Hq. apply (Hprov q r). now rewrite (log_find_dat b bb q (eq_sym Hd)).
  - (* index lookup *)
    cbn [fst]. intros E; injection E as <-. split; [exact Hlay|]. split; [exact Hacc|now apply prov_weaken].
  - (* flush *)
    cbn [fst]. intros E; injection E as <-. split; [now apply flush_head_layout|]. split.
    + apply (hint_acc_transfer b); [apply flush_head_hside|intros q r Hq; now rewrite flush_head_log|exact Hacc].
    + apply prov_weaken. intros q r Hq. apply (Hprov q r). now rewrite <- (flush_head_log b q).
  - (* hint dump *)
    cbn [fst]. intros E. apply some_inj in E. rewrite <- E.
    pose proof (core_dat _ _ (trydump_all_core b (seq 0 NCH))) as Hd.
    split; [apply (layout_dat b); [now symmetry|exact Hlay]|]. split; [now apply trydump_all_acc|].
    apply prov_weaken. intros q r Hq. apply (Hprov q r). now rewrite <- (log_find_dat _ b q Hd).
  - (* range resolution *)
    cbn [fst]. intros E; injection E as <-. split; [exact Hlay|]. split; [exact Hacc|now apply prov_weaken].
  - (* directory *)
    cbn [fst]. intros E; injection E as <-. split; [exact Hlay|]. split; [exact Hacc|now apply prov_weaken].
Qed.

(* the bucket reached by a history (None: an operation refused) *)
Fixpoint run_b (b : bucket) (ops : list l2op) : option bucket :=
  match ops with
  | [] => Some b
  | o :: t => match fst (l2_step lc b o) with Some b' => run_b b' t | None => None end
  end.

Lemma run_inv ops : forall done b b', forallb client_op ops = true -> CInv done b -> run_b b ops = Some b' -> CInv (rev ops ++ done) b'.
Proof.
  induction ops as [|o t IH]; intros done b b' Hc HI Hr; cbn [run_b] in Hr.
  - injection Hr as <-. exact HI.
  - cbn [forallb] in Hc. apply andb_prop in Hc as [Ho Ht].
    destruct (fst (l2_step lc b o)) as [b1|] eqn:E; [|discriminate].
    cbn [rev]. rewrite <- app_assoc. cbn [app]. apply (IH (o :: done) b1 b' Ht); [|exact Hr].
    now apply (cstep_inv done b o b1).
Qed.

Lemma cinv_init : CInv [] bucket0.
Proof.
  split; [|split; [apply hint_acc_init|]].
  - split.
    + intros c. unfold chunk_at, bucket0. cbn [b_chunks]. rewrite nth_repeat. apply chunk0_ok.
    + intros c _. unfold chunk_at, bucket0. cbn [b_chunks]. apply nth_repeat.
  - intros q r Hq. exfalso. unfold log_find, chunk_at, bucket0 in Hq. cbn [b_chunks] in Hq. rewrite nth_repeat in Hq. discriminate.
Qed.

(* THE theorem: after ANY history of client operations -- any keys, any forced hash collisions, any configuration --
   a get that hits returns bytes that an earlier set wrote FOR THAT KEY (or, if the key was ever the target
   of an incr, a counter value of that key); it never returns a value written under another key *)
Theorem never_alias_history ops b k v fl :
  forallb client_op ops = true -> run_b bucket0 ops = Some b ->
  snd (l2_step lc b (OGet k)) = MHit v fl ->
  exists o, In o ops /\ may_write o (unhex k) v.
Proof.
  intros Hc Hr. pose proof (run_inv ops [] bucket0 b Hc cinv_init Hr) as (Hlay & Hacc & Hprov). rewrite app_nil_r in Hprov.
  unfold l2_step. fold hf. destruct (bkt_get hf b (unhex k)) as [bb g] eqn:Eg. cbn [snd].
  destruct g as [|v0 fl0 ver ts p|]; try discriminate.
  destruct (ver <? 0)%Z; [discriminate|]. intros H; injection H as <- <-.
  destruct (get_never_aliases hf b (unhex k) v0 fl0 ver ts p Hlay Hacc) as (r & Hl & Hk & Hv & _); [now rewrite Eg|].
  destruct (Hprov p r Hl) as (o & Hin & Hw). exists o. split; [now apply in_rev|]. now rewrite <- Hk, Hv.
Qed.
End Hist.
