(* C17: soundness of the GC range check (store/gc.go gcCheckStart / gcCheckEnd / gcCheckRange). *)
From Coq Require Import NArith ZArith List Bool Lia.
From GB Require Import Consts Words Hash HintFile HTree Compress Bucket BucketOpen Gc.
Import ListNotations.
Open Scope N_scope.

Lemma first_nonempty_from_ge b n start : (start <= first_nonempty_from b n start)%nat.
Proof.
  revert start. induction n as [|n IH]; intros start; cbn [first_nonempty_from]; [lia|].
  destruct (_ && _); [specialize (IH (S start)); lia|lia].
Qed.

(* it stops at a non-empty chunk or at the head *)
Lemma first_nonempty_from_spec b n start :
  (b_head b <= start + n)%nat ->
  let s := first_nonempty_from b n start in
  (b_head b <= s)%nat \/ 0 < k_size (chunk_at b s).
Proof.
  revert start. induction n as [|n IH]; intros start Hn; cbn [first_nonempty_from].
  - left. lia.
  - destruct (Nat.ltb start (b_head b)) eqn:El; cbn [andb].
    + destruct (k_size (chunk_at b start) =? 0) eqn:Ez.
      * apply IH. lia.
      * right. apply N.eqb_neq in Ez. lia.
    + left. apply PeanoNat.Nat.ltb_ge in El. exact El.
Qed.

Lemma last_nonempty_down_spec b n : forall e start,
  (e < Z.of_nat start + Z.of_nat n)%Z ->
  let r := last_nonempty_down b n e start in
  (r <= e)%Z /\ ((r < Z.of_nat start)%Z \/ (0 < k_size (chunk_at b (Z.to_nat r)))) /\
  (forall c, (r < c <= e)%Z -> (Z.of_nat start <= c)%Z -> k_size (chunk_at b (Z.to_nat c)) = 0).
Proof.
  induction n as [|n IH]; intros e start Hn; cbn [last_nonempty_down].
  - split; [lia|]. split; [left; lia|]. intros c Hc. lia.
  - destruct (e <? Z.of_nat start)%Z eqn:E1.
    + split; [lia|]. split; [left; apply Z.ltb_lt in E1; exact E1|]. intros c Hc. lia.
    + apply Z.ltb_ge in E1. destruct (0 <? k_size (chunk_at b (Z.to_nat e))) eqn:E2.
      * split; [lia|]. split; [right; apply N.ltb_lt in E2; exact E2|]. intros c Hc. lia.
      * apply N.ltb_ge in E2. specialize (IH (e - 1)%Z start ltac:(lia)). cbv zeta in IH.
        destruct IH as (H1 & H2 & H3). split; [lia|]. split; [exact H2|].
        intros c Hc Hs. destruct (Z.eq_dec c e) as [->|Hne]; [lia|]. apply H3; lia.
Qed.

(* what an accepted range guarantees *)
Definition range_sound_prop (cf : cfg) (b : bucket) (days now : Z) (x y : nat) : Prop :=
  (x <= y)%nat /\ (y < b_head b)%nat /\ 0 < k_size (chunk_at b x) /\ 0 < k_size (chunk_at b y) /\
  exists next ts, (y < next <= b_head b)%nat /\
    (forall c, (y < c < next)%nat -> k_size (chunk_at b c) = 0 \/ disk_file_size (chunk_at b c) = 0) /\
    first_ts (chunk_at b next) = Some ts /\ (days * 86400 < now - Z.of_N ts)%Z.

Lemma gc_check_end_loop_sound cf b n : forall next start days now x y,
  (next <= Z.of_nat (b_head b))%Z -> 0 < k_size (chunk_at b start) -> (start < b_head b)%nat ->
  gc_check_end_loop cf b n next start days now = RangeOK x y ->
  x = start /\ (x <= y)%nat /\ (Z.of_nat y < next)%Z /\ 0 < k_size (chunk_at b y) /\
  exists nx ts, (Z.of_nat y < Z.of_nat nx <= next)%Z /\
    (forall c, (y < c < nx)%nat -> k_size (chunk_at b c) = 0) /\
    first_ts (chunk_at b nx) = Some ts /\ (days * 86400 < now - Z.of_N ts)%Z.
Proof.
  induction n as [|n IH]; intros next start days now x y Hnext Hsz Hst; cbn [gc_check_end_loop]; [discriminate|].
  destruct (next <? Z.of_nat start + 1)%Z eqn:E0; [discriminate|]. apply Z.ltb_ge in E0.
  destruct (disk_file_size (chunk_at b (Z.to_nat next)) =? 0) eqn:Ed.
  - intros H. destruct (IH (next - 1)%Z start days now x y ltac:(lia) Hsz Hst H) as (Hx & Hxy & Hy & Hsy & nx & ts & Hn1 & Hn2 & Hn3 & Hn4).
    split; [exact Hx|]. split; [exact Hxy|]. split; [lia|]. split; [exact Hsy|].
    exists nx, ts. split; [lia|]. auto.
  - destruct (first_ts (chunk_at b (Z.to_nat next))) as [ts|] eqn:Ets; [|discriminate].
    destruct (days * 86400 <? now - Z.of_N ts)%Z eqn:Eage.
    + pose proof (last_nonempty_down_spec b (S (b_head b)) (next - 1)%Z start ltac:(lia)) as Hl. cbv zeta in Hl.
      set (e := last_nonempty_down b (S (b_head b)) (next - 1) start) in *.
      destruct (e <? Z.of_nat start)%Z eqn:Ee; [discriminate|]. apply Z.ltb_ge in Ee.
      intros H. injection H as <- <-. destruct Hl as (H1 & H2 & H3).
      split; [reflexivity|]. split; [lia|]. split; [lia|].
      split; [destruct H2 as [H2|H2]; [lia|exact H2]|].
      exists (Z.to_nat next), ts. split; [lia|]. split.
      * intros c Hc. replace c with (Z.to_nat (Z.of_nat c)) by lia. apply H3; lia.
      * split; [exact Ets|]. apply Z.ltb_lt in Eage. exact Eage.
    + intros H. destruct (IH (next - 1)%Z start days now x y ltac:(lia) Hsz Hst H) as (Hx & Hxy & Hy & Hsy & nx & ts' & Hn1 & Hn2 & Hn3 & Hn4).
      split; [exact Hx|]. split; [exact Hxy|]. split; [lia|]. split; [exact Hsy|].
      exists nx, ts'. split; [lia|]. auto.
Qed.

Theorem range_sound cf b s e days now x y :
  gc_check_range cf b s e days now = RangeOK x y ->
  (x <= y)%nat /\ (y < b_head b)%nat /\ 0 < k_size (chunk_at b x) /\ 0 < k_size (chunk_at b y) /\
  exists next ts, (y < next <= b_head b)%nat /\
    (forall c, (y < c < next)%nat -> k_size (chunk_at b c) = 0) /\
    first_ts (chunk_at b next) = Some ts /\
    ((if (days <? 0)%Z then c_nogcdays cf else days) * 86400 < now - Z.of_N ts)%Z.
Proof.
  unfold gc_check_range. destruct (gc_check_start b s) as [start|] eqn:Es; [|discriminate].
  set (e' := if (e <? 0)%Z || (Z.of_nat (b_head b) - 1 <=? e)%Z then (Z.of_nat (b_head b) - 1)%Z else e).
  set (days' := if (days <? 0)%Z then c_nogcdays cf else days).
  assert (He' : (e' + 1 <= Z.of_nat (b_head b))%Z).
  { unfold e'. destruct ((e <? 0)%Z || (Z.of_nat (b_head b) - 1 <=? e)%Z) eqn:E; [lia|].
    apply orb_false_elim in E as [_ E]. apply Z.leb_gt in E. lia. }
  (* the start is a non-empty chunk below the head, or the loop fails at once *)
  assert (Hstart : (b_head b <= start)%nat \/ 0 < k_size (chunk_at b start)).
  { unfold gc_check_start in Es. destruct (s <? 0)%Z.
    - injection Es as <-. destruct (Compare_dec.le_lt_dec (b_head b) (b_nextgc b)) as [Hge|Hlt].
      + left. pose proof (first_nonempty_from_ge b (b_head b) (b_nextgc b)). lia.
      + apply first_nonempty_from_spec. lia.
    - destruct (Z.of_nat (b_head b) <? s)%Z; [discriminate|]. injection Es as <-.
      apply first_nonempty_from_spec. lia. }
  intros H. destruct Hstart as [Hge|Hsz].
  - (* start >= head: the end loop cannot succeed *)
    exfalso. destruct (S (S (b_head b))) as [|n]; [discriminate|]. cbn [gc_check_end_loop] in H.
    replace (e' + 1 <? Z.of_nat start + 1)%Z with true in H by (symmetry; apply Z.ltb_lt; lia). discriminate.
  - destruct (Compare_dec.le_lt_dec (b_head b) start) as [Hge|Hlt].
    + exfalso. destruct (S (S (b_head b))) as [|n]; [discriminate|]. cbn [gc_check_end_loop] in H.
      replace (e' + 1 <? Z.of_nat start + 1)%Z with true in H by (symmetry; apply Z.ltb_lt; lia). discriminate.
    + destruct (gc_check_end_loop_sound cf b _ _ _ _ _ _ _ He' Hsz Hlt H) as (-> & Hxy & Hy & Hsy & nx & ts & Hn1 & Hn2 & Hn3 & Hn4).
      split; [exact Hxy|]. split; [lia|]. split; [exact Hsz|]. split; [exact Hsy|].
      exists nx, ts. split; [lia|]. auto.
Qed.
