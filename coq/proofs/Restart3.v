(* C02, part 3: clean shutdown, removal of any subset of the index files, and start-up. *)
From Coq Require Import NArith ZArith List Bool Lia ZifyN ZifyNat ZifyBool Sorting.Sorted Sorting.Permutation FMapPositive.
From GB Require Import Consts Words Hash HintFile HTree Compress Bucket BucketOpen Gc CheckL2 RefMap
     BucketBasics Refine GcTouch LogMono CollideProofs Upd Restart1 Restart2.
Import ListNotations.
Open Scope N_scope.

(* ---- segments of an offset-sorted record list ---- *)
Lemma spaced_lt recs : spaced recs -> StronglySorted (fun a b => fst a < fst b) recs.
Proof.
  unfold spaced. induction 1 as [|x l Hs IH Hx]; constructor; [exact IH|].
  eapply Forall_impl; [|exact Hx]. cbv beta. intros y Hy. pose proof (dsize_pos (snd x)). lia.
Qed.

Lemma seg_split lo m hi recs : StronglySorted (fun a b => fst a < fst b) recs -> lo <= m -> m <= hi ->
  seg lo hi recs = seg lo m recs ++ seg m hi recs.
Proof.
  intros Hs H1 H2. induction Hs as [|x l Hs IH Hx]; [reflexivity|]. unfold seg in *. cbn [filter].
  assert (Hnil : m <= fst x -> filter (fun e => (lo <=? fst e) && (fst e <? m)) l = []).
  { intros Hm. apply filter_nil. intros y Hy. rewrite Forall_forall in Hx. specialize (Hx y Hy). lia. }
  destruct (lo <=? fst x) eqn:E1, (fst x <? m) eqn:E2, (m <=? fst x) eqn:E3, (fst x <? hi) eqn:E4; cbn [andb app];
    try lia; try (rewrite IH; reflexivity); rewrite IH, Hnil by lia; reflexivity.
Qed.

Lemma last_upd_cons h u t : last_upd h (u :: t) = match last_upd h t with Some x => Some x | None => if fst u =? h then Some (snd u) else None end.
Proof. reflexivity. Qed.

Lemma last_upd_of_last (l : list upd) d : l <> [] -> last_upd (fst (last l d)) l <> None.
Proof.
  induction l as [|u l IH]; intros Hne; [congruence|]. destruct l as [|u2 l2].
  - cbn [last last_upd]. rewrite N.eqb_refl. discriminate.
  - change (last (u :: u2 :: l2) d) with (last (u2 :: l2) d). rewrite last_upd_cons.
    specialize (IH ltac:(discriminate)). destruct (last_upd (fst (last (u2 :: l2) d)) (u2 :: l2)) eqn:E; [discriminate|exfalso; now apply IH].
Qed.

Lemma equiv_nil_inv (l : list upd) : equiv [] l -> l = [].
Proof.
  intros H. destruct l as [|u l]; [reflexivity|]. exfalso.
  apply (last_upd_of_last (u :: l) u ltac:(discriminate)). rewrite <- H. reflexivity.
Qed.

(* ---- the last split of a hint chunk is an in-memory buffer; it is empty whenever the chunk is not active ---- *)
Definition trydump_hc (hc : hchunk) (md : hid) (c : nat) (stop : bool) : hchunk :=
  let sps := fst (dump_old (hc_splits hc) 0 md c) in
  if stop || negb (need_dump (last_split sps)) then mkHC sps (hc_active hc)
  else mkHC (removelast sps ++ [dump_split (last_split sps); split0]) false.

Lemma trydump_hchunk_at b c d c' :
  hchunk_at (trydump b c d) c' =
  if Nat.eqb c c' then trydump_hc (hchunk_at b c) (b_maxdumped b) c ((negb d && Nat.eqb c (b_hmax b)) || negb (hc_active (hchunk_at b c)))
  else hchunk_at b c'.
Proof.
  unfold trydump, trydump_hc.
  destruct (dump_old (hc_splits (hchunk_at b c)) 0 (b_maxdumped b) c) as [sps md]. cbn [fst].
  destruct (_ || negb (need_dump (last_split sps)));
    rewrite (hchunk_at_updd b _ c c' _ _ _ eq_refl); destruct (Nat.eqb c c'); reflexivity.
Qed.

Lemma last_split_app l x : last_split (l ++ [x]) = x.
Proof. unfold last_split. apply last_last. Qed.
Lemma last_split_app2 l x y : last_split (l ++ [x; y]) = y.
Proof. unfold last_split. change (l ++ [x; y]) with (l ++ [x] ++ [y]). rewrite app_assoc. apply last_last. Qed.

Lemma dump_old_last sps : forall j md c, last_split (fst (dump_old sps j md c)) = last_split sps.
Proof.
  induction sps as [|sp sps IH]; intros j md c; cbn [dump_old fst]; [reflexivity|].
  destruct sps as [|sp2 t]; [reflexivity|].
  specialize (IH (j + 1)%Z (if need_dump sp && hid_larger md c j then (c, j) else md) c).
  destruct (dump_old (sp2 :: t) (j + 1) _ c) as [t' md'] eqn:E. cbn [fst] in *.
  assert (Hne : t' <> []).
  { pose proof (dump_old_nonempty (sp2 :: t) (j + 1)%Z (if need_dump sp && hid_larger md c j then (c, j) else md) c ltac:(discriminate)) as H. now rewrite E in H. }
  unfold last_split in *. destruct t' as [|x t'']; [congruence|]. exact IH.
Qed.

Definition LB (hc : hchunk) : Prop :=
  sp_file (last_split (hc_splits hc)) = false /\ (hc_active hc = false -> sp_items (last_split (hc_splits hc)) = []).

Lemma LB_trydump_hc hc md c stop : LB hc -> LB (trydump_hc hc md c stop).
Proof.
  intros [H1 H2]. unfold trydump_hc. destruct (stop || _).
  - unfold LB. cbn [hc_splits hc_active]. rewrite dump_old_last. auto.
  - unfold LB. cbn [hc_splits hc_active]. rewrite last_split_app2. split; reflexivity.
Qed.

Lemma sealed_after_final hc md c : LB hc ->
  sp_items (last_split (hc_splits (trydump_hc hc md c (negb (hc_active hc))))) = [].
Proof.
  intros [H1 H2]. unfold trydump_hc.
  destruct (negb (hc_active hc) || negb (need_dump (last_split (fst (dump_old (hc_splits hc) 0 md c))))) eqn:E.
  - cbn [hc_splits]. rewrite dump_old_last. rewrite dump_old_last in E.
    apply orb_prop in E as [E|E].
    + apply H2. now destruct (hc_active hc).
    + unfold need_dump in E. rewrite H1 in E. cbn [negb andb] in E. destruct (sp_items (last_split (hc_splits hc))); [reflexivity|discriminate].
  - cbn [hc_splits]. now rewrite last_split_app2.
Qed.

Section R3.
Variable cf : cfg.
Variable hf : bytes -> N.
Variable K : list bytes.
Hypothesis hf_inj : forall k1 k2, In k1 K -> In k2 K -> hf k1 = hf k2 -> k1 = k2.
Hypothesis cap_pos : 0 < c_splitcap cf.

(* all hint items of a chunk, in split order, replay like the records they cover *)
Lemma cov_equiv_all c recs : StronglySorted (fun a b => fst a < fst b) recs -> forall sps lo,
  cov hf K c lo sps recs ->
  equiv (List.concat (map (fun sp => iupds c (sp_items sp)) sps)) (rupds hf c (seg lo (bound_from lo sps) recs)).
Proof.
  intros Hs. induction sps as [|sp sps IH]; intros lo Hc; cbn [map List.concat bound_from fold_left].
  - unfold seg. rewrite filter_nil; [apply equiv_refl|]. intros x _. lia.
  - cbn [cov] in Hc. destruct Hc as [(Heq & _ & _) Hrest]. fold (bound_from (N.max lo (sp_max sp)) sps).
    pose proof (bound_from_ge (N.max lo (sp_max sp)) sps) as Hge.
    rewrite (seg_split lo (N.max lo (sp_max sp)) _ recs Hs) by lia. unfold rupds. rewrite map_app.
    apply equiv_app; [exact Heq|]. now apply IH.
Qed.

(* coverage relative to an explicit record list *)
Definition hcovL (sps : list hsplit) (c : nat) (recs : list (N * drec)) : Prop :=
  sps <> [] /\ cov hf K c 0 sps recs /\ Forall (fun e => fst e < bound_from 0 sps) recs.

Lemma hints_set_item_hcovL b it c e recs :
  hcovL (sps_at b c) c recs -> bound_from 0 (sps_at b c) <= fst e -> item_ok hf K it -> describes hf it e ->
  let b' := hints_set_item cf b it c (dsize (snd e)) in
  hcovL (sps_at b' c) c (recs ++ [e]) /\ bound_from 0 (sps_at b' c) = fst e + dsize (snd e) /\
  (forall c', c' <> c -> sps_at b' c' = sps_at b c') /\ core b' = core b.
Proof.
  intros (Hne0 & Hc0 & Hall0) Hb0 Hiok Hdesc. cbv zeta.
  destruct (hints_set_item_sps_at cf b it c (dsize (snd e)) c) as (S' & HS & HS'). rewrite Nat.eqb_refl in HS.
  destruct (cov_set_sps hf K hf_inj c (c_splitcap cf) it e recs (sps_at b c) 0 Hne0 Hall0 Hb0 cap_pos Hiok Hdesc Hc0) as [Hset1 Hset2].
  assert (Hne1 : set_sps (c_splitcap cf) (sps_at b c) it (dsize (snd e)) <> []).
  { unfold set_sps. destruct (split_set _ _ _ _); destruct (removelast _); discriminate. }
  assert (Hfin : forall S0, S0 <> [] -> cov hf K c 0 S0 (recs ++ [e]) -> bound_from 0 S0 = fst e + dsize (snd e) ->
                 hcovL S0 c (recs ++ [e]) /\ bound_from 0 S0 = fst e + dsize (snd e)).
  { intros S0 HneS HcS HbS. split; [|exact HbS]. split; [exact HneS|]. split; [exact HcS|]. rewrite HbS.
    pose proof (dsize_pos (snd e)). apply Forall_app. split.
    - eapply Forall_impl; [|exact Hall0]. cbv beta. intros x Hx. lia.
    - constructor; [lia|constructor]. }
  assert (Hmain : hcovL S' c (recs ++ [e]) /\ bound_from 0 S' = fst e + dsize (snd e)).
  { destruct HS' as [->|(md & stop & ->)]; [now apply Hfin|].
    destruct (trydump_sps_cov hf K c _ md c stop _ 0 Hne1 Hset1) as (Ha & Hb & Hc).
    apply Hfin; [exact Ha|exact Hb|now rewrite Hc]. }
  rewrite HS. split; [apply Hmain|]. split; [apply Hmain|]. split; [|apply hints_set_item_core].
  intros c' Hne. destruct (hints_set_item_sps_at cf b it c (dsize (snd e)) c') as (S2 & HS2 & _).
  rewrite HS2. now replace (Nat.eqb c c') with false by (symmetry; apply Nat.eqb_neq; congruence).
Qed.

(* the hint item buildHintFromData writes for a record *)
Definition built_item (e : N * drec) : hitem :=
  mkHI (hf (d_key (snd e))) 0 (fst e) (d_ver (snd e)) (vhash (d_val (snd e))) (d_key (snd e)).

Lemma built_describes e : describes hf (built_item e) e.
Proof. unfold describes, built_item. cbn [hi_key hi_hash hi_off hi_ver hi_vh]. auto. Qed.

(* scanning further records of the chunk into the hint buffers *)
Lemma build_fold c : forall L b P,
  hcovL (sps_at b c) c P -> spaced L -> Forall (fun e => bound_from 0 (sps_at b c) <= fst e) L ->
  Forall (fun e => In (d_key (snd e)) K) L ->
  let b' := fold_left (fun bb e => hints_set_item cf bb (built_item e) c (dsize (snd e))) L b in
  hcovL (sps_at b' c) c (P ++ L) /\
  (forall c', c' <> c -> sps_at b' c' = sps_at b c') /\ core b' = core b /\
  (L <> [] -> exists e, last L e = e /\ In e L /\ bound_from 0 (sps_at b' c) = fst e + dsize (snd e)) /\
  (L = [] -> b' = b).
Proof.
  induction L as [|e L IH]; intros b P Hcov Hsp Hge Hk; cbn [fold_left]; cbv zeta.
  - rewrite app_nil_r. split; [exact Hcov|]. split; [auto|]. split; [reflexivity|]. split; [congruence|auto].
  - inversion Hsp as [|? ? Hsp' Hx]; subst. inversion Hge as [|? ? He Hge']; subst. inversion Hk as [|? ? Hke Hk']; subst.
    destruct (hints_set_item_hcovL b (built_item e) c e P Hcov He) as (H1 & H2 & H3 & H4).
    { unfold item_ok, built_item. cbn [hi_key hi_hash]. auto. }
    { apply built_describes. }
    cbv zeta in H1, H2, H3, H4. set (b1 := hints_set_item cf b (built_item e) c (dsize (snd e))) in *.
    destruct (IH b1 (P ++ [e]) H1 Hsp') as (I1 & I2 & I3 & I4 & I5).
    { rewrite H2. exact Hx. }
    { exact Hk'. }
    cbv zeta in I1, I2, I3, I4, I5. rewrite <- app_assoc in I1. cbn [app] in I1.
    split; [exact I1|]. split; [intros c' Hne; rewrite I2, H3; auto|]. split; [now rewrite I3|]. split; [|discriminate].
    intros _. destruct L as [|e2 L2].
    + exists e. cbn [last fold_left]. split; [reflexivity|]. split; [now left|]. exact H2.
    + destruct (I4 ltac:(discriminate)) as (x & Hx1 & Hx2 & Hx3). exists x. split; [exact Hx1|]. split; [now right|exact Hx3].
Qed.

Lemma hints_set_item_hchunk b it c rs :
  let hc := mkHC (set_sps (c_splitcap cf) (sps_at b c) it rs) true in
  hchunk_at (hints_set_item cf b it c rs) c = hc \/
  exists md stop, hchunk_at (hints_set_item cf b it c rs) c = trydump_hc hc md c stop.
Proof.
  cbv zeta. unfold hints_set_item. fold (sps_at b c).
  assert (Hfin : forall b2 H0, hchunk_at b2 c = H0 ->
            hchunk_at (if Nat.ltb (b_hmax b2) c then set_hints b2 (b_hints b2) c (b_maxdumped b2) else b2) c = H0).
  { intros b2 H0 H. destruct (Nat.ltb _ _); exact H. }
  destruct (split_set (c_splitcap cf) (last_split (sps_at b c)) it rs) as [sp|] eqn:Ess; cbv zeta iota beta.
  - left. apply Hfin. rewrite (hchunk_at_updd b _ c c _ _ _ eq_refl), Nat.eqb_refl. unfold set_sps. now rewrite Ess.
  - right. set (b1 := set_hints b _ (b_hmax b) (b_maxdumped b)).
    assert (Hb1 : hchunk_at b1 c = mkHC (set_sps (c_splitcap cf) (sps_at b c) it rs) true).
    { unfold b1. rewrite (hchunk_at_updd b _ c c _ _ _ eq_refl), Nat.eqb_refl. unfold set_sps. now rewrite Ess. }
    eexists _, _. apply Hfin. rewrite trydump_hchunk_at, Nat.eqb_refl, Hb1. reflexivity.
Qed.

Lemma set_sps_last cap sps it rs :
  sp_file (last_split (set_sps cap sps it rs)) = false.
Proof.
  unfold set_sps. destruct (split_set cap (last_split sps) it rs) as [sp|] eqn:E.
  - rewrite last_split_app. unfold split_set in E. destruct (buf_set _ _ _); [|discriminate]. now injection E as <-.
  - rewrite last_split_app2. unfold split_set. destruct (buf_set _ _ _); reflexivity.
Qed.

Lemma hints_set_item_LB b it c rs : LB (hchunk_at (hints_set_item cf b it c rs) c).
Proof.
  assert (H0 : LB (mkHC (set_sps (c_splitcap cf) (sps_at b c) it rs) true)).
  { split; cbn [hc_splits hc_active]; [apply set_sps_last|discriminate]. }
  destruct (hints_set_item_hchunk b it c rs) as [->|(md & stop & ->)]; [exact H0|now apply LB_trydump_hc].
Qed.

Lemma hints_set_item_hchunk_other b it c rs c' : c' <> c -> hchunk_at (hints_set_item cf b it c rs) c' = hchunk_at b c'.
Proof.
  intros Hne. unfold hints_set_item.
  assert (Hfin : forall b2 H0, hchunk_at b2 c' = H0 ->
            hchunk_at (if Nat.ltb (b_hmax b2) c then set_hints b2 (b_hints b2) c (b_maxdumped b2) else b2) c' = H0).
  { intros b2 H0 H. destruct (Nat.ltb _ _); exact H. }
  assert (Hf : Nat.eqb c c' = false) by (apply Nat.eqb_neq; congruence).
  destruct (split_set _ _ _ _); cbv zeta iota beta; apply Hfin.
  - now rewrite (hchunk_at_updd b _ c c' _ _ _ eq_refl), Hf.
  - rewrite trydump_hchunk_at, Hf. now rewrite (hchunk_at_updd b _ c c' _ _ _ eq_refl), Hf.
Qed.

Lemma build_fold_other c L : forall b c', c' <> c ->
  hchunk_at (fold_left (fun bb e => hints_set_item cf bb (built_item e) c (dsize (snd e))) L b) c' = hchunk_at b c'.
Proof.
  induction L as [|e L IH]; intros b c' Hne; cbn [fold_left]; [reflexivity|].
  rewrite IH by exact Hne. now apply hints_set_item_hchunk_other.
Qed.

Lemma build_fold_md c L : forall b,
  let b' := fold_left (fun bb e => hints_set_item cf bb (built_item e) c (dsize (snd e))) L b in
  hid_le (b_maxdumped b) (b_maxdumped b') /\ b_treeid b' = b_treeid b.
Proof.
  induction L as [|e L IH]; intros b; cbn [fold_left]; cbv zeta; [split; [apply hid_le_refl|reflexivity]|].
  destruct (IH (hints_set_item cf b (built_item e) c (dsize (snd e)))) as [H1 H2]. cbv zeta in H1, H2.
  destruct (hints_set_item_md cf b (built_item e) c (dsize (snd e))) as [H3 H4].
  split; [eapply hid_le_trans; eassumption|congruence].
Qed.

Lemma build_fold_LB c L : forall b, L <> [] ->
  LB (hchunk_at (fold_left (fun bb e => hints_set_item cf bb (built_item e) c (dsize (snd e))) L b) c).
Proof.
  induction L as [|e L IH]; intros b Hne; [congruence|]. cbn [fold_left].
  destruct L as [|e2 L2]; [cbn [fold_left]; apply hints_set_item_LB|]. apply IH. discriminate.
Qed.

Lemma bound_from_firstn sps : forall lo m, bound_from lo (firstn m sps) <= bound_from lo sps.
Proof.
  induction sps as [|sp sps IH]; intros lo m; destruct m; cbn [firstn bound_from fold_left]; try lia.
  - fold (bound_from (N.max lo (sp_max sp)) sps). pose proof (bound_from_ge (N.max lo (sp_max sp)) sps). lia.
  - apply IH.
Qed.

Lemma cov_firstn c recs : forall sps lo m, cov hf K c lo sps recs -> cov hf K c lo (firstn m sps) recs.
Proof.
  induction sps as [|sp sps IH]; intros lo m Hc; destruct m; cbn [firstn cov]; auto.
  cbn [cov] in Hc. destruct Hc as [H1 H2]. split; [exact H1|now apply IH].
Qed.

(* restricting the record list to the part below B does not disturb splits that end at or below B *)
Lemma seg_seg lo hi B recs : hi <= B -> seg lo hi (seg 0 B recs) = seg lo hi recs.
Proof.
  intros H. unfold seg. induction recs as [|x l IH]; cbn [filter]; [reflexivity|].
  destruct ((0 <=? fst x) && (fst x <? B)) eqn:E1; cbn [filter]; rewrite IH; [reflexivity|].
  replace ((lo <=? fst x) && (fst x <? hi)) with false by lia. reflexivity.
Qed.

Lemma cov_restrict c recs B : forall sps lo, bound_from lo sps <= B -> cov hf K c lo sps recs -> cov hf K c lo sps (seg 0 B recs).
Proof.
  induction sps as [|sp sps IH]; intros lo Hb Hc; cbn [cov] in *; [exact I|].
  destruct Hc as [(Heq & Hnd & Hok) Hrest]. cbn [bound_from fold_left] in Hb. fold (bound_from (N.max lo (sp_max sp)) sps) in Hb.
  pose proof (bound_from_ge (N.max lo (sp_max sp)) sps).
  split; [|apply IH; assumption]. split; [|split; assumption]. rewrite seg_seg by lia. exact Heq.
Qed.

Lemma sorted_partition recs B : StronglySorted (fun a b => fst a < fst b) recs ->
  recs = seg 0 B recs ++ filter (fun e => B <=? fst e) recs.
Proof.
  intros Hs. induction Hs as [|x l Hs IH Hx]; [reflexivity|]. unfold seg in *. cbn [filter].
  destruct (fst x <? B) eqn:E.
  - replace ((0 <=? fst x) && true) with true by lia. replace (B <=? fst x) with false by lia. cbn [app]. now rewrite <- IH.
  - replace ((0 <=? fst x) && false) with false by lia. replace (B <=? fst x) with true by lia.
    assert (Hnil : filter (fun e => (0 <=? fst e) && (fst e <? B)) l = []).
    { apply filter_nil. intros y Hy. rewrite Forall_forall in Hx. specialize (Hx y Hy). lia. }
    rewrite Hnil. cbn [app]. f_equal. symmetry. apply filter_all. intros y Hy. rewrite Forall_forall in Hx. specialize (Hx y Hy). lia.
Qed.

Lemma spaced_filter f recs : spaced recs -> spaced (filter f recs).
Proof.
  unfold spaced. induction 1 as [|x l Hs IH Hx]; cbn [filter]; [constructor|].
  destruct (f x); [|exact IH]. constructor; [exact IH|]. apply Forall_forall. intros y Hy. apply filter_In in Hy as [Hy _].
  rewrite Forall_forall in Hx. auto.
Qed.

Lemma hint_datasize_bound files : hint_datasize files = bound_from 0 files.
Proof. reflexivity. Qed.

(* checkHintWithData on a chunk whose hint files are any prefix of the closed splits *)
Lemma check_hint_x d bb i spsC m :
  let k := chunk_at bb i in let recs := all_recs k in
  valid_prefix (nth i (dr_hintfiles d) []) = firstn m spsC ->
  cov hf K i 0 spsC recs -> bound_from 0 spsC <= k_size k ->
  k_wbuf k = [] -> spaced recs -> Forall (fun e => fst e + dsize (snd e) <= k_size k) recs ->
  Forall (fun e => In (d_key (snd e)) K) recs ->
  hchunk_at bb i = hchunk0 ->
  let b' := check_hint cf hf d bb i in
  hcovL (sps_at b' i) i recs /\ bound_from 0 (sps_at b' i) <= k_size k /\
  sp_items (last_split (sps_at b' i)) = [] /\
  (forall c', c' <> i -> hchunk_at b' c' = hchunk_at bb c') /\ core b' = core bb /\
  hid_le (b_maxdumped bb) (b_maxdumped b') /\ b_treeid b' = b_treeid bb.
Proof.
  cbv zeta. intros Hfiles Hcov HbW Hwb Hsp Hend Hkeys Hh0.
  set (k := chunk_at bb i) in *. set (recs := all_recs k) in *.
  pose proof (spaced_lt recs Hsp) as Hsorted.
  unfold check_hint. fold k.
  assert (Hsps0 : sps_at bb i = [split0]) by (unfold sps_at; now rewrite Hh0).
  destruct (k_size k =? 0) eqn:Ez.
  - (* empty chunk *)
    assert (Hnil : recs = []).
    { destruct recs as [|e l]; [reflexivity|]. inversion Hend as [|? ? He _]; subst. pose proof (dsize_pos (snd e)). lia. }
    rewrite Hsps0, Hnil. split; [|split; [|split; [reflexivity|split; [auto|split; [reflexivity|split; [apply hid_le_refl|reflexivity]]]]]].
    + split; [discriminate|]. split; [apply cov_split0|constructor].
    + cbn. lia.
  - rewrite Hfiles. set (files := firstn m spsC).
    set (b1 := match files with [] => bb | _ :: _ => set_hints bb (updd hchunk0 (b_hints bb) i (mkHC (files ++ [split0]) false)) (b_hmax bb) (b_maxdumped bb) end).
    assert (Hb1h : hchunk_at b1 i = mkHC (files ++ [split0]) false).
    { unfold b1. destruct files; [exact Hh0|]. now rewrite (hchunk_at_updd bb _ i i _ _ _ eq_refl), Nat.eqb_refl. }
    assert (Hb1o : forall c', c' <> i -> hchunk_at b1 c' = hchunk_at bb c').
    { intros c' Hne. unfold b1. destruct files; [reflexivity|]. rewrite (hchunk_at_updd bb _ i c' _ _ _ eq_refl).
      now replace (Nat.eqb i c') with false by (symmetry; apply Nat.eqb_neq; congruence). }
    assert (Hb1c : core b1 = core bb) by (unfold b1; destruct files; reflexivity).
    assert (Hb1m : b_maxdumped b1 = b_maxdumped bb /\ b_treeid b1 = b_treeid bb) by (unfold b1; destruct files; split; reflexivity).
    rewrite hint_datasize_bound. set (ds := bound_from 0 files).
    assert (Hds : ds <= bound_from 0 spsC) by apply bound_from_firstn.
    (* the loaded files cover the records below ds *)
    assert (Hcov1 : hcovL (files ++ [split0]) i (seg 0 ds recs) /\ bound_from 0 (files ++ [split0]) = ds).
    { split; [split; [destruct files; discriminate|split]|].
      - apply cov_app. split; [apply cov_restrict; [apply N.le_refl|now apply cov_firstn]|apply cov_split0].
      - rewrite bound_from_app. cbn [bound_from fold_left split0 sp_max]. fold ds. replace (N.max ds 0) with ds by lia.
        apply Forall_forall. intros x Hx. apply filter_In in Hx as [_ Hx]. lia.
      - rewrite bound_from_app. cbn [bound_from fold_left split0 sp_max]. fold ds. lia. }
    destruct Hcov1 as [Hcov1 Hbd1].
    assert (Hch1 : chunk_at b1 i = k) by (apply (core_chunk_at b1 bb i Hb1c)).
    destruct (ds <? k_size k) eqn:Elt.
    + (* rescan the tail of the data file *)
      unfold build_hint. rewrite Hch1. unfold scan_from.
      assert (Hdisk : k_disk k = recs) by (unfold recs, all_recs; now rewrite Hwb, app_nil_r).
      rewrite Hdisk. set (L := filter (fun e => ds <=? fst e) recs).
      assert (Hfold : forall bx, fold_left (fun bb0 e => let '(off, r) := e in
                         hints_set_item cf bb0 (mkHI (hf (d_key r)) 0 off (d_ver r) (vhash (d_val r)) (d_key r)) i (dsize r)) L bx =
                       fold_left (fun bb0 e => hints_set_item cf bb0 (built_item e) i (dsize (snd e))) L bx).
      { intros bx. revert bx. induction L as [|[off r] L IHL]; intros bx; cbn [fold_left]; [reflexivity|]. apply IHL. }
      rewrite Hfold.
      assert (Hsps1 : sps_at b1 i = files ++ [split0]) by (unfold sps_at; now rewrite Hb1h).
      destruct (build_fold i L b1 (seg 0 ds recs)) as (F1 & F2 & F3 & F4 & F5).
      { now rewrite Hsps1. }
      { now apply spaced_filter. }
      { rewrite Hsps1, Hbd1. apply Forall_forall. intros x Hx. apply filter_In in Hx as [_ Hx]. lia. }
      { apply Forall_forall. intros x Hx. apply filter_In in Hx as [Hx _]. rewrite Forall_forall in Hkeys. auto. }
      cbv zeta in F1, F2, F3, F4, F5.
      set (b2 := fold_left (fun bb0 e => hints_set_item cf bb0 (built_item e) i (dsize (snd e))) L b1) in *.
      assert (Hpart : seg 0 ds recs ++ L = recs) by (symmetry; apply sorted_partition; exact Hsorted). rewrite Hpart in F1.
      (* final trydump with dumplast *)
      assert (Hb2b : bound_from 0 (sps_at b2 i) <= k_size k).
      { destruct L as [|e0 L0] eqn:EL.
        - rewrite (F5 eq_refl), Hsps1, Hbd1. lia.
        - destruct (F4 ltac:(discriminate)) as (x & _ & Hx & Hxb). rewrite Hxb.
          assert (Hin : In x recs) by (rewrite <- EL in Hx; unfold L in Hx; apply filter_In in Hx; tauto).
          rewrite Forall_forall in Hend. now apply Hend. }
      assert (HLB : LB (hchunk_at b2 i)).
      { destruct L as [|e0 L0] eqn:EL.
        - rewrite (F5 eq_refl), Hb1h. split; cbn [hc_splits hc_active]; rewrite last_split_app; reflexivity.
        - unfold b2. apply build_fold_LB. discriminate. }
      destruct F1 as (G1 & G2 & G3).
      destruct (trydump_sps_cov hf K i (sps_at b2 i) (b_maxdumped b2) i
                  ((negb true && Nat.eqb i (b_hmax b2)) || negb (hc_active (hchunk_at b2 i))) recs 0 G1 G2) as (T1 & T2 & T3).
      split; [|split; [|split; [|split; [|split; [|split]]]]].
      * rewrite trydump_sps_at, Nat.eqb_refl. split; [exact T1|]. split; [exact T2|]. now rewrite T3.
      * rewrite trydump_sps_at, Nat.eqb_refl, T3. exact Hb2b.
      * unfold sps_at. rewrite trydump_hchunk_at, Nat.eqb_refl. cbn [negb andb orb]. now apply sealed_after_final.
      * intros c' Hne. rewrite trydump_hchunk_at. replace (Nat.eqb i c') with false by (symmetry; apply Nat.eqb_neq; congruence).
        unfold b2. rewrite build_fold_other by exact Hne. now apply Hb1o.
      * rewrite trydump_core, F3. exact Hb1c.
      * destruct (trydump_md b2 i true) as [M1 M2]. destruct (build_fold_md i L b1) as [M3 M4]. cbv zeta in M3, M4. fold b2 in M3, M4.
        destruct Hb1m as [M5 M6]. rewrite <- M5. eapply hid_le_trans; eassumption.
      * destruct (trydump_md b2 i true) as [M1 M2]. destruct (build_fold_md i L b1) as [M3 M4]. cbv zeta in M3, M4. fold b2 in M3, M4.
        destruct Hb1m as [M5 M6]. congruence.
    + (* the hint files cover the whole data file *)
      assert (Hall : seg 0 ds recs = recs).
      { unfold seg. apply filter_all. intros x Hx. rewrite Forall_forall in Hend. specialize (Hend x Hx). pose proof (dsize_pos (snd x)). lia. }
      rewrite Hall in Hcov1. unfold sps_at. rewrite Hb1h. cbn [hc_splits].
      split; [exact Hcov1|]. split; [rewrite Hbd1; lia|]. split; [now rewrite last_split_app|].
      split; [exact Hb1o|]. split; [exact Hb1c|]. destruct Hb1m as [-> ->]. split; [apply hid_le_refl|reflexivity].
Qed.

(* ---- replaying hint splits into the tree ---- *)
Lemma replay_split_upds b c sp : replay_split b c sp = fold_left apply_upd (iupds c (sp_items sp)) b.
Proof.
  unfold replay_split, iupds. generalize (sp_items sp). intros l. revert b.
  induction l as [|it l IH]; intros b; cbn [fold_left map]; [reflexivity|]. rewrite IH. f_equal.
  unfold apply_upd, item_upd. cbn [fst snd]. destruct (0 <? hi_ver it)%Z; reflexivity.
Qed.

Lemma replay_all c sps : forall b,
  fold_left (fun bb sp => replay_split bb c sp) sps b =
  fold_left apply_upd (List.concat (map (fun sp => iupds c (sp_items sp)) sps)) b.
Proof.
  induction sps as [|sp sps IH]; intros b; cbn [fold_left map List.concat]; [reflexivity|].
  rewrite fold_left_app, <- replay_split_upds. apply IH.
Qed.

Definition rest (b : bucket) := (b_chunks b, b_head b, b_hints b, b_hmax b, b_ctab b, b_maxdumped b, b_treeid b, b_merged b).

Lemma replay_rest l : forall b, rest (fold_left apply_upd l b) = rest b.
Proof.
  induction l as [|u l IH]; intros b; cbn [fold_left]; [reflexivity|]. rewrite IH. unfold apply_upd. destruct (snd u); reflexivity.
Qed.

Lemma concat_removelast_sealed {A} (f : hsplit -> list A) sps :
  sps <> [] -> f (last_split sps) = [] ->
  List.concat (map f (firstn (length sps - 1) sps)) = List.concat (map f sps).
Proof.
  intros Hne Hl. replace (length sps - 1)%nat with (Nat.pred (length sps)) by lia. rewrite <- removelast_firstn_len.
  rewrite (removelast_last_split sps Hne) at 2. rewrite map_app, concat_app. cbn [map List.concat]. rewrite Hl. now rewrite !app_nil_r.
Qed.

(* one chunk of bucket.open *)
Lemma open_chunk_x d tid bb i spsC m :
  let k := chunk_at bb i in let recs := all_recs k in
  valid_prefix (nth i (dr_hintfiles d) []) = firstn m spsC ->
  cov hf K i 0 spsC recs -> bound_from 0 spsC <= k_size k ->
  k_wbuf k = [] -> spaced recs -> Forall (fun e => fst e + dsize (snd e) <= k_size k) recs ->
  Forall (fun e => In (d_key (snd e)) K) recs ->
  hchunk_at bb i = hchunk0 ->
  let b' := open_chunk cf hf d tid bb i in
  hcovL (sps_at b' i) i recs /\ bound_from 0 (sps_at b' i) <= k_size k /\
  (forall c', c' <> i -> hchunk_at b' c' = hchunk_at bb c') /\
  (b_chunks b', b_head b', b_ctab b', b_treeid b') = (b_chunks bb, b_head bb, b_ctab bb, b_treeid bb) /\
  ((forall h, tree_get_slot b' h = match last_upd h (rupds hf i recs) with Some x => x | None => tree_get_slot bb h end) \/
   (i = fst tid /\ (0 <= snd tid)%Z /\ forall h, tree_get_slot b' h = tree_get_slot bb h)) /\
  ((hid_le tid (b_maxdumped bb) /\ (fst tid <= i)%nat) -> hid_le tid (b_maxdumped b')).
Proof.
  cbv zeta. intros Hfiles Hcov HbW Hwb Hsp Hend Hkeys Hh0.
  destruct (check_hint_x d bb i spsC m Hfiles Hcov HbW Hwb Hsp Hend Hkeys Hh0) as (C1 & C2 & C3 & C4 & C5 & C6 & C7).
  cbv zeta in C1, C2, C3, C4, C5, C6, C7. unfold open_chunk.
  set (b1 := check_hint cf hf d bb i) in *. set (recs := all_recs (chunk_at bb i)) in *.
  set (startsp := if Nat.eqb i (fst tid) then (snd tid + 1)%Z else 0%Z).
  set (sps := hc_splits (hchunk_at b1 i)). change (hc_splits (hchunk_at b1 i)) with (sps_at b1 i) in sps.
  set (nfile := (length sps - 1)%nat).
  assert (Hcore1 : (b_chunks b1, b_head b1, b_ctab b1) = (b_chunks bb, b_head bb, b_ctab bb)).
  { unfold core in C5. injection C5 as -> -> _ ->. reflexivity. }
  destruct (Z.of_nat nfile <=? startsp)%Z eqn:Eskip.
  - split; [exact C1|]. split; [exact C2|]. split; [exact C4|]. split; [injection Hcore1 as -> -> ->; now rewrite C7|].
    split; [|intros [Hle _]; eapply hid_le_trans; eassumption].
    destruct (Z.eq_dec startsp 0) as [Hs0|Hsn]; [left|right].
    2:{ unfold startsp in Hsn, Eskip. destruct (Nat.eqb_spec i (fst tid)) as [Ei|Hni]; [|congruence].
        split; [exact Ei|]. split; [lia|]. intros h. apply (core_tree b1 bb h C5). }
    (* nothing to skip: no hint file at all means no record at all *)
    destruct C1 as (Hne & Hc & Hall).
    assert (Hrecs : recs = []).
    { unfold nfile, sps in Eskip. rewrite Hs0 in Eskip. revert Hne Hc Hall C3 Eskip. generalize (sps_at b1 i). intros S0 Hne Hc Hall C3 Eskip.
      destruct S0 as [|lst [|x t]]; [congruence| |cbn [length] in Eskip; lia].
      cbn [last_split last] in C3.
      cbn [cov] in Hc. destruct Hc as [(Heq & _ & _) _]. rewrite C3 in Heq. cbn [iupds map] in Heq.
      cbn [bound_from fold_left] in Hall.
      assert (Hseg : seg 0 (N.max 0 (sp_max lst)) recs = recs).
      { unfold seg. apply filter_all. intros x Hx. rewrite Forall_forall in Hall. specialize (Hall x Hx). lia. }
      rewrite Hseg in Heq. destruct recs as [|e l]; [reflexivity|]. exfalso.
      pose proof (equiv_nil_inv (rupds hf i (e :: l)) Heq) as Hn. discriminate Hn. }
    intros h. rewrite Hrecs. cbn [rupds map last_upd]. apply (core_tree b1 bb h C5).
  - rewrite replay_all. set (U := List.concat (map (fun sp => iupds i (sp_items sp)) (firstn nfile sps))).
    pose proof (replay_rest U b1) as Hrest. set (b2 := fold_left apply_upd U b1) in *.
    unfold rest in Hrest. injection Hrest as R1 R2 R3 R4 R5 R6 R7 R8.
    assert (Hhc : forall c, hchunk_at (set_hints b2 (b_hints b2) (b_hmax b2) (i, (startsp + Z.of_nat nfile - 1)%Z)) c = hchunk_at b1 c).
    { intros c. unfold hchunk_at. cbn [set_hints b_hints]. now rewrite R3. }
    split; [unfold sps_at; rewrite Hhc; exact C1|]. split; [unfold sps_at; rewrite Hhc; exact C2|].
    split; [intros c' Hne; rewrite Hhc; now apply C4|].
    split; [cbn [set_hints b_chunks b_head b_ctab b_treeid]; rewrite R1, R2, R5, R7, C7; injection Hcore1 as -> -> ->; reflexivity|].
    split.
    + left. intros h. change (tree_get_slot (set_hints b2 (b_hints b2) (b_hmax b2) (i, (startsp + Z.of_nat nfile - 1)%Z)) h) with (tree_get_slot b2 h).
      unfold b2. rewrite replay_get. rewrite (core_tree b1 bb h C5).
      destruct C1 as (Hne & Hc & Hall).
      assert (HU : equiv U (rupds hf i recs)).
      { unfold U, nfile. rewrite (concat_removelast_sealed (fun sp => iupds i (sp_items sp)) sps Hne) by (unfold sps; now rewrite C3).
        eapply equiv_trans; [apply (cov_equiv_all i recs (spaced_lt recs Hsp) sps 0 Hc)|].
        assert (Hseg : seg 0 (bound_from 0 sps) recs = recs).
        { unfold seg. apply filter_all. intros x Hx. rewrite Forall_forall in Hall. specialize (Hall x Hx). unfold sps. lia. }
        rewrite Hseg. apply equiv_refl. }
      now rewrite (HU h).
    + intros [Hle Hi]. cbn [set_hints b_maxdumped]. unfold hid_le. cbn [fst snd]. unfold startsp in *.
      destruct (Nat.eqb_spec i (fst tid)) as [E|Hne]; [|left; lia].
      right. split; [now symmetry|]. lia.
Qed.

(* ---- files besides data and hints: only close / open / GC write them ---- *)
Definition aux (b : bucket) := (b_ctfile b, b_treefiles b, b_mergedfile b, b_nextgcfile b).

Lemma trydump_aux b c d : aux (trydump b c d) = aux b.
Proof. unfold trydump. destruct (dump_old _ _ _ _). destruct (_ || _); reflexivity. Qed.
Lemma hints_set_item_aux b it c rs : aux (hints_set_item cf b it c rs) = aux b.
Proof.
  unfold hints_set_item. destruct (split_set _ _ _ _); cbv zeta iota beta.
  - destruct (Nat.ltb _ _); reflexivity.
  - destruct (Nat.ltb _ _); cbn [set_hints]; unfold aux; cbn [b_ctfile b_treefiles b_mergedfile b_nextgcfile];
      change (aux (trydump (set_hints b (updd hchunk0 (b_hints b) c {| hc_splits := removelast (hc_splits (hchunk_at b c)) ++ [{| sp_items := sp_items (last_split (hc_splits (hchunk_at b c))); sp_file := sp_file (last_split (hc_splits (hchunk_at b c))); sp_max := N.max (sp_max (last_split (hc_splits (hchunk_at b c)))) (hi_off it) |}; match split_set (c_splitcap cf) split0 it rs with Some sp => sp | None => split0 end]; hc_active := true |}) (b_hmax b) (b_maxdumped b)) c false) = aux b);
      now rewrite trydump_aux.
Qed.
Lemma flush_chunk_aux b c : aux (flush_chunk b c) = aux b.
Proof. unfold flush_chunk. destruct (k_wbuf _); reflexivity. Qed.
Lemma bkt_set_aux b h r vh : aux (bkt_set cf b h r vh) = aux b.
Proof.
  unfold bkt_set, append_record. destruct (c_filemax cf <? _).
  - unfold hints_set. destruct (ct_has_hash _ _); rewrite hints_set_item_aux; cbn [set_ctab tree_put set_tree]; unfold aux; cbn [b_ctfile b_treefiles b_mergedfile b_nextgcfile set_chunk set_chunks];
      change (aux (flush_chunk (set_head b (S (b_head b))) (b_head b)) = aux b); now rewrite flush_chunk_aux.
  - unfold hints_set. destruct (ct_has_hash _ _); rewrite hints_set_item_aux; reflexivity.
Qed.
Lemma bkt_get_aux b key : aux (fst (bkt_get hf b key)) = aux b.
Proof.
  unfold bkt_get. destruct (bkt_get_mem b (hf key) key) as [[[ver vh] p]|]; [|reflexivity].
  destruct (read_pos b p) as [r inb| |]; try reflexivity.
  destruct (bytes_eqb (d_key r) key); [reflexivity|].
  destruct (negb _). { destruct (_ && _); reflexivity. }
  destruct (hints_get b (hf key) key) as [[it ck]|]; [|reflexivity].
  destruct (read_pos _ _); reflexivity.
Qed.
Lemma check_and_set_aux so b key val flag rev ts z : aux (fst (check_and_set_gen so cf hf b key val flag rev ts z)) = aux b.
Proof.
  unfold check_and_set_gen. destruct (bkt_get_mem b (hf key) key) as [[[ov ovh] op]|].
  - destruct (_ && c_checkvhash cf).
    + destruct (negb (rev =? 0)%Z); reflexivity.
    + destruct (next_version ov rev); [|reflexivity]. destruct (_ && _); [reflexivity|]. cbn [fst]. apply bkt_set_aux.
  - destruct (_ && c_checkvhash cf); [reflexivity|].
    destruct (next_version 0 rev); [|reflexivity]. destruct (_ && _); [reflexivity|]. cbn [fst]. apply bkt_set_aux.
Qed.
Lemma bkt_incr_aux b key d ts : aux (fst (bkt_incr cf hf b key d ts)) = aux b.
Proof.
  unfold bkt_incr. pose proof (bkt_get_aux b key) as H. destruct (bkt_get hf b key) as [b1 g]. cbn [fst] in H.
  destruct (match g with GHit v fl ver _ _ => if (0 <? ver)%Z then Some (v, fl, ver) else None | _ => None end) as [[[v fl] ver]|].
  - destruct (22 <? lenN v); [exact H|]. destruct (_ || _); [exact H|]. cbn [fst]. now rewrite bkt_set_aux.
  - destruct (match g with GFail => true | _ => false end); [exact H|]. cbn [fst]. now rewrite bkt_set_aux.
Qed.
Lemma flush_head_aux b : aux (flush_head b) = aux b.
Proof.
  unfold flush_head. destruct (wbuf_total b =? 0); [reflexivity|]. destruct (k_wbuf _); [reflexivity|apply flush_chunk_aux].
Qed.
Lemma trydump_all_aux l : forall b, aux (fold_left (fun bb i => trydump bb i false) l b) = aux b.
Proof. induction l as [|i l IH]; intros b; cbn [fold_left]; [reflexivity|]. now rewrite IH, trydump_aux. Qed.

(* ---- the fold of open_chunk over the chunks from the tree's chunk upwards ---- *)
Definition chunk_pre (d : dirstate) (spsC : nat -> list hsplit) (bb : bucket) (c : nat) : Prop :=
  let k := chunk_at bb c in let recs := all_recs k in
  (exists m, valid_prefix (nth c (dr_hintfiles d) []) = firstn m (spsC c)) /\
  cov hf K c 0 (spsC c) recs /\ bound_from 0 (spsC c) <= k_size k /\
  k_wbuf k = [] /\ spaced recs /\ Forall (fun e => fst e + dsize (snd e) <= k_size k) recs /\
  Forall (fun e => In (d_key (snd e)) K) recs.

Definition Urange (bb : bucket) (a n : nat) : list upd := List.concat (map (fun c => rupds hf c (recs_at bb c)) (seq a n)).

Lemma open_fold d tid spsC : forall n a bb,
  (forall c, chunk_pre d spsC bb c) ->
  (forall c, (a <= c)%nat -> hchunk_at bb c = hchunk0) ->
  hid_le tid (b_maxdumped bb) -> (fst tid <= a)%nat ->
  let b' := fold_left (open_chunk cf hf d tid) (seq a n) bb in
  (b_chunks b', b_head b', b_ctab b', b_treeid b') = (b_chunks bb, b_head bb, b_ctab bb, b_treeid bb) /\
  (forall c, (a <= c < a + n)%nat -> hcovL (sps_at b' c) c (recs_at bb c) /\ bound_from 0 (sps_at b' c) <= k_size (chunk_at bb c)) /\
  (forall c, ~ (a <= c < a + n)%nat -> hchunk_at b' c = hchunk_at bb c) /\
  ((forall h, tree_get_slot b' h = match last_upd h (Urange bb a n) with Some x => x | None => tree_get_slot bb h end) \/
   (a = fst tid /\ (0 <= snd tid)%Z /\ (0 < n)%nat /\
    forall h, tree_get_slot b' h = match last_upd h (Urange bb (S a) (n - 1)) with Some x => x | None => tree_get_slot bb h end)) /\
  hid_le tid (b_maxdumped b').
Proof.
  induction n as [|n IH]; intros a bb Hpre Hh0 Hle Ha; cbn [seq fold_left]; cbv zeta.
  - split; [reflexivity|]. split; [intros c Hc; lia|]. split; [reflexivity|]. split; [left; intros h; reflexivity|exact Hle].
  - destruct (Hpre a) as ((m & Hfiles) & Hcov & HbW & Hwb & Hsp & Hend & Hkeys).
    destruct (open_chunk_x d tid bb a (spsC a) m Hfiles Hcov HbW Hwb Hsp Hend Hkeys (Hh0 a (le_n a)))
      as (O1 & O2 & O3 & O4 & O5 & O6). cbv zeta in O1, O2, O3, O4, O5, O6.
    set (b1 := open_chunk cf hf d tid bb a) in *.
    assert (Hch : b_chunks b1 = b_chunks bb) by now injection O4.
    assert (Hca : forall c, chunk_at b1 c = chunk_at bb c) by (intros c; unfold chunk_at; now rewrite Hch).
    assert (Hra : forall c, recs_at b1 c = recs_at bb c) by (intros c; unfold recs_at; now rewrite Hca).
    assert (HU : forall x y, Urange b1 x y = Urange bb x y).
    { intros x y. unfold Urange. f_equal. apply map_ext. intros c. now rewrite Hra. }
    destruct (IH (S a) b1) as (I1 & I2 & I3 & I4 & I5).
    { intros c. unfold chunk_pre. rewrite Hca. apply Hpre. }
    { intros c Hc. rewrite O3 by lia. apply Hh0. lia. }
    { apply O6. split; assumption. }
    { lia. }
    cbv zeta in I1, I2, I3, I4, I5. set (b2 := fold_left (open_chunk cf hf d tid) (seq (S a) n) b1) in *.
    split; [rewrite I1; exact O4|]. split; [|split; [|split; [|exact I5]]].
    + intros c Hc. destruct (Nat.eq_dec c a) as [->|Hne].
      * unfold sps_at. rewrite I3 by lia. exact (conj O1 O2).
      * rewrite <- Hra, <- Hca. apply I2. lia.
    + intros c Hc. rewrite I3 by lia. apply O3. lia.
    + destruct I4 as [I4|(Eq & _)]; [|lia]. rewrite HU in I4.
      destruct O5 as [O5|(Ea & Esn & O5)].
      * left. intros h. rewrite I4, O5. unfold Urange. cbn [seq map List.concat]. rewrite last_upd_app.
        fold (Urange bb (S a) n). destruct (last_upd h (Urange bb (S a) n)); reflexivity.
      * right. split; [exact Ea|]. split; [exact Esn|]. split; [lia|]. intros h. rewrite I4, O5. replace (S n - 1)%nat with n by lia. reflexivity.
Qed.

Lemma check_fold d spsC : forall n a bb,
  (forall c, chunk_pre d spsC bb c) ->
  (forall c, (a <= c < a + n)%nat -> hchunk_at bb c = hchunk0) ->
  let b' := fold_left (fun b0 i => check_hint cf hf d b0 i) (seq a n) bb in
  core b' = core bb /\ b_treeid b' = b_treeid bb /\ hid_le (b_maxdumped bb) (b_maxdumped b') /\
  (forall c, (a <= c < a + n)%nat -> hcovL (sps_at b' c) c (recs_at bb c) /\ bound_from 0 (sps_at b' c) <= k_size (chunk_at bb c)) /\
  (forall c, ~ (a <= c < a + n)%nat -> hchunk_at b' c = hchunk_at bb c).
Proof.
  induction n as [|n IH]; intros a bb Hpre Hh0; cbn [seq fold_left]; cbv zeta.
  - split; [reflexivity|]. split; [reflexivity|]. split; [apply hid_le_refl|]. split; [intros c Hc; lia|reflexivity].
  - destruct (Hpre a) as ((m & Hfiles) & Hcov & HbW & Hwb & Hsp & Hend & Hkeys).
    destruct (check_hint_x d bb a (spsC a) m Hfiles Hcov HbW Hwb Hsp Hend Hkeys (Hh0 a ltac:(lia)))
      as (C1 & C2 & C3 & C4 & C5 & C6 & C7). cbv zeta in C1, C2, C3, C4, C5, C6, C7.
    set (b1 := check_hint cf hf d bb a) in *.
    assert (Hca : forall c, chunk_at b1 c = chunk_at bb c) by (intros c; apply (core_chunk_at b1 bb c C5)).
    assert (Hra : forall c, recs_at b1 c = recs_at bb c) by (intros c; unfold recs_at; now rewrite Hca).
    destruct (IH (S a) b1) as (I1 & I2 & I3 & I4 & I5).
    { intros c. unfold chunk_pre. rewrite Hca. apply Hpre. }
    { intros c Hc. rewrite C4 by lia. apply Hh0. lia. }
    cbv zeta in I1, I2, I3, I4, I5.
    split; [now rewrite I1|]. split; [now rewrite I2|]. split; [eapply hid_le_trans; eassumption|]. split.
    + intros c Hc. destruct (Nat.eq_dec c a) as [->|Hne].
      * unfold sps_at. rewrite I5 by lia. exact (conj C1 C2).
      * rewrite <- Hra, <- Hca. apply I4. lia.
    + intros c Hc. rewrite I5 by lia. apply C4. lia.
Qed.

(* ---- the directory left by a clean shutdown ---- *)
Definition oc (k : chunk) : chunk :=
  if k_exists k then mkChunk true (k_disk k) (k_fsize k) [] (k_fsize k) (k_fsize k) false else chunk0.

Lemma oc_facts k : cst k -> k_wbuf k = [] ->
  cst (oc k) /\ all_recs (oc k) = all_recs k /\ k_whead (oc k) = k_whead k /\ k_size (oc k) = k_whead k /\
  k_wbuf (oc k) = [] /\ k_exists (oc k) = k_exists k /\ k_fsize (oc k) mod 256 = 0.
Proof.
  intros (Hok & Hsp & Hall & Hf & Hsz & Hrw & Hex & Hmod) Hw. specialize (Hf Hw).
  assert (Hrecs : all_recs k = k_disk k) by (unfold all_recs; now rewrite Hw, app_nil_r).
  unfold oc. destruct (k_exists k) eqn:Ee.
  - set (k' := mkChunk true (k_disk k) (k_fsize k) [] (k_fsize k) (k_fsize k) false).
    assert (Hr' : all_recs k' = all_recs k) by (unfold all_recs at 1, k'; cbn [k_disk k_wbuf]; now rewrite app_nil_r, Hrecs).
    unfold cst. rewrite Hr'. unfold k'. cbn [k_wbuf k_whead k_fsize k_size k_rewriting k_exists]. rewrite Hf.
    split; [|split; [reflexivity|split; [reflexivity|split; [reflexivity|split; [reflexivity|split; [reflexivity|exact Hmod]]]]]].
    split; [|split; [exact Hsp|split; [exact Hall|split; [reflexivity|split; [reflexivity|split; [reflexivity|split; [discriminate|exact Hmod]]]]]]].
    destruct Hok as (Hd & _ & _ & _). unfold chunk_ok, wstart in *. cbn [k_disk k_wbuf k_whead k_exists]. rewrite Hw in Hd.
    split; [exact Hd|]. split; [intros o r []|]. split; [discriminate|lia].
  - destruct Hok as (_ & _ & He & _). specialize (He Ee). specialize (Hex eq_refl).
    assert (Hwh : k_whead k = 0) by lia. rewrite Hrecs, He, Hwh.
    split; [apply cst0|]. repeat split.
Qed.

Lemma nth_map_oc l c : nth c (map oc l) chunk0 = oc (nth c l chunk0).
Proof. change chunk0 with (oc chunk0) at 1. apply map_nth. Qed.

Lemma nth_map_combine_seq {A B} (F : nat * A -> B) (dA : A) (dB : B) : forall l s i,
  nth i (map F (combine (seq s (length l)) l)) dB = if Nat.ltb i (length l) then F ((s + i)%nat, nth i l dA) else dB.
Proof.
  induction l as [|x l IH]; intros s i; cbn [length seq combine map]; [now destruct i|].
  destruct i as [|i]; cbn [nth]; [now rewrite Nat.add_0_r|].
  rewrite IH. replace (S s + i)%nat with (s + S i)%nat by lia. reflexivity.
Qed.

Lemma valid_prefix_map (G : nat * hsplit -> option hsplit) :
  (forall j sp, G (j, sp) = Some sp \/ G (j, sp) = None) ->
  forall sps s, exists m, valid_prefix (map G (combine (seq s (length sps)) sps)) = firstn m sps.
Proof.
  intros HG. induction sps as [|sp sps IH]; intros s; cbn [length seq combine map valid_prefix]; [exists O; reflexivity|].
  destruct (HG s sp) as [-> | ->]; [|exists O; reflexivity].
  destruct (IH (S s)) as (m & Hm). exists (S m). cbn [firstn]. now rewrite Hm.
Qed.

Lemma dir_hintfiles_prefix bc rm i : exists m, valid_prefix (nth i (dr_hintfiles (dir_of bc rm)) []) = firstn m (sps_at bc i).
Proof.
  unfold dir_of. cbn [dr_hintfiles].
  rewrite (nth_map_combine_seq _ hchunk0 [] (b_hints bc) 0 i).
  destruct (Nat.ltb i (length (b_hints bc))); [|exists O; reflexivity].
  cbn [Nat.add]. unfold sps_at, hchunk_at. apply valid_prefix_map. intros j sp. destruct (_ && _); auto.
Qed.

(* wbuf_total = 0 means that every write buffer is empty *)
Lemma wbuf_total_zero b : wbuf_total b = 0 -> forall c, k_wbuf (chunk_at b c) = [].
Proof.
  unfold wbuf_total, chunk_at.
  assert (Hin : forall (w : list (N * drec)) n, n <= fold_left (fun m e => m + dsize (snd e)) w n /\
                 (fold_left (fun m e => m + dsize (snd e)) w n = n -> w = [])).
  { induction w as [|e w IHw]; intros n; cbn [fold_left]; [split; [lia|reflexivity]|].
    destruct (IHw (n + dsize (snd e))) as [H1 H2]. pose proof (dsize_pos (snd e)). split; [lia|]. intros Hq. lia. }
  assert (Hout : forall l n, n <= fold_left (fun n0 k => fold_left (fun m e => m + dsize (snd e)) (k_wbuf k) n0) l n /\
                 (fold_left (fun n0 k => fold_left (fun m e => m + dsize (snd e)) (k_wbuf k) n0) l n = n -> forall k, In k l -> k_wbuf k = [])).
  { induction l as [|k l IHl]; intros n; cbn [fold_left]; [split; [lia|intros _ k []]|].
    destruct (Hin (k_wbuf k) n) as [H1 H2]. destruct (IHl (fold_left (fun m e => m + dsize (snd e)) (k_wbuf k) n)) as [H3 H4].
    split; [lia|]. intros Hq x [<-|Hx]; [apply H2; lia|]. apply H4; [lia|exact Hx]. }
  intros H c. destruct (Hout (b_chunks b) 0) as [_ H2]. specialize (H2 H).
  destruct (nth_in_or_default c (b_chunks b) chunk0) as [Hi|Hd]; [now apply H2|rewrite Hd; reflexivity].
Qed.
End R3.
