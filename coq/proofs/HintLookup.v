(* C14: total lookup -- hintFileIndex.get on a written hint file finds a (hash, key) pair iff it is present and
   never ends in an error.  Byte-level: the file is hint_write's output, the sparse index is the writer's. *)
From Coq Require Import NArith ZArith List Bool Lia ZifyN ZifyNat ZifyBool Sorting.Sorted.
From GB Require Import Consts Words HintFile Bits RecordProofs HintProofs.
Import ListNotations.
Open Scope N_scope.

Definition hsorted (items : list hitem) : Prop := StronglySorted (fun a b => hi_hash a <= hi_hash b) items.
Definition matches (h : N) (key : bytes) (it : hitem) : bool := (hi_hash it =? h) && bytes_eqb (hi_key it) key.

Lemma items_size_app a b : items_size (a ++ b) = items_size a + items_size b.
Proof. induction a as [|x a IH]; cbn [app items_size]; [reflexivity|]. rewrite IH. lia. Qed.

Lemma lenN_concat_enc items : lenN (concat (map enc_item items)) = items_size items.
Proof. induction items as [|x t IH]; cbn [map concat items_size]; [reflexivity|]. now rewrite lenN_app, lenN_enc_item, IH. Qed.

Lemma find_none_all {A} (f : A -> bool) l : (forall x, In x l -> f x = false) -> find f l = None.
Proof. induction l as [|a l IH]; intros H; cbn [find]; [reflexivity|]. rewrite (H a) by now left. apply IH. intros x Hx. apply H. now right. Qed.

(* ---- the scan from an item boundary ---- *)
Lemma get_loop_spec rest : forall fuel loff ioff tail h key,
  Forall valid_item rest -> hsorted rest -> (length rest < fuel)%nat -> ioff = loff + items_size rest ->
  get_loop fuel ioff (concat (map enc_item rest) ++ tail) loff h key =
  match find (matches h key) rest with Some it => GFound it | None => GNotFound end.
Proof.
  induction rest as [|it t IH]; intros fuel loff ioff tail h key HF Hs Hfuel Hio.
  - destruct fuel; [cbn [length] in Hfuel; lia|]. cbn [get_loop map concat app items_size find] in *.
    unfold hnext. replace (ioff <=? loff) with true by (symmetry; apply N.leb_le; lia). reflexivity.
  - destruct fuel; [cbn [length] in Hfuel; lia|].
    inversion HF as [|? ? Hit Ht]; subst. inversion Hs as [|? ? Hs' Hall]; subst.
    cbn [get_loop map concat items_size find]. unfold hnext.
    assert (Hpos : 0 < item_size it) by (unfold item_size; change hintitem_head_size with 23; lia).
    replace (loff + (item_size it + items_size t) <=? loff) with false by (symmetry; apply N.leb_gt; lia).
    rewrite <- app_assoc, parse_item_enc by exact Hit. unfold matches at 1.
    destruct (hi_hash it <? h) eqn:E1.
    + replace (hi_hash it =? h) with false by (symmetry; apply N.eqb_neq; lia). cbn [andb].
      apply IH; [exact Ht|exact Hs'|cbn [length] in Hfuel; lia|lia].
    + destruct (h <? hi_hash it) eqn:E2.
      * replace (hi_hash it =? h) with false by (symmetry; apply N.eqb_neq; lia). cbn [andb].
        (* every later item has a hash above h as well *)
        rewrite find_none_all; [reflexivity|]. intros x Hx. rewrite Forall_forall in Hall. specialize (Hall x Hx).
        unfold matches. replace (hi_hash x =? h) with false by (symmetry; apply N.eqb_neq; lia). reflexivity.
      * replace (hi_hash it =? h) with true by (symmetry; apply N.eqb_eq; lia). cbn [andb]. unfold bytes_eqb.
        destruct (list_eq_dec N.eq_dec (hi_key it) key); [reflexivity|].
        apply IH; [exact Ht|exact Hs'|cbn [length] in Hfuel; lia|lia].
Qed.

(* ---- the sparse index written by write_items: entries sit at item boundaries, in file order ---- *)
Fixpoint IxOK (items : list hitem) (off : N) (ix : list (N * N)) : Prop :=
  match ix with
  | [] => True
  | e :: ix' => exists pre it post, items = pre ++ it :: post /\ snd e = off + items_size pre /\ fst e = hi_hash it /\
                                    IxOK post (snd e + item_size it) ix'
  end.

Lemma ixok_shift it t off ix : IxOK t (off + item_size it) ix -> IxOK (it :: t) off ix.
Proof.
  destruct ix as [|e ix']; cbn [IxOK]; [auto|]. intros (pre & x & post & E1 & E2 & E3 & E4).
  exists (it :: pre), x, post. rewrite E1. split; [reflexivity|]. split; [cbn [items_size]; lia|]. split; assumption.
Qed.

Lemma rev'_eq {A} (l : list A) : rev' l = rev l.
Proof. unfold rev'. rewrite rev_append_rev. apply app_nil_r. Qed.

Lemma write_items_ixok items : forall interval off last idx,
  exists ixn, snd (write_items items interval off last idx) = rev idx ++ ixn /\ IxOK items off ixn.
Proof.
  induction items as [|it t IH]; intros interval off last idx; cbn [write_items].
  - exists []. cbn [snd]. rewrite rev'_eq, app_nil_r. split; [reflexivity|exact I].
  - set (due := index_due off last interval).
    destruct (IH interval (off + item_size it) (if due then off else last) (if due then (hi_hash it, off) :: idx else idx)) as (ixn & E & Hok).
    destruct (write_items t interval (off + item_size it) _ _) as [[bs off'] ix]. cbn [snd] in E |- *. rewrite E. destruct due.
    + exists ((hi_hash it, off) :: ixn). cbn [rev]. rewrite <- app_assoc. split; [reflexivity|]. cbn [IxOK fst snd].
      exists [], it, t. cbn [app items_size]. split; [reflexivity|]. split; [lia|]. split; [reflexivity|exact Hok].
    + exists ixn. split; [reflexivity|]. now apply ixok_shift.
Qed.

Lemma ixok_nth ix : forall items off k, IxOK items off ix -> (k < length ix)%nat ->
  exists pre it post, items = pre ++ it :: post /\ nth k ix (0, 0) = (hi_hash it, off + items_size pre).
Proof.
  induction ix as [|e ix' IH]; intros items off k Hok Hk; [cbn [length] in Hk; lia|].
  cbn [IxOK] in Hok. destruct Hok as (pre & it & post & E1 & E2 & E3 & E4). destruct k as [|k].
  - exists pre, it, post. split; [exact E1|]. cbn [nth]. destruct e; cbn [fst snd] in *. now subst.
  - cbn [nth]. destruct (IH post (snd e + item_size it) k E4 ltac:(cbn [length] in Hk; lia)) as (pre' & it' & post' & F1 & F2).
    exists (pre ++ it :: pre'), it', post'. split; [rewrite E1, F1, <- app_assoc; reflexivity|].
    rewrite F2, E2, items_size_app. cbn [items_size]. f_equal. lia.
Qed.

Lemma hsorted_app a b : hsorted (a ++ b) -> hsorted a /\ hsorted b /\ forall x y, In x a -> In y b -> hi_hash x <= hi_hash y.
Proof.
  unfold hsorted. induction a as [|x a IH]; cbn [app]; intros H.
  - split; [constructor|]. split; [exact H|]. intros x y [].
  - inversion H as [|? ? Hs Hall]; subst. destruct (IH Hs) as (I1 & I2 & I3). rewrite Forall_app in Hall. destruct Hall as [Ha Hb].
    split; [constructor; assumption|]. split; [exact I2|]. intros u v [<-|Hu] Hv; [rewrite Forall_forall in Hb; now apply Hb|now apply I3].
Qed.

Lemma ixok_sorted ix : forall items off, hsorted items -> IxOK items off ix -> StronglySorted N.le (map fst ix).
Proof.
  induction ix as [|e ix' IH]; intros items off Hs Hok; cbn [map]; [constructor|].
  cbn [IxOK] in Hok. destruct Hok as (pre & it & post & E1 & E2 & E3 & E4). subst items.
  destruct (hsorted_app _ _ Hs) as (_ & Hs2 & _). inversion Hs2 as [|? ? Hsp Hall]; subst.
  constructor; [now apply (IH post (snd e + item_size it) Hsp)|]. apply Forall_forall. intros hk Hin. apply in_map_iff in Hin as (e' & <- & Hin').
  apply In_nth with (d := (0, 0)) in Hin' as (k & Hk & <-).
  destruct (ixok_nth ix' post _ k E4 Hk) as (pre' & it' & post' & F1 & F2). rewrite F2. cbn [fst]. rewrite E3.
  rewrite Forall_forall in Hall. apply Hall. rewrite F1. apply in_or_app. right. now left.
Qed.

(* ---- what the binary search guarantees whatever its fuel: everything left of the result fails the test ---- *)
Lemma bsearch_left f n : (forall a b, a <= b -> b < n -> f a = true -> f b = true) ->
  forall fuel i j, i <= j <= n -> (forall k, k < i -> f k = false) ->
  let r := bsearch fuel f i j in r <= n /\ forall k, k < r -> f k = false.
Proof.
  intros Hmono. induction fuel as [|fuel IH]; intros i j Hij Hleft; cbv zeta; cbn [bsearch]; [split; [lia|exact Hleft]|].
  destruct (i <? j) eqn:E; [|split; [lia|exact Hleft]]. apply N.ltb_lt in E.
  set (h := (i + j) / 2). assert (Hh : i <= h < j) by (unfold h; split; [apply N.div_le_lower_bound; lia|apply N.div_lt_upper_bound; lia]).
  destruct (f h) eqn:Ef.
  - apply IH; [lia|exact Hleft].
  - apply IH; [lia|]. intros k Hk. destruct (f k) eqn:Efk; [|reflexivity]. rewrite (Hmono k h ltac:(lia) ltac:(lia) Efk) in Ef. discriminate.
Qed.

Lemma find_app {A} (f : A -> bool) a b : find f (a ++ b) = match find f a with Some x => Some x | None => find f b end.
Proof. induction a as [|x a IH]; cbn [app find]; [reflexivity|]. destruct (f x); [reflexivity|exact IH]. Qed.

Lemma sorted_nth_fst (ix : list (N * N)) : StronglySorted N.le (map fst ix) ->
  forall a b, (a <= b < length ix)%nat -> fst (nth a ix (0, 0)) <= fst (nth b ix (0, 0)).
Proof.
  induction ix as [|x l IH]; intros Hs a b Hab; [cbn [length] in Hab; lia|].
  cbn [map] in Hs. inversion Hs as [|? ? Hs' Hall]; subst.
  destruct a as [|a]; destruct b as [|b]; cbn [nth length] in *; try lia.
  - rewrite Forall_forall in Hall. apply Hall. apply in_map. apply nth_In. lia.
  - apply IH; [exact Hs'|lia].
Qed.

(* the written file, taken apart *)
Lemma hint_write_parts items interval ds :
  Forall valid_item items -> lenN items < 4294967296 -> ds < 4294967296 ->
  let file := hint_write items interval ds in let ix := hint_index_of items interval in
  exists hdr, file = hdr ++ concat (map enc_item items) ++ enc_index ix /\ lenN hdr = 16 /\
    parse_meta file = Some (mkHM (16 + items_size items) (w32 (lenN items)) ds).
Proof.
  intros HF Hn Hds. cbv zeta. unfold hint_write, hint_index_of.
  pose proof (write_items_shape items interval hintfile_head_size 0 []) as Hs.
  destruct (write_items items interval hintfile_head_size 0 []) as [[bs ioff] ix]. cbn [snd].
  destruct Hs as [-> ->]. change hintfile_head_size with 16.
  pose proof (items_size_bound items HF) as Hb.
  set (M := 16 + items_size items) in *. set (body := concat (map enc_item items) ++ enc_index ix).
  exists (le64 M ++ le32 (w32 (lenN items)) ++ le32 ds). split; [now rewrite <- !app_assoc|]. split; [reflexivity|].
  unfold parse_meta.
  assert (E8 : dropN 8 (le64 M ++ le32 (w32 (lenN items)) ++ le32 ds ++ body) = le32 (w32 (lenN items)) ++ le32 ds ++ body) by reflexivity.
  assert (E12 : dropN 12 (le64 M ++ le32 (w32 (lenN items)) ++ le32 ds ++ body) = le32 ds ++ body) by reflexivity.
  rewrite get64_le64 by (unfold M; lia). rewrite E8, E12.
  rewrite get32_le32 by apply w32_lt. rewrite get32_le32 by exact Hds. reflexivity.
Qed.

Theorem lookup_total_ix items interval ds h key :
  Forall valid_item items -> hsorted items -> lenN items < 4294967296 -> ds < 4294967296 ->
  index_get_gen true (hint_write items interval ds) (hint_index_of items interval) h key =
  match find (matches h key) items with Some it => GFound it | None => GNotFound end.
Proof.
  intros HF Hs Hn Hds. destruct (hint_write_parts items interval ds HF Hn Hds) as (hdr & Efile & Hhdr & Hmeta). cbv zeta in Efile, Hmeta.
  unfold index_get_gen. rewrite Hmeta. cbv zeta.
  set (file := hint_write items interval ds) in *. set (ix := hint_index_of items interval) in *.
  destruct (write_items_ixok items interval hintfile_head_size 0 []) as (ixn & Eix & Hok). cbn [rev app] in Eix. fold (hint_index_of items interval) in Eix. fold ix in Eix. subst ixn.
  change hintfile_head_size with 16 in *.
  pose proof (ixok_sorted ix items 16 Hs Hok) as Hsorted.
  set (n := lenN ix). set (f := fun i => h <=? fst (nthN ix i (0, 0))).
  assert (Hmono : forall a b, a <= b -> b < n -> f a = true -> f b = true).
  { intros a b Hab Hb Hfa. unfold f in *. apply N.leb_le in Hfa. apply N.leb_le. unfold nthN.
    unfold nthN in Hfa. unfold n in Hb. rewrite lenN_length in Hb.
    pose proof (sorted_nth_fst ix Hsorted (N.to_nat a) (N.to_nat b) ltac:(lia)) as Hle. lia. }
  destruct (bsearch_left f n Hmono (S (N.to_nat (N.log2 n + 1))) 0 n ltac:(lia) ltac:(intros k Hk; lia)) as [Hjn Hleft]. cbv zeta in Hjn, Hleft.
  set (j := bsearch (S (N.to_nat (N.log2 n + 1))) f 0 n) in *.
  unfold eff_index_off. cbn [hm_index_off]. pose proof (items_size_bound items HF) as Hb.
  replace (16 + items_size items =? 0) with false by (symmetry; apply N.eqb_neq; lia).
  (* the items the scan starts at *)
  assert (Hstart : exists pre rest, items = pre ++ rest /\ (if 1 <? j then snd (nthN ix (j - 1) (0, 0)) else 16) = 16 + items_size pre /\
                                   find (matches h key) pre = None).
  { destruct (1 <? j) eqn:Ej.
    - apply N.ltb_lt in Ej. unfold nthN.
      destruct (ixok_nth ix items 16 (N.to_nat (j - 1)) Hok) as (pre & it & post & E1 & E2).
      { unfold n in Hjn. rewrite lenN_length in Hjn. lia. }
      exists pre, (it :: post). split; [exact E1|]. rewrite E2. cbn [snd]. split; [reflexivity|].
      specialize (Hleft (j - 1) ltac:(lia)). unfold f, nthN in Hleft. rewrite E2 in Hleft. cbn [fst] in Hleft. apply N.leb_gt in Hleft.
      apply find_none_all. intros x Hx. rewrite E1 in Hs. destruct (hsorted_app _ _ Hs) as (_ & _ & Hord). specialize (Hord x it Hx (or_introl eq_refl)).
      unfold matches. replace (hi_hash x =? h) with false by (symmetry; apply N.eqb_neq; lia). reflexivity.
    - exists [], items. split; [reflexivity|]. split; [cbn [items_size]; lia|reflexivity]. }
  destruct Hstart as (pre & rest & Eitems & Eoff & Hpre). rewrite Eoff.
  assert (Edrop : dropN (16 + items_size pre) file = concat (map enc_item rest) ++ enc_index ix).
  { rewrite Efile, Eitems, map_app, concat_app. rewrite <- app_assoc. rewrite app_assoc.
    apply dropN_app_exact. rewrite lenN_app, Hhdr, lenN_concat_enc. reflexivity. }
  rewrite Edrop. rewrite Eitems in HF, Hs |- *. apply Forall_app in HF as [HFp HFr]. destruct (hsorted_app _ _ Hs) as (_ & Hsr & _).
  rewrite get_loop_spec; [|exact HFr|exact Hsr| |rewrite items_size_app; lia].
  - rewrite find_app, Hpre. reflexivity.
  - pose proof (length_ge_items rest (enc_index ix) HFr) as Hl. rewrite <- Edrop in Hl.
    assert (length (dropN (16 + items_size pre) file) <= length file)%nat by (rewrite dropN_skipn, skipn_length; lia). lia.
Qed.

(* ---- loadHintIndex reads back the index the writer wrote ---- *)
Lemma parse_index_enc ix : Forall (fun e => fst e < 18446744073709551616 /\ snd e < 18446744073709551616) ix ->
  forall fuel, (length ix <= fuel)%nat -> parse_index fuel (enc_index ix) = ix.
Proof.
  induction 1 as [|e ix [H1 H2] _ IH]; intros fuel Hf.
  - destruct fuel; reflexivity.
  - destruct fuel; [cbn [length] in Hf; lia|]. unfold enc_index. cbn [map concat parse_index]. rewrite <- !app_assoc.
    rewrite get64_le64 by exact H1. rewrite (dropN_app_exact (le64 (fst e))) by reflexivity. rewrite get64_le64 by exact H2.
    replace (dropN 16 (le64 (fst e) ++ le64 (snd e) ++ concat (map (fun e0 => le64 (fst e0) ++ le64 (snd e0)) ix)))
      with (enc_index ix).
    + rewrite IH by (cbn [length] in Hf; lia). destruct e; reflexivity.
    + unfold enc_index. rewrite app_assoc. symmetry. apply dropN_app_exact. reflexivity.
Qed.

Lemma length_enc_index ix : length (enc_index ix) = (16 * length ix)%nat.
Proof. induction ix as [|e ix IH]; [reflexivity|]. unfold enc_index in *. cbn [map concat]. rewrite !app_length, IH. cbn [length]. unfold le64, le32. cbn [length app]. lia. Qed.

Lemma load_index_write items interval ds :
  Forall valid_item items -> lenN items < 4294967296 -> ds < 4294967296 ->
  load_index (hint_write items interval ds) = Some (mkHM (16 + items_size items) (w32 (lenN items)) ds, hint_index_of items interval).
Proof.
  intros HF Hn Hds. destruct (hint_write_parts items interval ds HF Hn Hds) as (hdr & Efile & Hhdr & Hmeta). cbv zeta in Efile, Hmeta.
  unfold load_index. rewrite Hmeta. cbn [hm_index_off]. f_equal. f_equal.
  set (ix := hint_index_of items interval) in *.
  assert (Edrop : dropN (16 + items_size items) (hint_write items interval ds) = enc_index ix).
  { rewrite Efile, app_assoc. apply dropN_app_exact. rewrite lenN_app, Hhdr, lenN_concat_enc. reflexivity. }
  rewrite Edrop, length_enc_index. replace (16 * length ix / 16)%nat with (length ix) by (rewrite Nat.mul_comm, Nat.div_mul; lia).
  apply parse_index_enc; [|lia].
  destruct (write_items_ixok items interval hintfile_head_size 0 []) as (ixn & Eix & Hok). cbn [rev app] in Eix. fold (hint_index_of items interval) in Eix. fold ix in Eix. subst ixn.
  change hintfile_head_size with 16 in Hok. pose proof (items_size_bound items HF) as Hb.
  apply Forall_forall. intros e He. apply In_nth with (d := (0, 0)) in He as (k & Hk & <-).
  destruct (ixok_nth ix items 16 k Hok Hk) as (pre & it & post & E1 & E2). rewrite E2. cbn [fst snd].
  rewrite E1 in HF, Hb. apply Forall_app in HF as [_ HF2]. inversion HF2 as [|? ? (Hh & _) _]; subst.
  split; [exact Hh|]. rewrite items_size_app in Hb. lia.
Qed.

(* ---- C14: total lookup, as the code performs it (index loaded from the file, offset following the seek) ---- *)
Theorem lookup_total items interval ds h key :
  Forall valid_item items -> hsorted items -> lenN items < 4294967296 -> ds < 4294967296 ->
  index_get (hint_write items interval ds) h key =
  match find (matches h key) items with Some it => GFound it | None => GNotFound end.
Proof.
  intros HF Hs Hn Hds. unfold index_get. rewrite (load_index_write items interval ds HF Hn Hds).
  change hint_get_offset_synced with true. now apply lookup_total_ix.
Qed.

(* found iff present, never an error *)
Corollary lookup_found_iff items interval ds h key :
  Forall valid_item items -> hsorted items -> lenN items < 4294967296 -> ds < 4294967296 ->
  (index_get (hint_write items interval ds) h key <> GErr) /\
  (forall it, index_get (hint_write items interval ds) h key = GFound it -> In it items /\ hi_hash it = h /\ hi_key it = key) /\
  ((exists it, In it items /\ hi_hash it = h /\ hi_key it = key) -> exists it, index_get (hint_write items interval ds) h key = GFound it).
Proof.
  intros HF Hs Hn Hds. rewrite (lookup_total items interval ds h key HF Hs Hn Hds).
  destruct (find (matches h key) items) as [x|] eqn:E.
  - apply find_some in E as [Hin Hm]. unfold matches in Hm. apply andb_prop in Hm as [H1 H2]. apply N.eqb_eq in H1. unfold bytes_eqb in H2.
    destruct (list_eq_dec N.eq_dec (hi_key x) key) as [Ek|]; [|discriminate].
    split; [discriminate|]. split; [intros it Hit; injection Hit as <-; auto|]. intros _. now exists x.
  - split; [discriminate|]. split; [discriminate|]. intros (it & Hin & Hh & Hk). exfalso.
    pose proof (find_none _ _ E it Hin) as Hf. unfold matches in Hf. rewrite Hh, N.eqb_refl, Hk in Hf. unfold bytes_eqb in Hf.
    destruct (list_eq_dec N.eq_dec key key); [discriminate|contradiction].
Qed.

(* ---- files as HintBuffer.Dump writes them: sorted by (hash, key) ---- *)
Lemma insert_by_in x l y : In y (insert_by hk_ltb x l) <-> y = x \/ In y l.
Proof.
  induction l as [|a l IH]; cbn [insert_by In]; [intuition congruence|]. destruct (hk_ltb a x); cbn [In]; [rewrite IH|]; intuition congruence.
Qed.

Lemma insert_by_hsorted x l : hsorted l -> hsorted (insert_by hk_ltb x l).
Proof.
  unfold hsorted. induction 1 as [|a l Hs IH Hall]; cbn [insert_by]; [repeat constructor|].
  destruct (hk_ltb a x) eqn:E.
  - constructor; [exact IH|]. apply Forall_forall. intros y Hy. apply insert_by_in in Hy as [->|Hy].
    + unfold hk_ltb in E. destruct (hi_hash a <? hi_hash x) eqn:E1; [lia|]. destruct (hi_hash x <? hi_hash a) eqn:E2; [discriminate|lia].
    + rewrite Forall_forall in Hall. now apply Hall.
  - assert (Hxa : hi_hash x <= hi_hash a) by (unfold hk_ltb in E; destruct (hi_hash a <? hi_hash x) eqn:E1; [discriminate|lia]).
    constructor; [constructor; assumption|]. constructor; [exact Hxa|]. eapply Forall_impl; [|exact Hall]. cbv beta. intros y Hy. lia.
Qed.

Lemma sort_by_hsorted l : hsorted (sort_by hk_ltb l).
Proof. induction l as [|x l IH]; cbn [sort_by fold_right]; [constructor|]. now apply insert_by_hsorted. Qed.

Lemma sort_by_in l y : In y (sort_by hk_ltb l) <-> In y l.
Proof. induction l as [|x l IH]; cbn [sort_by fold_right In]; [tauto|]. fold (sort_by hk_ltb l). rewrite insert_by_in, IH. intuition congruence. Qed.

Corollary dumped_lookup_total l interval ds h key :
  Forall valid_item l -> lenN l < 4294967296 -> ds < 4294967296 ->
  index_get (buf_dump l interval ds) h key <> GErr /\
  (forall it, index_get (buf_dump l interval ds) h key = GFound it -> In it l /\ hi_hash it = h /\ hi_key it = key) /\
  ((exists it, In it l /\ hi_hash it = h /\ hi_key it = key) -> exists it, index_get (buf_dump l interval ds) h key = GFound it).
Proof.
  intros HF Hn Hds. unfold buf_dump.
  assert (HF' : Forall valid_item (sort_by hk_ltb l)) by (apply Forall_forall; intros y Hy; rewrite Forall_forall in HF; apply HF; apply (proj1 (sort_by_in l y)); exact Hy).
  assert (Hn' : lenN (sort_by hk_ltb l) < 4294967296).
  { assert (E : length (sort_by hk_ltb l) = length l).
    { clear. induction l as [|x l IH]; [reflexivity|]. cbn [sort_by fold_right]. fold (sort_by hk_ltb l).
      assert (G : forall m, length (insert_by hk_ltb x m) = S (length m)) by (induction m as [|a m IHm]; cbn [insert_by length]; [reflexivity|destruct (hk_ltb a x); cbn [length]; now rewrite ?IHm]).
      rewrite G, IH. reflexivity. }
    rewrite lenN_length, E, <- lenN_length. exact Hn. }
  destruct (lookup_found_iff (sort_by hk_ltb l) interval ds h key HF' (sort_by_hsorted l) Hn' Hds) as (A & B & C).
  split; [exact A|]. split.
  - intros it Hit. destruct (B it Hit) as (B1 & B2 & B3). split; [now apply sort_by_in|auto].
  - intros (it & Hin & Hh & Hk). apply C. exists it. split; [now apply sort_by_in|auto].
Qed.
