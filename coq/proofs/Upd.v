(* Update lists: the index (tree) as the result of replaying a log of per-hash updates; two logs are
   equivalent when they agree on the LAST update of every hash.  Used by the restart proofs (C02). *)
From Coq Require Import NArith ZArith List Bool Lia ZifyN ZifyNat ZifyBool FMapPositive.
From GB Require Import Consts Words Hash HintFile HTree Compress Bucket BucketOpen BucketBasics Refine.
Import ListNotations.
Open Scope N_scope.

Definition upd := (N * option slot)%type.

Definition apply_upd (b : bucket) (u : upd) : bucket :=
  match snd u with Some s => tree_put b (fst u) s | None => tree_del b (fst u) end.

Fixpoint last_upd (h : N) (l : list upd) : option (option slot) :=
  match l with
  | [] => None
  | u :: t => match last_upd h t with
              | Some x => Some x
              | None => if fst u =? h then Some (snd u) else None
              end
  end.

Lemma last_upd_app h l1 l2 :
  last_upd h (l1 ++ l2) = match last_upd h l2 with Some x => Some x | None => last_upd h l1 end.
Proof.
  induction l1 as [|u l1 IH]; cbn [app last_upd]; [now destruct (last_upd h l2)|].
  rewrite IH. destruct (last_upd h l2); reflexivity.
Qed.

Lemma tree_del_same b h : tree_get_slot (tree_del b h) h = None.
Proof. unfold tree_get_slot, tree_del, set_tree. cbn [b_tree]. apply PM.grs. Qed.
Lemma tree_del_other b h h' : h <> h' -> tree_get_slot (tree_del b h) h' = tree_get_slot b h'.
Proof.
  intros Hne. unfold tree_get_slot, tree_del, set_tree. cbn [b_tree]. apply PM.gro.
  intros E. apply succ_pos_inj in E. congruence.
Qed.

Lemma apply_upd_get b u h :
  tree_get_slot (apply_upd b u) h = if fst u =? h then snd u else tree_get_slot b h.
Proof.
  unfold apply_upd. destruct u as [h0 [s|]]; cbn [fst snd]; destruct (N.eqb_spec h0 h) as [->|Hne].
  - apply tree_put_same.
  - now apply tree_put_other.
  - apply tree_del_same.
  - now apply tree_del_other.
Qed.

Lemma replay_get l : forall b h,
  tree_get_slot (fold_left apply_upd l b) h = match last_upd h l with Some x => x | None => tree_get_slot b h end.
Proof.
  induction l as [|u l IH]; intros b h; cbn [fold_left last_upd]; [reflexivity|].
  rewrite IH. destruct (last_upd h l); [reflexivity|]. rewrite apply_upd_get. destruct (fst u =? h); reflexivity.
Qed.

(* replay touches only the tree *)
Lemma apply_upd_dat b u : (b_chunks (apply_upd b u), b_head (apply_upd b u), b_hints (apply_upd b u), b_hmax (apply_upd b u), b_ctab (apply_upd b u))
                          = (b_chunks b, b_head b, b_hints b, b_hmax b, b_ctab b).
Proof. unfold apply_upd. destruct (snd u); reflexivity. Qed.

Definition equiv (l1 l2 : list upd) : Prop := forall h, last_upd h l1 = last_upd h l2.

Lemma equiv_refl l : equiv l l. Proof. intros h. reflexivity. Qed.
Lemma equiv_sym a b : equiv a b -> equiv b a. Proof. intros H h. now rewrite H. Qed.
Lemma equiv_trans a b c : equiv a b -> equiv b c -> equiv a c. Proof. intros H1 H2 h. now rewrite H1, H2. Qed.
Lemma equiv_app a a' b b' : equiv a a' -> equiv b b' -> equiv (a ++ b) (a' ++ b').
Proof. intros H1 H2 h. rewrite !last_upd_app, H1, H2. reflexivity. Qed.

(* hashes occurring in an update list *)
Definition hashes (l : list upd) : list N := map fst l.

Lemma last_upd_none h l : ~ In h (hashes l) -> last_upd h l = None.
Proof.
  induction l as [|u l IH]; cbn [hashes map In last_upd]; [reflexivity|]. intros H.
  rewrite IH by tauto. destruct (N.eqb_spec (fst u) h); [tauto|reflexivity].
Qed.

Lemma last_upd_some_in h l x : last_upd h l = Some x -> In (h, x) l.
Proof.
  induction l as [|u l IH]; cbn [last_upd]; [discriminate|].
  destruct (last_upd h l) as [y|] eqn:E.
  - intros H; injection H as <-. right. now apply IH.
  - destruct (N.eqb_spec (fst u) h) as [<-|]; [|discriminate]. intros H; injection H as <-. left. now destruct u.
Qed.

(* with at most one update per hash the order does not matter *)
Lemma last_upd_unique h l x : NoDup (hashes l) -> In (h, x) l -> last_upd h l = Some x.
Proof.
  induction l as [|u l IH]; cbn [hashes map]; [intros _ []|].
  intros Hnd [->|Hin]; inversion Hnd as [|? ? Hni Hnd']; subst; cbn [last_upd].
  - cbn [fst snd] in *. rewrite (last_upd_none h l Hni). now rewrite N.eqb_refl.
  - now rewrite (IH Hnd' Hin).
Qed.

Lemma equiv_perm l1 l2 : NoDup (hashes l1) -> NoDup (hashes l2) -> (forall u, In u l1 <-> In u l2) -> equiv l1 l2.
Proof.
  intros N1 N2 Hio h.
  destruct (last_upd h l1) as [x|] eqn:E1.
  - apply last_upd_some_in in E1. apply Hio in E1. symmetry. now apply last_upd_unique.
  - destruct (last_upd h l2) as [y|] eqn:E2; [|reflexivity].
    apply last_upd_some_in in E2. apply Hio in E2. rewrite (last_upd_unique h l1 y N1 E2) in E1. discriminate.
Qed.
