(* C02, part 1: the hint splits of one data chunk summarise the chunk's records -- replaying the hint
   items in split order is equivalent (last update per hash) to replaying the records in file order. *)
From Coq Require Import NArith ZArith List Bool Lia ZifyN ZifyNat ZifyBool Sorting.Sorted Sorting.Permutation.
From GB Require Import Consts Words Hash HintFile HTree Compress Bucket BucketOpen BucketBasics Refine Upd.
Import ListNotations.
Open Scope N_scope.

Lemma sort_by_perm lt l : Permutation (sort_by lt l) l.
Proof.
  unfold sort_by. induction l as [|x l IH]; cbn [fold_right]; [constructor|].
  assert (Hins : forall y m, Permutation (insert_by lt y m) (y :: m)).
  { intros y m. induction m as [|z m IHm]; cbn [insert_by]; [reflexivity|].
    destruct (lt z y); [|reflexivity]. rewrite IHm. apply perm_swap. }
  rewrite Hins. now constructor.
Qed.

Lemma filter_all {A} (f : A -> bool) l : (forall x, In x l -> f x = true) -> filter f l = l.
Proof.
  induction l as [|x l IH]; cbn [filter]; [reflexivity|]. intros H. rewrite (H x (or_introl eq_refl)).
  f_equal. apply IH. intros y Hy. apply H. now right.
Qed.

Lemma filter_nil {A} (f : A -> bool) l : (forall x, In x l -> f x = false) -> filter f l = [].
Proof.
  induction l as [|x l IH]; cbn [filter]; [reflexivity|]. intros H. rewrite (H x (or_introl eq_refl)).
  apply IH. intros y Hy. apply H. now right.
Qed.

Lemma nodup_snoc {A} (l : list A) x : NoDup l -> ~ In x l -> NoDup (l ++ [x]).
Proof.
  induction l as [|y l IH]; cbn [app]; intros Hnd Hni; [constructor; [intros []|constructor]|].
  inversion Hnd as [|? ? Hy Hnd']; subst. constructor.
  - intros Hin. apply in_app_or in Hin as [Hin|[<-|[]]]; [contradiction|]. apply Hni. now left.
  - apply IH; [exact Hnd'|]. intros Hin. apply Hni. now right.
Qed.

Section R1.
Variable hf : bytes -> N.
Variable K : list bytes.
Hypothesis hf_inj : forall k1 k2, In k1 K -> In k2 K -> hf k1 = hf k2 -> k1 = k2.

Definition item_upd (c : nat) (it : hitem) : upd :=
  (hi_hash it, if (0 <? hi_ver it)%Z then Some (mkSlot (mkPos c (hi_off it)) (hi_ver it) (hi_vh it)) else None).
Definition rec_upd (c : nat) (e : N * drec) : upd :=
  (hf (d_key (snd e)), if (0 <? d_ver (snd e))%Z then Some (mkSlot (mkPos c (fst e)) (d_ver (snd e)) (vhash (d_val (snd e)))) else None).
Definition iupds (c : nat) (l : list hitem) : list upd := map (item_upd c) l.
Definition rupds (c : nat) (l : list (N * drec)) : list upd := map (rec_upd c) l.

Definition item_ok (it : hitem) : Prop := In (hi_key it) K /\ hi_hash it = hf (hi_key it).
(* the hint item written for record e *)
Definition describes (it : hitem) (e : N * drec) : Prop :=
  hi_key it = d_key (snd e) /\ hi_hash it = hf (d_key (snd e)) /\ hi_off it = fst e /\ hi_ver it = d_ver (snd e) /\
  ((0 < d_ver (snd e))%Z -> hi_vh it = vhash (d_val (snd e))).

Lemma describes_upd c it e : describes it e -> item_upd c it = rec_upd c e.
Proof.
  intros (Hk & Hh & Ho & Hv & Hvh). unfold item_upd, rec_upd. rewrite Hh, Hv, Ho.
  destruct (0 <? d_ver (snd e))%Z eqn:E; [|reflexivity]. rewrite Hvh by lia. reflexivity.
Qed.

(* ---- one buffer ---- *)
Lemma last_upd_filter c l it h : hi_hash it <> h ->
  last_upd h (iupds c (filter (fun x => negb (same_hk x it)) l)) = last_upd h (iupds c l).
Proof.
  intros Hne. induction l as [|x l IH]; cbn [filter iupds map last_upd]; [reflexivity|].
  destruct (same_hk x it) eqn:Es; cbn [negb].
  - fold (iupds c (filter (fun x0 => negb (same_hk x0 it)) l)). rewrite IH. fold (iupds c l).
    destruct (last_upd h (iupds c l)); [reflexivity|]. cbn [item_upd fst].
    unfold same_hk in Es. apply andb_prop in Es as [E _]. apply N.eqb_eq in E.
    destruct (N.eqb_spec (hi_hash x) h); [congruence|reflexivity].
  - cbn [map last_upd]. fold (iupds c (filter (fun x0 => negb (same_hk x0 it)) l)). rewrite IH. reflexivity.
Qed.

Lemma same_hash_same_hk x it : item_ok x -> item_ok it -> hi_hash x = hi_hash it -> same_hk x it = true.
Proof.
  intros [Hx1 Hx2] [Hi1 Hi2] E. unfold same_hk. rewrite E, N.eqb_refl. cbn [andb]. apply bytes_eqb_eq.
  apply hf_inj; [exact Hx1|exact Hi1|congruence].
Qed.

Lemma buf_set_cov c cap l it l' S e :
  Forall item_ok l -> NoDup (map hi_hash l) -> item_ok it -> describes it e ->
  equiv (iupds c l) (rupds c S) -> buf_set cap l it = Some l' ->
  equiv (iupds c l') (rupds c (S ++ [e])) /\ NoDup (map hi_hash l') /\ Forall item_ok l'.
Proof.
  intros Hok Hnd Hit Hd Heq Hbs.
  assert (Hl' : l' = filter (fun x => negb (same_hk x it)) l ++ [it]).
  { unfold buf_set in Hbs. destruct (buf_has l it) eqn:Eh; [now injection Hbs as <-|].
    destruct (cap <=? lenN l); [discriminate|]. injection Hbs as <-. f_equal.
    symmetry. apply filter_all. intros x Hx.
    unfold buf_has in Eh. destruct (same_hk x it) eqn:Es; [|reflexivity].
    exfalso. assert (existsb (fun x0 => same_hk x0 it) l = true) by (apply existsb_exists; eauto). congruence. }
  subst l'. set (fl := filter (fun x => negb (same_hk x it)) l).
  assert (Hfl_ok : Forall item_ok fl).
  { apply Forall_forall. intros x Hx. apply filter_In in Hx as [Hx _]. rewrite Forall_forall in Hok. auto. }
  assert (Hnoh : ~ In (hi_hash it) (map hi_hash fl)).
  { intros Hin. apply in_map_iff in Hin as (x & Hxh & Hx). apply filter_In in Hx as [Hx Hs].
    rewrite Forall_forall in Hok. rewrite (same_hash_same_hk x it (Hok x Hx) Hit Hxh) in Hs. discriminate. }
  split; [|split].
  - intros h. unfold iupds, rupds. rewrite !map_app. rewrite !last_upd_app. cbn [map last_upd].
    rewrite (describes_upd c it e Hd). destruct (N.eqb_spec (fst (rec_upd c e)) h) as [E|Hne]; [reflexivity|].
    fold (iupds c fl) (rupds c S). rewrite <- Heq. unfold fl. apply last_upd_filter.
    rewrite <- (describes_upd c it e Hd) in Hne. exact Hne.
  - rewrite map_app. cbn [map]. apply nodup_snoc; [|exact Hnoh].
    unfold fl. clear -Hnd. induction l as [|x l IH]; cbn [filter map]; [constructor|].
    inversion Hnd as [|? ? Hni Hnd']; subst. destruct (negb _); cbn [map]; [|auto].
    constructor; [|auto]. intros Hin. apply Hni. apply in_map_iff in Hin as (y & Hy & Hin). apply filter_In in Hin as [Hin _].
    apply in_map_iff. eauto.
  - apply Forall_app. split; [exact Hfl_ok|]. constructor; [exact Hit|constructor].
Qed.

(* ---- the splits of one chunk ---- *)
Definition seg (lo hi : N) (recs : list (N * drec)) : list (N * drec) :=
  filter (fun e => (lo <=? fst e) && (fst e <? hi)) recs.

Definition split_cov (c : nat) (lo : N) (sp : hsplit) (recs : list (N * drec)) : Prop :=
  equiv (iupds c (sp_items sp)) (rupds c (seg lo (N.max lo (sp_max sp)) recs)) /\
  NoDup (map hi_hash (sp_items sp)) /\ Forall item_ok (sp_items sp).

Fixpoint cov (c : nat) (lo : N) (sps : list hsplit) (recs : list (N * drec)) : Prop :=
  match sps with
  | [] => True
  | sp :: t => split_cov c lo sp recs /\ cov c (N.max lo (sp_max sp)) t recs
  end.

Definition bound_from (lo : N) (sps : list hsplit) : N := fold_left (fun m sp => N.max m (sp_max sp)) sps lo.

Lemma bound_from_ge lo sps : lo <= bound_from lo sps.
Proof.
  unfold bound_from. revert lo. induction sps as [|sp sps IH]; intros lo; cbn [fold_left]; [lia|].
  specialize (IH (N.max lo (sp_max sp))). lia.
Qed.

Lemma bound_from_app lo a b : bound_from lo (a ++ b) = bound_from (bound_from lo a) b.
Proof. unfold bound_from. apply fold_left_app. Qed.

Lemma seg_app lo hi a b : seg lo hi (a ++ b) = seg lo hi a ++ seg lo hi b.
Proof. unfold seg. apply filter_app. Qed.

Lemma seg_out lo hi (e : N * drec) : hi <= fst e -> seg lo hi [e] = [].
Proof. intros H. unfold seg. cbn [filter]. replace (fst e <? hi) with false by lia. now rewrite andb_false_r. Qed.
Lemma seg_in lo hi (e : N * drec) : lo <= fst e -> fst e < hi -> seg lo hi [e] = [e].
Proof. intros H1 H2. unfold seg. cbn [filter]. replace (lo <=? fst e) with true by lia. replace (fst e <? hi) with true by lia. reflexivity. Qed.

(* all records lie below B: raising the upper end of a segment beyond B adds nothing *)
Lemma seg_hi_irrel lo hi hi' recs B : Forall (fun e => fst e < B) recs -> B <= hi -> B <= hi' -> seg lo hi recs = seg lo hi' recs.
Proof.
  intros Hall H1 H2. unfold seg. apply filter_ext_in. intros e He. rewrite Forall_forall in Hall. specialize (Hall e He).
  replace (fst e <? hi) with true by lia. replace (fst e <? hi') with true by lia. reflexivity.
Qed.

(* appending a record at or above the total bound leaves the coverage of all splits alone *)
Lemma cov_app_out c recs e : forall sps lo, bound_from lo sps <= fst e -> cov c lo sps recs -> cov c lo sps (recs ++ [e]).
Proof.
  induction sps as [|sp sps IH]; intros lo Hb Hc; cbn [cov] in *; [exact I|].
  destruct Hc as [(Heq & Hnd & Hok) Hrest]. cbn [bound_from fold_left] in Hb. fold (bound_from (N.max lo (sp_max sp)) sps) in Hb.
  pose proof (bound_from_ge (N.max lo (sp_max sp)) sps) as Hge.
  split; [|apply IH; assumption]. split; [|split; assumption].
  rewrite seg_app, seg_out by lia. now rewrite app_nil_r.
Qed.

(* HintBuffer.Set on the last split, rotation when it is full *)
Definition set_sps (cap : N) (sps : list hsplit) (it : hitem) (rs : N) : list hsplit :=
  match split_set cap (last_split sps) it rs with
  | Some sp => removelast sps ++ [sp]
  | None =>
      let full := last_split sps in
      let full' := mkSplit (sp_items full) (sp_file full) (N.max (sp_max full) (hi_off it)) in
      let fresh := match split_set cap split0 it rs with Some sp => sp | None => split0 end in
      removelast sps ++ [full'; fresh]
  end.

Lemma cov_set_last c cap lo lst it e recs :
  Forall (fun x => fst x < N.max lo (sp_max lst)) recs -> N.max lo (sp_max lst) <= fst e ->
  0 < cap -> item_ok it -> describes it e ->
  split_cov c lo lst recs ->
  cov c lo (set_sps cap [lst] it (dsize (snd e))) (recs ++ [e]) /\
  bound_from lo (set_sps cap [lst] it (dsize (snd e))) = fst e + dsize (snd e).
Proof.
  intros Hall Hge Hcap Hit Hd (Heq & Hnd & Hok).
  pose proof Hd as (_ & _ & Hoff & _). pose proof (dsize_pos (snd e)) as Hsz.
  unfold set_sps. cbn [last_split last removelast app]. unfold split_set.
  destruct (buf_set cap (sp_items lst) it) as [l'|] eqn:Ebs.
  - (* fits *)
    destruct (buf_set_cov c cap _ it l' _ e Hok Hnd Hit Hd Heq Ebs) as (Heq' & Hnd' & Hok').
    cbn [cov bound_from fold_left]. unfold split_cov. cbn [sp_max sp_items]. rewrite Hoff.
    split; [|lia]. split; [|exact I]. split; [|split; assumption].
    replace (N.max lo (N.max (sp_max lst) (fst e + dsize (snd e)))) with (fst e + dsize (snd e)) by lia.
    rewrite seg_app. rewrite (seg_in lo (fst e + dsize (snd e)) e); [|lia|lia].
    rewrite (seg_hi_irrel lo (fst e + dsize (snd e)) (N.max lo (sp_max lst)) recs (N.max lo (sp_max lst)) Hall); [|lia|lia].
    exact Heq'.
  - (* full: rotate *)
    assert (Hfresh : buf_set cap [] it = Some [it]).
    { unfold buf_set. cbn [buf_has existsb]. replace (cap <=? lenN (@nil hitem)) with false; [reflexivity|].
      symmetry. apply N.leb_gt. exact Hcap. }
    cbn [sp_items split0]. rewrite Hfresh. cbn [cov bound_from fold_left]. unfold split_cov. cbn [sp_max sp_items split0]. rewrite Hoff.
    replace (N.max lo (N.max (sp_max lst) (fst e))) with (fst e) by lia.
    replace (N.max (fst e) (N.max 0 (fst e + dsize (snd e)))) with (fst e + dsize (snd e)) by lia.
    split; [|reflexivity]. split; [|split; [|exact I]].
    + split; [|split; assumption]. rewrite seg_app, seg_out by lia. rewrite app_nil_r.
      rewrite (seg_hi_irrel lo (fst e) (N.max lo (sp_max lst)) recs (N.max lo (sp_max lst)) Hall) by lia. exact Heq.
    + split; [|split].
      * rewrite seg_app, (seg_in (fst e) _ e) by lia.
        assert (Hnil : seg (fst e) (fst e + dsize (snd e)) recs = []).
        { unfold seg. apply filter_nil. intros x Hx. rewrite Forall_forall in Hall. specialize (Hall x Hx).
          replace (fst e <=? fst x) with false by lia. reflexivity. }
        rewrite Hnil. cbn [app iupds rupds map]. rewrite (describes_upd c it e Hd). apply equiv_refl.
      * cbn [map]. constructor; [intros []|constructor].
      * constructor; [exact Hit|constructor].
Qed.

Lemma set_sps_cons cap sp sp2 t it rs : set_sps cap (sp :: sp2 :: t) it rs = sp :: set_sps cap (sp2 :: t) it rs.
Proof.
  unfold set_sps. change (last_split (sp :: sp2 :: t)) with (last_split (sp2 :: t)).
  change (removelast (sp :: sp2 :: t)) with (sp :: removelast (sp2 :: t)).
  destruct (split_set cap (last_split (sp2 :: t)) it rs); reflexivity.
Qed.

Lemma cov_set_sps c cap it e recs : forall sps lo,
  sps <> [] ->
  Forall (fun x => fst x < bound_from lo sps) recs -> bound_from lo sps <= fst e ->
  0 < cap -> item_ok it -> describes it e ->
  cov c lo sps recs ->
  cov c lo (set_sps cap sps it (dsize (snd e))) (recs ++ [e]) /\
  bound_from lo (set_sps cap sps it (dsize (snd e))) = fst e + dsize (snd e).
Proof.
  induction sps as [|sp sps IH]; intros lo Hne Hall Hge Hcap Hit Hd Hc; [congruence|].
  destruct sps as [|sp2 t].
  - cbn [cov] in Hc. destruct Hc as [Hsc _]. cbn [bound_from fold_left] in Hall, Hge.
    apply cov_set_last; assumption.
  - rewrite set_sps_cons. cbn [cov] in Hc. destruct Hc as [(Heq & Hnd & Hok) Hrest].
    change (bound_from lo (sp :: sp2 :: t)) with (bound_from (N.max lo (sp_max sp)) (sp2 :: t)) in Hall, Hge.
    destruct (IH (N.max lo (sp_max sp)) ltac:(discriminate) Hall Hge Hcap Hit Hd Hrest) as [IH1 IH2].
    pose proof (bound_from_ge (N.max lo (sp_max sp)) (sp2 :: t)) as Hb.
    split.
    + cbn [cov]. split; [|exact IH1]. split; [|split; assumption].
      rewrite seg_app, seg_out by lia. now rewrite app_nil_r.
    + exact IH2.
Qed.

(* ---- dumping: sorting a split keeps what it covers ---- *)
Lemma dump_split_cov c lo sp recs : split_cov c lo sp recs -> split_cov c lo (dump_split sp) recs.
Proof.
  intros (Heq & Hnd & Hok). unfold split_cov, dump_split. cbn [sp_items sp_max].
  pose proof (sort_by_perm hk_ltb (sp_items sp)) as Hp.
  assert (Hnd' : NoDup (map hi_hash (sort_by hk_ltb (sp_items sp)))).
  { apply (Permutation_NoDup (l := map hi_hash (sp_items sp))); [|exact Hnd]. apply Permutation_map. now symmetry. }
  split; [|split; [exact Hnd'|]].
  - eapply equiv_trans; [|exact Heq]. apply equiv_perm.
    + unfold iupds, hashes. rewrite map_map. cbn [item_upd fst]. exact Hnd'.
    + unfold iupds, hashes. rewrite map_map. cbn [item_upd fst]. exact Hnd.
    + intros u. unfold iupds. split; intros H; apply in_map_iff in H as (x & Hx & Hin); apply in_map_iff; exists x; (split; [exact Hx|]).
      * apply (Permutation_in _ Hp Hin).
      * apply (Permutation_in _ (Permutation_sym Hp) Hin).
  - apply Forall_forall. intros x Hx. rewrite Forall_forall in Hok. apply Hok. apply (Permutation_in _ Hp Hx).
Qed.

Lemma dump_old_cov c recs : forall sps lo j md cc,
  cov c lo sps recs -> cov c lo (fst (dump_old sps j md cc)) recs /\ bound_from lo (fst (dump_old sps j md cc)) = bound_from lo sps.
Proof.
  induction sps as [|sp sps IH]; intros lo j md cc Hc; cbn [dump_old fst]; [split; [exact I|reflexivity]|].
  destruct sps as [|sp2 t]; [split; [exact Hc|reflexivity]|].
  cbn [cov] in Hc. destruct Hc as [Hsc Hrest].
  specialize (IH (N.max lo (sp_max sp)) (j + 1)%Z (if need_dump sp && hid_larger md cc j then (cc, j) else md) cc Hrest).
  destruct (dump_old (sp2 :: t) (j + 1) _ cc) as [t' md']. cbn [fst] in *. destruct IH as [IH1 IH2].
  assert (Hmax : sp_max (if need_dump sp then dump_split sp else sp) = sp_max sp) by (destruct (need_dump sp); reflexivity).
  split.
  - cbn [cov]. rewrite Hmax. split; [|exact IH1]. destruct (need_dump sp); [now apply dump_split_cov|exact Hsc].
  - cbn [bound_from fold_left]. rewrite Hmax. exact IH2.
Qed.

Lemma cov_app c recs : forall a lo b, cov c lo (a ++ b) recs <-> cov c lo a recs /\ cov c (bound_from lo a) b recs.
Proof.
  induction a as [|sp a IH]; intros lo b; cbn [app cov bound_from fold_left]; [tauto|].
  fold (bound_from (N.max lo (sp_max sp)) a). rewrite IH. tauto.
Qed.

Lemma cov_split0 c lo recs : cov c lo [split0] recs.
Proof.
  cbn [cov]. split; [|exact I]. unfold split_cov. cbn [split0 sp_items sp_max map]. split; [|split; constructor].
  replace (N.max lo 0) with lo by lia. unfold seg. rewrite filter_nil; [apply equiv_refl|].
  intros x _. destruct (lo <=? fst x) eqn:E1; [|reflexivity]. replace (fst x <? lo) with false by lia. reflexivity.
Qed.

Lemma removelast_last_split sps : sps <> [] -> sps = removelast sps ++ [last_split sps].
Proof. intros H. unfold last_split. now apply app_removelast_last. Qed.
End R1.

(* ---- hintMgr.setItem / trydump seen on the split list of their chunk ---- *)
Definition trydump_sps (sps0 : list hsplit) (md : hid) (c : nat) (stop : bool) : list hsplit :=
  let sps := fst (dump_old sps0 0 md c) in
  if stop || negb (need_dump (last_split sps)) then sps
  else removelast sps ++ [dump_split (last_split sps); split0].

Lemma dump_old_nonempty sps : forall j md c, sps <> [] -> fst (dump_old sps j md c) <> [].
Proof.
  destruct sps as [|sp sps]; intros j md c H; [congruence|]. cbn [dump_old].
  destruct sps as [|sp2 t]; [cbn; discriminate|].
  destruct (dump_old (sp2 :: t) (j + 1) _ c). cbn [fst]. discriminate.
Qed.

Section R1b.
Variable hf : bytes -> N.
Variable K : list bytes.

Lemma trydump_sps_cov c sps0 md cc stop recs lo :
  sps0 <> [] -> cov hf K c lo sps0 recs ->
  trydump_sps sps0 md cc stop <> [] /\ cov hf K c lo (trydump_sps sps0 md cc stop) recs /\
  bound_from lo (trydump_sps sps0 md cc stop) = bound_from lo sps0.
Proof.
  intros Hne Hc. unfold trydump_sps.
  destruct (dump_old_cov hf K c recs sps0 lo 0%Z md cc Hc) as [H1 H2].
  pose proof (dump_old_nonempty sps0 0%Z md cc Hne) as Hne'.
  set (sps := fst (dump_old sps0 0 md cc)) in *.
  destruct (stop || negb (need_dump (last_split sps))); [auto|].
  split; [destruct (removelast sps); discriminate|].
  rewrite (removelast_last_split sps Hne') in H1, H2 at 1.
  apply cov_app in H1 as [Ha Hb]. cbn [cov] in Hb. destruct Hb as [Hl _].
  split.
  - apply cov_app. split; [exact Ha|]. cbn [cov]. split; [now apply dump_split_cov|].
    apply cov_split0.
  - rewrite <- H2. rewrite !bound_from_app. cbn [bound_from fold_left dump_split split0 sp_max]. lia.
Qed.
End R1b.
