(* The model's hash functions equal the historical reference definitions. *)
From Coq Require Import NArith ZArith List Bool Lia ZifyN ZifyNat ZifyBool.
From GB Require Import Consts Words Hash HashRef Bits.
Import ListNotations.
Open Scope N_scope.

(* ------------------------------------------------------------------ FNV *)
Lemma Zmod_small32 z : (0 <= z < 4294967296)%Z -> (z mod 4294967296 = z)%Z.
Proof. intros H. now apply Z.mod_small. Qed.

Lemma Ztestbit_high z i : (0 <= z < 2 ^ 32)%Z -> (32 <= i)%Z -> Z.testbit z i = false.
Proof.
  intros Hz Hi. rewrite <- (Z.mod_small z (2 ^ 32)) by exact Hz.
  apply Z.mod_pow2_bits_high. lia.
Qed.

Lemma sext_lxor h b : h < 4294967296 -> b < 256 ->
  Z.of_N (N.lxor h (sext8_32 b)) = (Z.lxor (Z.of_N h) (schar b) mod 4294967296)%Z.
Proof.
  intros Hh Hb. unfold sext8_32, schar.
  destruct (b <? 128) eqn:Hlt.
  - apply N.ltb_lt in Hlt. rewrite N2Z_inj_lxor. symmetry. apply Z.mod_small.
    rewrite <- N2Z_inj_lxor. split; [apply N2Z.is_nonneg|].
    change 4294967296%Z with (Z.of_N 4294967296). apply N2Z.inj_lt.
    apply lxor_lt32; lia.
  - apply N.ltb_ge in Hlt. rewrite N2Z_inj_lxor.
    change 4294967296%Z with (2 ^ 32)%Z.
    apply Z.bits_inj'. intros i Hi.
    destruct (Z.lt_ge_cases i 32) as [Hlo|Hhi].
    + rewrite Z.mod_pow2_bits_low by lia. rewrite !Z.lxor_spec. f_equal.
      rewrite <- (Z.mod_pow2_bits_low (Z.of_N b - 256) 32 i) by lia.
      f_equal. rewrite N2Z.inj_add. change (2 ^ 32)%Z with 4294967296%Z.
      apply Z.mod_unique with (q := (-1)%Z); lia.
    + rewrite Z.mod_pow2_bits_high by lia.
      rewrite Z.lxor_spec, !Ztestbit_high; try lia; reflexivity.
Qed.

Lemma fnv_step_ref h b : h < 4294967296 -> b < 256 ->
  Z.of_N (fnv_step_gen true 16777619 h b) = fnv1a_ref_step (Z.of_N h) b.
Proof.
  intros Hh Hb. unfold fnv_step_gen, fnv1a_ref_step.
  rewrite <- sext_lxor by assumption.
  rewrite w32_mod, N2Z.inj_mod, N2Z.inj_mul. reflexivity.
Qed.

Lemma fnv_step_lt s p h b : fnv_step_gen s p h b < 4294967296.
Proof. unfold fnv_step_gen. apply w32_lt. Qed.

Lemma fnv_fold_ref bs : forall h, h < 4294967296 -> allbytes bs = true ->
  Z.of_N (fold_left (fnv_step_gen true 16777619) bs h) = fold_left fnv1a_ref_step bs (Z.of_N h).
Proof.
  induction bs as [|b bs IH]; intros h Hh Hall; cbn [fold_left]; [reflexivity|].
  cbn [allbytes forallb] in Hall. apply andb_prop in Hall as [Hb Hall].
  unfold isbyte in Hb. apply N.ltb_lt in Hb.
  rewrite IH; [|apply fnv_step_lt|exact Hall]. now rewrite fnv_step_ref.
Qed.

Lemma fnv1a_key_is_ref bs : allbytes bs = true -> Z.of_N (fnv1a_key bs) = fnv1a_ref bs.
Proof.
  intros H. unfold fnv1a_key, fnv1a_ref.
  change fnv_sign_extend with true. change fnv_prime with 16777619. change fnv_basis with 2166136261.
  now rewrite fnv_fold_ref by (reflexivity || exact H).
Qed.
Lemma fnv1a_val_is_ref bs : allbytes bs = true -> Z.of_N (fnv1a_val bs) = fnv1a_ref bs.
Proof.
  intros H. unfold fnv1a_val, fnv1a_ref.
  change vfnv_sign_extend with true. change vfnv_prime with 16777619. change vfnv_basis with 2166136261.
  now rewrite fnv_fold_ref by (reflexivity || exact H).
Qed.

Lemma fnv1a_key_lt bs : fnv1a_key bs < 4294967296.
Proof.
  unfold fnv1a_key. generalize fnv_basis, (eq_refl : fnv_basis <? 4294967296 = true).
  induction bs as [|b bs IH]; intros h Hh; cbn [fold_left].
  - now apply N.ltb_lt.
  - apply IH. apply N.ltb_lt. apply fnv_step_lt.
Qed.
Lemma fnv1a_val_lt bs : fnv1a_val bs < 4294967296.
Proof.
  unfold fnv1a_val. generalize vfnv_basis, (eq_refl : vfnv_basis <? 4294967296 = true).
  induction bs as [|b bs IH]; intros h Hh; cbn [fold_left].
  - now apply N.ltb_lt.
  - apply IH. apply N.ltb_lt. apply fnv_step_lt.
Qed.

(* ASCII: the signed-byte quirk is invisible below 0x80 *)
Lemma fnv_ref_std_ascii bs : forall h, (0 <= h < 4294967296)%Z ->
  forallb (fun b => b <? 128) bs = true ->
  fold_left fnv1a_ref_step bs h = fold_left fnv1a_std_step bs h.
Proof.
  induction bs as [|b bs IH]; intros h Hh Hall; cbn [fold_left]; [reflexivity|].
  cbn [forallb] in Hall. apply andb_prop in Hall as [Hb Hall].
  assert (Hstep : fnv1a_ref_step h b = fnv1a_std_step h b).
  { unfold fnv1a_ref_step, fnv1a_std_step, schar. rewrite Hb.
    apply N.ltb_lt in Hb.
    rewrite (Z.mod_small (Z.lxor h (Z.of_N b))); [reflexivity|].
    replace h with (Z.of_N (Z.to_N h)) by (apply Z2N.id; lia).
    rewrite <- N2Z_inj_lxor. split; [apply N2Z.is_nonneg|].
    change 4294967296%Z with (Z.of_N 4294967296). apply N2Z.inj_lt.
    apply lxor_lt32; lia. }
  rewrite Hstep. apply IH; [|exact Hall].
  unfold fnv1a_std_step. apply Z.mod_pos_bound. lia.
Qed.

(* --------------------------------------------------------------- murmur *)
Lemma mm_k_ref k : mm_k k = mmr_k k.
Proof.
  unfold mm_k, mmr_k. change mm_c1 with 0xcc9e2d51. change mm_c2 with 0x1b873593. change mm_r1 with 15.
  rewrite (rotl32_arith _ 15) by (apply w32_lt || lia).
  rewrite !w32_mod. reflexivity.
Qed.

Lemma mm_k_lt k : mm_k k < 4294967296.
Proof. unfold mm_k. apply w32_lt. Qed.

Lemma mm_block_ref h k : h < 4294967296 -> mm_block h k = mmr_mix h k.
Proof.
  intros Hh. unfold mm_block, mmr_mix. change mm_r2 with 13. change mm_n with 0xe6546b64.
  rewrite mm_k_ref.
  assert (Hx : N.lxor h (mmr_k k) < 4294967296).
  { apply lxor_lt32; [exact Hh|]. rewrite <- mm_k_ref. apply mm_k_lt. }
  rewrite (rotl32_arith _ 13) by (exact Hx || lia).
  rewrite w32_mod. unfold rotl, M32. f_equal. lia.
Qed.

Lemma mm_block_lt h k : mm_block h k < 4294967296.
Proof. unfold mm_block. apply w32_lt. Qed.

Lemma len_ind (P : list N -> Prop) :
  (forall bs, (forall bs', (length bs' < length bs)%nat -> P bs') -> P bs) -> forall bs, P bs.
Proof.
  intros H bs. remember (length bs) as n eqn:E. revert bs E.
  induction n as [n IHn] using Wf_nat.lt_wf_ind. intros bs E. apply H. intros bs' Hlt.
  apply (IHn (length bs')); [lia|reflexivity].
Qed.

Lemma mm_bmix_ref bs : forall fuel h, h < 4294967296 -> (length bs / 4 <= fuel)%nat ->
  mm_bmix fuel h bs = mmr_body h bs.
Proof.
  induction bs as [bs IH] using len_ind.
  intros fuel h Hh Hf.
  destruct bs as [|b0 [|b1 [|b2 [|b3 rest]]]]; try (destruct fuel; reflexivity).
  destruct fuel as [|fuel].
  - exfalso. cbn [length] in Hf.
    assert (4 <= S (S (S (S (length rest)))))%nat by lia.
    pose proof (PeanoNat.Nat.div_le_mono 4 (S (S (S (S (length rest))))) 4 ltac:(lia) H) as Hd.
    change (4 / 4)%nat with 1%nat in Hd. lia.
  - cbn [mm_bmix mmr_body]. rewrite <- (mm_block_ref h _ Hh). unfold rd32.
    apply IH; [cbn [length]; lia|apply mm_block_lt|].
    cbn [length] in Hf.
    replace (S (S (S (S (length rest))))) with (length rest + 1 * 4)%nat in Hf by lia.
    rewrite PeanoNat.Nat.div_add in Hf by lia. lia.
Qed.

Lemma mmr_body_lt bs : forall h, h < 4294967296 -> fst (mmr_body h bs) < 4294967296.
Proof.
  induction bs as [bs IH] using len_ind.
  intros h Hh. destruct bs as [|b0 [|b1 [|b2 [|b3 rest]]]]; try exact Hh.
  cbn [mmr_body]. apply IH; [cbn [length]; lia|].
  rewrite <- mm_block_ref by exact Hh. apply mm_block_lt.
Qed.

Lemma mmr_body_tail_len bs : forall h, (length (snd (mmr_body h bs)) < 4)%nat.
Proof.
  induction bs as [bs IH] using len_ind.
  intros h. destruct bs as [|b0 [|b1 [|b2 [|b3 rest]]]]; cbn [mmr_body snd length]; try lia.
  apply IH. cbn [length]; lia.
Qed.

Lemma mmr_body_tail_bytes bs : forall h, allbytes bs = true -> allbytes (snd (mmr_body h bs)) = true.
Proof.
  induction bs as [bs IH] using len_ind.
  intros h Hall. destruct bs as [|b0 [|b1 [|b2 [|b3 rest]]]]; cbn [mmr_body snd]; try exact Hall.
  apply IH; [cbn [length]; lia|].
  cbn [allbytes forallb] in Hall |- *.
  repeat (apply andb_prop in Hall as [_ Hall]). exact Hall.
Qed.

Lemma shl8_add t0 t1 : t0 < 256 -> N.lxor (N.shiftl t1 8) t0 = t0 + 256 * t1.
Proof.
  intros H0. rewrite N.lxor_lor.
  - rewrite (shl_lor_low t1 t0 8) by exact H0. change (2 ^ 8) with 256. lia.
  - apply N.bits_inj. intros i. rewrite N.land_spec, N.bits_0.
    destruct (N.lt_ge_cases i 8) as [Hlt|Hge].
    + rewrite N.shiftl_spec_low by exact Hlt. reflexivity.
    + rewrite (bits_above t0 8 i) by assumption. apply andb_false_r.
Qed.

Lemma shl16_add t0 t1 t2 : t0 < 256 -> t1 < 256 ->
  N.lxor (N.lxor (N.shiftl t2 16) (N.shiftl t1 8)) t0 = t0 + 256 * t1 + 65536 * t2.
Proof.
  intros H0 H1.
  assert (E1 : N.lxor (N.shiftl t2 16) (N.shiftl t1 8) = N.shiftl (N.lxor (N.shiftl t2 8) t1) 8).
  { rewrite N.shiftl_lxor, N.shiftl_shiftl. reflexivity. }
  rewrite E1, (shl8_add t1 t2) by exact H1. rewrite shl8_add by exact H0. lia.
Qed.

Lemma mm_tail_ref h t : allbytes t = true -> (length t < 4)%nat ->
  mm_tail h t = match t with [] => h | _ => N.lxor h (mmr_k (mmr_tailk t)) end.
Proof.
  intros Hall Hlen.
  destruct t as [|t0 [|t1 [|t2 [|t3 rest]]]]; cbn [mm_tail mmr_tailk]; try reflexivity.
  - now rewrite mm_k_ref.
  - cbn [allbytes forallb] in Hall. apply andb_prop in Hall as [H0 _]. apply N.ltb_lt in H0.
    rewrite mm_k_ref, shl8_add by exact H0. reflexivity.
  - cbn [allbytes forallb] in Hall. apply andb_prop in Hall as [H0 Hall]. apply andb_prop in Hall as [H1 _].
    apply N.ltb_lt in H0. apply N.ltb_lt in H1.
    rewrite mm_k_ref, shl16_add by assumption. reflexivity.
  - cbn [length] in Hlen. lia.
Qed.

Lemma mm_fmix_ref h : h < 4294967296 -> mm_fmix h = mmr_fmix h.
Proof.
  intros Hh. unfold mm_fmix, mmr_fmix.
  change mm_f1 with 16. change mm_f2 with 13. change mm_f3 with 16.
  change mm_fm1 with 0x85ebca6b. change mm_fm2 with 0xc2b2ae35.
  rewrite !w32_mod, !N.shiftr_div_pow2. reflexivity.
Qed.

Lemma murmur32_is_ref bs : allbytes bs = true -> murmur32 bs = murmur32_ref bs.
Proof.
  intros Hall. unfold murmur32, murmur32_ref. change mm_seed with 0.
  rewrite mm_bmix_ref by (lia || reflexivity).
  pose proof (mmr_body_lt bs 0 ltac:(lia)) as Hlt.
  pose proof (mmr_body_tail_len bs 0) as Hlen.
  pose proof (mmr_body_tail_bytes bs 0 Hall) as Hb.
  destruct (mmr_body 0 bs) as [h t]. cbn [fst snd] in *.
  rewrite mm_tail_ref by assumption.
  rewrite w32_mod, lenN_length.
  apply mm_fmix_ref. apply lxor_lt32.
  - destruct t; [exact Hlt|]. apply lxor_lt32; [exact Hlt|]. rewrite <- mm_k_ref. apply mm_k_lt.
  - apply N.mod_lt. discriminate.
Qed.

Lemma murmur32_lt bs : murmur32 bs < 4294967296.
Proof.
  unfold murmur32. destruct (mm_bmix _ _ _) as [h t].
  unfold mm_fmix. apply lxor_lt32; [apply w32_lt|apply shiftr_lt32, w32_lt].
Qed.

(* -------------------------------------------------------------- key hash *)
Lemma keyhash_arith bs : keyhash bs = fnv1a_key bs * 4294967296 + murmur32 bs.
Proof.
  unfold keyhash. change keyhash_fnv_shift with 32.
  rewrite (shl_lor_low _ _ 32) by apply murmur32_lt. reflexivity.
Qed.

Lemma keyhash_is_ref bs : allbytes bs = true -> keyhash bs = keyhash_ref bs.
Proof.
  intros H. rewrite keyhash_arith. unfold keyhash_ref, M32.
  rewrite <- fnv1a_key_is_ref, N2Z.id, murmur32_is_ref by exact H. reflexivity.
Qed.

Lemma keyhash_high bs : keyhash bs / 4294967296 = fnv1a_key bs.
Proof.
  rewrite keyhash_arith. rewrite N.div_add_l by discriminate.
  rewrite N.div_small by apply murmur32_lt. lia.
Qed.
Lemma keyhash_low bs : keyhash bs mod 4294967296 = murmur32 bs.
Proof.
  rewrite keyhash_arith. rewrite N.add_comm, N.mod_add by discriminate.
  apply N.mod_small, murmur32_lt.
Qed.
Lemma keyhash_lt bs : keyhash bs < 18446744073709551616.
Proof.
  rewrite keyhash_arith. pose proof (fnv1a_key_lt bs). pose proof (murmur32_lt bs). lia.
Qed.

(* ------------------------------------------------------------ value hash *)
Lemma allbytes_firstn n bs : allbytes bs = true -> allbytes (firstn n bs) = true.
Proof.
  revert n. induction bs as [|b bs IH]; intros [|n] H; cbn [firstn allbytes forallb] in *; auto.
  apply andb_prop in H as [Hb H]. rewrite Hb. cbn. now apply IH.
Qed.
Lemma allbytes_skipn n bs : allbytes bs = true -> allbytes (skipn n bs) = true.
Proof.
  revert n. induction bs as [|b bs IH]; intros [|n] H; cbn [skipn] in *; auto.
  cbn [allbytes forallb] in H. apply andb_prop in H as [_ H]. now apply IH.
Qed.

Ltac modlia := zify; Z.div_mod_to_equations; lia.

Lemma vhash_is_ref v : allbytes v = true -> vhash v = vhash_ref v.
Proof.
  intros Hall. unfold vhash, vhash_ref.
  change vh_mul1 with 97. change vh_mul2 with 97. change vh_switch with 1024.
  change vh_head with 512. change vh_tail with 512.
  rewrite lenN_length. set (l := N.of_nat (length v)).
  destruct (l <=? 1024) eqn:Hle.
  - rewrite <- fnv1a_val_is_ref, N2Z.id by exact Hall.
    rewrite w16_mod, !w32_mod. unfold M32. f_equal. modlia.
  - apply N.leb_gt in Hle.
    rewrite takeN_firstn, dropN_skipn. change (N.to_nat 512) with 512%nat.
    replace (N.to_nat (l - 512)) with (length v - 512)%nat by (unfold l; lia).
    rewrite <- !fnv1a_val_is_ref, !N2Z.id by (apply allbytes_firstn || apply allbytes_skipn; exact Hall).
    rewrite w16_mod, !w32_mod. unfold M32. f_equal.
    set (f1 := fnv1a_val (firstn 512 v)). set (f2 := fnv1a_val (skipn (length v - 512) v)).
    clearbody f1 f2. modlia.
Qed.

Lemma vhash_lt v : vhash v < 65536.
Proof.
  unfold vhash. destruct (_ <=? _); rewrite w16_mod; apply N.mod_lt; discriminate.
Qed.

(* ------------------------------------------------------------------ CRC *)
Lemma crc_bit_linear a b : crc_bit (N.lxor a b) = N.lxor (crc_bit a) (crc_bit b).
Proof.
  unfold crc_bit. rewrite N.lxor_spec, N.shiftr_lxor.
  set (P := 0xEDB88320). set (x := N.shiftr a 1). set (y := N.shiftr b 1).
  destruct (N.testbit a 0), (N.testbit b 0); cbn [xorb].
  - rewrite (N.lxor_comm y P), N.lxor_assoc, <- (N.lxor_assoc P P y), N.lxor_nilpotent, N.lxor_0_l. reflexivity.
  - now rewrite !N.lxor_assoc, (N.lxor_comm P y).
  - now rewrite N.lxor_assoc.
  - reflexivity.
Qed.

Definition crc8 (x : N) : N :=
  crc_bit (crc_bit (crc_bit (crc_bit (crc_bit (crc_bit (crc_bit (crc_bit x))))))).

Lemma crc8_linear a b : crc8 (N.lxor a b) = N.lxor (crc8 a) (crc8 b).
Proof. unfold crc8. now rewrite !crc_bit_linear. Qed.

Lemma crc_bit_even z : crc_bit (N.shiftl z 1 * 1) = crc_bit (N.shiftl z 1).
Proof. now rewrite N.mul_1_r. Qed.

Lemma crc_bit_shl z k : crc_bit (N.shiftl z (N.succ k)) = N.shiftl z k.
Proof.
  unfold crc_bit. rewrite N.shiftl_spec_low by lia.
  rewrite <- N.add_1_r, <- N.shiftl_shiftl, N.shiftr_shiftl_l by lia.
  now rewrite N.sub_diag, N.shiftl_0_r.
Qed.

Lemma crc8_shl8 z : crc8 (N.shiftl z 8) = z.
Proof.
  unfold crc8.
  change 8 with (N.succ 7). rewrite crc_bit_shl.
  change 7 with (N.succ 6). rewrite crc_bit_shl.
  change 6 with (N.succ 5). rewrite crc_bit_shl.
  change 5 with (N.succ 4). rewrite crc_bit_shl.
  change 4 with (N.succ 3). rewrite crc_bit_shl.
  change 3 with (N.succ 2). rewrite crc_bit_shl.
  change 2 with (N.succ 1). rewrite crc_bit_shl.
  change 1 with (N.succ 0). rewrite crc_bit_shl.
  apply N.shiftl_0_r.
Qed.

(* the 256-entry finite fact, checked by computation and lifted *)
Fixpoint upto (n : nat) : list N :=
  match n with O => [] | S k => upto k ++ [N.of_nat k] end.
Lemma upto_in n i : (N.to_nat i < n)%nat -> In i (upto n).
Proof.
  induction n as [|n IH]; intros H; [lia|]. cbn [upto]. apply in_or_app.
  destruct (PeanoNat.Nat.eq_dec (N.to_nat i) n) as [E|NE].
  - right. left. rewrite <- E. apply N2Nat.id.
  - left. apply IH. lia.
Qed.

Lemma crc_table_entries :
  forallb (fun i => N.eqb (nth (N.to_nat i) crc_table 0) (crc8 i)) (upto 256) = true.
Proof. vm_compute. reflexivity. Qed.

Lemma crc_table_entry i : i < 256 -> nth (N.to_nat i) crc_table 0 = crc8 i.
Proof.
  intros Hi. pose proof crc_table_entries as H. rewrite forallb_forall in H.
  apply N.eqb_eq. apply H. apply upto_in. lia.
Qed.

Lemma split_low8 x : x = N.lxor (N.land x 255) (N.shiftl (N.shiftr x 8) 8).
Proof.
  apply N.bits_inj. intros i. rewrite N.lxor_spec, N.land_spec.
  change 255 with (N.ones 8).
  destruct (N.lt_ge_cases i 8) as [Hlt|Hge].
  - rewrite N.ones_spec_low by exact Hlt. rewrite N.shiftl_spec_low by exact Hlt.
    now rewrite andb_true_r, xorb_false_r.
  - rewrite N.ones_spec_high by exact Hge. rewrite N.shiftl_spec_high' by exact Hge.
    rewrite N.shiftr_spec by lia. rewrite andb_false_r, xorb_false_l. f_equal. lia.
Qed.

Lemma crc_step_is_ref c b : b < 256 -> crc_step c b = crc_byte_ref c b.
Proof.
  intros Hb. unfold crc_step, crc_byte_ref. fold (crc8 (N.lxor c b)).
  rewrite crc_table_entry.
  2:{ change 255 with (N.ones 8). rewrite N.land_ones. apply N.mod_lt. discriminate. }
  set (x := N.lxor c b).
  transitivity (crc8 (N.lxor (N.land x 255) (N.shiftl (N.shiftr x 8) 8))); [|now rewrite <- split_low8].
  rewrite crc8_linear, crc8_shl8.
  f_equal. unfold x. rewrite N.shiftr_lxor. rewrite (N.shiftr_eq_0 b 8); [now rewrite N.lxor_0_r|].
  destruct (N.eq_dec b 0) as [->|Hnz]; [reflexivity|]. apply N.log2_lt_pow2; lia.
Qed.

Lemma crc32_is_ref bs : allbytes bs = true -> crc32 bs = crc32_ref bs.
Proof.
  intros Hall. unfold crc32, crc32_ref, crc_update.
  change crc_init with 0xFFFFFFFF. change crc_final_xor with 0xFFFFFFFF. f_equal.
  generalize 0xFFFFFFFF. induction bs as [|b bs IH]; intros c; cbn [fold_left]; [reflexivity|].
  cbn [allbytes forallb] in Hall. apply andb_prop in Hall as [Hb Hall].
  apply N.ltb_lt in Hb. rewrite crc_step_is_ref by exact Hb. now apply IH.
Qed.
