(* C17: which data files a GC pass can modify. *)
From Coq Require Import NArith ZArith List Bool Lia ZifyN ZifyNat ZifyBool.
From GB Require Import Consts Words Hash HintFile HTree Compress Bucket BucketOpen Gc BucketBasics Refine.
Import ListNotations.
Open Scope N_scope.

(* data side of a bucket: chunk table and head *)
Definition dat (b : bucket) := (b_chunks b, b_head b).

Lemma core_dat b b' : core b = core b' -> dat b = dat b'.
Proof. unfold core, dat. intros H. injection H as -> -> _ _. reflexivity. Qed.

Lemma set_ctab_dat b ct : dat (set_ctab b ct) = dat b. Proof. reflexivity. Qed.

Lemma hints_set_dat cf b h key ver vh p rs g : dat (hints_set cf b h key ver vh p rs g) = dat b.
Proof.
  unfold hints_set. destruct (ct_has_hash _ _).
  - rewrite (core_dat _ _ (hints_set_item_core _ _ _ _ _)). reflexivity.
  - apply core_dat, hints_set_item_core.
Qed.

Lemma trydump_dat b c d : dat (trydump b c d) = dat b.
Proof. apply core_dat, trydump_core. Qed.

Lemma set_treefiles_dat b x y : dat (set_treefiles b x y) = dat b. Proof. reflexivity. Qed.
Lemma set_merge_state_dat b x y : dat (set_merge_state b x y) = dat b. Proof. reflexivity. Qed.

Lemma before_bucket_dat cf b merge : dat (before_bucket cf b merge) = dat b.
Proof.
  unfold before_bucket. destruct merge.
  - destruct (hint_merge _ _) as [[? ?] ct]. rewrite set_treefiles_dat, set_merge_state_dat.
    rewrite (core_dat _ _ (trydump_all_core _ _)). reflexivity.
  - reflexivity.
Qed.

(* b' differs from b on the data side at most in the chunks satisfying S *)
Definition untouched (S : nat -> Prop) (b b' : bucket) : Prop :=
  b_head b' = b_head b /\ forall c, ~ S c -> chunk_at b' c = chunk_at b c.

Lemma untouched_refl S b : untouched S b b.
Proof. split; auto. Qed.
Lemma untouched_trans S b1 b2 b3 : untouched S b1 b2 -> untouched S b2 b3 -> untouched S b1 b3.
Proof. intros [H1 H2] [H3 H4]. split; [congruence|]. intros c Hc. rewrite H4, H2; auto. Qed.
Lemma untouched_weaken (S S' : nat -> Prop) b b' : (forall c, S c -> S' c) -> untouched S b b' -> untouched S' b b'.
Proof. intros Hs [H1 H2]. split; [exact H1|]. intros c Hc. apply H2. auto. Qed.
Lemma untouched_dat S b b' : dat b' = dat b -> untouched S b b'.
Proof. unfold untouched, dat, chunk_at. intros H. injection H as H1 H2. split; [exact H2|]. intros c _. now rewrite H1. Qed.
Lemma untouched_set_chunk (S : nat -> Prop) b c k : S c -> untouched S b (set_chunk b c k).
Proof. intros Hs. split; [reflexivity|]. intros c' Hc'. apply chunk_at_set_other. intros ->. auto. Qed.

Lemma begin_gc_untouched (S : nat -> Prop) b dst src : S dst -> untouched S b (begin_gc_writing b dst src).
Proof. intros Hs. unfold begin_gc_writing. destruct (Nat.eqb dst src); now apply untouched_set_chunk. Qed.
Lemma end_gc_untouched (S : nat -> Prop) b dst : S dst -> untouched S b (end_gc_writing b dst).
Proof. intros Hs. unfold end_gc_writing. destruct (_ && _); now apply untouched_set_chunk. Qed.
Lemma append_gc_untouched (S : nat -> Prop) b dst r : S dst -> untouched S b (fst (append_gc b dst r)).
Proof. intros Hs. unfold append_gc. cbn [fst]. now apply untouched_set_chunk. Qed.

Section Touch.
Variable cf : cfg.
Variable hf : bytes -> N.
Variable begin_ : nat.

(* one record touches only the current destination and its successor *)
Lemma gc_record_touch src st e :
  let st' := gc_record cf hf begin_ src st e in
  (gc_dst st <= gc_dst st' <= Datatypes.S (gc_dst st))%nat /\
  untouched (fun c => (gc_dst st <= c <= gc_dst st')%nat) (gc_b st) (gc_b st').
Proof.
  destruct e as [off r]. cbv zeta. unfold gc_record.
  set (found := tree_get_slot (gc_b st) (hf (d_key r))).
  destruct (match found with Some s => _ | None => _ end) as [newest vh].
  destruct newest; cbn [negb].
  2:{ cbn [gc_dst gc_b]. split; [lia|apply untouched_refl]. }
  destruct (c_filemax cf <? dsize r + k_whead (chunk_at (gc_b st) (gc_dst st))) eqn:Efull.
  - (* switch to the next destination *)
    destruct (append_gc _ _ r) as [b2 noff] eqn:Eapp. cbn [gc_dst gc_b]. split; [lia|].
    eapply untouched_trans; [|apply untouched_dat, hints_set_dat].
    assert (Hb2 : untouched (fun c => (gc_dst st <= c <= Datatypes.S (gc_dst st))%nat) (gc_b st) b2).
    { replace b2 with (fst (append_gc (begin_gc_writing (trydump (end_gc_writing (gc_b st) (gc_dst st)) (gc_dst st) true) (Datatypes.S (gc_dst st)) src) (Datatypes.S (gc_dst st)) r)) by (now rewrite Eapp).
      eapply untouched_trans; [|apply append_gc_untouched; cbv beta; lia].
      eapply untouched_trans; [|apply begin_gc_untouched; cbv beta; lia].
      eapply untouched_trans; [|apply untouched_dat, trydump_dat].
      apply end_gc_untouched. cbv beta. lia. }
    destruct found as [s0|]; [|exact Hb2].
    destruct (tree_get_slot b2 _) as [s|]; [|exact Hb2].
    destruct (_ && _); [exact Hb2|]. eapply untouched_trans; [exact Hb2|]. apply untouched_dat. reflexivity.
  - destruct (append_gc _ _ r) as [b2 noff] eqn:Eapp. cbn [gc_dst gc_b]. split; [lia|].
    eapply untouched_trans; [|apply untouched_dat, hints_set_dat].
    assert (Hb2 : untouched (fun c => (gc_dst st <= c <= gc_dst st)%nat) (gc_b st) b2).
    { replace b2 with (fst (append_gc (gc_b st) (gc_dst st) r)) by (now rewrite Eapp).
      apply append_gc_untouched. cbv beta. lia. }
    destruct found as [s0|]; [|exact Hb2].
    destruct (tree_get_slot b2 _) as [s|]; [|exact Hb2].
    destruct (_ && _); [exact Hb2|]. eapply untouched_trans; [exact Hb2|]. apply untouched_dat. reflexivity.
Qed.

Lemma gc_records_touch src recs : forall st,
  let st' := fold_left (gc_record cf hf begin_ src) recs st in
  (gc_dst st <= gc_dst st')%nat /\
  untouched (fun c => (gc_dst st <= c <= gc_dst st')%nat) (gc_b st) (gc_b st').
Proof.
  induction recs as [|e recs IH]; intros st; cbn [fold_left]; cbv zeta.
  - split; [lia|apply untouched_refl].
  - destruct (gc_record_touch src st e) as [H1 H2]. cbv zeta in H1, H2.
    destruct (IH (gc_record cf hf begin_ src st e)) as [H3 H4]. cbv zeta in H3, H4.
    split; [lia|]. eapply untouched_trans.
    + eapply untouched_weaken; [|exact H2]. cbv beta. intros c Hc. lia.
    + eapply untouched_weaken; [|exact H4]. cbv beta. intros c Hc. lia.
Qed.

Lemma gc_file_touch st src :
  let st' := gc_file cf hf begin_ st src in
  (gc_dst st <= gc_dst st')%nat /\
  untouched (fun c => (gc_dst st <= c <= gc_dst st')%nat \/ c = src) (gc_b st) (gc_b st').
Proof.
  cbv zeta. unfold gc_file. destruct (k_size (chunk_at (gc_b st) src) =? 0).
  - split; [lia|apply untouched_refl].
  - set (st1 := mkGC (clear_hint_chunk (gc_b st) src) (gc_dst st) (gc_stat st)).
    destruct (gc_records_touch src (k_disk (chunk_at (gc_b st) src)) st1) as [H1 H2]. cbv zeta in H1, H2.
    set (st2 := fold_left (gc_record cf hf begin_ src) (k_disk (chunk_at (gc_b st) src)) st1) in *.
    cbn [gc_dst gc_b]. change (gc_dst st1) with (gc_dst st) in *. split; [exact H1|].
    assert (H0 : untouched (fun c => (gc_dst st <= c <= gc_dst st2)%nat \/ c = src) (gc_b st) (gc_b st2)).
    { eapply untouched_trans; [apply (untouched_dat _ (gc_b st) (gc_b st1)); reflexivity|].
      eapply untouched_weaken; [|exact H2]. cbv beta. intros c Hc. left. exact Hc. }
    match goal with |- untouched _ _ (if _ then set_nextgc ?x _ else _) =>
      assert (Hx : untouched (fun c0 => (gc_dst st <= c0 <= gc_dst st2)%nat \/ c0 = src) (gc_b st) x) end.
    { destruct (Nat.eqb src (gc_dst st2)).
      - destruct (_ && _); [|exact H0].
        eapply untouched_trans; [exact H0|]. eapply untouched_trans; [apply end_gc_untouched|apply begin_gc_untouched]; cbv beta; now right.
      - eapply untouched_trans; [exact H0|]. apply untouched_set_chunk. now right. }
    destruct (Nat.leb _ _); [|exact Hx]. eapply untouched_trans; [exact Hx|]. apply untouched_dat. reflexivity.
Qed.

Lemma gc_files_touch srcs : forall st lo hi,
  (forall s, In s srcs -> (lo <= s <= hi)%nat) -> (lo <= gc_dst st)%nat ->
  let st' := fold_left (gc_file cf hf begin_) srcs st in
  (gc_dst st <= gc_dst st')%nat /\
  untouched (fun c => (lo <= c <= Nat.max hi (gc_dst st'))%nat) (gc_b st) (gc_b st').
Proof.
  induction srcs as [|s srcs IH]; intros st lo hi Hs Hlo; cbn [fold_left]; cbv zeta.
  - split; [lia|apply untouched_refl].
  - destruct (gc_file_touch st s) as [H1 H2]. cbv zeta in H1, H2.
    destruct (IH (gc_file cf hf begin_ st s) lo hi) as [H3 H4]; [intros x Hx; apply Hs; now right|lia|].
    cbv zeta in H3, H4. split; [lia|]. eapply untouched_trans; [|exact H4].
    eapply untouched_weaken; [|exact H2]. cbv beta. intros c [Hc| ->].
    + lia.
    + specialize (Hs s (or_introl eq_refl)). lia.
Qed.
End Touch.

Lemma pick_dst_le cf b n begin_ : (n <= begin_)%nat -> (pick_dst cf b n begin_ <= begin_)%nat.
Proof.
  induction n as [|i IH]; intros Hn; cbn [pick_dst]; [lia|].
  destruct (0 <? _); [|apply IH; lia].
  destruct (_ <? _)%Z; [lia|]. destruct (Nat.ltb i (begin_ - 1)) eqn:E; [|lia].
  apply PeanoNat.Nat.ltb_lt in E. lia.
Qed.

(* THE file-set theorem: a GC pass over [begin, end] leaves the head index and every data chunk outside
   [dst0, max end dst_final] exactly as they were, where dst0 <= begin is the destination chosen up front *)
Theorem gc_pass_touches_only cf hf b begin_ end_ merge :
  let b1 := before_bucket cf b merge in
  let dst0 := pick_dst cf b1 begin_ begin_ in
  let st := fold_left (gc_file cf hf begin_) (seq begin_ (S end_ - begin_)) (mkGC (begin_gc_writing b1 dst0 begin_) dst0 gc0) in
  (dst0 <= begin_)%nat /\ (dst0 <= gc_dst st)%nat /\
  untouched (fun c => (dst0 <= c <= Nat.max end_ (gc_dst st))%nat) b (fst (gc_pass cf hf b begin_ end_ merge)).
Proof.
  cbv zeta. unfold gc_pass. cbn [fst].
  set (b1 := before_bucket cf b merge). set (dst0 := pick_dst cf b1 begin_ begin_).
  pose proof (pick_dst_le cf b1 begin_ begin_ (le_n _)) as Hd. fold dst0 in Hd.
  destruct (gc_files_touch cf hf begin_ (seq begin_ (S end_ - begin_)) (mkGC (begin_gc_writing b1 dst0 begin_) dst0 gc0) dst0 end_) as [H1 H2].
  { intros s Hs. apply in_seq in Hs. lia. }
  { cbn [gc_dst]. lia. }
  cbv zeta in H1, H2. cbn [gc_dst gc_b] in H1, H2.
  set (st := fold_left _ _ _) in *.
  split; [exact Hd|]. split; [exact H1|].
  eapply untouched_trans; [apply (untouched_dat _ b b1), before_bucket_dat|].
  eapply untouched_trans; [apply (begin_gc_untouched _ b1 dst0 begin_); cbv beta; lia|].
  eapply untouched_trans; [exact H2|].
  eapply untouched_trans; [apply (end_gc_untouched _ (gc_b st) (gc_dst st)); cbv beta; lia|].
  apply untouched_dat, trydump_dat.
Qed.
