(* C09: resynchronisation.  A scan that meets a damaged region made of whole 256-byte blocks, none of which parses
   as a record and whose first header does not claim an extent past the end of the file, skips exactly that
   region and yields every record behind it with its correct offset. *)
From Coq Require Import NArith ZArith List Bool Lia ZifyN ZifyNat ZifyBool.
From GB Require Import Consts Words Hash Record Bits RecordProofs.
Import ListNotations.
Open Scope N_scope.

Lemma skipn_skipn' {A} (l : list A) : forall b a, skipn a (skipn b l) = skipn (b + a) l.
Proof.
  induction l as [|x l IH]; intros b a; [now rewrite !skipn_nil|].
  destruct b as [|b]; [reflexivity|]. cbn [skipn Nat.add]. apply IH.
Qed.
Lemma dropN_dropN {A} (l : list A) a b : dropN a (dropN b l) = dropN (b + a) l.
Proof. rewrite !dropN_skipn, skipn_skipn'. f_equal. lia. Qed.
Lemma dropN_0 {A} (l : list A) : dropN 0 l = l.
Proof. now rewrite dropN_skipn. Qed.
Lemma lenN_dropN {A} (l : list A) n : lenN (dropN n l) = lenN l - n.
Proof. rewrite dropN_skipn, !lenN_length, skipn_length. lia. Qed.
Lemma lenN_takeN {A} (l : list A) n : lenN (takeN n l) = N.min n (lenN l).
Proof. rewrite takeN_firstn, !lenN_length, firstn_length. lia. Qed.
Lemma takeN_takeN {A} (l : list A) a b : a <= b -> takeN a (takeN b l) = takeN a l.
Proof. intros H. rewrite !takeN_firstn, firstn_firstn. f_equal. lia. Qed.
Lemma dropN_takeN {A} (l : list A) a b : dropN a (takeN (a + b) l) = takeN b (dropN a l).
Proof.
  rewrite !takeN_firstn, !dropN_skipn. rewrite skipn_firstn_comm. f_equal. lia.
Qed.

(* a "contained" failure of the positional read: the header is complete and does not reach past the end of the file *)
Definition contained (e : rderr) : Prop := e = EKeySize \/ e = EValSize \/ e = ECrc.

(* Next falls back to nextValid exactly when the positional read fails in a contained way *)
Lemma next_of_read_err c s off e : s <> [] -> read_at c s = RdErr e -> contained e ->
  next c s off = of_nv (next_valid (nv_fuel s) c s off 0).
Proof.
  intros Hne Hr Hc. rewrite (next_nonempty c s off Hne). unfold read_at in Hr.
  destruct (decode_header s) as [h|]; [|destruct Hc as [Hc|[Hc|Hc]]; congruence].
  destruct (valid_ksz c (h_ksz h)) eqn:Ek; cbn [negb orb] in *; [|reflexivity].
  destruct (valid_vsz c (h_vsz h)) eqn:Ev; cbn [negb orb] in *; [|reflexivity].
  cbv zeta in Hr |- *. set (body := dropN rec_header_size s) in *.
  destruct (lenN (takeN (h_ksz h + h_vsz h) body) <? h_ksz h + h_vsz h) eqn:El; [destruct Hc as [Hc|[Hc|Hc]]; congruence|].
  apply N.ltb_ge in El. rewrite lenN_takeN in El.
  rewrite takeN_takeN in Hr by lia. rewrite dropN_takeN in Hr.
  replace (lenN (takeN (h_ksz h) body) <? h_ksz h) with false by (symmetry; apply N.ltb_ge; rewrite lenN_takeN; lia).
  replace (lenN (takeN (h_vsz h) (dropN (h_ksz h) body)) <? h_vsz h) with false by (symmetry; apply N.ltb_ge; rewrite lenN_takeN, lenN_dropN; lia).
  destruct (hdr_crc_ok h (takeN (h_ksz h) body) (takeN (h_vsz h) (dropN (h_ksz h) body))); [discriminate|reflexivity].
Qed.

(* nextValid skips block after block while the positional read fails *)
Lemma next_valid_skip c : forall n fuel s off broken,
  (forall i, (i < n)%nat -> (exists e, read_at c (dropN (256 * N.of_nat i) s) = RdErr e) /\ dropN (256 * N.of_nat i) s <> []) ->
  next_valid (n + fuel) c s off broken = next_valid fuel c (dropN (256 * N.of_nat n) s) (off + 256 * N.of_nat n) (broken + 256 * N.of_nat n).
Proof.
  induction n as [|n IH]; intros fuel s off broken H.
  - cbn [Nat.add]. change (N.of_nat 0) with 0. rewrite N.mul_0_r, dropN_0, !N.add_0_r. reflexivity.
  - destruct (H O ltac:(lia)) as [[e He] Hne]. change (N.of_nat 0) with 0 in He, Hne. rewrite N.mul_0_r, dropN_0 in He, Hne.
    cbn [Nat.add next_valid]. destruct s as [|x s']; [congruence|]. rewrite He. change resync_step with 256.
    rewrite IH.
    + rewrite dropN_dropN. replace (256 * N.of_nat (S n)) with (256 + 256 * N.of_nat n) by lia. rewrite !N.add_assoc. reflexivity.
    + intros i Hi. destruct (H (S i) ltac:(lia)) as [[e' He'] Hne']. rewrite dropN_dropN.
      replace (256 + 256 * N.of_nat i) with (256 * N.of_nat (S i)) by lia. split; [now exists e'|exact Hne'].
Qed.

(* ---- the scan across a damaged region ---- *)
Definition after_damage (rs : list rec) (off dmg : N) : list (N * rec * N) :=
  match rs with [] => [] | r :: t => (off + dmg, r, dmg) :: with_offsets t (off + dmg + rsize r) end.

Theorem scan_resync c bad rs n e0 : forall fuel off,
  Forall (valid_rec c) rs -> (1 <= n)%nat -> lenN bad = 256 * N.of_nat n ->
  let s := bad ++ concat (map encode rs) in
  read_at c s = RdErr e0 -> contained e0 ->
  (forall i, (i < n)%nat -> exists e, read_at c (dropN (256 * N.of_nat i) s) = RdErr e) ->
  (length rs < fuel)%nat ->
  scan (S fuel) c s off = (after_damage rs off (256 * N.of_nat n), ScanOK).
Proof.
  intros fuel off HF Hn Hlen. cbv zeta. set (good := concat (map encode rs)). intros H0 Hc Hbad Hfuel.
  assert (Hne : bad ++ good <> []) by (intros E; apply (f_equal lenN) in E; rewrite lenN_app, Hlen in E; cbn [lenN] in E; lia).
  assert (Hdrop : dropN (256 * N.of_nat n) (bad ++ good) = good) by (apply dropN_app_exact; now symmetry).
  assert (Hblocks : forall i, (i < n)%nat -> dropN (256 * N.of_nat i) (bad ++ good) <> []).
  { intros i Hi E. apply (f_equal lenN) in E. rewrite lenN_dropN, lenN_app, Hlen in E. cbn [lenN] in E. lia. }
  cbn [scan]. rewrite (next_of_read_err c _ off e0 Hne H0 Hc).
  (* enough fuel for the n damaged blocks and one more step *)
  assert (Hfu : exists f', nv_fuel (bad ++ good) = (n + S f')%nat).
  { unfold nv_fuel. assert (Hl : (256 * n <= length (bad ++ good))%nat) by (rewrite app_length; rewrite lenN_length in Hlen; lia).
    assert (n <= length (bad ++ good) / 256)%nat by (apply Nat.div_le_lower_bound; lia). exists (length (bad ++ good) / 256 - n)%nat. lia. }
  destruct Hfu as [f' ->]. rewrite next_valid_skip by (intros i Hi; split; [now apply Hbad|now apply Hblocks]).
  rewrite Hdrop. rewrite N.add_0_l. unfold good. destruct rs as [|r t].
  - cbn [map concat next_valid of_nv after_damage]. reflexivity.
  - inversion HF as [|? ? Hr Ht]; subst. cbn [map concat next_valid].
    destruct (encode_len c r Hr) as (Hl & _ & _ & Hge).
    destruct (encode r ++ concat (map encode t)) as [|x y] eqn:Es.
    { exfalso. apply (f_equal lenN) in Es. rewrite lenN_app, Hl in Es. cbn [lenN] in Es. lia. }
    rewrite <- Es. rewrite read_at_encode by exact Hr. cbn [of_nv after_damage].
    rewrite (dropN_app_exact (encode r)) by (now rewrite Hl).
    rewrite scan_clean_gen; [reflexivity|exact Ht|cbn [length] in Hfuel; lia].
Qed.

(* ---- whole files: clean records, a damaged region, clean records ---- *)
Fixpoint rsum (rs : list rec) : N := match rs with [] => 0 | r :: t => rsize r + rsum t end.

Lemma lenN_concat_encode c rs : Forall (valid_rec c) rs -> lenN (concat (map encode rs)) = rsum rs.
Proof.
  induction 1 as [|r t Hr _ IH]; cbn [map concat rsum]; [reflexivity|]. rewrite lenN_app, IH. now rewrite (proj1 (encode_len c r Hr)).
Qed.

Lemma scan_clean_prefix c rs1 : Forall (valid_rec c) rs1 -> forall fuel off tail,
  scan (length rs1 + fuel) c (concat (map encode rs1) ++ tail) off =
  (with_offsets rs1 off ++ fst (scan fuel c tail (off + rsum rs1)), snd (scan fuel c tail (off + rsum rs1))).
Proof.
  induction 1 as [|r t Hr _ IH]; intros fuel off tail.
  - cbn [length Nat.add map concat app with_offsets rsum]. rewrite N.add_0_r. now destruct (scan fuel c tail off).
  - cbn [length Nat.add map concat scan with_offsets rsum]. rewrite <- app_assoc, next_encode by exact Hr.
    rewrite IH. cbn [app fst snd]. now rewrite N.add_assoc.
Qed.

Theorem scan_file_resync c rs1 bad rs2 n e0 :
  Forall (valid_rec c) rs1 -> Forall (valid_rec c) rs2 -> (1 <= n)%nat -> lenN bad = 256 * N.of_nat n ->
  let s := bad ++ concat (map encode rs2) in
  read_at c s = RdErr e0 -> contained e0 ->
  (forall i, (i < n)%nat -> exists e, read_at c (dropN (256 * N.of_nat i) s) = RdErr e) ->
  scan_file c (concat (map encode rs1) ++ s) 0 = (with_offsets rs1 0 ++ after_damage rs2 (rsum rs1) (256 * N.of_nat n), ScanOK).
Proof.
  intros H1 H2 Hn Hlen. cbv zeta. intros H0 Hc Hbad. unfold scan_file. rewrite dropN_0.
  set (file := concat (map encode rs1) ++ bad ++ concat (map encode rs2)).
  assert (Hfuel : exists f, S (S (length file / 256)) = (length rs1 + S f)%nat /\ (length rs2 < f)%nat).
  { pose proof (concat_encode_blocks c rs1 H1) as B1. pose proof (concat_encode_blocks c rs2 H2) as B2.
    assert (Hl : length file = (length (concat (map encode rs1)) + 256 * n + length (concat (map encode rs2)))%nat).
    { unfold file. rewrite !app_length. rewrite lenN_length in Hlen. lia. }
    set (a := length (concat (map encode rs1))) in *. set (b := length (concat (map encode rs2))) in *.
    assert (Hdiv : (a / 256 + n + b / 256 <= length file / 256)%nat).
    { rewrite Hl. pose proof (Nat.div_mod a 256 ltac:(lia)). pose proof (Nat.div_mod b 256 ltac:(lia)).
      apply Nat.div_le_lower_bound; [lia|]. lia. }
    exists (S (length file / 256) - length rs1)%nat. split; lia. }
  destruct Hfuel as (f & -> & Hf). unfold file. rewrite (scan_clean_prefix c rs1 H1 (S f) 0 (bad ++ concat (map encode rs2))).
  rewrite N.add_0_l. rewrite (scan_resync c bad rs2 n e0 f (rsum rs1) H2 Hn Hlen H0 Hc Hbad Hf). reflexivity.
Qed.
