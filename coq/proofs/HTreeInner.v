(* C08, inner nodes: every node that is marked "updated" holds exactly the aggregate of the leaf-level summaries
   beneath it, whatever interleaving of sets, removals and listings (which update and mark nodes) produced the
   tree; so updateNodes / listDir return that aggregate -- a function of the leaf summaries only. *)
From Coq Require Import NArith ZArith List Bool Lia ZifyN ZifyNat ZifyBool FMapPositive Sorting.Permutation.
From GB Require Import Consts Words KeyPath HTree CheckC08 Bits HTreeProofs.
Import ListNotations.
Open Scope N_scope.

(* ---- the specification: aggregate of the leaf-level nodes beneath (level, offset), f levels further down ---- *)
Fixpoint sp (f : nat) (t : htree) (level : nat) (offset : N) : N * N :=
  match f with
  | O => let nd := get_node t level offset in (n_count nd, n_hash nd)
  | S f' => let cs := map (fun i => sp f' t (S level) (offset * 16 + i)) idx16 in
            let cnt := fold_left (fun c x => w32 (c + fst x)) cs 0 in
            (cnt, agg_hash cnt (map snd cs))
  end.

Definition pw (l : nat) : N := 16 ^ N.of_nat l.
Lemma pw_S l : pw (S l) = pw l * 16.
Proof. unfold pw. replace (N.of_nat (S l)) with (N.of_nat l + 1) by lia. rewrite N.pow_add_r. reflexivity. Qed.
Lemma pw_pos l : 0 < pw l. Proof. unfold pw. apply N.neq_0_lt_0. apply N.pow_nonzero. discriminate. Qed.
Lemma pw_le32 l : (l <= 8)%nat -> pw l <= 4294967296.
Proof. intros H. unfold pw. change 4294967296 with (16 ^ 8). apply N.pow_le_mono_r; lia. Qed.
Lemma idx16_lt i : In i idx16 -> i < 16.
Proof. unfold idx16. cbn [In]. intros H. repeat (destruct H as [<-|H]; [lia|]). destruct H. Qed.

(* sp looks only at the leaf-level nodes whose offset lies beneath (level, offset) *)
Lemma sp_local f : forall t t' level offset,
  (forall o', o' / pw f = offset -> get_node t' (level + f) o' = get_node t (level + f) o') ->
  sp f t' level offset = sp f t level offset.
Proof.
  induction f as [|f IH]; intros t t' level offset H; cbn [sp].
  - specialize (H offset). rewrite Nat.add_0_r in H. rewrite H; [reflexivity|]. unfold pw. cbn. now rewrite N.div_1_r.
  - assert (E : map (fun i => sp f t' (S level) (offset * 16 + i)) idx16 = map (fun i => sp f t (S level) (offset * 16 + i)) idx16).
    { apply map_ext_in. intros i Hi. apply IH. intros o' Ho'. replace (S level + f)%nat with (level + S f)%nat by lia. apply H.
      rewrite pw_S. rewrite <- N.div_div by (try (pose proof (pw_pos f); lia); lia). rewrite Ho'.
      pose proof (idx16_lt i Hi). rewrite N.div_add_l by lia. rewrite N.div_small by lia. lia. }
    now rewrite E.
Qed.

Lemma sp_ext f t t' level offset :
  (forall o', get_node t' (level + f) o' = get_node t (level + f) o') -> sp f t' level offset = sp f t level offset.
Proof. intros H. apply sp_local. intros o' _. apply H. Qed.

(* ---- the invariant on inner nodes ---- *)
Definition VInv (t : htree) : Prop :=
  (1 <= t_height t <= 8)%nat /\
  (forall o, o < 4294967296 -> n_upd (get_node t (t_height t - 1) o) = true) /\
  (forall level offset, (level < t_height t - 1)%nat -> offset < pw level ->
     n_upd (get_node t level offset) = true ->
     let nd := get_node t level offset in (n_count nd, n_hash nd) = sp (t_height t - 1 - level) t level offset) /\
  (* a node marked updated has only updated children (invalidation always runs from the root down the whole path) *)
  (forall level offset i, (level < t_height t - 1)%nat -> offset < pw level -> i < 16 ->
     n_upd (get_node t level offset) = true -> n_upd (get_node t (S level) (offset * 16 + i)) = true).

Definition same_leaf_level (t t' : htree) : Prop :=
  t_depth t' = t_depth t /\ t_height t' = t_height t /\ t_leafs t' = t_leafs t /\
  forall o, get_node t' (t_height t - 1) o = get_node t (t_height t - 1) o.

Lemma sll_refl t : same_leaf_level t t. Proof. repeat split; reflexivity. Qed.
Lemma sll_trans a b c : same_leaf_level a b -> same_leaf_level b c -> same_leaf_level a c.
Proof. intros (A1 & A2 & A3 & A4) (B1 & B2 & B3 & B4). split; [congruence|]. split; [congruence|]. split; [congruence|]. intros o. rewrite A2 in B4. rewrite B4. apply A4. Qed.

Lemma sll_sp t t' level d offset : same_leaf_level t t' -> (level + d = t_height t - 1)%nat -> sp d t' level offset = sp d t level offset.
Proof. intros (_ & _ & _ & H) Hd. apply sp_ext. intros o'. rewrite Hd. apply H. Qed.

Lemma get_node_set_level t l o nd l' o' : l <> l' -> o < 4294967296 -> o' < 4294967296 -> get_node (set_node t l o nd) l' o' = get_node t l' o'.
Proof. intros Hne H1 H2. apply get_set_node_other; [exact H1|exact H2|]. intros E. injection E as E _. contradiction. Qed.

(* setting an inner node whose children are all updated to its aggregate, marked updated, keeps the invariant *)
Lemma vinv_set_inner t level offset nd :
  VInv t -> (level < t_height t - 1)%nat -> offset < pw level ->
  (n_count nd, n_hash nd) = sp (t_height t - 1 - level) t level offset -> n_upd nd = true ->
  (forall i, i < 16 -> n_upd (get_node t (S level) (offset * 16 + i)) = true) ->
  VInv (set_node t level offset nd) /\ same_leaf_level t (set_node t level offset nd).
Proof.
  intros (Hh & HL & HV & HC) Hl Ho Hnd Hupd Hch.
  assert (Ho32 : offset < 4294967296) by (pose proof (pw_le32 level ltac:(lia)); lia).
  assert (Hsll : same_leaf_level t (set_node t level offset nd)).
  { repeat split; try reflexivity. intros o. unfold get_node, set_node. cbn [t_inner t_height].
    apply mget_mset_other. unfold nkey. intros E. lia. }
  split; [|exact Hsll]. split; [exact Hh|]. split; [|split].
  - intros o Ho'. change (t_height (set_node t level offset nd)) with (t_height t).
    rewrite (proj2 (proj2 (proj2 Hsll))). now apply HL.
  - intros l' o' Hl' Ho' Hu. cbv zeta. change (t_height (set_node t level offset nd)) with (t_height t) in *.
    rewrite (sll_sp t _ l' (t_height t - 1 - l') o' Hsll) by lia.
    assert (Ho'32 : o' < 4294967296) by (pose proof (pw_le32 l' ltac:(lia)); lia).
    destruct (Nat.eq_dec level l') as [<-|Hnl].
    + destruct (N.eq_dec offset o') as [<-|Hno].
      * rewrite get_set_node_same. exact Hnd.
      * rewrite get_set_node_other in * by (try assumption; intros E; injection E as E; contradiction). now apply HV.
    + rewrite get_node_set_level in * by assumption. now apply HV.
  - intros l' o' i Hl' Ho' Hi Hu. change (t_height (set_node t level offset nd)) with (t_height t) in *.
    assert (Ho'32 : o' < 4294967296) by (pose proof (pw_le32 l' ltac:(lia)); lia).
    assert (Hc32 : o' * 16 + i < 4294967296) by (pose proof (pw_le32 (S l') ltac:(lia)) as H32; rewrite pw_S in H32; lia).
    assert (Hpar : (l', o') = (level, offset) \/ (n_upd (get_node t l' o') = true /\ (l', o') <> (level, offset))).
    { destruct (Nat.eq_dec level l') as [<-|Hnl]; [destruct (N.eq_dec offset o') as [<-|Hno]; [now left|]|].
      - right. rewrite get_set_node_other in Hu by (try assumption; intros E; injection E as E; contradiction). split; [exact Hu|intros E; injection E as E; congruence].
      - right. rewrite get_node_set_level in Hu by assumption. split; [exact Hu|intros E; injection E as E1 E2; congruence]. }
    destruct (Nat.eq_dec level (S l')) as [El|Hnl2].
    + destruct (N.eq_dec offset (o' * 16 + i)) as [Eo|Hno]; [rewrite El, Eo at 1; rewrite <- El; subst offset; rewrite get_set_node_same; exact Hupd|].
      rewrite El at 1. rewrite get_set_node_other by (try assumption; try (rewrite <- El; assumption); intros E; injection E as E; contradiction).
      destruct Hpar as [E|[Hp _]]; [injection E as E1 E2; lia|]. now apply HC.
    + rewrite get_node_set_level by assumption. destruct Hpar as [E|[Hp _]]; [injection E as -> ->; now apply Hch|]. now apply HC.
Qed.

(* ---- updateNodes computes the specification and keeps the invariant ---- *)
Definition pr (x : node) : N * N := (n_count x, n_hash x).

Lemma fold_pr cs c0 : fold_left (fun c x => w32 (c + fst x)) (map pr cs) c0 = fold_left (fun c x => w32 (c + n_count x)) cs c0.
Proof. revert c0. induction cs as [|x cs IH]; intros c0; cbn [map fold_left]; [reflexivity|]. apply IH. Qed.

(* nodes already marked updated are never written *)
Definition keeps_updated (t t' : htree) : Prop :=
  forall l o, o < 4294967296 -> n_upd (get_node t l o) = true -> get_node t' l o = get_node t l o.
Lemma ku_refl t : keeps_updated t t. Proof. intros l o _ _. reflexivity. Qed.
Lemma ku_trans a b c : keeps_updated a b -> keeps_updated b c -> keeps_updated a c.
Proof. intros H1 H2 l o Ho Hu. rewrite (H2 l o Ho) by (rewrite (H1 l o Ho Hu); exact Hu). now apply H1. Qed.

Definition un_ok (fu : nat) : Prop :=
  forall t level offset d, VInv t -> (level + d = t_height t - 1)%nat -> (d <= fu)%nat -> offset < pw level ->
  let r := update_nodes fu t level offset in
  pr (snd r) = sp d t level offset /\ n_upd (snd r) = true /\ VInv (fst r) /\ same_leaf_level t (fst r) /\
  get_node (fst r) level offset = snd r /\ keeps_updated t (fst r).

Lemma children_fold f level offset d' : un_ok f ->
  forall is t0 acc, VInv t0 -> (S level + d' = t_height t0 - 1)%nat -> (d' <= f)%nat -> offset < pw level -> Forall (fun i => i < 16) is ->
  let r := fold_left (fun (st : htree * list node) i =>
                        let '(t2, a) := update_nodes f (fst st) (S level) (offset * 16 + i) in (t2, snd st ++ [a])) is (t0, acc) in
  VInv (fst r) /\ same_leaf_level t0 (fst r) /\ map pr (snd r) = map pr acc ++ map (fun i => sp d' t0 (S level) (offset * 16 + i)) is /\
  keeps_updated t0 (fst r) /\ (forall i, In i is -> n_upd (get_node (fst r) (S level) (offset * 16 + i)) = true).
Proof.
  intros IHf. induction is as [|i is IH]; intros t0 acc HV Hd Hdf Ho His; cbn [fold_left]; cbv zeta.
  - cbn [fst snd map]. rewrite app_nil_r. split; [exact HV|]. split; [apply sll_refl|]. split; [reflexivity|]. split; [apply ku_refl|intros i []].
  - inversion His as [|? ? Hi His']; subst. cbn [fst snd].
    assert (Hoc : offset * 16 + i < pw (S level)) by (rewrite pw_S; lia).
    destruct (IHf t0 (S level) (offset * 16 + i) d' HV Hd Hdf Hoc) as (U1 & U2 & U3 & U4 & U5 & U6). cbv zeta in U1, U2, U3, U4, U5, U6.
    destruct (update_nodes f t0 (S level) (offset * 16 + i)) as [t2 a]. cbn [fst snd] in U1, U2, U3, U4, U5, U6.
    assert (Hd2 : (S level + d' = t_height t2 - 1)%nat) by (destruct U4 as (_ & E & _); rewrite E; exact Hd).
    destruct (IH t2 (acc ++ [a]) U3 Hd2 Hdf Ho His') as (I1 & I2 & I3 & I4 & I5). cbv zeta in I1, I2, I3, I4, I5.
    split; [exact I1|]. split; [exact (sll_trans _ _ _ U4 I2)|]. split; [|split; [exact (ku_trans _ _ _ U6 I4)|]].
    + rewrite I3. rewrite map_app. cbn [map]. rewrite <- app_assoc. cbn [app]. rewrite U1.
      f_equal. f_equal. apply map_ext. intros j. apply (sll_sp t0 t2 (S level) d' _ U4 Hd).
    + intros j [<-|Hj]; [|now apply I5].
      assert (H32 : offset * 16 + i < 4294967296).
      { destruct HV as (Hh & _). pose proof (pw_le32 (S level) ltac:(lia)). lia. }
      rewrite (I4 (S level) (offset * 16 + i) H32) by (rewrite U5; exact U2). rewrite U5. exact U2.
Qed.

Lemma idx16_all : Forall (fun i => i < 16) idx16.
Proof. apply Forall_forall. apply idx16_lt. Qed.
Lemma idx16_in i : i < 16 -> In i idx16.
Proof. intros H. unfold idx16. assert (E : i = 0 \/ i = 1 \/ i = 2 \/ i = 3 \/ i = 4 \/ i = 5 \/ i = 6 \/ i = 7 \/ i = 8 \/ i = 9 \/ i = 10 \/ i = 11 \/ i = 12 \/ i = 13 \/ i = 14 \/ i = 15) by lia.
  cbn [In]. intuition. Qed.

Lemma un_ok_all fu : un_ok fu.
Proof.
  induction fu as [|f IHf]; intros t level offset d HV Hd Hdf Ho; cbv zeta.
  - assert (d = O) by lia. subst d. cbn [update_nodes]. pose proof HV as (Hh & HL & _).
    assert (Hu : n_upd (get_node t level offset) = true).
    { replace level with (t_height t - 1)%nat by lia. apply HL. pose proof (pw_le32 level ltac:(lia)). lia. }
    rewrite Hu. cbn [fst snd sp]. split; [reflexivity|]. split; [exact Hu|]. split; [exact HV|]. split; [apply sll_refl|]. split; [reflexivity|apply ku_refl].
  - cbn [update_nodes]. destruct (n_upd (get_node t level offset)) eqn:Hu.
    + cbn [fst snd]. split; [|split; [exact Hu|split; [exact HV|split; [apply sll_refl|split; [reflexivity|apply ku_refl]]]]].
      destruct d as [|d']; [reflexivity|]. destruct HV as (Hh & HL & HVV & _).
      specialize (HVV level offset ltac:(lia) Ho Hu). cbv zeta in HVV. replace (t_height t - 1 - level)%nat with (S d') in HVV by lia. exact HVV.
    + destruct d as [|d'].
      { exfalso. destruct HV as (Hh & HL & _). replace level with (t_height t - 1)%nat in Hu by lia. rewrite HL in Hu; [discriminate|].
        pose proof (pw_le32 level ltac:(lia)). replace (t_height t - 1)%nat with level by lia. lia. }
      pose proof (children_fold f level offset d' IHf idx16 t [] HV ltac:(lia) ltac:(lia) Ho idx16_all) as (C1 & C2 & C3 & C4 & C5). cbv zeta in C1, C2, C3, C4, C5.
      destruct (fold_left _ idx16 (t, [])) as [t' cs]. cbn [fst snd] in C1, C2, C3, C4, C5. cbn [map app] in C3.
      set (cnt := fold_left (fun c x => w32 (c + n_count x)) cs 0).
      set (nd' := mkNode cnt (agg_hash cnt (map n_hash cs)) true).
      assert (Hspec : pr nd' = sp (S d') t level offset).
      { cbn [sp]. rewrite <- C3. rewrite fold_pr. fold cnt. rewrite map_map. reflexivity. }
      assert (Hh' : t_height t' = t_height t) by apply C2.
      destruct (vinv_set_inner t' level offset nd' C1 ltac:(lia) Ho) as [V1 V2].
      { unfold pr in Hspec. rewrite Hspec. rewrite Hh'. replace (t_height t - 1 - level)%nat with (S d') by lia.
        symmetry. apply (sll_sp t t' level (S d') offset C2). lia. }
      { reflexivity. }
      { intros i Hi. apply C5. now apply idx16_in. }
      cbn [fst snd]. split; [exact Hspec|]. split; [reflexivity|]. split; [exact V1|]. split; [exact (sll_trans _ _ _ C2 V2)|]. split; [apply get_set_node_same|].
      intros l o Ho32 Hup. assert (Ho32' : offset < 4294967296) by (destruct HV as (Hh & _); pose proof (pw_le32 level ltac:(lia)); lia).
      rewrite get_set_node_other; [now apply C4|exact Ho32'|exact Ho32|]. intros E. injection E as <- <-. congruence.
Qed.

Theorem update_nodes_spec t level offset :
  VInv t -> (level <= t_height t - 1)%nat -> offset < pw level ->
  let r := update_nodes (t_height t) t level offset in
  pr (snd r) = sp (t_height t - 1 - level) t level offset /\ VInv (fst r) /\ same_leaf_level t (fst r).
Proof.
  intros HV Hl Ho. destruct (un_ok_all (t_height t) t level offset (t_height t - 1 - level)%nat HV ltac:(lia) ltac:(lia) Ho) as (U1 & _ & U3 & U4 & _ & _).
  cbv zeta in *. auto.
Qed.

(* ---- invalidation marks exactly the path ---- *)
Definition poff (ds : list N) (o : N) (k : nat) : N := fold_left (fun a v => a * 16 + v) (firstn k ds) o.

Lemma poff_S d ds o k : poff (d :: ds) o (S k) = poff ds (o * 16 + d) k.
Proof. reflexivity. Qed.

Lemma poff_snoc ds : forall n o, (n < length ds)%nat -> poff ds o (S n) = poff ds o n * 16 + nth n ds 0.
Proof.
  induction ds as [|x ds IH]; intros n o Hn; [cbn [length] in Hn; lia|]. destruct n as [|n]; [reflexivity|].
  rewrite !poff_S. cbn [nth]. apply IH. cbn [length] in Hn. lia.
Qed.

Lemma poff_lt ds : Forall (fun d => d < 16) ds -> forall k o l, o < pw l -> (k <= length ds)%nat -> poff ds o k < pw (l + k).
Proof.
  induction ds as [|d ds IH]; intros Hds k o l Ho Hk.
  - destruct k; [|cbn [length] in Hk; lia]. unfold poff. cbn. now rewrite Nat.add_0_r.
  - destruct k as [|k]; [unfold poff; cbn; now rewrite Nat.add_0_r|]. rewrite poff_S. inversion Hds as [|? ? Hd Hds']; subst.
    replace (l + S k)%nat with (S l + k)%nat by lia. apply IH; [exact Hds'|rewrite pw_S; lia|cbn [length] in Hk; lia].
Qed.

Lemma poff_div ds : Forall (fun d => d < 16) ds -> forall k d o, (k + d <= length ds)%nat -> poff ds o (k + d) / pw d = poff ds o k.
Proof.
  intros Hds k d. induction d as [|d IH]; intros o Hk.
  - rewrite Nat.add_0_r. unfold pw. cbn. apply N.div_1_r.
  - rewrite pw_S. rewrite <- N.div_div by (try (pose proof (pw_pos d); lia); lia).
    assert (Hsplit : poff ds o (k + S d) = poff ds o (k + d) * 16 + nth (k + d) ds 0) by (replace (k + S d)%nat with (S (k + d)) by lia; apply poff_snoc; lia).
    assert (Hnth : nth (k + d) ds 0 < 16).
    { rewrite Forall_forall in Hds. apply Hds. apply nth_In. lia. }
    (* (a*16 + v) / pw d / 16: commute the two divisions *)
    rewrite N.div_div by (try (pose proof (pw_pos d); lia); lia). rewrite (N.mul_comm (pw d) 16). rewrite <- N.div_div by (try (pose proof (pw_pos d); lia); lia).
    rewrite Hsplit. rewrite N.div_add_l by lia. rewrite (N.div_small _ 16) by exact Hnth. rewrite N.add_0_r. apply IH. lia.
Qed.

Lemma invalidate_char : forall n t ds lvl o, Forall (fun d => d < 16) ds -> (n <= length ds)%nat -> o < pw lvl -> (lvl + n <= 8)%nat ->
  let t' := invalidate t ds lvl o n in
  (forall k, (k < n)%nat -> n_upd (get_node t' (lvl + k) (poff ds o k)) = false) /\
  (forall l' o', o' < 4294967296 -> (forall k, (k < n)%nat -> l' = (lvl + k)%nat -> o' <> poff ds o k) -> get_node t' l' o' = get_node t l' o').
Proof.
  induction n as [|n IH]; intros t ds lvl o Hds Hlen Ho Hl; cbv zeta.
  - destruct ds; cbn [invalidate]; (split; [intros k Hk; lia|auto]).
  - destruct ds as [|d ds]; [cbn [length] in Hlen; lia|]. cbn [invalidate].
    assert (Ho32 : o < 4294967296) by (pose proof (pw_le32 lvl ltac:(lia)); lia).
    set (t1 := set_node t lvl o (mkNode (n_count (get_node t lvl o)) (n_hash (get_node t lvl o)) false)).
    inversion Hds as [|? ? Hd Hds']; subst.
    destruct (IH t1 ds (S lvl) (o * 16 + d) Hds' ltac:(cbn [length] in Hlen; lia) ltac:(rewrite pw_S; lia) ltac:(lia)) as [I1 I2]. cbv zeta in I1, I2.
    split.
    + intros k Hk. destruct k as [|k].
      * rewrite Nat.add_0_r. change (poff (d :: ds) o 0) with o. rewrite I2; [unfold t1; now rewrite get_set_node_same|exact Ho32|]. intros k _ E. lia.
      * rewrite poff_S. replace (lvl + S k)%nat with (S lvl + k)%nat by lia. apply I1. lia.
    + intros l' o' Ho' Hnot. rewrite I2; [|exact Ho'|].
      * unfold t1. apply get_set_node_other; [exact Ho32|exact Ho'|]. intros E. injection E as E1 E2. apply (Hnot O ltac:(lia)); [lia|now symmetry].
      * intros k Hk E. specialize (Hnot (S k) ltac:(lia) ltac:(lia)). now rewrite poff_S in Hnot.
Qed.

(* ---- a change of one leaf (after invalidating its path) keeps the invariant ---- *)
Lemma vinv_leaf_change t khash t2 :
  VInv t -> (t_depth t <= 8)%nat -> t_height t2 = t_height t ->
  (forall l' o', (l' < t_height t - 1)%nat -> o' < 4294967296 -> get_node t2 l' o' = get_node (invalidate_path t khash) l' o') ->
  (forall o', o' < 4294967296 -> o' <> leaf_offset t khash -> get_node t2 (t_height t - 1) o' = get_node t (t_height t - 1) o') ->
  (forall o', o' < 4294967296 -> n_upd (get_node t2 (t_height t - 1) o') = true) ->
  VInv t2.
Proof.
  intros (Hh & HL & HV & HC) Hdep Hht Hinner Hleafs Hupd. split; [now rewrite Hht|]. split; [now rewrite Hht|].
  set (ds := skipn (t_depth t) (path_of_hash khash)).
  assert (Hds : Forall (fun d => d < 16) ds).
  { apply Forall_forall. intros d Hd. apply in_skipn in Hd. pose proof (path_digits_lt khash) as Hp. rewrite Forall_forall in Hp. now apply Hp. }
  assert (Hlen : (t_height t - 1 <= length ds)%nat) by (unfold ds; rewrite skipn_length; unfold path_of_hash; rewrite map_length; cbn [length]; lia).
  destruct (invalidate_char (t_height t - 1) t ds 0 0 Hds Hlen ltac:(unfold pw; cbn; lia) ltac:(lia)) as [C1 C2]. cbv zeta in C1, C2.
  change (invalidate t ds 0 0 (t_height t - 1)) with (invalidate_path t khash) in C1, C2.
  (* an updated inner node of t2 is off the path and was updated in t *)
  assert (Hoffpath : forall level offset, (level < t_height t - 1)%nat -> offset < pw level -> n_upd (get_node t2 level offset) = true ->
            offset <> poff ds 0 level /\ get_node t2 level offset = get_node t level offset).
  { intros level offset Hl Ho Hu.
    assert (Ho32 : offset < 4294967296) by (pose proof (pw_le32 level ltac:(lia)); lia).
    rewrite (Hinner level offset Hl Ho32) in Hu |- *.
    destruct (N.eq_dec offset (poff ds 0 level)) as [Eon|Hoff].
    - exfalso. specialize (C1 level Hl). cbn [Nat.add] in C1. rewrite <- Eon in C1. congruence.
    - split; [exact Hoff|]. apply C2; [exact Ho32|]. intros k Hk E. cbn [Nat.add] in E. subst k. exact Hoff. }
  rewrite Hht. split.
  - intros level offset Hl Ho Hu. cbv zeta. destruct (Hoffpath level offset Hl Ho Hu) as [Hoff Hsame].
    rewrite Hsame in Hu |- *. specialize (HV level offset Hl Ho Hu). cbv zeta in HV. rewrite HV.
    symmetry. apply sp_local. intros o' Ho'. replace (level + (t_height t - 1 - level))%nat with (t_height t - 1)%nat by lia.
    assert (Ho'32 : o' < 4294967296).
    { pose proof (pw_pos (t_height t - 1 - level)) as Hp. pose proof (N.mul_succ_div_gt o' (pw (t_height t - 1 - level)) ltac:(lia)) as Hgt.
      rewrite Ho' in Hgt. pose proof (pw_le32 (t_height t - 1) ltac:(lia)) as H32.
      assert (Hmul : pw (t_height t - 1) = pw level * pw (t_height t - 1 - level)).
      { unfold pw. rewrite <- N.pow_add_r. f_equal. lia. }
      nia. }
    apply Hleafs; [exact Ho'32|]. intros E. apply Hoff. rewrite <- Ho', E.
    change (leaf_offset t khash) with (poff ds 0 (t_height t - 1)).
    replace (t_height t - 1)%nat with (level + (t_height t - 1 - level))%nat at 1 by lia. apply poff_div; [exact Hds|lia].
  - intros level offset i Hl Ho Hi Hu. destruct (Hoffpath level offset Hl Ho Hu) as [Hoff Hsame]. rewrite Hsame in Hu.
    pose proof (HC level offset i Hl Ho Hi Hu) as Hct.
    assert (Hc32 : offset * 16 + i < 4294967296) by (pose proof (pw_le32 (S level) ltac:(lia)) as H32; rewrite pw_S in H32; lia).
    destruct (Nat.eq_dec (S level) (t_height t - 1)) as [El|Hnl]; [rewrite El; now apply Hupd|].
    rewrite (Hinner (S level) (offset * 16 + i) ltac:(lia) Hc32). rewrite C2; [exact Hct|exact Hc32|].
    intros k Hk E. cbn [Nat.add] in E. subst k. intros Eo. apply Hoff.
    rewrite (poff_snoc ds level 0 ltac:(lia)) in Eo.
    assert (Hnth : nth level ds 0 < 16) by (rewrite Forall_forall in Hds; apply Hds; apply nth_In; lia). lia.
Qed.

Lemma vinv_leaf_forms t khash l' ndo :
  VInv t -> (t_depth t <= 8)%nat ->
  let t1 := invalidate_path t khash in let lo := leaf_offset t khash in
  match ndo with Some nd' => n_upd nd' = true | None => True end ->
  VInv (match ndo with Some nd' => set_node (set_leaf t1 lo l') (t_height t - 1) lo nd' | None => set_leaf t1 lo l' end) /\ VInv t1.
Proof.
  intros HV Hdep. cbv zeta. intros Hnd. pose proof HV as (Hh & HL & _).
  destruct (invalidate_path_facts t khash Hh) as (P1 & P2 & P3 & P4). cbv zeta in P1, P2, P3, P4.
  set (t1 := invalidate_path t khash) in *. set (lo := leaf_offset t khash).
  assert (Hlo32 : lo < 4294967296) by (apply leaf_offset_lt; lia).
  split.
  - apply (vinv_leaf_change t khash); try assumption.
    + destruct ndo; cbn [set_node set_leaf t_height]; exact P3.
    + intros l0 o0 Hl0 Ho0. destruct ndo as [nd'|]; [rewrite get_node_set_level by (try assumption; lia)|]; reflexivity.
    + intros o0 Ho0 Hne. destruct ndo as [nd'|].
      * rewrite get_set_node_other by (try assumption; intros E; injection E as E; apply Hne; symmetry; exact E). change (get_node (set_leaf t1 lo l') (t_height t - 1) o0) with (get_node t1 (t_height t - 1) o0). now apply P4.
      * change (get_node (set_leaf t1 lo l') (t_height t - 1) o0) with (get_node t1 (t_height t - 1) o0). now apply P4.
    + intros o0 Ho0. destruct ndo as [nd'|].
      * destruct (N.eq_dec lo o0) as [<-|Hne]; [now rewrite get_set_node_same|].
        rewrite get_set_node_other by (try assumption; intros E; injection E as E; apply Hne; exact E). change (get_node (set_leaf t1 lo l') (t_height t - 1) o0) with (get_node t1 (t_height t - 1) o0). rewrite P4 by exact Ho0. now apply HL.
      * change (get_node (set_leaf t1 lo l') (t_height t - 1) o0) with (get_node t1 (t_height t - 1) o0). rewrite P4 by exact Ho0. now apply HL.
  - apply (vinv_leaf_change t khash); try assumption; [reflexivity|intros o0 Ho0 _; now apply P4|intros o0 Ho0; rewrite P4 by exact Ho0; now apply HL].
Qed.

Lemma tree_set_vinv t khash ver vh ck off : VInv t -> (t_depth t <= 8)%nat -> VInv (tree_set t khash ver vh ck off).
Proof.
  intros HV Hdep. pose proof HV as (Hh & HL & _). unfold tree_set.
  destruct (invalidate_path_facts t khash Hh) as (P1 & P2 & P3 & P4). cbv zeta in P1, P2, P3, P4.
  set (t1 := invalidate_path t khash) in *.
  destruct (same_shape_funs t t1 P2 P3) as [Hlo Hlow]. rewrite Hlo, Hlow, P3.
  assert (Hlo32 : leaf_offset t khash < 4294967296) by (apply leaf_offset_lt; lia).
  match goal with |- VInv (set_node (set_leaf t1 ?lo ?l') _ ?lo ?nd') => pose proof (vinv_leaf_forms t khash l' (Some nd') HV Hdep) as HF end.
  cbv zeta in HF. apply HF. cbn [n_upd]. rewrite P4 by exact Hlo32. now apply HL.
Qed.

Lemma tree_remove_vinv t khash ck off : VInv t -> (t_depth t <= 8)%nat -> VInv (tree_remove t khash ck off).
Proof.
  intros HV Hdep. pose proof HV as (Hh & HL & _). unfold tree_remove.
  destruct (invalidate_path_facts t khash Hh) as (P1 & P2 & P3 & P4). cbv zeta in P1, P2, P3, P4.
  pose proof (vinv_leaf_forms t khash [] None HV Hdep) as HV1. cbv zeta in HV1. specialize (HV1 I). destruct HV1 as [_ HV1].
  set (t1 := invalidate_path t khash) in *.
  destruct (same_shape_funs t t1 P2 P3) as [Hlo Hlow]. rewrite Hlo, Hlow, P3.
  assert (Hlo32 : leaf_offset t khash < 4294967296) by (apply leaf_offset_lt; lia).
  destruct (leaf_find _ _) as [o|]; [|exact HV1]. destruct (_ || _); [|exact HV1].
  destruct (0 <? ti_ver o)%Z.
  - match goal with |- VInv (set_node (set_leaf t1 ?lo ?l') _ ?lo ?nd') => pose proof (vinv_leaf_forms t khash l' (Some nd') HV Hdep) as HF end.
    cbv zeta in HF. apply HF. cbn [n_upd]. rewrite P4 by exact Hlo32. now apply HL.
  - match goal with |- VInv (set_leaf t1 ?lo ?l') => pose proof (vinv_leaf_forms t khash l' None HV Hdep) as HF end. cbv zeta in HF. apply HF. exact I.
Qed.

(* ---- histories: sets, removals and listings in any order ---- *)
Inductive hop := HTop (o : top) | HList (path : list N).
Definition apply_hop (t : htree) (o : hop) : htree :=
  match o with HTop o => apply_top t o | HList p => fst (list_dir t p) end.

Lemma new_tree_vinv d h : (1 <= h <= 8)%nat -> VInv (new_tree d h).
Proof.
  intros Hh. unfold VInv, get_node, new_tree, mget. cbn [t_inner t_height]. split; [exact Hh|].
  split; [intros o _; rewrite PM.gempty; cbn [node0 n_upd]; apply Nat.eqb_refl|]. split.
  - intros level offset Hl _ Hu. rewrite PM.gempty in Hu. cbn [node0 n_upd] in Hu. apply Nat.eqb_eq in Hu. lia.
  - intros level offset i Hl _ _ Hu. rewrite PM.gempty in Hu. cbn [node0 n_upd] in Hu. apply Nat.eqb_eq in Hu. lia.
Qed.

Definition dir_level (t : htree) (path : list N) : nat := Nat.min (t_depth t + t_height t - 1) (length path) - t_depth t.
Definition dir_offset (t : htree) (path : list N) : N := poff (skipn (t_depth t) path) 0 (dir_level t path).

Lemma dir_pos_ok t path : (1 <= t_height t <= 8)%nat -> Forall (fun d => d < 16) path ->
  (dir_level t path <= t_height t - 1)%nat /\ dir_offset t path < pw (dir_level t path).
Proof.
  intros Hh Hp. unfold dir_level, dir_offset. split; [lia|].
  assert (Hds : Forall (fun d => d < 16) (skipn (t_depth t) path)).
  { apply Forall_forall. intros d Hd. apply in_skipn in Hd. rewrite Forall_forall in Hp. now apply Hp. }
  apply (poff_lt _ Hds _ 0 0%nat); [unfold pw; cbn; lia|]. rewrite skipn_length. unfold dir_level. lia.
Qed.

Lemma list_dir_tree t path : fst (list_dir t path) = fst (update_nodes (t_height t) t (dir_level t path) (dir_offset t path)).
Proof.
  unfold list_dir, dir_level, dir_offset, poff. destruct (update_nodes _ _ _ _) as [t' nd]. cbn [fst]. destruct (_ || _); reflexivity.
Qed.

Lemma list_dir_vinv t path : VInv t -> Forall (fun d => d < 16) path -> VInv (fst (list_dir t path)) /\ same_leaf_level t (fst (list_dir t path)).
Proof.
  intros HV Hp. rewrite list_dir_tree. destruct (dir_pos_ok t path (proj1 HV) Hp) as [Hl Ho].
  destruct (update_nodes_spec t _ _ HV Hl Ho) as (_ & U2 & U3). auto.
Qed.

Section Hist.
Variable G : N -> N -> N.

Lemma sll_linv t t' : same_leaf_level t t' -> LInv G t -> LInv G t'.
Proof.
  intros (S1 & S2 & S3 & S4) [Hh HI]. split; [now rewrite S2|]. intros lo Hlo. specialize (HI lo Hlo). unfold leaf_ok in *.
  unfold get_leaf in *. rewrite S2, S3, S4. exact HI.
Qed.

Definition hop_ok (t0 : htree) (o : hop) : Prop :=
  match o with
  | HTop o => top_ok o /\ hi16 (top_hash o) = G (leaf_offset t0 (top_hash o)) (low_of t0 (top_hash o))
  | HList p => Forall (fun d => d < 16) p
  end.

Theorem hist_inv d h ops : (1 <= h <= 8)%nat -> (d <= 8)%nat ->
  (forall o, In o ops -> hop_ok (new_tree d h) o) ->
  let t := fold_left apply_hop ops (new_tree d h) in LInv G t /\ VInv t /\ t_depth t = d /\ t_height t = h.
Proof.
  intros Hh Hd Hops. cbv zeta.
  assert (H : forall l t, LInv G t -> VInv t -> t_depth t = d -> t_height t = h ->
              (forall o, In o l -> hop_ok (new_tree d h) o) ->
              LInv G (fold_left apply_hop l t) /\ VInv (fold_left apply_hop l t) /\ t_depth (fold_left apply_hop l t) = d /\ t_height (fold_left apply_hop l t) = h).
  { induction l as [|o l IH]; intros t HL HV Hdt Hht Hl; cbn [fold_left]; [auto|].
    pose proof (Hl o (or_introl eq_refl)) as Hok.
    assert (Hstep : LInv G (apply_hop t o) /\ VInv (apply_hop t o) /\ t_depth (apply_hop t o) = d /\ t_height (apply_hop t o) = h).
    { destruct o as [o|p]; cbn [apply_hop hop_ok] in *.
      - destruct Hok as [Hk Hc].
        assert (Hcons : consistent G t (top_hash o)).
        { unfold consistent. destruct (same_shape_funs (new_tree d h) t) as [E1 E2]; [cbn; congruence|cbn; congruence|]. now rewrite E1, E2. }
        destruct o; cbn [apply_top top_hash top_ok] in *.
        + destruct (tree_set_linv G t h0 ver vh ck off HL Hcons Hk) as (A1 & A2 & A3). split; [exact A1|]. split; [apply tree_set_vinv; [exact HV|lia]|]. split; congruence.
        + destruct (tree_remove_linv G t h0 ck off HL Hcons) as (A1 & A2 & A3). split; [exact A1|]. split; [apply tree_remove_vinv; [exact HV|lia]|]. split; congruence.
      - destruct (list_dir_vinv t p HV Hok) as [V1 V2]. split; [exact (sll_linv _ _ V2 HL)|]. split; [exact V1|].
        destruct V2 as (S1 & S2 & _). split; congruence. }
    destruct Hstep as (S1 & S2 & S3 & S4). apply IH; try assumption. intros o' Ho'. apply Hl. now right. }
  apply H; [now apply new_tree_linv|now apply new_tree_vinv|reflexivity|reflexivity|exact Hops].
Qed.
End Hist.

(* ---- what a listing returns ---- *)
(* the root summary and the 16 child summaries that a node-level listing reports are the specification values *)
Theorem tree_update_spec t : VInv t -> pr (snd (tree_update t)) = sp (t_height t - 1) t 0 0.
Proof.
  intros HV. unfold tree_update. destruct (update_nodes_spec t 0 0 HV ltac:(lia) ltac:(unfold pw; cbn; lia)) as (U1 & _). cbv zeta in U1.
  now rewrite Nat.sub_0_r in U1.
Qed.

Theorem list_dir_nodes_spec t path ns : VInv t -> Forall (fun d => d < 16) path -> snd (list_dir t path) = LNodes ns ->
  (dir_level t path < t_height t - 1)%nat /\
  ns = map (fun i => let c := sp (t_height t - 1 - S (dir_level t path)) t (S (dir_level t path)) (dir_offset t path * 16 + i) in (snd c, fst c)) idx16.
Proof.
  intros HV Hp Hl. destruct (dir_pos_ok t path (proj1 HV) Hp) as [Hlv Ho].
  unfold list_dir in Hl. fold (dir_level t path) in Hl. change (fold_left (fun o v => o * 16 + v) (firstn (dir_level t path) (skipn (t_depth t) path)) 0) with (dir_offset t path) in Hl.
  set (level := dir_level t path) in *. set (offset := dir_offset t path) in *.
  destruct (un_ok_all (t_height t) t level offset (t_height t - 1 - level)%nat HV ltac:(lia) ltac:(lia) Ho) as (U1 & U2 & U3 & U4 & U5 & U6).
  cbv zeta in U1, U2, U3, U4, U5, U6. destruct (update_nodes (t_height t) t level offset) as [t' nd]. cbn [fst snd] in *.
  destruct (Nat.leb (t_height t - 1) level) eqn:El; cbn [orb] in Hl; [discriminate|]. apply Nat.leb_gt in El.
  destruct (n_count nd <? threshold_list_key); [discriminate|]. split; [exact El|].
  assert (Hix : forall i, In i idx16 -> i < 16) by apply idx16_lt. set (ix := idx16) in *. clearbody ix.
  injection Hl as <-. apply map_ext_in. intros i Hi. pose proof (Hix i Hi) as Hi16. cbv zeta.
  (* the child is updated in t' (its parent is), so it holds its specification *)
  destruct U3 as (Hh' & HL' & HV' & HC'). assert (Hht : t_height t' = t_height t) by apply U4. rewrite Hht in *.
  assert (Hcu : n_upd (get_node t' (S level) (offset * 16 + i)) = true) by (apply HC'; [exact El|exact Ho|exact Hi16|rewrite U5; exact U2]).
  assert (Hoc : offset * 16 + i < pw (S level)) by (rewrite pw_S; lia).
  destruct (Nat.eq_dec (S level) (t_height t - 1)) as [Elf|Hnlf].
  - replace (t_height t - 1 - S level)%nat with O by lia. cbn [sp fst snd]. rewrite Elf. rewrite (proj2 (proj2 (proj2 U4))). reflexivity.
  - specialize (HV' (S level) (offset * 16 + i) ltac:(lia) Hoc Hcu). cbv zeta in HV'.
    rewrite (sll_sp t t' (S level) _ _ U4) in HV' by lia. rewrite <- HV'. reflexivity.
Qed.

(* the specification is a function of the leaf-level summaries only, hence (with C08_leaf_history_independent) of the
   leaf CONTENTS only: two trees of the same shape whose leaves hold the same items report the same summaries everywhere *)
Theorem sp_history_independent G t t' : LInv G t -> LInv G t' -> t_height t' = t_height t ->
  (forall lo, Permutation (get_leaf t lo) (get_leaf t' lo)) ->
  forall level d offset, (level + d = t_height t - 1)%nat -> offset < pw level -> sp d t level offset = sp d t' level offset.
Proof.
  intros HL HL' Hht Hperm level d. revert level. induction d as [|d IH]; intros level offset Hd Ho.
  - cbn [sp]. replace level with (t_height t - 1)%nat by lia.
    assert (Ho32 : offset < 4294967296) by (pose proof (pw_le32 level ltac:(destruct HL; lia)); lia).
    destruct (leaf_history_independent G t t' HL HL' Hht Hperm offset Ho32) as [E1 E2]. rewrite Hht in E1, E2. now rewrite E1, E2.
  - cbn [sp]. assert (E : map (fun i => sp d t (S level) (offset * 16 + i)) idx16 = map (fun i => sp d t' (S level) (offset * 16 + i)) idx16).
    { apply map_ext_in. intros i Hi. apply IH; [lia|]. rewrite pw_S. pose proof (idx16_lt i Hi). lia. }
    now rewrite E.
Qed.

Theorem node_listing_history_independent G t t' path ns ns' :
  LInv G t -> LInv G t' -> VInv t -> VInv t' -> t_depth t' = t_depth t -> t_height t' = t_height t ->
  (forall lo, Permutation (get_leaf t lo) (get_leaf t' lo)) -> Forall (fun d => d < 16) path ->
  (snd (list_dir t path) = LNodes ns -> snd (list_dir t' path) = LNodes ns' -> ns = ns') /\
  pr (snd (tree_update t)) = pr (snd (tree_update t')).
Proof.
  intros HL HL' HV HV' Hd Hh Hperm Hp. split.
  - intros H1 H2. destruct (list_dir_nodes_spec t path ns HV Hp H1) as [L1 ->]. destruct (list_dir_nodes_spec t' path ns' HV' Hp H2) as [L2 ->].
    assert (El : dir_level t' path = dir_level t path) by (unfold dir_level; now rewrite Hd, Hh).
    assert (Eo : dir_offset t' path = dir_offset t path) by (unfold dir_offset; now rewrite El, Hd).
    rewrite El, Eo, Hh. apply map_ext_in. intros i Hi. cbv zeta.
    destruct (dir_pos_ok t path (proj1 HV) Hp) as [_ Ho].
    rewrite (sp_history_independent G t t' HL HL' Hh Hperm (S (dir_level t path)) (t_height t - 1 - S (dir_level t path)) (dir_offset t path * 16 + i)); [reflexivity|lia|].
    rewrite pw_S. pose proof (idx16_lt i Hi). lia.
  - rewrite (tree_update_spec t HV), (tree_update_spec t' HV'). rewrite Hh.
    apply (sp_history_independent G t t' HL HL' Hh Hperm 0 (t_height t - 1) 0); [lia|unfold pw; cbn; lia].
Qed.
