(* Basic lemmas about the L2 bucket model: tables, layout of chunks, reads. *)
From Coq Require Import NArith ZArith List Bool Lia ZifyN ZifyNat ZifyBool FMapPositive.
From GB Require Import Consts Words Hash HintFile HTree Compress Bucket Bits.
Import ListNotations.
Open Scope N_scope.

(* ------------------------------------------------------------- tables *)
Lemma nth_updd_same {A} (d : A) l i x : nth i (updd d l i x) d = x.
Proof.
  revert l. induction i as [|i IH]; intros [|y t]; cbn [updd nth]; try reflexivity; apply IH.
Qed.

Lemma nth_updd_other {A} (d : A) l i j x : i <> j -> nth j (updd d l i x) d = nth j l d.
Proof.
  revert l j. induction i as [|i IH]; intros [|y t] [|j] Hne; cbn [updd nth]; try reflexivity; try congruence.
  - destruct j; reflexivity.
  - rewrite IH by congruence. destruct j; reflexivity.
  - apply IH. congruence.
Qed.

Lemma chunk_at_set_same b c k : chunk_at (set_chunk b c k) c = k.
Proof. unfold chunk_at, set_chunk, set_chunks. cbn [b_chunks]. apply nth_updd_same. Qed.
Lemma chunk_at_set_other b c c' k : c <> c' -> chunk_at (set_chunk b c k) c' = chunk_at b c'.
Proof. intros H. unfold chunk_at, set_chunk, set_chunks. cbn [b_chunks]. now apply nth_updd_other. Qed.

(* ------------------------------------------------------------- bytes *)
Lemma bytes_eqb_eq a b : bytes_eqb a b = true <-> a = b.
Proof. unfold bytes_eqb. destruct (list_eq_dec N.eq_dec a b); split; congruence. Qed.
Lemma bytes_eqb_refl a : bytes_eqb a a = true.
Proof. now apply bytes_eqb_eq. Qed.

(* ------------------------------------------------------------- find_off *)
Lemma find_off_app l1 l2 off :
  find_off (l1 ++ l2) off = match find_off l1 off with Some r => Some r | None => find_off l2 off end.
Proof.
  induction l1 as [|[o r] t IH]; cbn [app find_off]; [reflexivity|].
  destruct (o =? off); [reflexivity|exact IH].
Qed.

Lemma find_off_none l off : (forall o r, In (o, r) l -> o <> off) -> find_off l off = None.
Proof.
  induction l as [|[o r] t IH]; intros H; cbn [find_off]; [reflexivity|].
  destruct (N.eqb_spec o off) as [->|_].
  - exfalso. apply (H off r); [left; reflexivity|reflexivity].
  - apply IH. intros o' r' Hin. apply (H o' r'). right; exact Hin.
Qed.

Lemma find_off_in l off r : find_off l off = Some r -> In (off, r) l.
Proof.
  induction l as [|[o r'] t IH]; cbn [find_off]; [discriminate|].
  destruct (N.eqb_spec o off) as [->|_]; intros H.
  - injection H as ->. left; reflexivity.
  - right. now apply IH.
Qed.

(* ------------------------------------------------------------- chunk layout *)
Definition wstart (k : chunk) : N := match k_wbuf k with (o, _) :: _ => o | [] => k_whead k end.

Definition chunk_ok (k : chunk) : Prop :=
  (forall o r, In (o, r) (k_disk k) -> o < wstart k) /\
  (forall o r, In (o, r) (k_wbuf k) -> wstart k <= o /\ o < k_whead k) /\
  (k_exists k = false -> k_disk k = []) /\
  wstart k <= k_whead k.

Definition all_recs (k : chunk) : list (N * drec) := k_disk k ++ k_wbuf k.

Definition rd_rec (x : rdres) : option drec := match x with RRec r _ => Some r | _ => None end.
Definition rd_ok (x : rdres) : bool := match x with RRec _ _ => true | _ => false end.

Lemma chunk_read_spec k off : chunk_ok k ->
  rd_rec (chunk_read k off) = find_off (all_recs k) off /\
  (rd_ok (chunk_read k off) = false -> chunk_read k off = RFail).
Proof.
  intros (Hd & Hw & He & Hle). unfold chunk_read, all_recs, wstart in *. rewrite find_off_app.
  assert (Hdisk : forall x, x = (if k_exists k then match find_off (k_disk k) off with Some r => RRec r false | None => RFail end else RFail) ->
                  rd_rec x = find_off (k_disk k) off /\ (rd_ok x = false -> x = RFail)).
  { intros x ->. destruct (k_exists k) eqn:Ee.
    - destruct (find_off (k_disk k) off); cbn; split; auto; discriminate.
    - rewrite (He eq_refl). cbn. split; auto. }
  destruct (k_wbuf k) as [|[o0 r0] wt] eqn:Ew.
  - destruct (Hdisk _ eq_refl) as [H1 H2]. rewrite H1. cbn [find_off].
    split; [now destruct (find_off (k_disk k) off)|exact H2].
  - destruct ((off <? o0) || (k_whead k <=? off)) eqn:Eout.
    + assert (Hnw : find_off ((o0, r0) :: wt) off = None).
      { apply find_off_none. intros o r Hin Heq. subst o. destruct (Hw off r Hin) as [H1 H2].
        apply orb_prop in Eout as [E|E]; [apply N.ltb_lt in E|apply N.leb_le in E]; lia. }
      rewrite Hnw. destruct (Hdisk _ eq_refl) as [H1 H2]. rewrite H1.
      split; [now destruct (find_off (k_disk k) off)|exact H2].
    + apply orb_false_elim in Eout as [E1 E2]. apply N.ltb_ge in E1.
      assert (Hnd : find_off (k_disk k) off = None).
      { apply find_off_none. intros o r Hin Heq. subst o. specialize (Hd off r Hin). lia. }
      rewrite Hnd. destruct (find_off ((o0, r0) :: wt) off); cbn; split; auto; discriminate.
Qed.

Lemma chunk0_ok : chunk_ok chunk0.
Proof. repeat split; cbn; intros; try contradiction; try reflexivity; lia. Qed.

Lemma dsize_pos r : 0 < dsize r.
Proof.
  unfold dsize, padded. change sizes_header with 24.
  set (n := 24 + lenN (d_key r) + d_slen r). assert (24 <= n) by lia. clearbody n.
  zify; Z.div_mod_to_equations; lia.
Qed.

(* appending at writingHead *)
Definition chunk_append (k : chunk) (r : drec) : chunk :=
  mkChunk (k_exists k) (k_disk k) (k_fsize k) (k_wbuf k ++ [(k_whead k, r)]) (k_whead k + dsize r) (k_whead k + dsize r) (k_rewriting k).

Lemma chunk_append_ok k r : chunk_ok k -> chunk_ok (chunk_append k r).
Proof.
  intros (Hd & Hw & He & Hle). pose proof (dsize_pos r) as Hp.
  unfold chunk_ok, chunk_append, wstart in *. cbn [k_disk k_wbuf k_whead k_exists].
  destruct (k_wbuf k) as [|[o0 r0] wt] eqn:Ew; cbn [app].
  - split; [exact Hd|]. split; [|split; [exact He|lia]].
    intros o r' [H|[]]. injection H as <- <-. lia.
  - split; [exact Hd|]. split; [|split; [exact He|lia]].
    intros o r' [H|H].
    + injection H as <- <-. destruct (Hw o0 r0 (or_introl eq_refl)). lia.
    + apply in_app_or in H as [H|[H|[]]].
      * destruct (Hw o r' (or_intror H)). lia.
      * injection H as <- <-. lia.
Qed.

Lemma chunk_append_find k r off : chunk_ok k ->
  find_off (all_recs (chunk_append k r)) off =
  match find_off (all_recs k) off with Some x => Some x | None => if k_whead k =? off then Some r else None end.
Proof.
  intros _. unfold all_recs, chunk_append. cbn [k_disk k_wbuf].
  rewrite app_assoc, find_off_app. cbn [find_off]. reflexivity.
Qed.

Lemma all_recs_lt_whead k o r : chunk_ok k -> In (o, r) (all_recs k) -> o < k_whead k.
Proof.
  intros (Hd & Hw & _ & Hle) Hin. apply in_app_or in Hin as [H|H].
  - specialize (Hd o r H). lia.
  - destruct (Hw o r H). lia.
Qed.

Lemma find_whead_none k : chunk_ok k -> find_off (all_recs k) (k_whead k) = None.
Proof.
  intros Hok. apply find_off_none. intros o r Hin Heq. subst o.
  pose proof (all_recs_lt_whead k _ r Hok Hin). lia.
Qed.

(* flushing a chunk keeps every record readable at its offset *)
Definition chunk_flush (k : chunk) : chunk :=
  mkChunk true (k_disk k ++ k_wbuf k) (k_whead k) [] (k_whead k) (k_size k) (k_rewriting k).

Lemma chunk_flush_ok k : chunk_ok k -> chunk_ok (chunk_flush k).
Proof.
  intros Hok. pose proof Hok as (Hd & Hw & He & Hle).
  unfold chunk_ok, chunk_flush, wstart. cbn [k_disk k_wbuf k_whead k_exists].
  split; [|split; [|split; [discriminate|lia]]].
  - intros o r Hin. apply (all_recs_lt_whead k o r Hok Hin).
  - intros o r [].
Qed.

Lemma chunk_flush_recs k : all_recs (chunk_flush k) = all_recs k.
Proof. unfold all_recs, chunk_flush. cbn [k_disk k_wbuf]. now rewrite app_nil_r. Qed.
