(* GC with hint merge (merge = true): on a key set without hash collisions the merge finds no collision, so the
   pass is the pass without merge started on a bucket with the same data, tree and (empty) collision table. *)
From Coq Require Import NArith ZArith List Bool Lia ZifyN ZifyNat ZifyBool Sorting.Sorted.
From GB Require Import Consts Words Hash HintFile HTree Compress Bucket BucketOpen Gc CheckL2 RefMap
     BucketBasics Refine GcTouch CollideProofs Restart1 Restart2 GcView.
Import ListNotations.
Open Scope N_scope.

(* ---- the k-way merge only ever yields items of its sources ---- *)
Lemma min_head_in srcs x : min_head srcs = Some x -> In x (concat srcs).
Proof.
  revert x. induction srcs as [|l t IH]; intros x H; cbn [min_head] in H; [discriminate|].
  destruct l as [|y r]; cbn [concat app]; [now apply IH|].
  destruct (min_head t) as [z|] eqn:E.
  - destruct (merge_ltb z y); injection H as <-; [right; apply in_or_app; right; now apply IH|now left].
  - injection H as <-. now left.
Qed.

Lemma pop_item_in x srcs y : In y (concat (pop_item x srcs)) -> In y (concat srcs).
Proof.
  induction srcs as [|l t IH]; cbn [pop_item]; [auto|]. destruct l as [|z r]; cbn [concat app].
  - exact IH.
  - destruct (negb (merge_ltb x z) && negb (merge_ltb z x)); cbn [concat app]; intros H.
    + right. exact H.
    + destruct H as [H|H]; [now left|]. apply in_app_or in H as [H|H]; [right; apply in_or_app; now left|].
      right. apply in_or_app. right. now apply IH.
Qed.

Lemma kway_in fuel : forall srcs y, In y (kway fuel srcs) -> In y (concat srcs).
Proof.
  induction fuel as [|f IH]; intros srcs y H; cbn [kway] in H; [destruct H|].
  destruct (min_head srcs) as [x|] eqn:E; [|destruct H]. destruct H as [<-|H]; [now apply min_head_in|].
  apply (pop_item_in x). now apply IH.
Qed.

Section GM.
Variable cf : cfg.
Variable hf : bytes -> N.
Variable K : list bytes.
Hypothesis hf_inj : forall k1 k2, In k1 K -> In k2 K -> hf k1 = hf k2 -> k1 = k2.

Let ok (it : hitem) : Prop := item_ok hf K it.

(* ---- groups of equal hash are singletons ---- *)
Lemma mw_groups_single : forall l cur, Forall ok l -> Forall ok cur -> (length cur <= 1)%nat ->
  Forall (fun g => (length g <= 1)%nat) (mw_groups l cur).
Proof.
  induction l as [|it t IH]; intros cur Hl Hc Hlen; cbn [mw_groups].
  - destruct cur as [|a [|? ?]]; [constructor|constructor; [cbn; lia|constructor]|cbn [length] in Hlen; lia].
  - inversion Hl as [|? ? Hit Ht]; subst. destruct cur as [|last cur']; [apply IH; [exact Ht|now constructor|cbn; lia]|].
    destruct cur' as [|? ?]; [|cbn [length] in Hlen; lia].
    destruct (negb (hi_hash last =? hi_hash it)) eqn:Eh.
    + constructor; [cbn; lia|]. apply IH; [exact Ht|now constructor|cbn; lia].
    + destruct (negb (bytes_eqb (hi_key last) (hi_key it))) eqn:Ek.
      * exfalso. apply negb_false_iff, N.eqb_eq in Eh. apply negb_true_iff in Ek.
        inversion Hc as [|? ? [Hk1 Hh1] _]; subst. destruct Hit as [Hk2 Hh2].
        assert (hi_key last = hi_key it) by (apply hf_inj; [exact Hk1|exact Hk2|congruence]).
        rewrite H in Ek. now rewrite bytes_eqb_refl in Ek.
      * apply IH; [exact Ht|now constructor|cbn; lia].
Qed.

Lemma fold_groups_single (groups : list (list hitem)) (ct : ctab) :
  Forall (fun g => (length g <= 1)%nat) groups ->
  fold_left (fun t g => match g with _ :: _ :: _ => fold_left ct_set g t | _ => t end) groups ct = ct.
Proof.
  revert ct. induction groups as [|g gs IH]; intros ct H; cbn [fold_left]; [reflexivity|].
  inversion H as [|? ? Hg Hgs]; subst. destruct g as [|a [|b r]]; [now apply IH|now apply IH|cbn [length] in Hg; lia].
Qed.

Lemma tag_chunk_ok ck l : Forall ok l -> Forall ok (tag_chunk ck l).
Proof. intros H. unfold tag_chunk. apply Forall_forall. intros x Hx. apply in_map_iff in Hx as (y & <- & Hy). rewrite Forall_forall in H. exact (H y Hy). Qed.

Lemma hint_merge_no_collision srcs ct :
  (forall s, In s srcs -> Forall ok (snd (fst s))) -> snd (hint_merge srcs ct) = ct.
Proof.
  intros Hs. unfold hint_merge. cbn [snd]. apply fold_groups_single. apply mw_groups_single; [|constructor|cbn; lia].
  apply Forall_forall. intros y Hy. apply kway_in in Hy. apply in_concat in Hy as (l & Hl & Hy).
  apply in_map_iff in Hl as (s & <- & Hin). pose proof (tag_chunk_ok (fst (fst s)) _ (Hs s Hin)) as Hok.
  rewrite Forall_forall in Hok. exact (Hok y Hy).
Qed.

(* ---- every item of every hint file is an item of its chunk's buffers ---- *)
Lemma all_hint_files_ok b : IOK hf K b -> forall s, In s (all_hint_files b) -> Forall ok (snd (fst s)).
Proof.
  intros Hi s Hs. unfold all_hint_files in Hs. apply in_concat in Hs as (l & Hl & Hs).
  apply in_map_iff in Hl as ([c hc] & <- & Hin). apply in_map_iff in Hs as (sp & <- & Hsp). cbn [fst snd].
  apply filter_In in Hsp as [Hsp _]. apply Forall_forall. intros it Hit.
  apply (Hi c it). unfold hint_items, items_of, hchunk_at.
  assert (Hnth : nth c (b_hints b) hchunk0 = hc).
  { clear -Hin. set (l := b_hints b) in *. assert (G : forall (l : list hchunk) s, In (c, hc) (combine (seq s (length l)) l) -> nth (c - s) l hchunk0 = hc /\ (s <= c)%nat).
    { clear. induction l as [|x l IH]; intros s H; cbn [length seq combine] in H; [destruct H|]. destruct H as [H|H].
      - injection H as <- <-. rewrite Nat.sub_diag. split; [reflexivity|lia].
      - destruct (IH (S s) H) as [H1 H2]. split; [|lia]. replace (c - s)%nat with (S (c - S s)) by lia. exact H1. }
    destruct (G l 0%nat Hin) as [G1 _]. now rewrite Nat.sub_0_r in G1. }
  rewrite Hnth. apply in_concat. exists (sp_items sp). split; [apply in_map; exact Hsp|exact Hit].
Qed.

Lemma iok_force_rotate b : IOK hf K b -> IOK hf K (force_rotate b).
Proof.
  intros Hi c y Hy. unfold force_rotate, hint_items in Hy. rewrite (hchunk_at_updd b _ (b_hmax b) c _ _ _ eq_refl) in Hy.
  destruct (Nat.eqb_spec (b_hmax b) c) as [<-|Hne]; [|now apply (Hi c)].
  cbn [hc_splits] in Hy. rewrite items_of_app in Hy. apply in_app_or in Hy as [Hy|Hy]; [now apply (Hi (b_hmax b))|].
  unfold items_of in Hy. cbn in Hy. destruct Hy.
Qed.

Lemma iok_trydump_all l : forall b, IOK hf K b -> IOK hf K (fold_left (fun bb i => trydump bb i false) l b).
Proof. induction l as [|i l IH]; intros b Hi; cbn [fold_left]; [exact Hi|]. apply IH. now apply iok_trydump. Qed.

Lemma force_rotate_core b : core (force_rotate b) = core b.
Proof. reflexivity. Qed.

(* ---- before_bucket with merge: same data, same tree, still no collision entry, hint items still well-formed ---- *)
Lemma before_bucket_merge b : IOK hf K b -> b_ctab b = [] ->
  core (before_bucket cf b true) = core b /\ IOK hf K (before_bucket cf b true).
Proof.
  intros Hi Hct. unfold before_bucket.
  set (b' := fold_left (fun bb i => trydump bb i false) (seq 0 NCH) (force_rotate b)).
  assert (Hcore' : core b' = core b) by (unfold b'; rewrite trydump_all_core; apply force_rotate_core).
  assert (Hi' : IOK hf K b') by (unfold b'; apply iok_trydump_all; now apply iok_force_rotate).
  assert (Hct' : b_ctab b' = []) by (rewrite (core_ctab _ _ Hcore'); exact Hct).
  pose proof (hint_merge_no_collision (all_hint_files b') (b_ctab b') (all_hint_files_ok b' Hi')) as Hm.
  destruct (hint_merge (all_hint_files b') (b_ctab b')) as [[items ds] ct]. cbn [snd] in Hm. subst ct. rewrite Hct'.
  split.
  - rewrite <- Hcore'. unfold core at 2. rewrite Hct'. reflexivity.
  - apply (iok_hints_same hf K b'); [reflexivity|exact Hi'].
Qed.

(* the pass with merge IS the pass without merge started after the merge *)
Lemma bb_false_def x : before_bucket cf x false = set_treefiles (remove_merged x) [] (O, 0%Z).
Proof. reflexivity. Qed.
Lemma bb_idem_aux bb ct id :
  set_treefiles (remove_merged (set_treefiles (set_merge_state bb ct id) [] (O, 0%Z))) [] (O, 0%Z) = set_treefiles (set_merge_state bb ct id) [] (O, 0%Z).
Proof. reflexivity. Qed.
Lemma bb_true_def b : exists bb ct id, before_bucket cf b true = set_treefiles (set_merge_state bb ct id) [] (O, 0%Z).
Proof.
  unfold before_bucket. set (b' := fold_left _ (seq 0 NCH) (force_rotate b)).
  destruct (hint_merge (all_hint_files b') (b_ctab b')) as [[items ds] ct]. now exists b', ct, (max_hint_id b').
Qed.

Lemma gc_pass_merge_eq b x y : gc_pass cf hf b x y true = gc_pass cf hf (before_bucket cf b true) x y false.
Proof.
  assert (E : before_bucket cf (before_bucket cf b true) false = before_bucket cf b true).
  { rewrite bb_false_def. destruct (bb_true_def b) as (bb & ct & id & ->). apply bb_idem_aux. }
  unfold gc_pass. rewrite E. reflexivity.
Qed.
Lemma bb_merge_idem b : before_bucket cf (before_bucket cf b true) false = before_bucket cf b true.
Proof. rewrite bb_false_def. destruct (bb_true_def b) as (bb & ct & id & ->). apply bb_idem_aux. Qed.

Hypothesis cap_pos : 0 < c_splitcap cf.

Lemma merge_start b m : Rel hf K b m -> GPre cf hf K b ->
  let bm := before_bucket cf b true in
  Rel hf K bm m /\ GPre cf hf K bm /\ b_head bm = b_head b /\ (forall c, chunk_at bm c = chunk_at b c) /\ (forall h, tree_get_slot bm h = tree_get_slot b h).
Proof.
  intros HR (P2 & P3 & P4). cbv zeta. pose proof HR as [((_ & _) & Hct & _) _].
  destruct (before_bucket_merge b P4 Hct) as [Hcore Hi].
  assert (Hch : forall c, chunk_at (before_bucket cf b true) c = chunk_at b c) by (intros c; apply core_chunk_at; exact Hcore).
  assert (Hh : b_head (before_bucket cf b true) = b_head b) by (apply core_head; exact Hcore).
  split; [apply (Rel_core hf K b _ m (eq_sym Hcore) HR)|]. split; [|split; [exact Hh|split; [exact Hch|intros h; apply core_tree; exact Hcore]]].
  split; [|split; [|exact Hi]].
  - intros c Hc. rewrite Hh in Hc. rewrite Hch. apply (P2 c Hc).
  - intros c e Hc He. rewrite Hh in Hc. rewrite Hch in He. apply (P3 c e Hc He).
Qed.

(* C03 for either value of the merge flag *)
Theorem gc_pass_view_any b m begin_ end_ merge :
  Rel hf K b m -> GPre cf hf K b -> (begin_ <= end_ < b_head b)%nat ->
  let b' := fst (gc_pass cf hf b begin_ end_ merge) in
  Rel hf K b' m /\ GPre cf hf K b' /\ b_head b' = b_head b.
Proof.
  intros HR HP Hrange. cbv zeta. destruct merge; [|apply (gc_pass_again_ok cf hf K hf_inj cap_pos b m begin_ end_ HR HP Hrange)].
  destruct (merge_start b m HR HP) as (HRm & HPm & Hh & _). cbv zeta in *. rewrite gc_pass_merge_eq.
  destruct (gc_pass_again_ok cf hf K hf_inj cap_pos _ m begin_ end_ HRm HPm ltac:(lia)) as (A1 & A2 & A3). cbv zeta in *.
  split; [exact A1|]. split; [exact A2|congruence].
Qed.

Definition gc_passes_m (b : bucket) (ranges : list (nat * nat * bool)) : bucket :=
  fold_left (fun bb r => fst (gc_pass cf hf bb (fst (fst r)) (snd (fst r)) (snd r))) ranges b.

Corollary gc_passes_view_any : forall ranges b m,
  Rel hf K b m -> GPre cf hf K b -> Forall (fun r => (fst (fst r) <= snd (fst r) < b_head b)%nat) ranges ->
  Rel hf K (gc_passes_m b ranges) m /\ GPre cf hf K (gc_passes_m b ranges) /\ b_head (gc_passes_m b ranges) = b_head b.
Proof.
  induction ranges as [|[[x y] mg] rs IH]; intros b m HR HP Hall; unfold gc_passes_m; cbn [fold_left]; [split; [exact HR|split; [exact HP|reflexivity]]|].
  inversion Hall as [|? ? Hxy Hrest]; subst. cbn [fst snd] in Hxy |- *.
  destruct (gc_pass_view_any b m x y mg HR HP Hxy) as (HR' & HP' & Hh'). cbv zeta in HR', HP', Hh'.
  destruct (IH (fst (gc_pass cf hf b x y mg)) m HR' HP') as (I1 & I2 & I3).
  { eapply Forall_impl; [|exact Hrest]. cbv beta. intros r Hr. rewrite Hh'. exact Hr. }
  unfold gc_passes_m in I1, I2, I3. split; [exact I1|]. split; [exact I2|]. rewrite I3. exact Hh'.
Qed.

(* C18 for either value of the merge flag: the files of the range hold only current records, each indexed key once *)
Theorem gc_pass_range_files_any b m begin_ end_ merge :
  Rel hf K b m -> GPre cf hf K b -> (begin_ <= end_ < b_head b)%nat ->
  let b' := fst (gc_pass cf hf b begin_ end_ merge) in
  forall c e, (begin_ <= c <= end_)%nat -> In e (k_disk (chunk_at b' c)) ->
    cur_or_tomb hf begin_ b' c e /\ find_off (k_disk (chunk_at b' c)) (fst e) = Some (snd e).
Proof.
  intros HR HP Hrange. destruct merge; [|apply (gc_pass_range_files cf hf K hf_inj cap_pos b m begin_ end_ HR HP Hrange)].
  destruct (merge_start b m HR HP) as (HRm & HPm & Hh & _). cbv zeta in *. rewrite gc_pass_merge_eq.
  apply (gc_pass_range_files cf hf K hf_inj cap_pos _ m begin_ end_ HRm HPm). lia.
Qed.

Theorem gc_pass_range_once_any b m begin_ end_ merge :
  Rel hf K b m -> GPre cf hf K b -> (begin_ <= end_ < b_head b)%nat ->
  let b' := fst (gc_pass cf hf b begin_ end_ merge) in
  forall c1 e1 c2 e2, (begin_ <= c1 <= end_)%nat -> (begin_ <= c2 <= end_)%nat ->
    In e1 (k_disk (chunk_at b' c1)) -> In e2 (k_disk (chunk_at b' c2)) -> d_key (snd e1) = d_key (snd e2) ->
    tree_get_slot b' (hf (d_key (snd e1))) <> None -> c1 = c2 /\ e1 = e2.
Proof.
  intros HR HP Hrange. destruct merge; [|apply (gc_pass_range_once cf hf K hf_inj cap_pos b m begin_ end_ HR HP Hrange)].
  destruct (merge_start b m HR HP) as (HRm & HPm & Hh & _). cbv zeta in *. rewrite gc_pass_merge_eq.
  apply (gc_pass_range_once cf hf K hf_inj cap_pos _ m begin_ end_ HRm HPm). lia.
Qed.

(* C17 for either flag: nothing outside [dst0, end] is touched *)
Theorem gc_pass_touches_range_any b m begin_ end_ merge :
  Rel hf K b m -> GPre cf hf K b -> (begin_ <= end_ < b_head b)%nat ->
  let dst0 := pick_dst cf (before_bucket cf b merge) begin_ begin_ in
  (dst0 <= begin_)%nat /\ (forall c, (dst0 < c < begin_)%nat -> k_disk (chunk_at b c) = []) /\
  untouched (fun c => (dst0 <= c <= end_)%nat) b (fst (gc_pass cf hf b begin_ end_ merge)).
Proof.
  intros HR HP Hrange. destruct merge; [|apply (gc_pass_touches_range cf hf K hf_inj cap_pos b m begin_ end_ HR HP Hrange)].
  destruct (merge_start b m HR HP) as (HRm & HPm & Hh & Hch & _). cbv zeta in *. rewrite gc_pass_merge_eq.
  destruct (gc_pass_touches_range cf hf K hf_inj cap_pos _ m begin_ end_ HRm HPm ltac:(lia)) as (T1 & T2 & [T3 T4]). cbv zeta in T1, T2, T3, T4.
  rewrite bb_merge_idem in T1, T2, T4.
  split; [exact T1|]. split; [intros c Hc; rewrite <- Hch; now apply T2|].
  split; [congruence|]. intros c Hc. rewrite (T4 c Hc). apply Hch.
Qed.

(* the same pass again, with any merge flags *)
Theorem gc_pass_twice_any b m begin_ end_ m1 m2 :
  Rel hf K b m -> GPre cf hf K b -> (begin_ <= end_ < b_head b)%nat ->
  let b' := fst (gc_pass cf hf b begin_ end_ m1) in
  let gs := snd (gc_pass cf hf b' begin_ end_ m2) in
  g_released gs = 0 /\ g_size_released gs = 0.
Proof.
  intros HR HP Hrange. cbv zeta.
  (* the second pass meets only current records whatever happened to the hint files in between; reduce both passes to merge = false *)
  assert (Hred : forall bb, Rel hf K bb m -> GPre cf hf K bb -> (begin_ <= end_ < b_head bb)%nat ->
            let b' := fst (gc_pass cf hf bb begin_ end_ false) in
            forall mg, g_released (snd (gc_pass cf hf b' begin_ end_ mg)) = 0 /\ g_size_released (snd (gc_pass cf hf b' begin_ end_ mg)) = 0).
  { intros bb HRb HPb Hrb. cbv zeta. intros mg. destruct mg; [|apply (gc_pass_twice cf hf K hf_inj cap_pos bb m begin_ end_ HRb HPb Hrb)].
    (* second pass with merge: it starts from before_bucket b' true, which has the same data and tree as b' *)
    destruct (gc_pass_again_ok cf hf K hf_inj cap_pos bb m begin_ end_ HRb HPb Hrb) as (HR' & HP' & Hh'). cbv zeta in HR', HP', Hh'.
    pose proof (gc_pass_range_files cf hf K hf_inj cap_pos bb m begin_ end_ HRb HPb Hrb) as Hcur. cbv zeta in Hcur.
    set (b' := fst (gc_pass cf hf bb begin_ end_ false)) in *.
    destruct (merge_start b' m HR' HP') as (HRm & HPm & Hhm & Hchm & Htm). cbv zeta in HRm, HPm, Hhm, Hchm, Htm.
    rewrite gc_pass_merge_eq. set (bm := before_bucket cf b' true) in *.
    assert (Hrm : (begin_ <= end_ < b_head bm)%nat) by lia.
    destruct (gc_pass_start cf hf K cap_pos bm m begin_ end_ HRm HPm Hrm) as (HG0 & HX0 & Hd0 & Ht0). cbv zeta in HG0, HX0, Hd0, Ht0.
    unfold gc_pass. cbn [snd].
    set (st0 := mkGC (begin_gc_writing (before_bucket cf bm false) (pick_dst cf (before_bucket cf bm false) begin_ begin_) begin_)
                     (pick_dst cf (before_bucket cf bm false) begin_ begin_) gc0) in *.
    assert (HR0 : GR hf bm begin_ end_ st0 begin_ (k_disk (chunk_at (gc_b st0) begin_))).
    { unfold GR, cur_or_tomb. split; [|split; [|split; reflexivity]].
      - intros e He. rewrite Ht0, Htm. rewrite Hd0, Hchm in He. apply (Hcur begin_ e ltac:(lia) He).
      - intros c e Hc He. rewrite Ht0, Htm. rewrite Hchm in He. apply (Hcur c e ltac:(lia) He). }
    pose proof (gr_files cf hf K hf_inj cap_pos bm begin_ end_ (end_ - begin_) begin_ st0 HG0 HX0 HR0 ltac:(lia) ltac:(lia)) as HRe.
    replace (S (end_ - begin_)) with (S end_ - begin_)%nat in HRe by lia.
    destruct HRe as (_ & _ & R3 & R4); [intros c Hc; apply (proj1 HPm c Hc)|]. split; assumption. }
  destruct m1; [|apply (Hred b HR HP Hrange m2)].
  destruct (merge_start b m HR HP) as (HRm & HPm & Hh & _). cbv zeta in *. rewrite gc_pass_merge_eq.
  apply (Hred _ HRm HPm ltac:(lia) m2).
Qed.
End GM.
