(* Bit-level lemmas on N used by the hash / CRC / record proofs. *)
From Coq Require Import NArith ZArith List Bool Lia.
From GB Require Import Words.
Import ListNotations.
Open Scope N_scope.

Lemma w32_mod x : w32 x = x mod 4294967296.
Proof. unfold w32. change 4294967295 with (N.ones 32). now rewrite N.land_ones. Qed.
Lemma w16_mod x : w16 x = x mod 65536.
Proof. unfold w16. change 65535 with (N.ones 16). now rewrite N.land_ones. Qed.
Lemma w8_mod x : w8 x = x mod 256.
Proof. unfold w8. change 255 with (N.ones 8). now rewrite N.land_ones. Qed.
Lemma w64_mod x : w64 x = x mod 18446744073709551616.
Proof. unfold w64. change 18446744073709551615 with (N.ones 64). now rewrite N.land_ones. Qed.

Lemma w32_lt x : w32 x < 4294967296.
Proof. rewrite w32_mod. apply N.mod_lt. discriminate. Qed.
Lemma w32_id x : x < 4294967296 -> w32 x = x.
Proof. intros H. rewrite w32_mod. now apply N.mod_small. Qed.

(* a number below 2^n has no bits at or above n *)
Lemma bits_above x n i : x < 2 ^ n -> n <= i -> N.testbit x i = false.
Proof.
  intros Hx Hi. destruct (N.eq_dec x 0) as [->|Hnz]; [apply N.bits_0|].
  apply N.bits_above_log2. apply N.log2_lt_pow2 in Hx; lia.
Qed.

Lemma lt_pow2_of_bits x n : (forall i, n <= i -> N.testbit x i = false) -> x < 2 ^ n.
Proof.
  intros H. destruct (N.eq_dec x 0) as [->|Hnz].
  - apply N.neq_0_lt_0. apply N.pow_nonzero. discriminate.
  - apply N.log2_lt_pow2; [lia|].
    destruct (N.lt_ge_cases (N.log2 x) n) as [Hlt|Hge]; [exact Hlt|].
    specialize (H _ Hge). rewrite N.bit_log2 in H by exact Hnz. discriminate.
Qed.

Lemma lxor_lt x y n : x < 2 ^ n -> y < 2 ^ n -> N.lxor x y < 2 ^ n.
Proof.
  intros Hx Hy. apply lt_pow2_of_bits. intros i Hi.
  rewrite N.lxor_spec, (bits_above x n i), (bits_above y n i); auto.
Qed.
Lemma lor_lt x y n : x < 2 ^ n -> y < 2 ^ n -> N.lor x y < 2 ^ n.
Proof.
  intros Hx Hy. apply lt_pow2_of_bits. intros i Hi.
  rewrite N.lor_spec, (bits_above x n i), (bits_above y n i); auto.
Qed.
Lemma shiftr_lt x n k : x < 2 ^ n -> N.shiftr x k < 2 ^ n.
Proof.
  intros Hx. apply lt_pow2_of_bits. intros i Hi.
  rewrite N.shiftr_spec by lia. apply (bits_above x n); [exact Hx|lia].
Qed.

Lemma lxor_lt32 x y : x < 4294967296 -> y < 4294967296 -> N.lxor x y < 4294967296.
Proof. apply (lxor_lt x y 32). Qed.
Lemma shiftr_lt32 x k : x < 4294967296 -> N.shiftr x k < 4294967296.
Proof. apply (shiftr_lt x 32 k). Qed.

(* disjoint or = plus *)
Lemma lor_add_disjoint a b : N.land a b = 0 -> N.lor a b = a + b.
Proof. intros H. rewrite <- N.lxor_lor by exact H. symmetry. now apply N.add_nocarry_lxor. Qed.

Lemma shl_lor_low hi lo n : lo < 2 ^ n -> N.lor (N.shiftl hi n) lo = hi * 2 ^ n + lo.
Proof.
  intros Hlo. rewrite lor_add_disjoint; [now rewrite N.shiftl_mul_pow2|].
  apply N.bits_inj. intros i. rewrite N.land_spec, N.bits_0.
  destruct (N.lt_ge_cases i n) as [Hlt|Hge].
  - rewrite N.shiftl_spec_low by exact Hlt. reflexivity.
  - rewrite (bits_above lo n i) by assumption. apply andb_false_r.
Qed.

(* rotate-left on 32 bits equals the arithmetic formulation *)
Lemma rotl32_arith x r : x < 4294967296 -> 0 < r -> r < 32 ->
  rotl32 x r = (x * 2 ^ r) mod 4294967296 + x / 2 ^ (32 - r).
Proof.
  intros Hx Hr0 Hr. unfold rotl32.
  rewrite <- N.shiftr_div_pow2, <- N.shiftl_mul_pow2, <- w32_mod.
  assert (Hdis : N.land (w32 (N.shiftl x r)) (N.shiftr x (32 - r)) = 0).
  { apply N.bits_inj. intros i. rewrite N.land_spec, N.bits_0.
    destruct (N.lt_ge_cases i r) as [Hlt|Hge].
    - unfold w32. rewrite N.land_spec, N.shiftl_spec_low by exact Hlt. reflexivity.
    - rewrite N.shiftr_spec by lia. rewrite (bits_above x 32) by (assumption || lia).
      apply andb_false_r. }
  rewrite <- lor_add_disjoint by exact Hdis.
  unfold w32 at 1. rewrite N.land_lor_distr_l. fold (w32 (N.shiftl x r)).
  f_equal. change 4294967295 with (N.ones 32). rewrite N.land_ones.
  apply N.mod_small. apply (shiftr_lt x 32). exact Hx.
Qed.

Lemma lenN_length {A} (l : list A) : lenN l = N.of_nat (length l).
Proof. induction l as [|a l IH]; cbn [lenN length]; [reflexivity|]. rewrite IH. lia. Qed.

Lemma N2Z_inj_lxor a b : Z.of_N (N.lxor a b) = Z.lxor (Z.of_N a) (Z.of_N b).
Proof. destruct a, b; reflexivity. Qed.

Lemma takeN_firstn {A} (l : list A) : forall n, takeN n l = firstn (N.to_nat n) l.
Proof.
  induction l as [|x t IH]; intros n; cbn [takeN].
  - now rewrite firstn_nil.
  - destruct (N.eqb_spec n 0) as [->|Hn]; [reflexivity|].
    replace (N.to_nat n) with (S (N.to_nat (N.pred n))) by lia. cbn [firstn]. now rewrite IH.
Qed.
Lemma dropN_skipn {A} (l : list A) : forall n, dropN n l = skipn (N.to_nat n) l.
Proof.
  induction l as [|x t IH]; intros n; cbn [dropN].
  - now rewrite skipn_nil.
  - destruct (N.eqb_spec n 0) as [->|Hn]; [reflexivity|].
    replace (N.to_nat n) with (S (N.to_nat (N.pred n))) by lia. cbn [skipn]. now rewrite IH.
Qed.
