(* C02, part 4: bucket.close followed by bucket.open on any subset of the index files. *)
From Coq Require Import NArith ZArith List Bool Lia ZifyN ZifyNat ZifyBool Sorting.Sorted Sorting.Permutation FMapPositive.
From GB Require Import Consts Words Hash HintFile HTree Compress Bucket BucketOpen Gc CheckL2 RefMap
     BucketBasics Refine GcTouch LogMono CollideProofs Upd Restart1 Restart2 Restart3.
Import ListNotations.
Open Scope N_scope.

Lemma find_off_sorted l o r : StronglySorted (fun a b : N * drec => fst a < fst b) l -> In (o, r) l -> find_off l o = Some r.
Proof.
  induction 1 as [|x l Hs IH Hx]; intros Hin; [destruct Hin|]. destruct x as [o' r']. cbn [find_off].
  destruct Hin as [E|Hin]; [injection E as -> ->; now rewrite N.eqb_refl|].
  rewrite Forall_forall in Hx. specialize (Hx _ Hin). cbn [fst] in Hx.
  replace (o' =? o) with false by lia. now apply IH.
Qed.

(* max_data: index of the last existing chunk, -1 when there is none *)
Lemma max_data_spec cs :
  (forall c, k_exists (nth c cs chunk0) = true -> (Z.of_nat c <= max_data cs)%Z) /\
  (max_data cs = (-1)%Z \/ ((0 <= max_data cs)%Z /\ k_exists (nth (Z.to_nat (max_data cs)) cs chunk0) = true)).
Proof.
  unfold max_data.
  assert (H : forall l s m0,
             let r := fold_left (fun m p => if k_exists (snd p) then Z.of_nat (fst p) else m) (combine (seq s (length l)) l) m0 in
             (forall c, (c < length l)%nat -> k_exists (nth c l chunk0) = true -> (Z.of_nat (s + c) <= r)%Z) /\
             (r = m0 \/ exists c, (c < length l)%nat /\ r = Z.of_nat (s + c) /\ k_exists (nth c l chunk0) = true) /\
             ((m0 < Z.of_nat s)%Z -> (m0 <= r)%Z)).
  { induction l as [|k l IH]; intros s m0; cbn [length seq combine fold_left]; cbv zeta.
    - split; [intros c Hc; lia|]. split; [now left|lia].
    - cbn [snd fst]. destruct (k_exists k) eqn:Ek.
      + specialize (IH (S s) (Z.of_nat s)). cbv zeta in IH. destruct IH as (I1 & I2 & I3).
        assert (Hs : (Z.of_nat s <= fold_left (fun m p => if k_exists (snd p) then Z.of_nat (fst p) else m) (combine (seq (S s) (length l)) l) (Z.of_nat s))%Z) by (apply I3; lia).
        split; [|split].
        * intros [|c] Hc He; cbn [nth] in He; [rewrite Nat.add_0_r; exact Hs|].
          replace (s + S c)%nat with (S s + c)%nat by lia. apply I1; [lia|exact He].
        * right. destruct I2 as [I2|(c & Hc & I2 & He)].
          -- exists O. split; [lia|]. rewrite Nat.add_0_r. split; [exact I2|exact Ek].
          -- exists (S c). split; [lia|]. replace (s + S c)%nat with (S s + c)%nat by lia. split; [exact I2|exact He].
        * intros Hm. lia.
      + specialize (IH (S s) m0). cbv zeta in IH. destruct IH as (I1 & I2 & I3). split; [|split].
        * intros [|c] Hc He; cbn [nth] in He; [congruence|].
          replace (s + S c)%nat with (S s + c)%nat by lia. apply I1; [lia|exact He].
        * destruct I2 as [I2|(c & Hc & I2 & He)]; [now left|].
          right. exists (S c). split; [lia|]. replace (s + S c)%nat with (S s + c)%nat by lia. split; [exact I2|exact He].
        * intros Hm. apply I3. lia. }
  destruct (H cs O (-1)%Z) as (H1 & H2 & _). cbv zeta in H1, H2. split.
  - intros c He. destruct (Nat.lt_ge_cases c (length cs)) as [Hlt|Hge]; [now apply (H1 c Hlt He)|].
    rewrite nth_overflow in He by exact Hge. discriminate.
  - destruct H2 as [->|(c & Hc & -> & He)]; [now left|]. right. cbn [Nat.add]. split; [lia|]. now rewrite Nat2Z.id.
Qed.

Lemma pick_tree_spec trees md t : pick_tree trees md = Some t -> In t trees /\ (Z.of_nat (fst (fst t)) <= md)%Z.
Proof.
  unfold pick_tree.
  assert (H : forall l best, (forall x, best = Some x -> In x trees /\ (Z.of_nat (fst (fst x)) <= md)%Z) -> (forall x, In x l -> In x trees) ->
             forall t0, fold_left (fun best t1 => if (md <? Z.of_nat (fst (fst t1)))%Z then best
                                   else match best with Some bt => if hid_ltb (fst bt) (fst t1) then Some t1 else best | None => Some t1 end) l best = Some t0 ->
             In t0 trees /\ (Z.of_nat (fst (fst t0)) <= md)%Z).
  { induction l as [|x l IH]; intros best Hb Hl t0; cbn [fold_left]; [apply Hb|].
    apply IH; [|intros y Hy; apply Hl; now right].
    intros y. cbv beta. match goal with |- context [if ?c then best else _] => destruct c eqn:E end; [apply Hb|].
    apply Z.ltb_ge in E. assert (Hx : In x trees /\ (Z.of_nat (fst (fst x)) <= md)%Z) by (split; [apply Hl; now left|exact E]).
    destruct best as [bt|].
    - cbv iota. match goal with |- context [if ?c then Some x else _] => destruct c end; intros Hy; [injection Hy as <-; exact Hx|now apply Hb].
    - cbv iota. intros Hy. injection Hy as <-. exact Hx. }
  apply (H trees None); [discriminate|auto].
Qed.

Section R4.
Variable cf : cfg.
Variable hf : bytes -> N.
Variable K : list bytes.
Hypothesis hf_inj : forall k1 k2, In k1 K -> In k2 K -> hf k1 = hf k2 -> k1 = k2.
Hypothesis cap_pos : 0 < c_splitcap cf.

(* a record update seen in a chunk's replay comes from a record of that chunk *)
Lemma last_upd_rupds h c recs s : last_upd h (rupds hf c recs) = Some (Some s) ->
  exists e, In e recs /\ hf (d_key (snd e)) = h /\ (0 < d_ver (snd e))%Z /\
            s = mkSlot (mkPos c (fst e)) (d_ver (snd e)) (vhash (d_val (snd e))).
Proof.
  intros H. apply last_upd_some_in in H. unfold rupds in H. apply in_map_iff in H as (e & He & Hin).
  exists e. unfold rec_upd in He. injection He as Hh Hs. destruct (0 <? d_ver (snd e))%Z eqn:E; [|discriminate].
  injection Hs as <-. repeat split; auto. lia.
Qed.

Lemma last_upd_concat h (f : nat -> list upd) : forall l x, last_upd h (List.concat (map f l)) = Some x ->
  exists c, In c l /\ last_upd h (f c) = Some x.
Proof.
  induction l as [|c l IH]; intros x; cbn [map List.concat]; [discriminate|].
  rewrite last_upd_app. destruct (last_upd h (List.concat (map f l))) as [y|] eqn:E.
  - intros H; injection H as <-. destruct (IH y eq_refl) as (c' & Hc' & H'). exists c'. split; [now right|exact H'].
  - intros H. exists c. split; [now left|exact H].
Qed.

(* the value of a hash after replaying a suffix R of the whole update log on a tree that was consistent
   with the whole log *)
Lemma tv_replay (old new : option slot) Ulo UR h :
  (* old tree vs whole log *)
  match old with
  | Some s => if (0 <? s_ver s)%Z then last_upd h (Ulo ++ UR) = Some (Some s) else last_upd h (Ulo ++ UR) = Some None
  | None => last_upd h (Ulo ++ UR) = None \/ last_upd h (Ulo ++ UR) = Some None
  end ->
  (forall s, last_upd h UR = Some (Some s) -> (0 < s_ver s)%Z) ->
  new = match last_upd h UR with Some x => x | None => old end ->
  (* new tree vs whole log, and the view *)
  match new with
  | Some s => if (0 <? s_ver s)%Z then last_upd h (Ulo ++ UR) = Some (Some s) else last_upd h (Ulo ++ UR) = Some None
  | None => last_upd h (Ulo ++ UR) = None \/ last_upd h (Ulo ++ UR) = Some None
  end /\
  match old with
  | Some s => if (0 <? s_ver s)%Z then new = Some s else (new = None \/ new = Some s)
  | None => new = None
  end.
Proof.
  intros Hold Hlive ->. rewrite last_upd_app in *. destruct (last_upd h UR) as [[s'|]|] eqn:ER.
  - specialize (Hlive s' eq_refl). replace (0 <? s_ver s')%Z with true by lia. split; [reflexivity|].
    destruct old as [s|]; [|destruct Hold; discriminate]. destruct (0 <? s_ver s)%Z; [congruence|discriminate].
  - split; [now right|]. destruct old as [s|]; [|reflexivity]. destruct (0 <? s_ver s)%Z; [discriminate|now left].
  - split; [exact Hold|]. destruct old as [s|]; [|reflexivity]. destruct (0 <? s_ver s)%Z; [reflexivity|now right].
Qed.

(* ---- bucket.close ---- *)
Definition CtOK (b : bucket) : Prop := match b_ctfile b with Some (ct, _) => ct = [] | None => True end.
Definition closed (b : bucket) : Prop := forall c, k_wbuf (chunk_at b c) = [].

Lemma ctok_aux b b' : aux b' = aux b -> CtOK b -> CtOK b'.
Proof. unfold aux, CtOK. intros H. injection H as -> _ _ _. auto. Qed.

Lemma close_hints_x n : forall b i, XInv hf K b ->
  XInv hf K (close_hints b n i) /\ core (close_hints b n i) = core b /\ aux (close_hints b n i) = aux b.
Proof.
  induction n as [|n IH]; intros b i HX; cbn [close_hints]; [auto|].
  destruct (IH (trydump b i true) (S i) (trydump_x hf K b i true HX)) as (H1 & H2 & H3).
  split; [exact H1|]. split; [now rewrite H2, trydump_core|now rewrite H3, trydump_aux].
Qed.

Lemma flush_head_closed b : XInv hf K b -> closed (flush_head b).
Proof.
  intros HX. pose proof HX as (_ & Hnh & _). intros c. unfold flush_head.
  destruct (wbuf_total b =? 0) eqn:Ew; [apply (wbuf_total_zero cf cap_pos); now apply N.eqb_eq|].
  destruct (Nat.eq_dec (b_head b) c) as [<-|Hne].
  - destruct (k_wbuf (chunk_at b (b_head b))) eqn:E; [now rewrite chunk_at_set_same|].
    rewrite flush_chunk_eq, E. now rewrite chunk_at_set_same.
  - destruct (k_wbuf (chunk_at b (b_head b))) eqn:E; [rewrite chunk_at_set_other by exact Hne; apply Hnh; congruence|].
    rewrite flush_chunk_eq, E. rewrite chunk_at_set_other by exact Hne. apply Hnh. congruence.
Qed.

Lemma close_x b m : Rel hf K b m -> XInv hf K b -> CtOK b ->
  let bc := bkt_close b in
  Rel hf K bc m /\ XInv hf K bc /\ CtOK bc /\ closed bc /\
  (any_data bc = true -> b_treefiles bc = [(b_maxdumped bc, b_tree bc)]).
Proof.
  intros HR HX HC. cbv zeta. unfold bkt_close.
  pose proof (flush_head_rel hf K b m HR) as HR1.
  pose proof HR as [(Hlay & _) _]. pose proof (flush_head_x hf K b Hlay HX) as HX1.
  pose proof (ctok_aux b (flush_head b) (flush_head_aux b) HC) as HC1.
  pose proof (flush_head_closed b HX) as Hcl1.
  set (b1 := flush_head b) in *.
  destruct (any_data b1) eqn:Ead; cbn [negb].
  2:{ split; [exact HR1|]. split; [exact HX1|]. split; [exact HC1|]. split; [exact Hcl1|]. intros H. congruence. }
  set (b2 := mkB (b_chunks b1) (b_head b1) (b_tree b1) (b_hints b1) (b_hmax b1) (b_maxdumped b1) (b_dumpable b1) (b_merged b1)
                 (b_ctab b1) (b_ctid b1) (b_treeid b1) (b_nextgc b1) (b_treefiles b1) (b_mergedfile b1)
                 (Some (b_ctab b1, b_ctid b1)) (b_nextgcfile b1)).
  assert (HR2 : Rel hf K b2 m) by (apply (Rel_core hf K b1 b2 m); [reflexivity|exact HR1]).
  assert (HX2 : XInv hf K b2) by (apply (xinv_same hf K b1 b2); try reflexivity; exact HX1).
  destruct (close_hints_x (S (b_hmax b2)) b2 O HX2) as (HX3 & Hc3 & Ha3).
  set (b3 := close_hints b2 (S (b_hmax b2)) 0) in *.
  assert (HR3 : Rel hf K b3 m) by (apply (Rel_core hf K b2 b3 m); [now symmetry|exact HR2]).
  assert (Hch3 : b_chunks b3 = b_chunks b1) by (unfold core in Hc3; now injection Hc3).
  unfold dump_htree. pose proof HX3 as (X1 & X2 & X3 & X4 & X5 & X6).
  replace (hid_larger (b_treeid b3) (fst (b_maxdumped b3)) (snd (b_maxdumped b3))) with true
    by (symmetry; apply hid_larger_le; now destruct (b_maxdumped b3)).
  set (bc := set_treefiles b3 [(b_maxdumped b3, b_tree b3)] (b_maxdumped b3)).
  split; [apply (Rel_core hf K b3 bc m); [reflexivity|exact HR3]|]. split; [|split; [|split; [|reflexivity]]].
  - split; [exact X1|]. split; [exact X2|]. split; [exact X3|]. split; [exact X4|]. split; [exact X5|apply hid_le_refl].
  - unfold CtOK, bc. cbn [set_treefiles b_ctfile]. unfold aux in Ha3. injection Ha3 as -> _ _ _. cbn [b2 b_ctfile].
    now destruct HR1 as [(_ & -> & _) _].
  - intros c. unfold chunk_at, bc. cbn [set_treefiles b_chunks]. rewrite Hch3. apply Hcl1.
Qed.

(* ---- bucket.open, named piece by piece ---- *)
Definition o_cs (d : dirstate) : list chunk := map oc (dr_chunks d).
Definition o_md (d : dirstate) : Z := max_data (o_cs d).
Definition o_head (d : dirstate) : nat := Z.to_nat (o_md d + 1).
Definition o_picked (d : dirstate) := pick_tree (dr_trees d) (o_md d).
Definition o_tid (d : dirstate) : hid := match o_picked d with Some t => fst t | None => (O, (-1)%Z) end.
Definition o_tree (d : dirstate) : nmap slot := match o_picked d with Some t => snd t | None => PM.empty _ end.
Definition o_ct (d : dirstate) : list hitem * hid := match dr_ct d with Some x => x | None => ([], (O, 0%Z)) end.
Definition o_b0 (d : dirstate) : bucket :=
  mkB (o_cs d) (o_head d) (o_tree d) (repeat hchunk0 NCH) 0 (o_tid d) (N.to_nat max_num_chunk - 1) None (fst (o_ct d)) (snd (o_ct d)) (o_tid d)
      (match dr_nextgc d with Some n => n | None => O end)
      (match o_picked d with Some t => [t] | None => [] end)
      (dr_merged d) (dr_ct d) (dr_nextgc d).
Definition o_b1 (d : dirstate) : bucket :=
  fold_left (open_chunk cf hf d (o_tid d)) (seq (fst (o_tid d)) (S (o_head d) - fst (o_tid d))) (o_b0 d).
Definition o_b2 (d : dirstate) : bucket := fold_left (fun bb i => check_hint cf hf d bb i) (seq 0 (fst (o_tid d))) (o_b1 d).
Definition o_b3 (d : dirstate) : bucket :=
  if (0 <=? o_md d)%Z && (match b_treefiles (o_b2 d) with [] => true | _ => false end) then dump_htree (o_b2 d) else o_b2 d.

Lemma bkt_open_eq d :
  bkt_open cf hf d = if existsb (fun k => k_exists k && negb (k_fsize k mod 256 =? 0)) (dr_chunks d) then Refused else Opened (o_b3 d).
Proof.
  unfold bkt_open. destruct (existsb _ (dr_chunks d)); [reflexivity|].
  unfold o_b3, o_b2, o_b1, o_b0, o_ct, o_tree, o_tid, o_picked, o_head, o_md, o_cs, oc.
  destruct (dr_ct d) as [[ct ctid]|]; reflexivity.
Qed.

Lemma upds_upto_extend b n : (forall c, (n <= c)%nat -> recs_at b c = []) -> forall k, upds_upto hf b (n + k) = upds_upto hf b n.
Proof.
  intros H. induction k as [|k IH]; [now rewrite Nat.add_0_r|].
  replace (n + S k)%nat with (S (n + k)) by lia. rewrite upds_upto_S, IH, H by lia. cbn [rupds map]. now rewrite app_nil_r.
Qed.

Lemma Urange_split b a n : Urange hf b 0 (a + n) = Urange hf b 0 a ++ Urange hf b a n.
Proof. unfold Urange. rewrite seq_app, map_app, concat_app. reflexivity. Qed.

Lemma Urange_ext b b' a n : (forall c, recs_at b' c = recs_at b c) -> Urange hf b' a n = Urange hf b a n.
Proof. intros H. unfold Urange. f_equal. apply map_ext. intros c. now rewrite H. Qed.

Lemma Urange_live b a n h s : last_upd h (Urange hf b a n) = Some (Some s) ->
  (0 < s_ver s)%Z /\ exists c e, In e (recs_at b c) /\ hf (d_key (snd e)) = h /\ (0 < d_ver (snd e))%Z /\
                                 s = mkSlot (mkPos c (fst e)) (d_ver (snd e)) (vhash (d_val (snd e))).
Proof.
  intros H. unfold Urange in H. apply last_upd_concat in H as (c & _ & H). apply last_upd_rupds in H as (e & He & Hh & Hv & ->).
  split; [exact Hv|]. exists c, e. auto.
Qed.

(* rebuilding from nothing: the whole log is replayed on the empty tree *)
Lemma tv_rebuild (old new : option slot) U h :
  match old with
  | Some s => if (0 <? s_ver s)%Z then last_upd h U = Some (Some s) else last_upd h U = Some None
  | None => last_upd h U = None \/ last_upd h U = Some None
  end ->
  (forall s, last_upd h U = Some (Some s) -> (0 < s_ver s)%Z) ->
  new = match last_upd h U with Some x => x | None => None end ->
  match new with
  | Some s => if (0 <? s_ver s)%Z then last_upd h U = Some (Some s) else last_upd h U = Some None
  | None => last_upd h U = None \/ last_upd h U = Some None
  end /\
  match old with
  | Some s => if (0 <? s_ver s)%Z then new = Some s else (new = None \/ new = Some s)
  | None => new = None
  end.
Proof.
  intros Hold Hlive ->. destruct (last_upd h U) as [[s'|]|] eqn:E.
  - specialize (Hlive s' eq_refl). replace (0 <? s_ver s')%Z with true by lia. split; [reflexivity|].
    destruct old as [s|]; [|destruct Hold; discriminate]. destruct (0 <? s_ver s)%Z; [congruence|discriminate].
  - split; [now right|]. destruct old as [s|]; [|reflexivity]. destruct (0 <? s_ver s)%Z; [discriminate|now left].
  - split; [now left|]. destruct old as [s|]; [|reflexivity]. destruct (0 <? s_ver s)%Z; discriminate.
Qed.

Section Open.
Variable bc : bucket.
Variable m : smap.
Variable rm : rmset.
Hypothesis HR : Rel hf K bc m.
Hypothesis HX : XInv hf K bc.
Hypothesis HC : CtOK bc.
Hypothesis Hcl : closed bc.
Hypothesis Htf : rm_trees rm = true \/ (any_data bc = true -> b_treefiles bc = [(b_maxdumped bc, b_tree bc)]).

Let d := dir_of bc rm.

Lemma o_chunk c : chunk_at (o_b0 d) c = oc (chunk_at bc c).
Proof. unfold chunk_at, o_b0, o_cs. cbn [b_chunks]. apply nth_map_oc. Qed.

Lemma o_ocf c : cst (oc (chunk_at bc c)) /\ all_recs (oc (chunk_at bc c)) = all_recs (chunk_at bc c) /\
  k_whead (oc (chunk_at bc c)) = k_whead (chunk_at bc c) /\ k_size (oc (chunk_at bc c)) = k_whead (chunk_at bc c) /\
  k_wbuf (oc (chunk_at bc c)) = [] /\ k_exists (oc (chunk_at bc c)) = k_exists (chunk_at bc c) /\ k_fsize (oc (chunk_at bc c)) mod 256 = 0.
Proof. apply (oc_facts cf cap_pos); [apply HX|apply Hcl]. Qed.

Lemma o_recs c : recs_at (o_b0 d) c = recs_at bc c.
Proof. unfold recs_at. rewrite o_chunk. apply o_ocf. Qed.

Lemma o_md1 c : k_exists (chunk_at bc c) = true -> (Z.of_nat c <= o_md d)%Z.
Proof.
  intros He. destruct (max_data_spec (o_cs d)) as [H1 _]. apply H1. unfold o_cs. cbn [dir_of dr_chunks d].
  rewrite nth_map_oc. fold (chunk_at bc c). destruct (o_ocf c) as (_ & _ & _ & _ & _ & -> & _). exact He.
Qed.

Lemma o_md2 : o_md d = (-1)%Z \/ ((0 <= o_md d)%Z /\ k_exists (chunk_at bc (Z.to_nat (o_md d))) = true).
Proof.
  destruct (max_data_spec (o_cs d)) as [_ [H|[H1 H2]]]; [now left|right]. split; [exact H1|].
  unfold o_cs in H2. cbn [dir_of dr_chunks d] in H2. rewrite nth_map_oc in H2. fold (chunk_at bc (Z.to_nat (o_md d))) in H2.
  destruct (o_ocf (Z.to_nat (o_md d))) as (_ & _ & _ & _ & _ & E & _).
  change (k_exists (oc (chunk_at bc (Z.to_nat (o_md d)))) = true) in H2. now rewrite E in H2.
Qed.

Lemma o_noexist c : (o_head d <= c)%nat -> k_exists (chunk_at bc c) = false /\ recs_at bc c = [] /\ oc (chunk_at bc c) = chunk0.
Proof.
  intros Hc. assert (He : k_exists (chunk_at bc c) = false).
  { destruct (k_exists (chunk_at bc c)) eqn:E; [|reflexivity]. pose proof (o_md1 c E). unfold o_head in Hc. lia. }
  split; [exact He|]. split; [|unfold oc; now rewrite He].
  unfold recs_at, all_recs. rewrite (Hcl c), app_nil_r. destruct HX as (Hcst & _). destruct (Hcst c) as ((_ & _ & Hd & _) & _). now apply Hd.
Qed.

Lemma o_head_le : (o_head d <= S (b_head bc))%nat.
Proof.
  destruct o_md2 as [H|[H1 H2]]; [unfold o_head; rewrite H; cbn; lia|].
  destruct HR as [((_ & Hab) & _) _].
  destruct (Nat.lt_ge_cases (b_head bc) (Z.to_nat (o_md d))) as [Hlt|Hge]; [rewrite (Hab _ Hlt) in H2; discriminate|].
  unfold o_head. lia.
Qed.

Lemma o_picked_tree t : o_picked d = Some t -> snd t = b_tree bc /\ (Z.of_nat (fst (fst t)) <= o_md d)%Z.
Proof.
  intros H. apply pick_tree_spec in H as [Hin Hle]. split; [|exact Hle].
  cbn [dir_of dr_trees d] in Hin. destruct (rm_trees rm) eqn:Erm; [destruct Hin|].
  destruct Htf as [Hx|Htf']; [discriminate|].
  destruct o_md2 as [Hm|[H1 H2]]; [lia|].
  assert (Had : any_data bc = true).
  { unfold any_data. apply existsb_exists. exists (chunk_at bc (Z.to_nat (o_md d))). split; [|exact H2].
    unfold chunk_at. apply nth_In. destruct (Nat.lt_ge_cases (Z.to_nat (o_md d)) (length (b_chunks bc))) as [Hlt|Hge]; [exact Hlt|].
    unfold chunk_at in H2. rewrite nth_overflow in H2 by exact Hge. discriminate. }
  rewrite (Htf' Had) in Hin. destruct Hin as [<-|[]]. reflexivity.
Qed.

Lemma o_tid_le : (fst (o_tid d) <= o_head d)%nat.
Proof.
  unfold o_tid. destruct (o_picked d) as [t|] eqn:E; [|cbn; lia].
  destruct (o_picked_tree t E) as [_ H]. unfold o_head. lia.
Qed.

Lemma o_pre c : chunk_pre hf K d (sps_at bc) (o_b0 d) c.
Proof.
  unfold chunk_pre. rewrite o_chunk. destruct (o_ocf c) as (Hcst & Hrecs & Hwh & Hsz & Hwb & _).
  rewrite Hrecs, Hsz. destruct HX as (Hc & _ & Hk & Hcov & _). destruct (Hcov c) as (_ & Hcv & Hb & _).
  destruct (Hc c) as (_ & Hsp & Hall & _).
  split; [apply (dir_hintfiles_prefix cf cap_pos)|]. split; [exact Hcv|]. split; [exact Hb|]. split; [exact Hwb|].
  split; [exact Hsp|]. split; [exact Hall|]. apply Forall_forall. intros e He. now apply (Hk c).
Qed.

Lemma o_pre_same bb c : b_chunks bb = b_chunks (o_b0 d) -> chunk_pre hf K d (sps_at bc) bb c.
Proof. intros H. pose proof (o_pre c) as P. unfold chunk_pre, chunk_at in *. now rewrite H. Qed.

Lemma o_h0 c : hchunk_at (o_b0 d) c = hchunk0.
Proof. unfold hchunk_at, o_b0. cbn [b_hints]. apply nth_repeat. Qed.

(* what the two folds of bucket.open establish *)
Lemma o_b2_facts :
  let a := fst (o_tid d) in
  b_chunks (o_b2 d) = b_chunks (o_b0 d) /\ b_head (o_b2 d) = o_head d /\ b_ctab (o_b2 d) = fst (o_ct d) /\
  b_treeid (o_b2 d) = o_tid d /\ hid_le (o_tid d) (b_maxdumped (o_b2 d)) /\
  (forall c, (c <= o_head d)%nat -> hcovL hf K (sps_at (o_b2 d) c) c (recs_at bc c) /\
                                    bound_from 0 (sps_at (o_b2 d) c) <= k_size (oc (chunk_at bc c))) /\
  (forall c, (o_head d < c)%nat -> hchunk_at (o_b2 d) c = hchunk0) /\
  ((forall h, tree_get_slot (o_b2 d) h =
              match last_upd h (Urange hf bc a (S (o_head d) - a)) with Some x => x | None => tree_get_slot (o_b0 d) h end) \/
   ((0 <= snd (o_tid d))%Z /\ (0 < S (o_head d) - a)%nat /\
    forall h, tree_get_slot (o_b2 d) h =
              match last_upd h (Urange hf bc (S a) (S (o_head d) - a - 1)) with Some x => x | None => tree_get_slot (o_b0 d) h end)).
Proof.
  cbv zeta. set (a := fst (o_tid d)). set (n := (S (o_head d) - a)%nat).
  pose proof o_tid_le as Hale. fold a in Hale.
  assert (Hb1 : o_b1 d = fold_left (open_chunk cf hf d (o_tid d)) (seq a n) (o_b0 d)) by reflexivity.
  assert (Hb2 : o_b2 d = fold_left (fun b0 i => check_hint cf hf d b0 i) (seq 0 a) (o_b1 d)) by reflexivity.
  destruct (open_fold cf hf K hf_inj cap_pos d (o_tid d) (sps_at bc) n a (o_b0 d) o_pre (fun c _ => o_h0 c))
    as (F1 & F2 & F3 & F4 & F5); [apply hid_le_refl|apply le_n|].
  cbv zeta in F1, F2, F3, F4, F5. rewrite <- Hb1 in F1, F2, F3, F4, F5.
  assert (Hch1 : b_chunks (o_b1 d) = b_chunks (o_b0 d)) by now injection F1.
  destruct (check_fold cf hf K hf_inj cap_pos d (sps_at bc) a 0 (o_b1 d)) as (G1 & G2 & G3 & G4 & G5).
  { intros c. now apply o_pre_same. }
  { intros c Hc. rewrite F3 by lia. apply o_h0. }
  cbv zeta in G1, G2, G3, G4, G5. rewrite <- Hb2 in G1, G2, G3, G4, G5.
  assert (Hca1 : forall c, chunk_at (o_b1 d) c = oc (chunk_at bc c)) by (intros c; unfold chunk_at at 1; rewrite Hch1; apply o_chunk).
  assert (Hra1 : forall c, recs_at (o_b1 d) c = recs_at bc c) by (intros c; unfold recs_at; rewrite Hca1; apply o_ocf).
  assert (HU : forall x y, Urange hf (o_b0 d) x y = Urange hf bc x y) by (intros x y; apply Urange_ext; apply o_recs).
  unfold core in G1. injection G1 as K1 K2 K3 K4. injection F1 as L1 L2 L3 L4.
  split; [now rewrite K1|]. split; [rewrite K2, L2; reflexivity|]. split; [rewrite K4, L3; reflexivity|].
  split; [rewrite G2, L4; reflexivity|]. split; [eapply hid_le_trans; eassumption|]. split; [|split].
  - intros c Hc. destruct (Nat.lt_ge_cases c a) as [Hlt|Hge].
    + destruct (G4 c ltac:(lia)) as [P1 P2]. rewrite Hra1, Hca1 in *. auto.
    + unfold sps_at. rewrite G5 by lia. destruct (F2 c ltac:(unfold n; lia)) as [P1 P2]. rewrite o_recs, o_chunk in *. auto.
  - intros c Hc. rewrite G5 by lia. rewrite F3 by (unfold n; lia). apply o_h0.
  - assert (Ht : forall h, tree_get_slot (o_b2 d) h = tree_get_slot (o_b1 d) h) by (intros h; unfold tree_get_slot; now rewrite K3).
    destruct F4 as [F4|(_ & Esn & Hn & F4)].
    + left. intros h. rewrite Ht, F4, HU. reflexivity.
    + right. split; [exact Esn|]. split; [exact Hn|]. intros h. rewrite Ht, F4, HU. reflexivity.
Qed.

Definition view_h (h : N) (b' : bucket) : Prop :=
  match tree_get_slot bc h with
  | Some s => if (0 <? s_ver s)%Z then tree_get_slot b' h = Some s else (tree_get_slot b' h = None \/ tree_get_slot b' h = Some s)
  | None => tree_get_slot b' h = None
  end.

Lemma o_b3_same : b_chunks (o_b3 d) = b_chunks (o_b2 d) /\ b_head (o_b3 d) = b_head (o_b2 d) /\ b_hints (o_b3 d) = b_hints (o_b2 d) /\
  b_tree (o_b3 d) = b_tree (o_b2 d) /\ b_ctab (o_b3 d) = b_ctab (o_b2 d) /\ b_maxdumped (o_b3 d) = b_maxdumped (o_b2 d) /\
  b_ctfile (o_b3 d) = b_ctfile (o_b2 d) /\
  (b_treeid (o_b3 d) = b_treeid (o_b2 d) \/ b_treeid (o_b3 d) = b_maxdumped (o_b2 d)).
Proof.
  unfold o_b3. destruct (_ && _); [|repeat split; now left]. unfold dump_htree. destruct (hid_larger _ _ _); repeat split; auto.
Qed.

Lemma o_ctfile : b_ctfile (o_b2 d) = b_ctfile bc.
Proof.
  assert (H1 : forall l b, b_ctfile (fold_left (fun bb i => check_hint cf hf d bb i) l b) = b_ctfile b).
  { induction l as [|i l IH]; intros b; cbn [fold_left]; [reflexivity|]. rewrite IH.
    unfold check_hint. destruct (k_size _ =? 0); [reflexivity|].
    set (b1 := match valid_prefix _ with [] => b | _ => _ end).
    assert (Hb1 : aux b1 = aux b) by (unfold b1; destruct (valid_prefix _); reflexivity).
    destruct (_ <? _); [|unfold aux in Hb1; now injection Hb1].
    unfold build_hint. assert (Ha : forall L bx, aux (fold_left (fun bb0 e => let '(off, r) := e in
                  hints_set_item cf bb0 (mkHI (hf (d_key r)) 0 off (d_ver r) (vhash (d_val r)) (d_key r)) i (dsize r)) L bx) = aux bx).
    { induction L as [|[off r] L IHL]; intros bx; cbn [fold_left]; [reflexivity|]. now rewrite IHL, hints_set_item_aux. }
    pose proof (trydump_aux (fold_left (fun bb0 e => let '(off, r) := e in
                  hints_set_item cf bb0 (mkHI (hf (d_key r)) 0 off (d_ver r) (vhash (d_val r)) (d_key r)) i (dsize r)) (scan_from (chunk_at b1 i) (hint_datasize (valid_prefix (nth i (dr_hintfiles d) [])))) b1) i true) as Ht.
    rewrite Ha, Hb1 in Ht. unfold aux in Ht. now injection Ht. }
  assert (H2 : forall l b, b_ctfile (fold_left (open_chunk cf hf d (o_tid d)) l b) = b_ctfile b).
  { induction l as [|i l IH]; intros b; cbn [fold_left]; [reflexivity|]. rewrite IH. unfold open_chunk.
    pose proof (H1 [i] b) as Hc. cbn [fold_left] in Hc.
    destruct (_ <=? _)%Z; [exact Hc|]. cbn [set_hints b_ctfile].
    match goal with |- b_ctfile (fold_left ?f ?l ?x) = _ => assert (Hr : forall l0 x0, b_ctfile (fold_left f l0 x0) = b_ctfile x0) end.
    { induction l0 as [|sp l0 IHl]; intros x0; cbn [fold_left]; [reflexivity|]. rewrite IHl. unfold replay_split.
      generalize (sp_items sp). intros its. revert x0. induction its as [|it its IHi]; intros x0; cbn [fold_left]; [reflexivity|].
      rewrite IHi. destruct (0 <? hi_ver it)%Z; reflexivity. }
    now rewrite Hr. }
  unfold o_b2. rewrite H1. unfold o_b1. rewrite H2. reflexivity.
Qed.

Lemma open_main :
  let b' := o_b3 d in
  XInv hf K b' /\ CtOK b' /\ layout_ok b' /\ b_ctab b' = [] /\
  (forall c, recs_at b' c = recs_at bc c) /\
  (forall h, view_h h b') /\
  (forall h s, tree_get_slot b' h = Some s -> tree_get_slot bc h = Some s \/
     exists c e, In e (recs_at bc c) /\ hf (d_key (snd e)) = h /\ (0 < d_ver (snd e))%Z /\
                 s = mkSlot (mkPos c (fst e)) (d_ver (snd e)) (vhash (d_val (snd e)))).
Proof.
  cbv zeta. destruct o_b2_facts as (B1 & B2 & B3 & B4 & B5 & B6 & B7 & B8). cbv zeta in B8.
  destruct o_b3_same as (S1 & S2 & S3 & S4 & S5 & S6 & S7 & S8).
  set (a := fst (o_tid d)) in *. pose proof o_tid_le as Hale. fold a in Hale.
  assert (Hca : forall c, chunk_at (o_b3 d) c = oc (chunk_at bc c)).
  { intros c. unfold chunk_at at 1. rewrite S1, B1. apply o_chunk. }
  assert (Hra : forall c, recs_at (o_b3 d) c = recs_at bc c) by (intros c; unfold recs_at; rewrite Hca; apply o_ocf).
  assert (Hhd : b_head (o_b3 d) = o_head d) by now rewrite S2.
  assert (Hsa : forall c, sps_at (o_b3 d) c = sps_at (o_b2 d) c) by (intros c; unfold sps_at, hchunk_at; now rewrite S3).
  assert (Htr : forall h, tree_get_slot (o_b3 d) h = tree_get_slot (o_b2 d) h) by (intros h; unfold tree_get_slot; now rewrite S4).
  assert (Hct : b_ctab (o_b3 d) = []).
  { rewrite S5, B3. unfold o_ct. cbn [dir_of dr_ct d]. unfold CtOK in HC. destruct (b_ctfile bc) as [[ct id]|]; [now subst|reflexivity]. }
  (* the update log *)
  set (Utop := Urange hf bc 0 (S (o_head d))).
  assert (Hfull : upds_upto hf bc (S (b_head bc)) = Utop).
  { pose proof o_head_le as Hle.
    assert (Hnone : forall c, (o_head d <= c)%nat -> recs_at bc c = []) by (intros c Hc; now apply o_noexist).
    replace (S (b_head bc)) with (o_head d + (S (b_head bc) - o_head d))%nat by lia. rewrite (upds_upto_extend bc (o_head d) Hnone).
    unfold Utop. change (Urange hf bc 0 (S (o_head d))) with (upds_upto hf bc (S (o_head d))).
    replace (S (o_head d)) with (o_head d + 1)%nat by lia. now rewrite (upds_upto_extend bc (o_head d) Hnone). }
  assert (Htop3 : upds_upto hf (o_b3 d) (S (o_head d)) = Utop).
  { unfold Utop. change (Urange hf bc 0 (S (o_head d))) with (upds_upto hf bc (S (o_head d))). apply upds_upto_ext. intros c _. apply Hra. }
  pose proof HX as (X1 & X2 & X3 & X4 & X5 & X6). rewrite Hfull in X5.
  (* per hash: the new tree against the whole log, and against the old tree *)
  assert (Hmain : forall h,
     (match tree_get_slot (o_b3 d) h with
      | Some s => if (0 <? s_ver s)%Z then last_upd h Utop = Some (Some s) else last_upd h Utop = Some None
      | None => last_upd h Utop = None \/ last_upd h Utop = Some None end) /\ view_h h (o_b3 d) /\
     (forall s, tree_get_slot (o_b3 d) h = Some s -> tree_get_slot bc h = Some s \/
        exists c e, In e (recs_at bc c) /\ hf (d_key (snd e)) = h /\ (0 < d_ver (snd e))%Z /\
                    s = mkSlot (mkPos c (fst e)) (d_ver (snd e)) (vhash (d_val (snd e))))).
  { intros h. specialize (X5 h). unfold tv in X5. unfold view_h. rewrite Htr.
    destruct (o_picked d) as [t|] eqn:Epick.
    - (* a tree file was loaded: it is the tree of the closed bucket *)
      destruct (o_picked_tree t Epick) as [Hsnd _].
      assert (HT0 : tree_get_slot (o_b0 d) h = tree_get_slot bc h).
      { unfold tree_get_slot, o_b0, o_tree. cbn [b_tree]. now rewrite Epick, Hsnd. }
      destruct B8 as [B8|(Esn & Hn & B8)].
      + assert (Hsplit : Utop = Urange hf bc 0 a ++ Urange hf bc a (S (o_head d) - a)).
        { unfold Utop. replace (S (o_head d)) with (a + (S (o_head d) - a))%nat at 1 by lia. apply Urange_split. }
        rewrite Hsplit in X5 |- *.
        destruct (tv_replay (tree_get_slot bc h) (tree_get_slot (o_b2 d) h) _ _ h X5) as [T1 T2].
        { intros s Hs. exact (proj1 (Urange_live _ _ _ _ _ Hs)). }
        { now rewrite B8, HT0. }
        split; [exact T1|]. split; [exact T2|]. intros s Hs. rewrite B8, HT0 in Hs.
        destruct (last_upd h (Urange hf bc a (S (o_head d) - a))) as [[s'|]|] eqn:EU; [|discriminate|now left].
        injection Hs as <-. right. exact (proj2 (Urange_live _ _ _ _ _ EU)).
      + assert (Hsplit : Utop = Urange hf bc 0 (S a) ++ Urange hf bc (S a) (S (o_head d) - a - 1)).
        { unfold Utop. replace (S (o_head d)) with (S a + (S (o_head d) - a - 1))%nat at 1 by lia. apply Urange_split. }
        rewrite Hsplit in X5 |- *.
        destruct (tv_replay (tree_get_slot bc h) (tree_get_slot (o_b2 d) h) _ _ h X5) as [T1 T2].
        { intros s Hs. exact (proj1 (Urange_live _ _ _ _ _ Hs)). }
        { now rewrite B8, HT0. }
        split; [exact T1|]. split; [exact T2|]. intros s Hs. rewrite B8, HT0 in Hs.
        destruct (last_upd h (Urange hf bc (S a) (S (o_head d) - a - 1))) as [[s'|]|] eqn:EU; [|discriminate|now left].
        injection Hs as <-. right. exact (proj2 (Urange_live _ _ _ _ _ EU)).
    - (* no tree file: everything is replayed on the empty tree *)
      assert (Htid : o_tid d = (O, (-1)%Z)) by (unfold o_tid; now rewrite Epick).
      assert (Ha0 : a = O) by (unfold a; now rewrite Htid).
      assert (HT0 : tree_get_slot (o_b0 d) h = None).
      { unfold tree_get_slot, o_b0, o_tree. cbn [b_tree]. rewrite Epick. apply PM.gempty. }
      destruct B8 as [B8|(Esn & _)]; [|rewrite Htid in Esn; cbn in Esn; lia].
      rewrite Ha0, Nat.sub_0_r in B8. fold Utop in B8.
      destruct (tv_rebuild (tree_get_slot bc h) (tree_get_slot (o_b2 d) h) Utop h X5) as [T1 T2].
      { intros s Hs. exact (proj1 (Urange_live _ _ _ _ _ Hs)). }
      { now rewrite B8, HT0. }
      split; [exact T1|]. split; [exact T2|]. intros s Hs. rewrite B8, HT0 in Hs.
      destruct (last_upd h Utop) as [[s'|]|] eqn:EU; try discriminate.
      injection Hs as <-. right. exact (proj2 (Urange_live _ _ _ _ _ EU)). }
  split; [|split; [|split; [|split; [exact Hct|split; [exact Hra|split]]]]].
  - (* XInv *)
    split; [intros c; rewrite Hca; apply o_ocf|]. split; [intros c _; rewrite Hca; apply o_ocf|].
    split; [intros c e; rewrite Hra; apply X3|]. split; [|split].
    + intros c. rewrite Hca, Hsa. destruct (o_ocf c) as (Hcst & Hrecs & Hwh & Hsz & _).
      destruct (Nat.le_gt_cases c (o_head d)) as [Hle|Hgt].
      * destruct (B6 c Hle) as [(P1 & P2 & P3) P4]. unfold hcov_at. rewrite Hrecs. fold (recs_at bc c).
        split; [exact P1|]. split; [exact P2|]. split; [|exact P3]. destruct Hcst as (_ & _ & _ & _ & Hsz' & _). rewrite <- Hsz'. exact P4.
      * unfold sps_at. rewrite (B7 c Hgt). destruct (o_noexist c ltac:(lia)) as (_ & Hr0 & Hc0). rewrite Hc0.
        unfold hcov_at. cbn [hchunk0 hc_splits]. split; [discriminate|]. split; [apply cov_split0|]. split; [cbn; lia|constructor].
    + rewrite Hhd, Htop3. intros h. unfold tv. apply Hmain.
    + destruct S8 as [->| ->]; [rewrite B4, S6; exact B5|rewrite S6; apply hid_le_refl].
  - unfold CtOK. rewrite S7, o_ctfile. exact HC.
  - split.
    + intros c. rewrite Hca. apply o_ocf.
    + intros c Hc. rewrite Hhd in Hc. rewrite Hca. now apply o_noexist; lia.
  - intros h. apply Hmain.
  - intros h. apply Hmain.
Qed.
End Open.

(* ================================================================ the restart theorem *)
Definition RInv2 (b : bucket) (m : smap) : Prop := Rel hf K b m /\ XInv hf K b /\ CtOK b.

Definition view (m m' : smap) : Prop :=
  forall k, In k K ->
  match s_get m k with
  | Some e => if live e then s_get m' k = Some e else (s_get m' k = None \/ s_get m' k = Some e)
  | None => s_get m' k = None
  end.

Definition mk_map (b : bucket) : smap :=
  flat_map (fun k => match abs hf b k with Some e => [(k, e)] | None => [] end) K.

Lemma mk_map_get b : forall k, In k K -> s_get (mk_map b) k = abs hf b k.
Proof.
  unfold mk_map. generalize K. intros L. induction L as [|k0 L IH]; intros k Hin; [destruct Hin|].
  cbn [flat_map].
  assert (Hrest : ~ In k L -> s_get (flat_map (fun k1 => match abs hf b k1 with Some e => [(k1, e)] | None => [] end) L) k = None).
  { clear. induction L as [|x L IHL]; intros Hn; [reflexivity|]. cbn [flat_map].
    destruct (abs hf b x) as [e|]; cbn [app s_get].
    - destruct (list_eq_dec N.eq_dec x k) as [->|_]; [exfalso; apply Hn; now left|]. apply IHL. intros H. apply Hn. now right.
    - apply IHL. intros H. apply Hn. now right. }
  destruct (abs hf b k0) as [e|] eqn:E0; cbn [app s_get].
  - destruct (list_eq_dec N.eq_dec k0 k) as [<-|Hne]; [now rewrite E0|]. destruct Hin as [->|Hin]; [congruence|]. now apply IH.
  - destruct Hin as [<-|Hin]; [|now apply IH].
    destruct (in_dec (list_eq_dec N.eq_dec) k0 L) as [Hi|Hni]; [now rewrite (IH k0 Hi)|now rewrite Hrest, E0].
Qed.

Lemma log_find_recs b b' : (forall c, recs_at b' c = recs_at b c) -> forall q, log_find b' q = log_find b q.
Proof. intros H q. unfold log_find. fold (recs_at b' (p_chunk q)) (recs_at b (p_chunk q)). now rewrite H. Qed.

Lemma open_x bc m rm :
  Rel hf K bc m -> XInv hf K bc -> CtOK bc -> closed bc ->
  (rm_trees rm = true \/ (any_data bc = true -> b_treefiles bc = [(b_maxdumped bc, b_tree bc)])) ->
  exists b' m', bkt_open cf hf (dir_of bc rm) = Opened b' /\ RInv2 b' m' /\ view m m'.
Proof.
  intros HRc HXc HCc Hcl Htf. set (d := dir_of bc rm).
  rewrite bkt_open_eq.
  assert (Hnr : existsb (fun k => k_exists k && negb (k_fsize k mod 256 =? 0)) (dr_chunks d) = false).
  { destruct (existsb _ _) eqn:E; [|reflexivity]. exfalso. apply existsb_exists in E as (k & Hin & Hk).
    apply andb_prop in Hk as [Hk1 Hk2]. change (dr_chunks d) with (b_chunks bc) in Hin.
    apply (In_nth _ _ chunk0) in Hin as (c & _ & Hc).
    destruct HXc as (Hcst & _). specialize (Hcst c). unfold chunk_at in Hcst. rewrite Hc in Hcst.
    destruct Hcst as (_ & _ & _ & Hf & _ & _ & _ & Hmod). specialize (Hcl c). unfold chunk_at in Hcl. rewrite Hc in Hcl.
    rewrite (Hf Hcl), Hmod in Hk2. discriminate. }
  rewrite Hnr.
  destruct (open_main bc m rm HRc HXc HCc Hcl Htf) as (O1 & O2 & O3 & O4 & O5 & O6 & O7). cbv zeta in O1, O2, O3, O4, O5, O6, O7.
  fold d in O1, O2, O3, O4, O5, O6, O7. set (b' := o_b3 d) in *.
  pose proof (log_find_recs bc b' O5) as Hlog.
  pose proof HRc as [(Hlayc & Hctc & Hslotsc) Habsc].
  exists b', (mk_map b'). split; [reflexivity|]. split.
  - split; [|split; [exact O1|exact O2]]. split; [|intros k Hk; symmetry; now apply mk_map_get].
    split; [exact O3|]. split; [exact O4|].
    intros h s Hs. destruct (O7 h s Hs) as [Hold|(c & e & Hin & Hh & Hv & ->)].
    + destruct (Hslotsc h s Hold) as (r & Hl & Hrest). exists r. split; [now rewrite Hlog|exact Hrest].
    + exists (snd e). cbn [s_pos s_ver s_vh]. split; [|split; [exact Hh|split; [|split; [reflexivity|split; [lia|lia]]]]].
      * rewrite Hlog. unfold log_find. cbn [p_chunk p_off]. fold (recs_at bc c).
        destruct HXc as (Hcst & _). destruct (Hcst c) as (_ & Hsp & _).
        apply find_off_sorted; [now apply spaced_lt|]. now destruct e.
      * destruct HXc as (_ & _ & Hk & _). now apply (Hk c).
  - intros k Hk. rewrite (mk_map_get b' k Hk). rewrite <- (Habsc k Hk). unfold abs.
    specialize (O6 (hf k)). unfold view_h in O6.
    destruct (tree_get_slot bc (hf k)) as [s|] eqn:Es.
    + destruct (Hslotsc _ _ Es) as (r & Hl & _). rewrite Hl. unfold live. cbn [e_ver].
      destruct (0 <? s_ver s)%Z.
      * rewrite O6, Hlog, Hl. reflexivity.
      * destruct O6 as [-> | ->]; [now left|right; now rewrite Hlog, Hl].
    + now rewrite O6.
Qed.

Theorem restart_x b m rm : RInv2 b m ->
  exists b' m', restart cf hf b rm = Opened b' /\ RInv2 b' m' /\ view m m'.
Proof.
  intros (HR & HX & HC). unfold restart.
  destruct (close_x b m HR HX HC) as (HRc & HXc & HCc & Hcl & Htf). cbv zeta in HRc, HXc, HCc, Hcl, Htf.
  apply open_x; try assumption. now right.
Qed.

(* SIGKILL at a moment when every write buffer is empty (e.g. right after a flush): the directory is the bucket's
   files as they are -- undumped hint buffers and the tree are lost -- and the tree image, if any, is not used *)
Theorem kill_flushed_x b m rm : RInv2 b m -> closed b -> rm_trees rm = true ->
  exists b' m', bkt_open cf hf (dir_of b rm) = Opened b' /\ RInv2 b' m' /\ view m m'.
Proof. intros (HR & HX & HC) Hcl Hrm. apply open_x; try assumption. now left. Qed.
End R4.
